//! qev — verification harness for iceberg-query-engine (links /repo with --cfg qe_verif).
//! Each subcommand reads ND-JSON cases and writes ND-JSON records; TLC is the judge.
mod util;
mod small;
mod pool;
mod member;
mod iceberg;
mod http;
mod planinfo;
mod sqlrun;
mod splits;
mod dist_fault;
mod cache;
mod sidecar;
mod prune;
mod compiled;
mod pqstats;
mod node;
mod output;
mod tpch;
mod ffi;
mod vecdist;
mod vecsearch;
mod funcs;
mod fuzz;
mod optree;
mod spill;
mod typing;
mod distplan;
mod morsel;
mod rtfilter;

fn main() {
    let args: Vec<String> = std::env::args().collect();
    if args.len() < 2 {
        eprintln!("usage: qev <subcommand> ...");
        std::process::exit(2);
    }
    let rest = &args[2..];
    let code = match args[1].as_str() {
        "cpulist-replay" => small::cpulist_replay(rest),
        "cpulist-record" => small::cpulist_record(rest),
        "chunk-replay" => small::chunk_replay(rest),
        "sqlrun" => sqlrun::sqlrun(rest),
        "splits-enum" => splits::splits_enum(rest),
        "lpt-replay" => splits::lpt_replay(rest),
        "gate-replay" => splits::gate_replay(rest),
        "gate-history" => splits::gate_history(rest),
        "http-replay" => http::http_replay(rest),
        "http-record" => http::http_record(rest),
        "iceberg-replay" => iceberg::replay(rest),
        "member-universe" => member::universe(rest),
        "member-replay" => member::replay(rest),
        "member-record" => member::record(rest),
        "pool-replay" => pool::replay(rest),
        "pool-stress" => pool::stress(rest),
        "prune-replay" => prune::replay(rest),
        "compiled-replay" => compiled::replay(rest),
        "pqstats-replay" => pqstats::replay(rest),
        "cache-replay" => cache::replay(rest),
        "cache-build" => cache::build(rest),
        "cache-query" => cache::query(rest),
        "cache-helper" => cache::helper(rest),
        "dist-topo" => dist_fault::topo(rest),
        "dist-replay" => dist_fault::replay(rest),
        "dist-http" => dist_fault::http(rest),
        "node-replay" => node::replay(rest),
        "node-classify" => node::classify(rest),
        "funcs-run" => funcs::funcs_run(rest),
        "fuzz-worker" => fuzz::worker(rest),
        "fuzz-one" => fuzz::one(rest),
        "optree-replay" => optree::replay(rest),
        "ffi-replay" => ffi::replay(rest),
        "vecdist-replay" => vecdist::replay(rest),
        "vecdist-record" => vecdist::record(rest),
        "vecsearch-run" => vecsearch::run(rest),
        "output-replay" => output::replay(rest),
        "output-parse" => output::parse(rest),
        "output-parquet" => output::to_parquet(rest),
        "tpch-record" => tpch::record(rest),
        "sidecar-proc" => sidecar::proc_main(rest),
        "sidecar-orch" => sidecar::orch(rest),
        "sidecar-stress" => sidecar::stress(rest),
        "spill-replay" => spill::replay(rest),
        "typing-run" => typing::run(rest),
        "distplan-run" => distplan::run(rest),
        "morsel-mk" => morsel::mk(rest),
        "morsel-sched" => morsel::sched(rest),
        "morsel-free" => morsel::free(rest),
        "morsel-readall" => morsel::readall(rest),
        "morsel-agg" => morsel::agg(rest),
        "rtfilter-contains" => rtfilter::contains(rest),
        "rtfilter-run" => rtfilter::run(rest),
        other => {
            eprintln!("unknown subcommand {other}");
            2
        }
    };
    std::process::exit(code);
}
