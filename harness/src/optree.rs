//! C07 — operator partition contract (spec/PartitionContract.tla).
//!
//! `optree-replay cases.ndjson out.ndjson workdir [full_every]`: every case is an operator tree emitted
//! by TLC (operators, parameters, and for every leaf the rows of every batch of every partition) with the
//! set of answers the property allows.  The tree is built from the engine's PUBLIC constructors
//! (FilterExec, ProjectExec, LimitExec, UnionExec, SortExec / ExternalSortExec, HashAggregateExec /
//! SpillableHashAggregateExec, HashJoinExec / SpillableHashJoinExec) over a harness-defined leaf with a
//! fixed partition count (as /repo/tests/partition_contract.rs does), and EVERY partition the real root
//! declares is executed: ascending, descending, concurrently in one task (what `ExecutionContext::sql`
//! does) and concurrently in spawned tasks — each time on a freshly built tree (a root that declares one
//! partition is executed once: there is nothing to reorder).  One more tree is used to
//! ask every node for the partition one past its declared count.
//!
//! The record says what happened; `checks/partcontract.py` judges it.  To keep the output small a record
//! that trivially passes is abbreviated (`"pass":1`) unless it falls on the `full_every` grid — those are
//! re-judged by the check as a cross-check of the two judges.
use crate::util::*;
use arrow::array::{Array, ArrayRef, Int64Array, RecordBatch};
use arrow::datatypes::{DataType, Field, Schema, SchemaRef};
use async_trait::async_trait;
use futures::TryStreamExt;
use query_engine::error::Result as QResult;
use query_engine::execution::{ExecutionConfig, MemoryPool, SharedMemoryPool};
use query_engine::physical::operators::hash_agg::AggregateExpr;
use query_engine::physical::operators::spillable::AggregateExpr as SpillAggregateExpr;
use query_engine::physical::{
    ExternalSortExec, FilterExec, HashAggregateExec, HashJoinExec, LimitExec, PhysicalOperator, ProjectExec,
    RecordBatchStream, SortExec, SpillableHashAggregateExec, SpillableHashJoinExec, UnionExec,
};
use query_engine::planner::{AggregateFunction, Expr, JoinType, NullOrdering, ScalarValue, SortDirection, SortExpr};
use serde_json::{json, Value};
use std::path::{Path, PathBuf};
use std::sync::atomic::{AtomicUsize, Ordering};
use std::sync::Arc;

const NULL: i64 = -1073741824;

/// Leaf with a partition count that is fixed by construction; counts how often each partition is opened.
#[derive(Debug)]
struct FixedLeaf {
    schema: SchemaRef,
    batches: Vec<Vec<RecordBatch>>,
    opened: Arc<Vec<AtomicUsize>>,
}

#[async_trait]
impl PhysicalOperator for FixedLeaf {
    fn schema(&self) -> SchemaRef {
        self.schema.clone()
    }
    fn children(&self) -> Vec<Arc<dyn PhysicalOperator>> {
        vec![]
    }
    fn output_partitions(&self) -> usize {
        self.batches.len()
    }
    async fn execute(&self, partition: usize) -> QResult<RecordBatchStream> {
        query_engine::physical::check_partition(self, partition)?;
        if let Some(c) = self.opened.get(partition) {
            c.fetch_add(1, Ordering::SeqCst);
        }
        // past the guard `partition` is in range; written defensively so that a weakened guard shows up
        // as an accepted out-of-range call, not as an index panic of the harness
        let batches = self.batches.get(partition).cloned().unwrap_or_default();
        Ok(Box::pin(futures::stream::iter(batches.into_iter().map(Ok))))
    }
    fn name(&self) -> &str {
        "FixedLeaf"
    }
}

struct Built {
    op: Arc<dyn PhysicalOperator>,
    cols: Vec<String>,
}

struct BuildCtx<'a> {
    prof: i64,
    n: usize,
    leaves: Vec<Arc<Vec<AtomicUsize>>>,
    spill: PathBuf,
    rt: &'a tokio::runtime::Runtime,
}

fn i64_field(name: &str) -> Field {
    Field::new(name, DataType::Int64, true)
}

fn batch_of(schema: &SchemaRef, rows: &[Value]) -> RecordBatch {
    let w = schema.fields().len();
    let cols: Vec<ArrayRef> = (0..w)
        .map(|c| {
            let v: Vec<Option<i64>> = rows
                .iter()
                .map(|r| {
                    let x = r[c].as_i64().expect("row cell");
                    if x == NULL {
                        None
                    } else {
                        Some(x)
                    }
                })
                .collect();
            Arc::new(Int64Array::from(v)) as ArrayRef
        })
        .collect();
    RecordBatch::try_new(schema.clone(), cols).expect("leaf batch")
}

fn cfg_of(cx: &BuildCtx, limit: Option<usize>) -> (SharedMemoryPool, ExecutionConfig) {
    let mut cfg = ExecutionConfig::default().with_spill_path(cx.spill.clone());
    if let Some(l) = limit {
        cfg = cfg.with_memory_limit(l);
    }
    (Arc::new(MemoryPool::new(cfg.memory_limit)), cfg)
}

/// The engine's own size estimate for an all-Int64 batch (spillable.rs estimate_batch_size).
fn est_size(b: &RecordBatch) -> usize {
    b.num_columns() * (b.num_rows() * 8 + b.num_rows().div_ceil(8))
}

/// Memory limit for a join that is to take its SPILL path: the budget (limit x spill_threshold) is the
/// size of the largest build batch, so the build side exceeds it as soon as two batches carry rows, while
/// no single batch exceeds it on its own.  The build side is measured on a scratch copy of its subtree.
fn spill_limit(build_side: &Value, cx: &BuildCtx) -> usize {
    let mut scratch = BuildCtx { prof: cx.prof, n: 1000, leaves: vec![], spill: cx.spill.clone(), rt: cx.rt };
    let b = build(build_side, &mut scratch);
    let op = b.op;
    let sizes: Vec<usize> = cx.rt.block_on(async move {
        let mut v = Vec::new();
        for p in 0..op.output_partitions() {
            if let Ok(Ok(bs)) = tokio::spawn(run_partition(op.clone(), p)).await {
                v.extend(bs.iter().map(est_size));
            }
        }
        v
    });
    let t = sizes.iter().copied().max().unwrap_or(0).max(1);
    let thr = ExecutionConfig::default().spill_threshold;
    let mut l = (t as f64 / thr) as usize;
    while ((l as f64 * thr) as usize) < t {
        l += 1;
    }
    l
}

fn join_type(code: i64) -> JoinType {
    match code {
        0 => JoinType::Inner,
        1 => JoinType::Left,
        2 => JoinType::Right,
        3 => JoinType::Full,
        4 => JoinType::Semi,
        5 => JoinType::Anti,
        other => panic!("harness: join type code {other}"),
    }
}

/// Build the REAL operator tree of one case.  Columns are addressed by position in the model; here every
/// operator output gets fresh, unique column names so that `Expr::column(name)` is unambiguous.
fn build(node: &Value, cx: &mut BuildCtx<'_>) -> Built {
    cx.n += 1;
    let id = cx.n;
    let op = node["op"].as_str().expect("op");
    let a = node["a"].as_i64().unwrap_or(0);
    let b = node["b"].as_i64().unwrap_or(0);
    let mut kids: Vec<Built> = match node["kids"].as_array() {
        Some(ks) => ks.iter().map(|k| build(k, cx)).collect(),
        None => vec![],
    };
    match op {
        "leaf" => {
            let cols = vec![format!("a{id}"), format!("b{id}")];
            let schema: SchemaRef = Arc::new(Schema::new(vec![i64_field(&cols[0]), i64_field(&cols[1])]));
            let batches: Vec<Vec<RecordBatch>> = node["parts"]
                .as_array()
                .expect("parts")
                .iter()
                .map(|p| p.as_array().expect("partition").iter().map(|bt| batch_of(&schema, bt.as_array().expect("batch"))).collect())
                .collect();
            let opened = Arc::new((0..batches.len()).map(|_| AtomicUsize::new(0)).collect::<Vec<_>>());
            cx.leaves.push(opened.clone());
            Built { op: Arc::new(FixedLeaf { schema, batches, opened }), cols }
        }
        "filter" => {
            let k = kids.remove(0);
            let pred = Expr::column(k.cols[0].clone()).gt_eq(Expr::literal(ScalarValue::Int64(2)));
            Built { op: Arc::new(FilterExec::new(k.op, pred)), cols: k.cols }
        }
        "project" => {
            let k = kids.remove(0);
            let cols = vec![format!("p{id}x"), format!("p{id}y")];
            let schema: SchemaRef = Arc::new(Schema::new(vec![i64_field(&cols[0]), i64_field(&cols[1])]));
            let exprs = vec![Expr::column(k.cols[0].clone()), Expr::column(k.cols[1].clone())];
            Built { op: Arc::new(ProjectExec::new(k.op, exprs, schema)), cols }
        }
        "limit" => {
            let k = kids.remove(0);
            let fetch = if b < 0 { None } else { Some(b as usize) };
            Built { op: Arc::new(LimitExec::new(k.op, a as usize, fetch)), cols: k.cols }
        }
        "sort" => {
            let k = kids.remove(0);
            let order = vec![SortExpr { expr: Expr::column(k.cols[0].clone()), direction: SortDirection::Asc, nulls: NullOrdering::NullsFirst }];
            let op: Arc<dyn PhysicalOperator> = if cx.prof == 0 {
                if a < 0 {
                    Arc::new(SortExec::new(k.op, order))
                } else {
                    Arc::new(SortExec::with_fetch(k.op, order, a as usize))
                }
            } else {
                let (pool, cfg) = cfg_of(cx, if cx.prof == 2 { Some(1) } else { None });
                if a < 0 {
                    Arc::new(ExternalSortExec::new(k.op, order, pool, cfg))
                } else {
                    Arc::new(ExternalSortExec::with_fetch(k.op, order, pool, cfg, a as usize))
                }
            };
            Built { op, cols: k.cols }
        }
        "agg" => {
            let k = kids.remove(0);
            let grouped = a == 1;
            let group_by = if grouped { vec![Expr::column(k.cols[0].clone())] } else { vec![] };
            let arg = Expr::column(k.cols[1].clone());
            let mut cols = vec![];
            if grouped {
                cols.push(format!("g{id}"));
            }
            cols.push(format!("n{id}"));
            cols.push(format!("s{id}"));
            let schema: SchemaRef = Arc::new(Schema::new(cols.iter().map(|c| i64_field(c)).collect::<Vec<_>>()));
            let op: Arc<dyn PhysicalOperator> = if cx.prof == 0 {
                let aggs = vec![
                    AggregateExpr { func: AggregateFunction::Count, input: arg.clone(), distinct: false, second_arg: None },
                    AggregateExpr { func: AggregateFunction::Sum, input: arg, distinct: false, second_arg: None },
                ];
                Arc::new(HashAggregateExec::new(k.op, group_by, aggs, schema))
            } else {
                let aggs = vec![
                    SpillAggregateExpr { func: AggregateFunction::Count, input: arg.clone(), distinct: false, second_arg: None },
                    SpillAggregateExpr { func: AggregateFunction::Sum, input: arg, distinct: false, second_arg: None },
                ];
                let (pool, cfg) = cfg_of(cx, if cx.prof == 2 { Some(1) } else { None });
                Arc::new(SpillableHashAggregateExec::new(k.op, group_by, aggs, schema, pool, cfg))
            };
            Built { op, cols }
        }
        "union" => {
            let cols = kids[0].cols.clone();
            let inputs: Vec<Arc<dyn PhysicalOperator>> = kids.into_iter().map(|k| k.op).collect();
            Built { op: Arc::new(UnionExec::new(inputs)), cols }
        }
        "join" => {
            let r = kids.remove(1);
            let l = kids.remove(0);
            let jt = join_type(a);
            let build_right = b % 2 == 1;
            let spill = b / 2 == 1;
            let build_idx = if build_right || jt == JoinType::Right { 1 } else { 0 };
            let on = vec![(Expr::column(l.cols[0].clone()), Expr::column(r.cols[0].clone()))];
            let cols = if matches!(jt, JoinType::Semi | JoinType::Anti) {
                l.cols.clone()
            } else {
                l.cols.iter().chain(r.cols.iter()).cloned().collect()
            };
            let op: Arc<dyn PhysicalOperator> = if cx.prof == 0 && !spill {
                Arc::new(HashJoinExec::new(l.op, r.op, on, jt).with_build_right(build_right))
            } else {
                let limit = if spill { Some(spill_limit(&node["kids"][build_idx], cx)) } else { None };
                let (pool, cfg) = cfg_of(cx, limit);
                Arc::new(SpillableHashJoinExec::new(l.op, r.op, on, jt, pool, cfg).with_build_right(build_right))
            };
            Built { op, cols }
        }
        other => panic!("harness: unknown operator {other}"),
    }
}

fn rows_of(batches: &[RecordBatch]) -> std::result::Result<Vec<Vec<i64>>, String> {
    let mut out = Vec::new();
    for b in batches {
        let mut cols: Vec<Int64Array> = Vec::with_capacity(b.num_columns());
        for c in b.columns() {
            let c64 = if c.data_type() == &DataType::Int64 {
                c.clone()
            } else {
                arrow::compute::cast(c.as_ref(), &DataType::Int64).map_err(|e| format!("column of type {:?}: {e}", c.data_type()))?
            };
            cols.push(c64.as_any().downcast_ref::<Int64Array>().ok_or("not Int64 after cast")?.clone());
        }
        for r in 0..b.num_rows() {
            out.push(cols.iter().map(|c| if c.is_null(r) { NULL } else { c.value(r) }).collect());
        }
    }
    Ok(out)
}

fn part_json(r: std::result::Result<QResult<Vec<RecordBatch>>, String>) -> Value {
    match r {
        Ok(Ok(batches)) => match rows_of(&batches) {
            Ok(rows) => json!({"ok": 1, "rows": rows, "nb": batches.len()}),
            Err(e) => json!({"ok": 0, "err": format!("harness cannot read the result: {e}"), "panic": 0, "tool": 1}),
        },
        Ok(Err(e)) => json!({"ok": 0, "err": e.to_string().chars().take(300).collect::<String>(), "panic": 0}),
        Err(p) => json!({"ok": 0, "err": p.chars().take(300).collect::<String>(), "panic": 1}),
    }
}

async fn run_partition(op: Arc<dyn PhysicalOperator>, p: usize) -> QResult<Vec<RecordBatch>> {
    let stream = op.execute(p).await?;
    stream.try_collect().await
}

fn panic_text(e: tokio::task::JoinError) -> String {
    if e.is_panic() {
        let p = e.into_panic();
        if let Some(s) = p.downcast_ref::<&str>() {
            format!("panic: {s}")
        } else if let Some(s) = p.downcast_ref::<String>() {
            format!("panic: {s}")
        } else {
            "panic".to_string()
        }
    } else {
        "task cancelled".to_string()
    }
}

/// Drive every declared partition of `op` in the given mode; one entry per partition, in partition order.
async fn drive(op: Arc<dyn PhysicalOperator>, mode: &str) -> Vec<Value> {
    let n = op.output_partitions();
    let mut out: Vec<Value> = (0..n).map(|_| Value::Null).collect();
    match mode {
        "asc" | "desc" => {
            let order: Vec<usize> = if mode == "asc" { (0..n).collect() } else { (0..n).rev().collect() };
            for p in order {
                // a task of its own so that a panic of the code under test is data
                let h = tokio::spawn(run_partition(op.clone(), p));
                out[p] = part_json(h.await.map_err(panic_text));
            }
        }
        "join" => {
            // what ExecutionContext::sql does: all partitions as futures of ONE task
            let op2 = op.clone();
            let h = tokio::spawn(async move { futures::future::join_all((0..n).map(|p| run_partition(op2.clone(), p))).await });
            match h.await {
                Ok(v) => {
                    for (p, r) in v.into_iter().enumerate() {
                        out[p] = part_json(Ok(r));
                    }
                }
                Err(e) => {
                    let t = panic_text(e);
                    for o in out.iter_mut() {
                        *o = part_json(Err(t.clone()));
                    }
                }
            }
        }
        _ => {
            // one spawned task per partition, started in descending order, awaited in ascending order
            let mut hs: Vec<Option<tokio::task::JoinHandle<QResult<Vec<RecordBatch>>>>> = (0..n).map(|_| None).collect();
            for p in (0..n).rev() {
                hs[p] = Some(tokio::spawn(run_partition(op.clone(), p)));
            }
            for p in 0..n {
                out[p] = part_json(hs[p].take().unwrap().await.map_err(panic_text));
            }
        }
    }
    out
}

fn walk(op: &Arc<dyn PhysicalOperator>, out: &mut Vec<Arc<dyn PhysicalOperator>>) {
    out.push(op.clone());
    for c in op.children() {
        walk(&c, out);
    }
}

const MODES: [&str; 4] = ["asc", "desc", "join", "spawn"];

fn sorted(mut rows: Vec<Vec<i64>>) -> Vec<Vec<i64>> {
    rows.sort();
    rows
}

/// The harness-side judge (the authoritative one is in checks/partcontract.py): all partitions answered,
/// the bag is one the model allows, the order is the ORDER BY's where the root is ordered, nothing accepted
/// an out-of-range partition.
fn trivially_passes(case: &Value, rec: &Value) -> bool {
    if !rec["guard"].as_array().map(|g| g.is_empty()).unwrap_or(false) {
        return false;
    }
    let acc: Vec<Vec<Vec<i64>>> = case["acc"]
        .as_array()
        .map(|bs| bs.iter().map(|b| sorted(serde_json::from_value(b.clone()).unwrap_or_default())).collect())
        .unwrap_or_default();
    for m in rec["modes"].as_array().unwrap() {
        let mut all: Vec<Vec<i64>> = Vec::new();
        for p in m["parts"].as_array().unwrap() {
            if p["ok"].as_i64() != Some(1) {
                return false;
            }
            let rows: Vec<Vec<i64>> = serde_json::from_value(p["rows"].clone()).unwrap_or_default();
            all.extend(rows);
        }
        if case["ord"].as_i64() == Some(1) && all.windows(2).any(|w| w[0][0] > w[1][0]) {
            return false;
        }
        let s = sorted(all);
        if !acc.iter().any(|b| *b == s) {
            return false;
        }
    }
    true
}

pub fn replay(a: &[String]) -> i32 {
    quiet_panics();
    let cases = read_ndjson(&a[0]);
    let mut out = Out::create(&a[1]);
    let work = Path::new(&a[2]);
    let full_every: usize = a.get(3).and_then(|s| s.parse().ok()).unwrap_or(1);
    // scratch of the engine's spill paths (thousands of tiny parquet files per second): memory-backed when
    // the machine has /dev/shm, else under the work directory; nothing in it outlives this process
    let shm = Path::new("/dev/shm");
    let spill = match std::env::var("QEV_SPILL_DIR") {
        Ok(d) => PathBuf::from(d),
        Err(_) if shm.is_dir() => shm.join(format!("qev-optree-spill-{}", std::process::id())),
        Err(_) => work.join(format!("spill-{}", std::process::id())),
    };
    let rt = tokio::runtime::Builder::new_multi_thread().worker_threads(4).enable_all().build().unwrap();
    for (ci, case) in cases.iter().enumerate() {
        let prof = case["prof"].as_i64().unwrap_or(0);
        let mk = || {
            let mut cx = BuildCtx { prof, n: 0, leaves: vec![], spill: spill.clone(), rt: &rt };
            let b = build(&case["t"], &mut cx);
            (b, cx.leaves)
        };
        let mut rec = json!({"id": case["id"]});
        let built = catch(std::panic::AssertUnwindSafe(|| {
            let (b0, _) = mk();
            let mut nodes = Vec::new();
            walk(&b0.op, &mut nodes);
            let shape: Vec<Value> = nodes.iter().map(|n| json!([n.name(), n.output_partitions()])).collect();
            (b0.op.output_partitions(), shape)
        }));
        match built {
            Err(p) => {
                rec["build_panic"] = json!(p);
                out.put(&rec);
                continue;
            }
            Ok((np, shape)) => {
                rec["np"] = json!(np);
                rec["nodes"] = json!(shape);
            }
        }
        let mut modes = Vec::new();
        // a root of ONE partition has no order or concurrency of partition executions to vary
        let np_real = rec["np"].as_u64().unwrap_or(0);
        for m in MODES.iter().copied().filter(|m| np_real > 1 || *m == "asc") {
            let (b, leaves) = mk();
            let fut = drive(b.op.clone(), m);
            let parts = rt.block_on(async { tokio::time::timeout(std::time::Duration::from_secs(120), fut).await });
            let uses: Vec<Vec<usize>> = leaves.iter().map(|l| l.iter().map(|c| c.load(Ordering::SeqCst)).collect()).collect();
            match parts {
                Ok(parts) => modes.push(json!({"m": m, "parts": parts, "uses": uses})),
                Err(_) => modes.push(json!({"m": m, "parts": [{"ok": 0, "err": "no answer within 120 s", "panic": 0, "hang": 1}], "uses": uses})),
            }
        }
        rec["modes"] = json!(modes);
        // every node, asked for the partition one past its declared count, must refuse
        let (b, _) = mk();
        let mut nodes = Vec::new();
        walk(&b.op, &mut nodes);
        let mut guard = Vec::new();
        for n in nodes {
            let k = n.output_partitions();
            let n2 = n.clone();
            let r = rt.block_on(async move { tokio::spawn(async move { n2.execute(k).await.map(|_| ()) }).await });
            match r {
                Ok(Err(_)) => {}
                Ok(Ok(())) => guard.push(json!({"node": n.name(), "declared": k, "what": "accepted"})),
                Err(e) => guard.push(json!({"node": n.name(), "declared": k, "what": panic_text(e)})),
            }
        }
        rec["guard"] = json!(guard);
        let rp = trivially_passes(case, &rec);
        rec["rp"] = json!(if rp { 1 } else { 0 });
        if full_every != 1 && (full_every == 0 || ci % full_every != 0) && rp {
            let uses = rec["modes"][0]["uses"].clone();
            rec = json!({"id": case["id"], "pass": 1, "np": rec["np"], "nodes": rec["nodes"], "uses": uses});
        }
        out.put(&rec);
    }
    let _ = std::fs::remove_dir_all(&spill);
    out.finish();
    0
}
