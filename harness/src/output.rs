//! C40 — CLI output formats round-trip the result.
//!
//! The working tree's `src/cli/output.rs` is compiled straight into the harness (it is private to
//! the `query_engine` binary, and depends on arrow + chrono + std only), result sets emitted by TLC
//! (spec/Csv.tla) are built as RecordBatches and printed by the real `OutputFormatter`, and the
//! captured bytes are read back by the two reference readers below.  The readers are a line-by-line
//! port of `CsvStep` / `JsonStep` in spec/Csv.tla (one match arm per CASE arm); TLC re-reads the
//! same bytes with the spec itself (CsvTrace.tla) and the driver requires both to agree.
use crate::util::*;
use arrow::array::*;
use arrow::datatypes::{DataType, Field, Schema};
use arrow::record_batch::RecordBatch;
use serde_json::{json, Value};
use std::sync::Arc;

#[path = "/repo/src/cli/output.rs"]
#[allow(dead_code)]
mod cli_output;
use cli_output::{OutputFormat, OutputFormatter};

const COMMA: u32 = 44;
const DQ: u32 = 34;
const CR: u32 = 13;
const LF: u32 = 10;
const TAB: u32 = 9;
const SP: u32 = 32;
const BS: u32 = 92;

// ---------------------------------------------------------------- CSV reader (Csv.tla: CsvStep)
#[derive(Clone, Copy, PartialEq, Debug)]
enum CMode {
    RecordEnd,
    FieldStart,
    Unquoted,
    Quoted,
    QuoteInQuoted,
    CrSeen,
    Malformed,
}

struct CsvSt {
    mode: CMode,
    from: Option<CMode>,
    cell: Vec<u32>,
    row: Vec<Vec<u32>>,
    rows: Vec<Vec<Vec<u32>>>,
    bad_at: Option<usize>,
}

impl CsvSt {
    fn new() -> Self {
        CsvSt { mode: CMode::RecordEnd, from: None, cell: vec![], row: vec![], rows: vec![], bad_at: None }
    }
    fn mal(&mut self) {
        self.from = Some(self.mode);
        self.mode = CMode::Malformed;
    }
    fn end_field(&mut self) {
        self.row.push(std::mem::take(&mut self.cell));
        self.mode = CMode::FieldStart;
    }
    fn end_record(&mut self) {
        self.row.push(std::mem::take(&mut self.cell));
        self.rows.push(std::mem::take(&mut self.row));
        self.mode = CMode::RecordEnd;
    }
    fn step(&mut self, c: u32) {
        match self.mode {
            CMode::RecordEnd | CMode::FieldStart => match c {
                DQ => self.mode = CMode::Quoted,
                COMMA => self.end_field(),
                LF => self.end_record(),
                CR => self.mode = CMode::CrSeen,
                _ => {
                    self.mode = CMode::Unquoted;
                    self.cell = vec![c];
                }
            },
            CMode::Unquoted => match c {
                DQ => self.mal(),
                COMMA => self.end_field(),
                LF => self.end_record(),
                CR => self.mode = CMode::CrSeen,
                _ => self.cell.push(c),
            },
            CMode::Quoted => match c {
                DQ => self.mode = CMode::QuoteInQuoted,
                _ => self.cell.push(c),
            },
            CMode::QuoteInQuoted => match c {
                DQ => {
                    self.mode = CMode::Quoted;
                    self.cell.push(DQ);
                }
                COMMA => self.end_field(),
                LF => self.end_record(),
                CR => self.mode = CMode::CrSeen,
                _ => self.mal(),
            },
            CMode::CrSeen => match c {
                LF => self.end_record(),
                _ => self.mal(),
            },
            CMode::Malformed => {}
        }
    }
    fn finish(&mut self) {
        match self.mode {
            CMode::RecordEnd | CMode::Malformed => {}
            CMode::FieldStart | CMode::Unquoted | CMode::QuoteInQuoted => self.end_record(),
            _ => self.mal(),
        }
    }
}

fn csv_read(chars: &[u32]) -> Value {
    let mut st = CsvSt::new();
    for (i, &c) in chars.iter().enumerate() {
        st.step(c);
        if st.mode == CMode::Malformed && st.bad_at.is_none() {
            st.bad_at = Some(i);
        }
    }
    st.finish();
    json!({"mode": format!("{:?}", st.mode), "from": st.from.map(|m| format!("{m:?}")).unwrap_or_default(),
           "rows": st.rows, "bad_at": st.bad_at.map(|x| x as i64).unwrap_or(-1)})
}

// ---------------------------------------------------------------- JSON reader (Csv.tla: JsonStep)
#[derive(Clone, Copy, PartialEq, Debug)]
enum JMode {
    Start,
    ArrFirst,
    ArrNext,
    ObjFirst,
    ObjNext,
    Str,
    Esc,
    Hex,
    Colon,
    ValStart,
    NumMinus,
    NumZero,
    NumInt,
    NumDot,
    NumFrac,
    NumE,
    NumESign,
    NumExp,
    Lit,
    AfterVal,
    AfterObj,
    Done,
    Malformed,
    Unsupported,
}

struct JsonSt {
    mode: JMode,
    from: Option<JMode>,
    inkey: bool,
    buf: Vec<u32>,
    key: Vec<u32>,
    obj: Vec<Value>,
    objs: Vec<Vec<Value>>,
    hex: u32,
    hn: u32,
    lit: Vec<u32>,
    litk: u32,
    bad_at: Option<usize>,
}

fn is_ws(c: u32) -> bool {
    c == SP || c == TAB || c == LF || c == CR
}
fn is_digit(c: u32) -> bool {
    (48..=57).contains(&c)
}
fn hex_val(c: u32) -> i32 {
    match c {
        48..=57 => c as i32 - 48,
        97..=102 => c as i32 - 87,
        65..=70 => c as i32 - 55,
        _ => -1,
    }
}
fn is_val_end(c: u32) -> bool {
    is_ws(c) || c == COMMA || c == 125
}
fn val(k: u32, s: &[u32]) -> Value {
    json!({"k": k, "s": s})
}

impl JsonSt {
    fn new() -> Self {
        JsonSt {
            mode: JMode::Start, from: None, inkey: false, buf: vec![], key: vec![], obj: vec![], objs: vec![],
            hex: 0, hn: 0, lit: vec![], litk: 0, bad_at: None,
        }
    }
    fn mal(&mut self) {
        self.from = Some(self.mode);
        self.mode = JMode::Malformed;
    }
    fn add_val(&mut self, v: Value) {
        self.obj.push(json!({"key": self.key, "val": v}));
        self.buf.clear();
        self.mode = JMode::AfterVal;
    }
    fn close_obj(&mut self) {
        self.objs.push(std::mem::take(&mut self.obj));
        self.mode = JMode::AfterObj;
    }
    fn after_val(&mut self, c: u32) {
        if is_ws(c) {
        } else if c == COMMA {
            self.mode = JMode::ObjNext;
        } else if c == 125 {
            self.close_obj();
        } else {
            self.mal();
        }
    }
    fn end_num(&mut self, c: u32) {
        let v = val(2, &self.buf);
        self.add_val(v);
        self.after_val(c);
    }
    fn push_to(&mut self, c: u32, m: JMode) {
        self.buf.push(c);
        self.mode = m;
    }
    fn lit(&mut self, rest: &[u32], k: u32) {
        self.mode = JMode::Lit;
        self.lit = rest.to_vec();
        self.litk = k;
    }
    fn step(&mut self, c: u32) {
        use JMode::*;
        match self.mode {
            Start => {
                if is_ws(c) {
                } else if c == 91 {
                    self.mode = ArrFirst
                } else {
                    self.mal()
                }
            }
            ArrFirst => {
                if is_ws(c) {
                } else if c == 123 {
                    self.mode = ObjFirst
                } else if c == 93 {
                    self.mode = Done
                } else {
                    self.mal()
                }
            }
            ArrNext => {
                if is_ws(c) {
                } else if c == 123 {
                    self.mode = ObjFirst
                } else {
                    self.mal()
                }
            }
            ObjFirst => {
                if is_ws(c) {
                } else if c == DQ {
                    self.mode = Str;
                    self.inkey = true;
                    self.buf.clear();
                } else if c == 125 {
                    self.close_obj()
                } else {
                    self.mal()
                }
            }
            ObjNext => {
                if is_ws(c) {
                } else if c == DQ {
                    self.mode = Str;
                    self.inkey = true;
                    self.buf.clear();
                } else {
                    self.mal()
                }
            }
            Str => {
                if c == DQ {
                    if self.inkey {
                        self.key = std::mem::take(&mut self.buf);
                        self.mode = Colon;
                    } else {
                        let v = val(1, &self.buf);
                        self.add_val(v);
                    }
                } else if c == BS {
                    self.mode = Esc
                } else if c < 32 {
                    self.mal()
                } else {
                    self.buf.push(c)
                }
            }
            Esc => match c {
                DQ | BS | 47 => self.push_to(c, Str),
                98 => self.push_to(8, Str),
                102 => self.push_to(12, Str),
                110 => self.push_to(LF, Str),
                114 => self.push_to(CR, Str),
                116 => self.push_to(TAB, Str),
                117 => {
                    self.mode = Hex;
                    self.hex = 0;
                    self.hn = 0;
                }
                _ => self.mal(),
            },
            Hex => {
                let h = hex_val(c);
                if h < 0 {
                    self.mal()
                } else if self.hn == 3 {
                    self.buf.push(self.hex * 16 + h as u32);
                    self.mode = Str;
                    self.hex = 0;
                    self.hn = 0;
                } else {
                    self.hex = self.hex * 16 + h as u32;
                    self.hn += 1;
                }
            }
            Colon => {
                if is_ws(c) {
                } else if c == 58 {
                    self.mode = ValStart
                } else {
                    self.mal()
                }
            }
            ValStart => {
                if is_ws(c) {
                } else if c == DQ {
                    self.mode = Str;
                    self.inkey = false;
                    self.buf.clear();
                } else if c == 45 {
                    self.buf = vec![c];
                    self.mode = NumMinus;
                } else if c == 48 {
                    self.buf = vec![c];
                    self.mode = NumZero;
                } else if is_digit(c) {
                    self.buf = vec![c];
                    self.mode = NumInt;
                } else if c == 110 {
                    self.lit(&[117, 108, 108], 0)
                } else if c == 116 {
                    self.lit(&[114, 117, 101], 1)
                } else if c == 102 {
                    self.lit(&[97, 108, 115, 101], 2)
                } else if c == 123 || c == 91 {
                    self.mode = Unsupported
                } else {
                    self.mal()
                }
            }
            NumMinus => {
                if c == 48 {
                    self.push_to(c, NumZero)
                } else if is_digit(c) {
                    self.push_to(c, NumInt)
                } else {
                    self.mal()
                }
            }
            NumZero => {
                if c == 46 {
                    self.push_to(c, NumDot)
                } else if c == 101 || c == 69 {
                    self.push_to(c, NumE)
                } else if is_val_end(c) {
                    self.end_num(c)
                } else {
                    self.mal()
                }
            }
            NumInt => {
                if is_digit(c) {
                    self.buf.push(c)
                } else if c == 46 {
                    self.push_to(c, NumDot)
                } else if c == 101 || c == 69 {
                    self.push_to(c, NumE)
                } else if is_val_end(c) {
                    self.end_num(c)
                } else {
                    self.mal()
                }
            }
            NumDot => {
                if is_digit(c) {
                    self.push_to(c, NumFrac)
                } else {
                    self.mal()
                }
            }
            NumFrac => {
                if is_digit(c) {
                    self.buf.push(c)
                } else if c == 101 || c == 69 {
                    self.push_to(c, NumE)
                } else if is_val_end(c) {
                    self.end_num(c)
                } else {
                    self.mal()
                }
            }
            NumE => {
                if c == 43 || c == 45 {
                    self.push_to(c, NumESign)
                } else if is_digit(c) {
                    self.push_to(c, NumExp)
                } else {
                    self.mal()
                }
            }
            NumESign => {
                if is_digit(c) {
                    self.push_to(c, NumExp)
                } else {
                    self.mal()
                }
            }
            NumExp => {
                if is_digit(c) {
                    self.buf.push(c)
                } else if is_val_end(c) {
                    self.end_num(c)
                } else {
                    self.mal()
                }
            }
            Lit => {
                if !self.lit.is_empty() && c == self.lit[0] {
                    if self.lit.len() == 1 {
                        self.lit.clear();
                        let v = match self.litk {
                            0 => val(0, &[]),
                            1 => val(3, &[116, 114, 117, 101]),
                            _ => val(3, &[102, 97, 108, 115, 101]),
                        };
                        self.add_val(v);
                    } else {
                        self.lit.remove(0);
                    }
                } else {
                    self.mal()
                }
            }
            AfterVal => self.after_val(c),
            AfterObj => {
                if is_ws(c) {
                } else if c == COMMA {
                    self.mode = ArrNext
                } else if c == 93 {
                    self.mode = Done
                } else {
                    self.mal()
                }
            }
            Done => {
                if !is_ws(c) {
                    self.mal()
                }
            }
            Malformed | Unsupported => {}
        }
    }
    fn finish(&mut self) {
        if !matches!(self.mode, JMode::Done | JMode::Malformed | JMode::Unsupported) {
            self.mal()
        }
    }
}

fn json_read(chars: &[u32]) -> Value {
    let mut st = JsonSt::new();
    for (i, &c) in chars.iter().enumerate() {
        st.step(c);
        if st.mode == JMode::Malformed && st.bad_at.is_none() {
            st.bad_at = Some(i);
        }
    }
    st.finish();
    json!({"mode": format!("{:?}", st.mode), "from": st.from.map(|m| format!("{m:?}")).unwrap_or_default(),
           "objs": st.objs, "bad_at": st.bad_at.map(|x| x as i64).unwrap_or(-1)})
}

// ---------------------------------------------------------------- result sets
fn cps_to_string(v: &Value) -> String {
    v.as_array().unwrap().iter().map(|x| char::from_u32(x.as_u64().unwrap() as u32).expect("code point")).collect()
}

/// column types: 1 Utf8, 2 Int64, 3 Float64, 4 Boolean, 5 LargeUtf8, 6 Int32, 7 UInt64, 8 Float32
fn build_batches(case: &Value) -> Vec<RecordBatch> {
    let hdr = case["hdr"].as_array().unwrap();
    let types: Vec<u64> = case["types"].as_array().unwrap().iter().map(|x| x.as_u64().unwrap()).collect();
    let rows = case["rows"].as_array().unwrap();
    let split = case.get("split").and_then(|x| x.as_u64()).unwrap_or(0) == 1;
    let dt = |t: u64| match t {
        1 => DataType::Utf8,
        2 => DataType::Int64,
        3 => DataType::Float64,
        4 => DataType::Boolean,
        5 => DataType::LargeUtf8,
        6 => DataType::Int32,
        7 => DataType::UInt64,
        8 => DataType::Float32,
        _ => panic!("unknown column type {t}"),
    };
    let schema = Arc::new(Schema::new(
        hdr.iter().zip(&types).map(|(n, t)| Field::new(cps_to_string(n), dt(*t), true)).collect::<Vec<_>>(),
    ));
    let groups: Vec<Vec<&Value>> = if split { rows.iter().map(|r| vec![r]).collect() } else { vec![rows.iter().collect()] };
    let mut out = Vec::new();
    for g in groups {
        let mut cols: Vec<ArrayRef> = Vec::new();
        for (j, t) in types.iter().enumerate() {
            let cell = |r: &&Value| -> Option<String> {
                let v = &r[j];
                if v["k"].as_u64().unwrap() == 0 { None } else { Some(cps_to_string(&v["s"])) }
            };
            let a: ArrayRef = match t {
                1 => Arc::new(StringArray::from(g.iter().map(cell).collect::<Vec<_>>())),
                5 => Arc::new(LargeStringArray::from(g.iter().map(cell).collect::<Vec<_>>())),
                2 => Arc::new(Int64Array::from(g.iter().map(|r| cell(r).map(|s| s.parse::<i64>().unwrap())).collect::<Vec<_>>())),
                6 => Arc::new(Int32Array::from(g.iter().map(|r| cell(r).map(|s| s.parse::<i32>().unwrap())).collect::<Vec<_>>())),
                7 => Arc::new(UInt64Array::from(g.iter().map(|r| cell(r).map(|s| s.parse::<u64>().unwrap())).collect::<Vec<_>>())),
                3 => Arc::new(Float64Array::from(g.iter().map(|r| cell(r).map(|s| s.parse::<f64>().unwrap())).collect::<Vec<_>>())),
                8 => Arc::new(Float32Array::from(g.iter().map(|r| cell(r).map(|s| s.parse::<f32>().unwrap())).collect::<Vec<_>>())),
                4 => Arc::new(BooleanArray::from(g.iter().map(|r| cell(r).map(|s| s == "true")).collect::<Vec<_>>())),
                _ => unreachable!(),
            };
            cols.push(a);
        }
        out.push(RecordBatch::try_new(schema.clone(), cols).expect("batch"));
    }
    out
}

fn chars_of(bytes: &[u8]) -> Option<Vec<u32>> {
    std::str::from_utf8(bytes).ok().map(|s| s.chars().map(|c| c as u32).collect())
}

fn run_format(batches: &[RecordBatch], f: OutputFormat) -> Result<Vec<u8>, String> {
    let b = batches.to_vec();
    catch(std::panic::AssertUnwindSafe(move || {
        let mut buf: Vec<u8> = Vec::new();
        OutputFormatter::new(f).write(&mut buf, &b).map(|_| buf).map_err(|e| e.to_string())
    }))
    .and_then(|r| r)
}

fn read_side(fmt: u32, bytes: &Result<Vec<u8>, String>) -> Value {
    match bytes {
        Err(p) => json!({"panic": p}),
        Ok(b) => match chars_of(b) {
            None => json!({"utf8": 0, "bytes": b}),
            Some(chars) => {
                let mut r = if fmt == 1 { csv_read(&chars) } else { json_read(&chars) };
                r["chars"] = json!(chars);
                r
            }
        },
    }
}

/// cases {hdr, types, rows[, split]} -> case + {"csv": {...}, "json": {...}}: the real formatter's bytes
/// (as code points) and what the reference readers make of them.
pub fn replay(a: &[String]) -> i32 {
    quiet_panics();
    let cases = read_ndjson(&a[0]);
    let mut out = Out::create(&a[1]);
    for c in cases {
        let c2 = c.clone();
        let batches = match catch(move || build_batches(&c2)) {
            Ok(b) => b,
            Err(e) => {
                eprintln!("output-replay: cannot build case {c}: {e}");
                return 2;
            }
        };
        let mut rec = c.clone();
        rec["csv"] = read_side(1, &run_format(&batches, OutputFormat::Csv));
        rec["json"] = read_side(2, &run_format(&batches, OutputFormat::Json));
        out.put(&rec);
    }
    out.finish();
    0
}

/// lines {fmt, chars} -> + reader result (used for the bytes captured from the real shell)
pub fn parse(a: &[String]) -> i32 {
    let recs = read_ndjson(&a[0]);
    let mut out = Out::create(&a[1]);
    for r in recs {
        let chars: Vec<u32> = r["chars"].as_array().unwrap().iter().map(|x| x.as_u64().unwrap() as u32).collect();
        let mut o = if r["fmt"].as_u64().unwrap() == 1 { csv_read(&chars) } else { json_read(&chars) };
        o["chars"] = json!(chars);
        o["fmt"] = r["fmt"].clone();
        out.put(&o);
    }
    out.finish();
    0
}

/// cases -> one Parquet file per case (<dir>/t<i>.parquet), for the shell route (`.load`)
pub fn to_parquet(a: &[String]) -> i32 {
    let cases = read_ndjson(&a[0]);
    std::fs::create_dir_all(&a[1]).unwrap();
    for (i, c) in cases.iter().enumerate() {
        let batches = build_batches(c);
        let path = format!("{}/t{}.parquet", a[1], i);
        let f = std::fs::File::create(&path).unwrap();
        let props = parquet::file::properties::WriterProperties::builder().build();
        let mut w = parquet::arrow::ArrowWriter::try_new(f, batches[0].schema(), Some(props)).unwrap();
        for b in &batches {
            w.write(b).unwrap();
        }
        w.close().unwrap();
    }
    0
}
