//! Small pure functions: cpulist parser / workers_for (C42), chunked decoder (C41).
use crate::util::*;
use rand::{Rng, SeedableRng};
use serde_json::{json, Value};

/// cases: {"s": text, "expect": [...]} -> {"s","got":[..]} | {"s","panic":msg}
pub fn cpulist_replay(a: &[String]) -> i32 {
    quiet_panics();
    let cases = read_ndjson(&a[0]);
    let mut out = Out::create(&a[1]);
    for c in cases {
        if let Some(w) = c.get("w") {
            // workers_for case: -1 denotes usize::MAX
            let cv = |v: &Value| if v.as_i64().unwrap() < 0 { usize::MAX } else { v.as_i64().unwrap() as usize };
            let (w, m) = (cv(w), cv(&c["m"]));
            match catch(move || query_engine::execution::topology::workers_for(w, m)) {
                Ok(r) => out.put(&json!({"w": c["w"], "m": c["m"], "r": if r == usize::MAX { -1 } else { r as i64 }})),
                Err(p) => out.put(&json!({"w": c["w"], "m": c["m"], "panic": p})),
            }
            continue;
        }
        let s = c["s"].as_str().unwrap().to_string();
        let s2 = s.clone();
        match catch(move || query_engine::execution::topology::verif_parse_cpulist(&s2)) {
            Ok(v) => out.put(&json!({"s": s, "got": v, "expect": c["expect"]})),
            Err(p) => out.put(&json!({"s": s, "panic": p, "expect": c["expect"]})),
        }
    }
    out.finish();
    0
}

/// Random lists with larger ids, recorded as structured parts + result (trace for CpuListTrace.tla).
/// Also goes through the public Topology::from_sysfs on a fake sysfs tree for a subset.
pub fn cpulist_record(a: &[String]) -> i32 {
    quiet_panics();
    let seed: u64 = a[0].parse().unwrap();
    let n: usize = a[1].parse().unwrap();
    let mut out = Out::create(&a[2]);
    let mut rng = rand::rngs::StdRng::seed_from_u64(seed);
    let junk = ["x", "1-", "-2", " ", "1-2-3", "a-b"];
    for i in 0..n {
        let np = rng.gen_range(0..6);
        let mut parts = Vec::new();
        let mut texts = Vec::new();
        for _ in 0..np {
            let ws = rng.gen_range(0..4);
            let pad = |t: String| format!("{}{}{}", if ws == 1 || ws == 3 { " " } else { "" }, t, if ws >= 2 { " " } else { "" });
            match rng.gen_range(0..10) {
                0..=3 => {
                    let x = rng.gen_range(0..300);
                    parts.push(json!({"k": "one", "a": x, "b": 0, "ws": ws}));
                    texts.push(pad(x.to_string()));
                }
                4..=8 => {
                    let x = rng.gen_range(0..300);
                    let y = if rng.gen_bool(0.8) { x + rng.gen_range(0..12) } else { rng.gen_range(0..300) };
                    parts.push(json!({"k": "range", "a": x, "b": y, "ws": ws}));
                    texts.push(pad(format!("{x}-{y}")));
                }
                _ => {
                    let j = rng.gen_range(0..junk.len());
                    parts.push(json!({"k": "junk", "a": j + 1, "b": 0, "ws": 0}));
                    texts.push(junk[j].to_string());
                }
            }
        }
        let mut s = texts.join(",");
        if rng.gen_bool(0.5) {
            s.push('\n');
        }
        let s2 = s.clone();
        let via_sysfs = i % 4 == 0;
        let r = catch(move || {
            if via_sysfs {
                // public path: a fake sysfs tree with one NUMA node whose cpulist is `s`
                let d = tempfile::tempdir().unwrap();
                let node = d.path().join("devices/system/node/node0");
                std::fs::create_dir_all(&node).unwrap();
                std::fs::write(node.join("cpulist"), &s2).unwrap();
                let cpu_root = d.path().join("devices/system/cpu");
                std::fs::create_dir_all(&cpu_root).unwrap();
                let parsed = query_engine::execution::topology::verif_parse_cpulist(&s2);
                for c in &parsed {
                    std::fs::create_dir_all(cpu_root.join(format!("cpu{c}"))).unwrap();
                }
                let t = query_engine::execution::topology::Topology::from_sysfs(d.path(), None);
                if t.num_numa_nodes() >= 1 && !parsed.is_empty() {
                    t.cpus_for_node(0).to_vec()
                } else {
                    parsed
                }
            } else {
                query_engine::execution::topology::verif_parse_cpulist(&s2)
            }
        });
        match r {
            Ok(v) => out.put(&json!({"ev": "parse", "parts": parts, "s": s, "got": v, "panic": 0, "sysfs": via_sysfs})),
            Err(p) => out.put(&json!({"ev": "parse", "parts": parts, "s": s, "got": [], "panic": 1, "msg": p})),
        }
        let (w, m) = (rng.gen_range(0..40usize), rng.gen_range(0..40usize));
        match catch(move || query_engine::execution::topology::workers_for(w, m)) {
            Ok(r) => out.put(&json!({"ev": "workers", "w": w, "m": m, "r": r, "panic": 0})),
            Err(_) => out.put(&json!({"ev": "workers", "w": w, "m": m, "r": 0, "panic": 1})),
        }
    }
    out.finish();
    0
}

/// cases: {"bytes":[..]} -> {"bytes","got": null | [..]} | {"panic"}
pub fn chunk_replay(a: &[String]) -> i32 {
    quiet_panics();
    let cases = read_ndjson(&a[0]);
    let mut out = Out::create(&a[1]);
    for c in cases {
        let bytes: Vec<u8> = if let Some(h) = c.get("hexsize") {
            // huge-size token: "<hex>\r\n" followed by the given tail bytes
            let mut b = h.as_str().unwrap().as_bytes().to_vec();
            b.extend_from_slice(b"\r\n");
            for x in c["tail"].as_array().unwrap() {
                b.push(x.as_u64().unwrap() as u8);
            }
            b
        } else {
            c["bytes"].as_array().unwrap().iter().map(|x| x.as_u64().unwrap() as u8).collect()
        };
        let b2 = bytes.clone();
        let mut rec = c.clone();
        match catch(move || query_engine::metastore::gravitino::verif_dechunk(&b2)) {
            Ok(Some(v)) => {
                rec["got"] = json!(v);
                rec["outcome"] = json!("some");
            }
            Ok(None) => {
                rec["got"] = json!([]);
                rec["outcome"] = json!("none");
            }
            Err(p) => {
                rec["got"] = json!([]);
                rec["outcome"] = json!("panic");
                rec["msg"] = json!(p);
            }
        }
        out.put(&rec);
    }
    out.finish();
    0
}
