//! fuzz — C29 "no SQL input crashes or hangs the engine".
//!
//!   qev fuzz-worker <schemas.json> <stmts.ndjson> <out.ndjson> <start> <end> <deadline_secs>
//!   qev fuzz-one    <schemas.json> <stmts.ndjson> <out.ndjson> <index> <deadline_secs>
//!
//! schemas.json: {"A":[table..], "B":[..], "C":[..]}      (tables in the funcs.rs typed format)
//! stmts.ndjson: {"h":hash, "sql":text, "on":["A","B","C"]} | {"h","sql","tables":[sqlrun-format tables]}
//! out.ndjson (appended, flushed line by line so that a dying process leaves a usable prefix):
//!   {"b":index,"s":schema}                                   statement is about to run
//!   {"i":index,"h":hash,"s":schema,"k":"ok","n":rows}        returned a result
//!   {"i":..,"k":"err","cls":class}                           returned an error
//!   {"i":..,"k":"panic","msg":..,"loc":..}                   a panic was raised anywhere in the process while it ran
//!   {"i":..,"k":"hang"}                                      deadline exceeded (the process then exits with status 3)
//! A stack overflow / abort / allocation failure kills the process: the supervisor sees a "b" line
//! without its "i" line plus the exit signal.  Every statement runs on the MAIN thread
//! (Runtime::block_on), whose stack is the process stack (RLIMIT_STACK, set to 8 MiB by the supervisor).
use crate::util::*;
use query_engine::execution::ExecutionContext;
use serde_json::{json, Value};
use std::io::Write;
use std::sync::atomic::{AtomicI64, AtomicU64, Ordering};
use std::sync::{Arc, Mutex};

static PANICS: Mutex<Vec<(String, String)>> = Mutex::new(Vec::new());

fn install_hook() {
    std::panic::set_hook(Box::new(|info| {
        let msg = if let Some(s) = info.payload().downcast_ref::<&str>() {
            s.to_string()
        } else if let Some(s) = info.payload().downcast_ref::<String>() {
            s.clone()
        } else {
            "panic".to_string()
        };
        let loc = info.location().map(|l| format!("{}:{}", l.file(), l.line())).unwrap_or_default();
        if let Ok(mut g) = PANICS.lock() {
            if g.len() < 8 {
                g.push((msg.chars().take(300).collect(), loc));
            }
        }
    }));
}

struct Sink {
    f: std::fs::File,
}
impl Sink {
    fn put(&mut self, v: &Value) {
        let mut s = serde_json::to_string(v).unwrap();
        s.push('\n');
        self.f.write_all(s.as_bytes()).unwrap();
        let _ = self.f.flush();
    }
}

fn now_ms() -> u64 {
    std::time::SystemTime::now().duration_since(std::time::UNIX_EPOCH).unwrap().as_millis() as u64
}

fn build_typed(tables: &Value) -> ExecutionContext {
    let mut ctx = ExecutionContext::new();
    for t in tables.as_array().cloned().unwrap_or_default() {
        let (name, schema, batch) = crate::funcs::build_table(&t);
        // split big tables into several batches so that multi-batch paths are exercised
        let n = batch.num_rows();
        let batches = if n > 600 {
            let k = 3;
            (0..k).map(|i| batch.slice(i * n / k, (i + 1) * n / k - i * n / k)).collect()
        } else {
            vec![batch]
        };
        ctx.register_table(name, schema, batches);
    }
    ctx
}

fn build_inline(tables: &Value) -> ExecutionContext {
    let mut ctx = ExecutionContext::new();
    for t in tables.as_array().cloned().unwrap_or_default() {
        let td = crate::sqlrun::TableData::from_json(&t);
        let b = td.batch(0, td.rows.len());
        ctx.register_table(td.name.clone(), td.schema.clone(), vec![b]);
    }
    ctx
}

pub fn worker(a: &[String]) -> i32 {
    install_hook();
    let schemas: Value = serde_json::from_str(&std::fs::read_to_string(&a[0]).unwrap()).unwrap();
    let stmts = read_ndjson(&a[1]);
    let start: usize = a[3].parse().unwrap();
    let end: usize = a[4].parse::<usize>().unwrap().min(stmts.len());
    let deadline: u64 = a[5].parse().unwrap();
    let f = std::fs::OpenOptions::new().create(true).append(true).open(&a[2]).unwrap();
    let sink = Arc::new(Mutex::new(Sink { f }));
    let rt = tokio::runtime::Builder::new_multi_thread().worker_threads(2).enable_all().build().unwrap();
    let mut ctxs: Vec<(String, ExecutionContext)> = Vec::new();
    for (name, tabs) in schemas.as_object().unwrap() {
        ctxs.push((name.clone(), build_typed(tabs)));
    }
    // watchdog: a statement that exceeds the deadline is recorded as "hang" and the process exits(3)
    let started = Arc::new(AtomicU64::new(0));
    let current = Arc::new(AtomicI64::new(-1));
    let cur_schema = Arc::new(Mutex::new(String::new()));
    {
        let (started, current, cur_schema, sink) = (started.clone(), current.clone(), cur_schema.clone(), sink.clone());
        let hashes: Vec<Value> = stmts.iter().map(|s| s["h"].clone()).collect();
        std::thread::spawn(move || loop {
            std::thread::sleep(std::time::Duration::from_millis(100));
            let t0 = started.load(Ordering::SeqCst);
            let idx = current.load(Ordering::SeqCst);
            if t0 > 0 && idx >= 0 && now_ms().saturating_sub(t0) > deadline * 1000 {
                let s = cur_schema.lock().map(|g| g.clone()).unwrap_or_default();
                if let Ok(mut g) = sink.lock() {
                    g.put(&json!({"i": idx, "h": hashes[idx as usize], "s": s, "k": "hang"}));
                }
                unsafe { libc::_exit(3) };
            }
        });
    }
    let selftest = std::env::var("QEV_FUZZ_SELFTEST").is_ok();
    for idx in start..end {
        let st = &stmts[idx];
        let sql = st["sql"].as_str().unwrap();
        let inline_ctx = st.get("tables").map(build_inline);
        let targets: Vec<(String, &ExecutionContext)> = match &inline_ctx {
            Some(c) => vec![("I".to_string(), c)],
            None => {
                let on: Vec<String> = st
                    .get("on")
                    .and_then(|v| v.as_array())
                    .map(|v| v.iter().map(|x| x.as_str().unwrap().to_string()).collect())
                    .unwrap_or_else(|| ctxs.iter().map(|(n, _)| n.clone()).collect());
                ctxs.iter().filter(|(n, _)| on.contains(n)).map(|(n, c)| (n.clone(), c)).collect()
            }
        };
        for (sname, ctx) in targets {
            sink.lock().unwrap().put(&json!({"b": idx, "s": sname}));
            PANICS.lock().unwrap().clear();
            *cur_schema.lock().unwrap() = sname.clone();
            current.store(idx as i64, Ordering::SeqCst);
            let t_begin = now_ms();
            started.store(t_begin, Ordering::SeqCst);
            let res = std::panic::catch_unwind(std::panic::AssertUnwindSafe(|| {
                if selftest {
                    // ./check C29 --selftest: faults injected by the HARNESS, to show that each kind is observed
                    if sql.contains("SELFTEST_PANIC") {
                        panic!("selftest panic");
                    } else if sql.contains("SELFTEST_ABORT") {
                        std::process::abort();
                    } else if sql.contains("SELFTEST_OVERFLOW") {
                        std::hint::black_box(deep(1));
                    } else if sql.contains("SELFTEST_HANG") {
                        loop {
                            std::thread::sleep(std::time::Duration::from_secs(1));
                        }
                    }
                }
                rt.block_on(async { ctx.sql(sql).await })
            }));
            started.store(0, Ordering::SeqCst);
            let recorded: Vec<(String, String)> = PANICS.lock().unwrap().clone();
            let mut o = json!({"i": idx, "h": st["h"], "s": sname, "ms": now_ms().saturating_sub(t_begin)});
            match res {
                Err(_) => {
                    o["k"] = json!("panic");
                    o["unwound"] = json!(1);
                }
                Ok(Ok(r)) => {
                    o["k"] = json!("ok");
                    o["n"] = json!(r.row_count);
                }
                Ok(Err(e)) => {
                    o["k"] = json!("err");
                    o["cls"] = json!(crate::sqlrun::err_class(&e));
                    o["emsg"] = json!(format!("{e}").chars().take(160).collect::<String>());
                }
            }
            if let Some((m, l)) = recorded.first() {
                // a panic anywhere in the process while the statement ran — even one the engine turned
                // into an error value — is a panic for the purposes of the property
                o["ret"] = o["k"].clone();
                o["k"] = json!("panic");
                o["msg"] = json!(m);
                o["loc"] = json!(l);
            }
            // the parser does not look at the catalog: a parse error on the first schema is the outcome on all of them
            let parse_err = o["k"] == "err" && o["cls"] == "Parse";
            sink.lock().unwrap().put(&o);
            if parse_err {
                break;
            }
        }
    }
    current.store(-1, Ordering::SeqCst);
    0
}

#[inline(never)]
fn deep(n: u64) -> u64 {
    let pad = [n; 64];
    if n == u64::MAX {
        return 0;
    }
    std::hint::black_box(pad)[0] + deep(n + 1)
}

pub fn one(a: &[String]) -> i32 {
    let idx: usize = a[3].parse().unwrap();
    let args = vec![a[0].clone(), a[1].clone(), a[2].clone(), idx.to_string(), (idx + 1).to_string(), a[4].clone()];
    worker(&args)
}
