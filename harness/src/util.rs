use serde_json::Value;
use std::io::{BufRead, BufReader, BufWriter, Write};

pub fn read_ndjson(path: &str) -> Vec<Value> {
    let f = std::fs::File::open(path).unwrap_or_else(|e| panic!("open {path}: {e}"));
    BufReader::new(f)
        .lines()
        .map(|l| l.unwrap())
        .filter(|l| !l.trim().is_empty())
        .map(|l| serde_json::from_str(&l).unwrap_or_else(|e| panic!("bad json line {l}: {e}")))
        .collect()
}

pub struct Out {
    w: BufWriter<std::fs::File>,
}

impl Out {
    pub fn create(path: &str) -> Out {
        Out { w: BufWriter::new(std::fs::File::create(path).unwrap_or_else(|e| panic!("create {path}: {e}"))) }
    }
    pub fn put(&mut self, v: &Value) {
        serde_json::to_writer(&mut self.w, v).unwrap();
        self.w.write_all(b"\n").unwrap();
    }
    pub fn finish(mut self) {
        self.w.flush().unwrap();
    }
}

/// Run `f`, turning a panic into Err(message). A panic in code under test is data.
pub fn catch<T>(f: impl FnOnce() -> T + std::panic::UnwindSafe) -> Result<T, String> {
    std::panic::catch_unwind(f).map_err(|e| {
        if let Some(s) = e.downcast_ref::<&str>() {
            s.to_string()
        } else if let Some(s) = e.downcast_ref::<String>() {
            s.clone()
        } else {
            "panic".to_string()
        }
    })
}

pub fn quiet_panics() {
    if std::env::var("QEV_LOUD").is_ok() {
        return;
    }
    std::panic::set_hook(Box::new(|_| {}));
}
