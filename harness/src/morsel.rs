//! X03 (parent C07) — the morsel-driven parallel Parquet path: `ParallelParquetSource` and the
//! aggregation consumer (`AggregationState`, `execute_morsel_aggregation`, `MorselAggregateExec`).
//!
//! `qev morsel-mk <tables.ndjson> <out.ndjson>`        write real multi-file / multi-row-group Parquet tables
//! `qev morsel-sched <cases.ndjson> <out.ndjson>`      replay TLC-emitted schedules (spec/Morsel.tla, Hist = TRUE) on the
//!                                                     real source: W real threads, one public call per step, sequenced
//!                                                     by the harness; progress() read after every step
//! `qev morsel-free <cases.ndjson> <out.ndjson>`       free-running threads on the real source; per-thread call histories
//!                                                     with global tickets (start/end) for spec/MorselTrace.tla
//! `qev morsel-readall <cases.ndjson> <out.ndjson>`    read_all_parallel / read_and_process (rayon pool sized by
//!                                                     RAYON_NUM_THREADS of this process) + an independent sequential read
//! `qev morsel-agg <cases.ndjson> <out.ndjson>`        aggregation: TLC-emitted law cases on real AggregationStates,
//!                                                     partial states over real row groups in any assignment / merge
//!                                                     order, execute_morsel_aggregation, MorselAggregateExec
//!
//! Table row = [id, k, g, v, s, f4]: id Int64 (unique, never NULL), k Int64, g Int32, v Int64, s Utf8 (code -> text),
//! f Float64 = f4 / 4 (exact in any summation order).  NULLTOK marks NULL.
use crate::util::*;
use arrow::array::{Array, ArrayRef, BooleanArray, Float64Array, Int32Array, Int64Array, StringArray};
use arrow::datatypes::{DataType, Field, Schema, SchemaRef};
use arrow::record_batch::RecordBatch;
use parquet::arrow::arrow_reader::ParquetRecordBatchReaderBuilder;
use parquet::arrow::ArrowWriter;
use parquet::file::properties::{EnabledStatistics, WriterProperties};
use query_engine::physical::morsel::{ParallelParquetSource, RowGroupWork};
use query_engine::physical::morsel_agg::{execute_morsel_aggregation, AggregationState};
use query_engine::physical::operators::hash_agg::AggregateExpr;
use query_engine::physical::operators::{filter_batches, MorselAggregateExec};
use query_engine::physical::PhysicalOperator;
use query_engine::planner::{AggregateFunction, BinaryOp, Column, Expr, ScalarValue};
use serde_json::{json, Value};
use std::path::PathBuf;
use std::sync::atomic::{AtomicBool, AtomicU64, Ordering};
use std::sync::{mpsc, Arc, Mutex};

pub const NULLTOK: i64 = -1073741824;
const COLS: [&str; 6] = ["id", "k", "g", "v", "s", "f"];

fn table_schema() -> SchemaRef {
    Arc::new(Schema::new(vec![
        Field::new("id", DataType::Int64, false),
        Field::new("k", DataType::Int64, true),
        Field::new("g", DataType::Int32, true),
        Field::new("v", DataType::Int64, true),
        Field::new("s", DataType::Utf8, true),
        Field::new("f", DataType::Float64, true),
    ]))
}

fn opt(v: &Value) -> Option<i64> {
    let x = v.as_i64().expect("row cell must be an integer");
    if x == NULLTOK {
        None
    } else {
        Some(x)
    }
}

/// text of string code c: "short" codes are 1-2 bytes, "long" ones share their first 8 bytes and their length
/// (the lossy raw-key encoding of the perfect-hash path cannot tell them apart)
fn str_of(code: i64, smode: &str) -> String {
    match smode {
        "long" => format!("Supplier#{:09}", code),
        _ => format!("s{}", code),
    }
}

fn rows_to_batch(schema: &SchemaRef, rows: &[Value], smode: &str) -> RecordBatch {
    let col = |i: usize| -> Vec<Option<i64>> { rows.iter().map(|r| opt(&r[i])).collect() };
    let ids: Vec<i64> = rows.iter().map(|r| r[0].as_i64().unwrap()).collect();
    let cols: Vec<ArrayRef> = vec![
        Arc::new(Int64Array::from(ids)),
        Arc::new(Int64Array::from(col(1))),
        Arc::new(Int32Array::from(col(2).into_iter().map(|x| x.map(|v| v as i32)).collect::<Vec<_>>())),
        Arc::new(Int64Array::from(col(3))),
        Arc::new(StringArray::from(col(4).into_iter().map(|x| x.map(|c| str_of(c, smode))).collect::<Vec<_>>())),
        Arc::new(Float64Array::from(col(5).into_iter().map(|x| x.map(|q| q as f64 / 4.0)).collect::<Vec<_>>())),
    ];
    RecordBatch::try_new(schema.clone(), cols).expect("harness: table batch")
}

/// one cell as JSON: ints as ints, NULL as NULLTOK, strings as text, floats as 4*x when that is an integer (else the float)
fn cell(a: &ArrayRef, i: usize) -> Value {
    if a.is_null(i) {
        return json!(NULLTOK);
    }
    match a.data_type() {
        DataType::Int64 => json!(a.as_any().downcast_ref::<Int64Array>().unwrap().value(i)),
        DataType::Int32 => json!(a.as_any().downcast_ref::<Int32Array>().unwrap().value(i)),
        DataType::Utf8 => json!(a.as_any().downcast_ref::<StringArray>().unwrap().value(i)),
        DataType::Boolean => json!(a.as_any().downcast_ref::<BooleanArray>().unwrap().value(i)),
        DataType::Float64 => {
            let x = a.as_any().downcast_ref::<Float64Array>().unwrap().value(i);
            let q = x * 4.0;
            if q.is_finite() && q == q.trunc() && q.abs() < 9.0e15 {
                json!({"q": q as i64})
            } else {
                json!({"x": format!("{:?}", x)})
            }
        }
        DataType::Dictionary(_, _) => {
            let c = arrow::compute::cast(a, &DataType::Utf8).expect("dict -> utf8");
            cell(&c, i)
        }
        other => json!(format!("?{other:?}")),
    }
}

fn batch_rows(b: &RecordBatch) -> Vec<Value> {
    (0..b.num_rows()).map(|i| Value::Array(b.columns().iter().map(|c| cell(c, i)).collect())).collect()
}

fn ids_of(batches: &[RecordBatch]) -> Vec<i64> {
    let mut out = Vec::new();
    for b in batches {
        let idx = b.schema().index_of("id").expect("id column");
        let a = b.column(idx).as_any().downcast_ref::<Int64Array>().expect("id is int64");
        out.extend(a.values().iter().copied());
    }
    out.sort_unstable();
    out
}

fn paths_of(c: &Value) -> Vec<PathBuf> {
    c["paths"].as_array().expect("paths").iter().map(|p| PathBuf::from(p.as_str().unwrap())).collect()
}

/// row groups per file, read independently of the engine
fn rg_counts(paths: &[PathBuf]) -> Vec<usize> {
    paths
        .iter()
        .map(|p| ParquetRecordBatchReaderBuilder::try_new(std::fs::File::open(p).unwrap()).unwrap().metadata().num_row_groups())
        .collect()
}

/// global 1-based ordinal of (file, row group) in queue order
fn ordinal(counts: &[usize], w: &RowGroupWork) -> i64 {
    (counts[..w.file_idx].iter().sum::<usize>() + w.row_group_idx + 1) as i64
}

// ------------------------------------------------------------------------------------------------ mk
pub fn mk(a: &[String]) -> i32 {
    if a.len() < 2 {
        eprintln!("usage: qev morsel-mk <tables.ndjson> <out.ndjson>");
        return 2;
    }
    let mut out = Out::create(&a[1]);
    let schema = table_schema();
    for t in read_ndjson(&a[0]) {
        let dir = PathBuf::from(t["dir"].as_str().unwrap());
        if dir.exists() {
            panic!("harness: {} exists (the footer cache is keyed by path + mtime: never rewrite a table)", dir.display());
        }
        std::fs::create_dir_all(&dir).unwrap();
        let smode = t["smode"].as_str().unwrap_or("short");
        let mut paths = Vec::new();
        let mut nrg = Vec::new();
        for (fi, f) in t["files"].as_array().unwrap().iter().enumerate() {
            let path = dir.join(format!("f{fi:02}.parquet"));
            let props = WriterProperties::builder()
                .set_max_row_group_size(1 << 20)
                .set_statistics_enabled(if t["stats"].as_str() == Some("none") { EnabledStatistics::None } else { EnabledStatistics::Page })
                .build();
            let mut w = ArrowWriter::try_new(std::fs::File::create(&path).unwrap(), schema.clone(), Some(props)).unwrap();
            let rgs = f.as_array().unwrap();
            for rg in rgs {
                let rows = rg.as_array().unwrap();
                if rows.is_empty() {
                    panic!("harness: ArrowWriter cannot write an empty row group");
                }
                w.write(&rows_to_batch(&schema, rows, smode)).unwrap();
                w.flush().unwrap();
            }
            w.close().unwrap();
            let n = rg_counts(&[path.clone()])[0];
            if n != rgs.len() {
                panic!("harness: wrote {} row groups, footer has {n}", rgs.len());
            }
            nrg.push(n);
            paths.push(path.to_string_lossy().to_string());
        }
        out.put(&json!({"tid": t["tid"], "paths": paths, "nrg": nrg}));
    }
    out.finish();
    0
}

// ------------------------------------------------------------------------------------------------ sched
enum Cmd {
    Get,
    Read,
    Complete,
    Stop,
}

/// what a worker thread answers: (result ordinal / row count, ids read, error or panic text)
type Ans = (i64, Vec<i64>, Option<String>);

fn worker_loop(src: Arc<ParallelParquetSource>, counts: Arc<Vec<usize>>, rx: mpsc::Receiver<Cmd>, tx: mpsc::Sender<Ans>) {
    let mut held: Option<RowGroupWork> = None;
    while let Ok(cmd) = rx.recv() {
        let ans: Ans = match cmd {
            Cmd::Stop => break,
            Cmd::Get => {
                let s = src.clone();
                match catch(std::panic::AssertUnwindSafe(move || s.get_work())) {
                    Ok(Some(w)) => {
                        let o = ordinal(&counts, &w);
                        held = Some(w);
                        (o, vec![], None)
                    }
                    Ok(None) => (0, vec![], None),
                    Err(m) => (-1, vec![], Some(format!("panic: {m}"))),
                }
            }
            Cmd::Read => match &held {
                None => (-1, vec![], Some("harness: read without held work".into())),
                Some(w) => {
                    let (s, w2) = (src.clone(), w.clone());
                    match catch(std::panic::AssertUnwindSafe(move || s.read_row_group(&w2))) {
                        Ok(Ok(bs)) => {
                            let ids = ids_of(&bs);
                            (ids.len() as i64, ids, None)
                        }
                        Ok(Err(e)) => (-1, vec![], Some(e.to_string())),
                        Err(m) => (-1, vec![], Some(format!("panic: {m}"))),
                    }
                }
            },
            Cmd::Complete => {
                let s = src.clone();
                held = None;
                match catch(std::panic::AssertUnwindSafe(move || s.complete_work())) {
                    Ok(()) => (0, vec![], None),
                    Err(m) => (-1, vec![], Some(format!("panic: {m}"))),
                }
            }
        };
        if tx.send(ans).is_err() {
            break;
        }
    }
}

pub fn sched(a: &[String]) -> i32 {
    quiet_panics();
    if a.len() < 2 {
        eprintln!("usage: qev morsel-sched <cases.ndjson> <out.ndjson>");
        return 2;
    }
    let mut out = Out::create(&a[1]);
    let schema = table_schema();
    for c in read_ndjson(&a[0]) {
        let paths = paths_of(&c);
        let counts = Arc::new(rg_counts(&paths));
        let nw = c["w"].as_u64().unwrap() as usize;
        let src = match ParallelParquetSource::try_new(paths.clone(), schema.clone(), None, 8192) {
            Ok(s) => Arc::new(s),
            Err(e) => {
                out.put(&json!({"cid": c["cid"], "err": e.to_string()}));
                continue;
            }
        };
        let mut txs = Vec::new();
        let mut rxs = Vec::new();
        let mut handles = Vec::new();
        for _ in 0..nw {
            let (ctx, crx) = mpsc::channel::<Cmd>();
            let (atx, arx) = mpsc::channel::<Ans>();
            let (s, k) = (src.clone(), counts.clone());
            handles.push(std::thread::spawn(move || worker_loop(s, k, crx, atx)));
            txs.push(ctx);
            rxs.push(arx);
        }
        let p0 = src.progress();
        let mut res = Vec::new();
        let mut err = Value::Null;
        for st in c["steps"].as_array().unwrap() {
            let w = st[0].as_u64().unwrap() as usize - 1;
            let cmd = match st[1].as_i64().unwrap() {
                1 => Cmd::Get,
                2 => Cmd::Read,
                3 => Cmd::Complete,
                other => panic!("harness: unknown op {other}"),
            };
            txs[w].send(cmd).unwrap();
            let (r, ids, e) = rxs[w].recv().expect("worker thread died");
            let (pc, pt) = src.progress();
            res.push(json!([r, pc, pt, ids]));
            if let Some(e) = e {
                err = json!(e);
                break;
            }
        }
        for t in &txs {
            let _ = t.send(Cmd::Stop);
        }
        for h in handles {
            let _ = h.join();
        }
        let mut rec = json!({"cid": c["cid"], "p0": [p0.0, p0.1], "total_work": src.total_work(), "res": res});
        if !err.is_null() {
            rec["err"] = err;
        }
        out.put(&rec);
    }
    out.finish();
    0
}

// ------------------------------------------------------------------------------------------------ free
struct Call {
    op: i64,
    s: u64,
    e: u64,
    r: i64,
    c: i64,
    t: i64,
    ids: Vec<i64>,
    err: Option<String>,
}

fn call_json(c: &Call) -> Value {
    let mut v = json!({"op": c.op, "s": c.s, "e": c.e, "r": c.r, "c": c.c, "t": c.t, "ids": c.ids});
    if let Some(e) = &c.err {
        v["err"] = json!(e);
    }
    v
}

pub fn free(a: &[String]) -> i32 {
    quiet_panics();
    if a.len() < 2 {
        eprintln!("usage: qev morsel-free <cases.ndjson> <out.ndjson>");
        return 2;
    }
    let mut out = Out::create(&a[1]);
    let schema = table_schema();
    for c in read_ndjson(&a[0]) {
        let paths = paths_of(&c);
        let counts = Arc::new(rg_counts(&paths));
        let nt = c["threads"].as_u64().unwrap() as usize;
        let hammer = c["mode"].as_str() == Some("hammer");
        let prog_every = c["prog_every"].as_u64().unwrap_or(2).max(1) as usize;
        let src = match ParallelParquetSource::try_new(paths.clone(), schema.clone(), None, 8192) {
            Ok(s) => Arc::new(s),
            Err(e) => {
                out.put(&json!({"cid": c["cid"], "err": e.to_string()}));
                continue;
            }
        };
        let ticket = Arc::new(AtomicU64::new(1));
        let go = Arc::new(AtomicBool::new(false));
        let handed: Arc<Mutex<Vec<RowGroupWork>>> = Arc::new(Mutex::new(Vec::new()));
        let mut handles = Vec::new();
        for ti in 0..nt {
            let (src, counts, ticket, go, handed) = (src.clone(), counts.clone(), ticket.clone(), go.clone(), handed.clone());
            handles.push(std::thread::spawn(move || -> Vec<Call> {
                let mut calls: Vec<Call> = Vec::new();
                let tk = || ticket.fetch_add(1, Ordering::SeqCst);
                while !go.load(Ordering::SeqCst) {
                    std::hint::spin_loop();
                }
                let mut n = ti; // stagger the progress() calls between threads
                loop {
                    let s = tk();
                    let w = src.get_work();
                    let e = tk();
                    let r = w.as_ref().map(|w| ordinal(&counts, w)).unwrap_or(0);
                    calls.push(Call { op: 1, s, e, r, c: 0, t: 0, ids: vec![], err: None });
                    let Some(w) = w else { break };
                    if hammer {
                        handed.lock().unwrap().push(w);
                    } else {
                        let s = tk();
                        let got = src.read_row_group(&w);
                        let e = tk();
                        match got {
                            Ok(bs) => calls.push(Call { op: 2, s, e, r, c: 0, t: 0, ids: ids_of(&bs), err: None }),
                            Err(x) => {
                                calls.push(Call { op: 2, s, e, r, c: 0, t: 0, ids: vec![], err: Some(x.to_string()) });
                                break;
                            }
                        }
                        let s = tk();
                        src.complete_work();
                        let e = tk();
                        calls.push(Call { op: 3, s, e, r: 0, c: 0, t: 0, ids: vec![], err: None });
                    }
                    n += 1;
                    if n % prog_every == 0 {
                        let s = tk();
                        let (pc, pt) = src.progress();
                        let e = tk();
                        calls.push(Call { op: 4, s, e, r: 0, c: pc as i64, t: pt as i64, ids: vec![], err: None });
                    }
                }
                calls
            }));
        }
        go.store(true, Ordering::SeqCst);
        let mut all: Vec<Vec<Value>> = Vec::new();
        let mut died = false;
        for h in handles {
            match h.join() {
                Ok(cs) => all.push(cs.iter().map(call_json).collect()),
                Err(_) => {
                    died = true;
                    all.push(vec![]);
                }
            }
        }
        if hammer {
            // the main thread plays the consumer afterwards: reads and completes everything that was handed out
            let mut calls: Vec<Call> = Vec::new();
            let tk = || ticket.fetch_add(1, Ordering::SeqCst);
            let ws: Vec<RowGroupWork> = handed.lock().unwrap().clone();
            for w in ws {
                let r = ordinal(&counts, &w);
                let s = tk();
                let got = src.read_row_group(&w);
                let e = tk();
                match got {
                    Ok(bs) => calls.push(Call { op: 2, s, e, r, c: 0, t: 0, ids: ids_of(&bs), err: None }),
                    Err(x) => calls.push(Call { op: 2, s, e, r, c: 0, t: 0, ids: vec![], err: Some(x.to_string()) }),
                }
                let s = tk();
                src.complete_work();
                let e = tk();
                calls.push(Call { op: 3, s, e, r: 0, c: 0, t: 0, ids: vec![], err: None });
                let s = tk();
                let (pc, pt) = src.progress();
                let e = tk();
                calls.push(Call { op: 4, s, e, r: 0, c: pc as i64, t: pt as i64, ids: vec![], err: None });
            }
            all.push(calls.iter().map(call_json).collect());
        }
        let (fc, ft) = src.progress();
        let mut rec = json!({"cid": c["cid"], "T": all.len(), "R": src.total_work(), "calls": all, "fin": [fc, ft], "mode": if hammer { 2 } else { 1 }});
        if died {
            rec["err"] = json!("a worker thread panicked");
        }
        out.put(&rec);
    }
    out.finish();
    0
}

// ------------------------------------------------------------------------------------------------ expressions
fn colx(name: &str) -> Expr {
    Expr::Column(Column::new(name))
}

fn lit_for(col: &str, v: &Value) -> ScalarValue {
    match col {
        "g" => ScalarValue::Int32(v.as_i64().unwrap() as i32),
        "s" => ScalarValue::Utf8(v.as_str().unwrap().to_string()),
        "f" => ScalarValue::Float64((v.as_i64().unwrap() as f64 / 4.0).into()),
        _ => ScalarValue::Int64(v.as_i64().unwrap()),
    }
}

fn binop(op: &str) -> BinaryOp {
    match op {
        "eq" => BinaryOp::Eq,
        "ne" => BinaryOp::NotEq,
        "lt" => BinaryOp::Lt,
        "le" => BinaryOp::LtEq,
        "gt" => BinaryOp::Gt,
        "ge" => BinaryOp::GtEq,
        other => panic!("harness: unknown comparison {other}"),
    }
}

/// filter AST -> Expr: {"k":"cmp","c":col,"op":..,"l":lit} | {"k":"btw","c":col,"l":lo,"h":hi} | {"k":"and","a":..,"b":..}
fn build_filter(p: &Value) -> Expr {
    match p["k"].as_str().unwrap() {
        "cmp" => {
            let c = p["c"].as_str().unwrap();
            Expr::BinaryExpr { left: Box::new(colx(c)), op: binop(p["op"].as_str().unwrap()), right: Box::new(Expr::Literal(lit_for(c, &p["l"]))) }
        }
        "btw" => {
            let c = p["c"].as_str().unwrap();
            Expr::Between {
                expr: Box::new(colx(c)),
                low: Box::new(Expr::Literal(lit_for(c, &p["l"]))),
                high: Box::new(Expr::Literal(lit_for(c, &p["h"]))),
                negated: false,
            }
        }
        "and" => Expr::BinaryExpr { left: Box::new(build_filter(&p["a"])), op: BinaryOp::And, right: Box::new(build_filter(&p["b"])) },
        other => panic!("harness: unknown filter kind {other}"),
    }
}

fn opt_filter(c: &Value) -> Option<Expr> {
    if c["filter"].is_null() {
        None
    } else {
        Some(build_filter(&c["filter"]))
    }
}

fn opt_proj(c: &Value) -> Option<Vec<usize>> {
    c["proj"].as_array().map(|v| v.iter().map(|x| x.as_u64().unwrap() as usize).collect())
}

/// independent sequential read: the parquet crate directly, file by file, row group by row group
fn independent_read(paths: &[PathBuf]) -> Vec<RecordBatch> {
    let mut out = Vec::new();
    for p in paths {
        let b = ParquetRecordBatchReaderBuilder::try_new(std::fs::File::open(p).unwrap()).unwrap();
        for x in b.with_batch_size(1024).build().unwrap() {
            out.push(x.unwrap());
        }
    }
    out
}

fn project(b: &RecordBatch, proj: &Option<Vec<usize>>) -> RecordBatch {
    match proj {
        None => b.clone(),
        Some(p) => {
            let mut q = p.clone();
            q.sort_unstable(); // ProjectionMask::roots delivers the chosen columns in file order
            q.dedup();
            b.project(&q).unwrap()
        }
    }
}

fn sorted_rows(bs: &[RecordBatch]) -> Vec<Value> {
    let mut rows: Vec<Value> = bs.iter().flat_map(batch_rows).collect();
    rows.sort_by_key(|r| r.to_string());
    rows
}

// ------------------------------------------------------------------------------------------------ readall
pub fn readall(a: &[String]) -> i32 {
    quiet_panics();
    if a.len() < 2 {
        eprintln!("usage: qev morsel-readall <cases.ndjson> <out.ndjson>");
        return 2;
    }
    let mut out = Out::create(&a[1]);
    let schema = table_schema();
    for c in read_ndjson(&a[0]) {
        let paths = paths_of(&c);
        let proj = opt_proj(&c);
        let filter = opt_filter(&c);
        let mode = c["mode"].as_str().unwrap_or("all").to_string();
        let mut rec = json!({"cid": c["cid"], "mode": mode});
        // the independent read (+ the engine's own evaluator for the filter, on the independent batches)
        let indep = independent_read(&paths);
        let indep_f: Result<Vec<RecordBatch>, String> = match &filter {
            None => Ok(indep.clone()),
            Some(f) => {
                let (i2, f2) = (indep.clone(), f.clone());
                match catch(std::panic::AssertUnwindSafe(move || filter_batches(i2, &f2))) {
                    Ok(Ok(b)) => Ok(b),
                    Ok(Err(e)) => Err(e.to_string()),
                    Err(m) => Err(format!("panic: {m}")),
                }
            }
        };
        match indep_f {
            Ok(bs) => rec["indep"] = json!(sorted_rows(&bs.iter().map(|b| project(b, &proj)).collect::<Vec<_>>())),
            Err(e) => rec["indep_err"] = json!(e),
        }
        // fault case: a private copy of the table, one file of which disappears after the source was built
        let vanish = c["vanish"].as_u64().map(|k| k as usize);
        let scratch = std::path::Path::new(&a[1]).parent().map(|p| p.to_path_buf()).unwrap_or_else(|| PathBuf::from("."));
        let tmp = if vanish.is_some() { Some(tempfile::Builder::new().prefix("vanish").tempdir_in(&scratch).expect("tempdir")) } else { None };
        let run_paths: Vec<PathBuf> = match &tmp {
            None => paths.clone(),
            Some(d) => paths
                .iter()
                .enumerate()
                .map(|(i, p)| {
                    let q = d.path().join(format!("f{i:02}.parquet"));
                    std::fs::copy(p, &q).expect("copy table file");
                    q
                })
                .collect(),
        };
        let (p2, s2, pr2, f2, m2) = (run_paths.clone(), schema.clone(), proj.clone(), filter.clone(), mode.clone());
        let run = catch(std::panic::AssertUnwindSafe(move || -> Result<Value, String> {
            let src = ParallelParquetSource::try_new_with_filter(p2.clone(), s2, pr2, 8192, f2.as_ref()).map_err(|e| e.to_string())?;
            if let Some(k) = vanish {
                std::fs::remove_file(&p2[k % p2.len()]).expect("remove table file");
            }
            let total = src.total_work();
            let p0 = src.progress();
            let threads: Mutex<std::collections::HashSet<std::thread::ThreadId>> = Mutex::new(Default::default());
            let res: Result<(Vec<RecordBatch>, usize), String> = if m2 == "process" {
                src.read_and_process(|m| {
                    threads.lock().unwrap().insert(std::thread::current().id());
                    std::thread::sleep(std::time::Duration::from_micros(200)); // let other pool threads reach the queue
                    Ok(m.batch)
                })
                .map(|outs| {
                    let n = outs.len();
                    (outs, n)
                })
                .map_err(|e| e.to_string())
            } else {
                src.read_all_parallel()
                    .map(|ms| {
                        let n = ms.len();
                        (ms.into_iter().map(|m| m.batch).collect(), n)
                    })
                    .map_err(|e| e.to_string())
            };
            let (batches, nmorsels) = match res {
                Ok(x) => x,
                Err(e) => {
                    // the call erred: what progress() says afterwards is still an observable of the protocol
                    let p1 = src.progress();
                    return Ok(json!({"call_err": e.chars().take(300).collect::<String>(), "p1": [p1.0, p1.1], "total": total}));
                }
            };
            let p1 = src.progress();
            let again = src.get_work().is_some();
            let nthreads = threads.lock().unwrap().len();
            Ok(json!({"rows": sorted_rows(&batches), "p0": [p0.0, p0.1], "p1": [p1.0, p1.1], "total": total, "morsels": nmorsels,
                      "threads": nthreads, "work_left": again, "pushed": src.filter_pushed_down()}))
        }));
        match run {
            Ok(Ok(v)) => rec["got"] = v,
            Ok(Err(e)) => rec["err"] = json!(e),
            Err(m) => rec["panic"] = json!(m),
        }
        drop(tmp);
        out.put(&rec);
    }
    out.finish();
    0
}

// ------------------------------------------------------------------------------------------------ agg
fn agg_fn(name: &str) -> AggregateFunction {
    match name {
        "count" => AggregateFunction::Count,
        "sum" => AggregateFunction::Sum,
        "min" => AggregateFunction::Min,
        "max" => AggregateFunction::Max,
        "avg" => AggregateFunction::Avg,
        other => panic!("harness: unknown aggregate {other}"),
    }
}

fn col_type(schema: &SchemaRef, name: &str) -> DataType {
    schema.field_with_name(name).unwrap().data_type().clone()
}

fn agg_out_type(f: &str, input: &DataType) -> DataType {
    match f {
        "count" => DataType::Int64,
        "avg" => DataType::Float64,
        "sum" => match input {
            DataType::Int64 | DataType::Int32 => DataType::Int64,
            _ => DataType::Float64,
        },
        _ => input.clone(),
    }
}

struct AggSpec {
    gb: Vec<String>,
    aggs: Vec<(String, String)>, // (function, input column; "1" = the literal 1: COUNT-star)
    group_exprs: Vec<Expr>,
    input_exprs: Vec<Expr>,
    funcs: Vec<AggregateFunction>,
    input_types: Vec<DataType>,
    out_schema: SchemaRef,
}

fn agg_spec(c: &Value, input: &SchemaRef) -> AggSpec {
    let gb: Vec<String> = c["gb"].as_array().unwrap().iter().map(|x| x.as_str().unwrap().to_string()).collect();
    let aggs: Vec<(String, String)> =
        c["aggs"].as_array().unwrap().iter().map(|x| (x[0].as_str().unwrap().to_string(), x[1].as_str().unwrap().to_string())).collect();
    let mut fields: Vec<Field> = gb.iter().map(|g| Field::new(g, col_type(input, g), true)).collect();
    let mut input_exprs = Vec::new();
    let mut input_types = Vec::new();
    let mut funcs = Vec::new();
    for (i, (f, col)) in aggs.iter().enumerate() {
        let (e, t) = if col == "1" { (Expr::Literal(ScalarValue::Int64(1)), DataType::Int64) } else { (colx(col), col_type(input, col)) };
        fields.push(Field::new(format!("a{i}"), agg_out_type(f, &t), true));
        input_exprs.push(e);
        input_types.push(t);
        funcs.push(agg_fn(f));
    }
    AggSpec {
        group_exprs: gb.iter().map(|g| colx(g)).collect(),
        gb,
        aggs,
        input_exprs,
        funcs,
        input_types,
        out_schema: Arc::new(Schema::new(fields)),
    }
}

fn fold_state(spec: &AggSpec, batches: &[RecordBatch]) -> Result<AggregationState, String> {
    let mut st = AggregationState::new(spec.funcs.clone(), spec.input_types.clone());
    for b in batches {
        st.process_batch(b, &spec.group_exprs, &spec.input_exprs).map_err(|e| e.to_string())?;
    }
    Ok(st)
}

fn finish_state(spec: &AggSpec, st: &AggregationState) -> Result<Value, String> {
    let b = st.build_output(&spec.out_schema).map_err(|e| e.to_string())?;
    Ok(json!(sorted_rows(&[b])))
}

fn guarded(f: impl FnOnce() -> Result<Value, String>) -> Value {
    match catch(std::panic::AssertUnwindSafe(f)) {
        Ok(Ok(v)) => json!({"rows": v}),
        Ok(Err(e)) => json!({"err": e.chars().take(300).collect::<String>()}),
        Err(m) => json!({"panic": m.chars().take(300).collect::<String>()}),
    }
}

/// (k, v) rows of a TLC law case as a two-column batch; ktype picks the key column type
fn law_batch(rows: &[Value], ktype: &str) -> (SchemaRef, RecordBatch) {
    let ks: Vec<Option<i64>> = rows.iter().map(|r| opt(&r[0])).collect();
    let vs: Vec<Option<i64>> = rows.iter().map(|r| opt(&r[1])).collect();
    let (kt, ka): (DataType, ArrayRef) = match ktype {
        "i32" => (DataType::Int32, Arc::new(Int32Array::from(ks.iter().map(|x| x.map(|v| v as i32)).collect::<Vec<_>>()))),
        "utf8" => (DataType::Utf8, Arc::new(StringArray::from(ks.iter().map(|x| x.map(|c| str_of(c, "short"))).collect::<Vec<_>>()))),
        "utf8long" => (DataType::Utf8, Arc::new(StringArray::from(ks.iter().map(|x| x.map(|c| str_of(c, "long"))).collect::<Vec<_>>()))),
        _ => (DataType::Int64, Arc::new(Int64Array::from(ks))),
    };
    let schema = Arc::new(Schema::new(vec![Field::new("k", kt, true), Field::new("v", DataType::Int64, true)]));
    let b = RecordBatch::try_new(schema.clone(), vec![ka, Arc::new(Int64Array::from(vs))]).unwrap();
    (schema, b)
}

fn law_case(c: &Value) -> Value {
    let ktype = c["ktype"].as_str().unwrap_or("i64");
    let (schema, _) = law_batch(&[], ktype);
    let spec = agg_spec(c, &schema);
    // parts: per partial state a list of batches (lists of rows)
    let parts: Vec<Vec<RecordBatch>> = c["parts"]
        .as_array()
        .unwrap()
        .iter()
        .map(|p| p.as_array().unwrap().iter().map(|b| law_batch(b.as_array().unwrap(), ktype).1).collect())
        .collect();
    let order: Vec<usize> = c["order"].as_array().unwrap().iter().map(|x| x.as_u64().unwrap() as usize - 1).collect();
    let seq_batches: Vec<RecordBatch> = c["seq"].as_array().unwrap().iter().map(|b| law_batch(b.as_array().unwrap(), ktype).1).collect();
    let par = guarded(|| {
        let states: Vec<AggregationState> = parts.iter().map(|bs| fold_state(&spec, bs)).collect::<Result<_, _>>()?;
        let mut fin = AggregationState::new(spec.funcs.clone(), spec.input_types.clone());
        for &p in &order {
            fin.merge(&states[p]);
        }
        finish_state(&spec, &fin)
    });
    let seq = guarded(|| finish_state(&spec, &fold_state(&spec, &seq_batches)?));
    // not what the engine does (it always merges into a FRESH state): the first partial state itself as the accumulator
    let used = guarded(|| {
        let states: Vec<AggregationState> = parts.iter().map(|bs| fold_state(&spec, bs)).collect::<Result<_, _>>()?;
        let mut fin = states[order[0]].clone();
        for &p in &order[1..] {
            fin.merge(&states[p]);
        }
        finish_state(&spec, &fin)
    });
    json!({"cid": c["cid"], "par": par, "seq": seq, "used": used})
}

/// partial states over REAL row groups: `assign[i]` = the partial (0-based) that reads queue entry i,
/// `order` = merge order; plus the sequential fold (one state, every row group in queue order)
fn states_case(c: &Value) -> Value {
    let paths = paths_of(c);
    let schema = table_schema();
    let spec = agg_spec(c, &schema);
    let filter = opt_filter(c);
    let assign: Vec<usize> = c["assign"].as_array().unwrap().iter().map(|x| x.as_u64().unwrap() as usize).collect();
    let order: Vec<usize> = c["order"].as_array().unwrap().iter().map(|x| x.as_u64().unwrap() as usize).collect();
    let np = c["np"].as_u64().unwrap() as usize;
    let load = || -> Result<Vec<Vec<RecordBatch>>, String> {
        let src = ParallelParquetSource::try_new_with_filter(paths.clone(), schema.clone(), None, 8192, filter.as_ref()).map_err(|e| e.to_string())?;
        let mut out = Vec::new();
        while let Some(w) = src.get_work() {
            let mut bs = src.read_row_group(&w).map_err(|e| e.to_string())?;
            if let (Some(f), false) = (&filter, src.filter_pushed_down()) {
                bs = filter_batches(bs, f).map_err(|e| e.to_string())?;
            }
            src.complete_work();
            out.push(bs);
        }
        Ok(out)
    };
    let par = guarded(|| {
        let rgs = load()?;
        let mut states: Vec<AggregationState> = (0..np).map(|_| AggregationState::new(spec.funcs.clone(), spec.input_types.clone())).collect();
        for (i, bs) in rgs.iter().enumerate() {
            let p = assign.get(i).copied().unwrap_or(0) % np;
            for b in bs {
                states[p].process_batch(b, &spec.group_exprs, &spec.input_exprs).map_err(|e| e.to_string())?;
            }
        }
        let mut fin = AggregationState::new(spec.funcs.clone(), spec.input_types.clone());
        for &p in &order {
            fin.merge(&states[p]);
        }
        finish_state(&spec, &fin)
    });
    let seq = guarded(|| {
        let rgs = load()?;
        let all: Vec<RecordBatch> = rgs.into_iter().flatten().collect();
        finish_state(&spec, &fold_state(&spec, &all)?)
    });
    json!({"cid": c["cid"], "par": par, "seq": seq})
}

/// the public entry points over real files; the rayon pool of THIS process decides the thread count
fn entry_case(c: &Value, rt: &tokio::runtime::Runtime) -> Value {
    let paths = paths_of(c);
    let schema = table_schema();
    let spec = agg_spec(c, &schema);
    let filter = opt_filter(c);
    let mut rec = json!({"cid": c["cid"]});
    if c["api"].as_str() == Some("exec_fn") {
        let dir = paths[0].parent().unwrap().to_path_buf();
        rec["got"] = guarded(|| {
            let b = execute_morsel_aggregation(&dir, filter.as_ref(), &spec.group_exprs, &spec.funcs, &spec.input_exprs, spec.out_schema.clone(), None)
                .map_err(|e| e.to_string())?;
            Ok(json!(sorted_rows(&[b])))
        });
    } else {
        let aggregates: Vec<AggregateExpr> = spec
            .funcs
            .iter()
            .zip(spec.input_exprs.iter())
            .map(|(f, e)| AggregateExpr { func: *f, input: e.clone(), distinct: false, second_arg: None })
            .collect();
        let op = MorselAggregateExec::new(paths.clone(), schema.clone(), None, filter.clone(), spec.group_exprs.clone(), aggregates, spec.out_schema.clone());
        rec["got"] = guarded(|| {
            use futures::StreamExt;
            let bs: Vec<RecordBatch> = rt.block_on(async {
                let mut s = op.execute(0).await.map_err(|e| e.to_string())?;
                let mut out = Vec::new();
                while let Some(b) = s.next().await {
                    out.push(b.map_err(|e| e.to_string())?);
                }
                Ok::<_, String>(out)
            })?;
            Ok(json!(sorted_rows(&bs)))
        });
    }
    let _ = (&spec.gb, &spec.aggs);
    rec
}

pub fn agg(a: &[String]) -> i32 {
    quiet_panics();
    if a.len() < 2 {
        eprintln!("usage: qev morsel-agg <cases.ndjson> <out.ndjson>");
        return 2;
    }
    let mut out = Out::create(&a[1]);
    let rt = tokio::runtime::Builder::new_multi_thread().worker_threads(2).enable_all().build().unwrap();
    for c in read_ndjson(&a[0]) {
        let rec = match c["kind"].as_str().unwrap() {
            "law" => law_case(&c),
            "states" => states_case(&c),
            "entry" => entry_case(&c, &rt),
            other => panic!("harness: unknown agg case kind {other}"),
        };
        out.put(&rec);
    }
    out.finish();
    0
}

#[allow(dead_code)]
fn _cols() -> [&'static str; 6] {
    COLS
}
