//! C43 — exact vector search is the literal ORDER BY .. LIMIT: statements rendered from VecSearch.tla cases
//! are run on the real engine along several paths and recorded for VecSearchTrace.tla.
//!
//!   qev vecsearch-run <cases.ndjson> <out.ndjson>
//!
//! case: {"id":.., "dim":d, "rows":[[int..] | NULL ..]   table t(id BIGINT = 1..n, v FixedSizeList<Float32,d>)
//!        "sql": text, "units":["int"|"f4"..] (one per output column), "paths":[..]}
//! A second table u(uid BIGINT = 1..n, tag BIGINT = 10*uid) is always registered (join shapes).
//! paths:
//!   default      ExecutionContext::new() (the DEFAULT vector-search mode), one batch, ctx.sql
//!   batches      same, one row per batch (plus an empty batch)
//!   norule       the production rule list WITHOUT VectorSearchPushdown (Optimizer::with_rules) + PhysicalPlanner
//!   noopt        no optimizer at all
//!   stub         a TableProvider that advertises a k-NN index and returns WRONG neighbours (ids + 1000),
//!                registered in a default context: must be ignored in the default exact mode
//!   indexed_mem  vector_search_mode = Indexed over a plain memory table (no index => exact path)
//!   stub_indexed vector_search_mode = Indexed over the stub (vacuity: shows the stub is reachable)
//! record: {"id", "has_node": 0|1|-1, "plan": text, "outs": {path: {"k":"rows","rows":[[..]],"knn_calls":n} | {"k":"err",..} | {"k":"panic",..}}}
use crate::util::*;
use crate::vecdist::{vec_column, NULLV};
use arrow::array::*;
use arrow::datatypes::{DataType, Field, Schema, SchemaRef};
use futures::TryStreamExt;
use query_engine::execution::{ExecutionConfig, ExecutionContext, VectorSearchMode};
use query_engine::optimizer::*;
use query_engine::physical::operators::TableProvider;
use query_engine::physical::vector::VectorQuery;
use serde_json::{json, Value};
use std::panic::AssertUnwindSafe;
use std::sync::atomic::{AtomicUsize, Ordering};
use std::sync::Arc;

#[derive(Debug)]
struct StubIndexTable {
    schema: SchemaRef,
    batches: Vec<RecordBatch>,
    knn_calls: Arc<AtomicUsize>,
}

impl TableProvider for StubIndexTable {
    fn schema(&self) -> SchemaRef {
        self.schema.clone()
    }
    fn scan(&self, projection: Option<&[usize]>) -> query_engine::Result<Vec<RecordBatch>> {
        match projection {
            None => Ok(self.batches.clone()),
            Some(p) => self.batches.iter().map(|b| b.project(p).map_err(|e| query_engine::QueryError::Execution(e.to_string()))).collect(),
        }
    }
    /// "Index": the first k rows in storage order with ids shifted by 1000 — rows that do not exist,
    /// so any use of this answer is visible.
    fn scan_knn(&self, projection: Option<&[usize]>, q: &VectorQuery) -> query_engine::Result<Option<Vec<RecordBatch>>> {
        self.knn_calls.fetch_add(1, Ordering::SeqCst);
        let mut out = Vec::new();
        let mut left = q.k;
        for b in self.scan(projection)? {
            if left == 0 {
                break;
            }
            let n = b.num_rows().min(left);
            left -= n;
            let b = b.slice(0, n);
            let mut fields: Vec<Field> = Vec::new();
            let mut cols: Vec<ArrayRef> = Vec::new();
            for (f, c) in b.schema().fields().iter().zip(b.columns()) {
                fields.push(f.as_ref().clone());
                if let Some(ids) = c.as_any().downcast_ref::<Int64Array>() {
                    cols.push(Arc::new(ids.iter().map(|v| v.map(|x| x + 1000)).collect::<Int64Array>()));
                } else {
                    cols.push(c.clone());
                }
            }
            fields.push(Field::new("_distance", DataType::Float32, true));
            cols.push(Arc::new(Float32Array::from(vec![0.5f32; n])));
            out.push(RecordBatch::try_new(Arc::new(Schema::new(fields)), cols).unwrap());
        }
        Ok(Some(out))
    }
}

fn rules_without_vector_search() -> Vec<Arc<dyn OptimizerRule>> {
    // Optimizer::new()'s list, in order, minus the last entry (VectorSearchPushdown).
    vec![
        Arc::new(ConstantFolding),
        Arc::new(DeriveOrPredicates),
        Arc::new(PredicatePushdown),
        Arc::new(FlattenDependentJoin),
        Arc::new(SubqueryDecorrelation),
        Arc::new(SemiJoinPushdown),
        Arc::new(JoinReorder::new()),
        Arc::new(PredicatePushdown),
        Arc::new(HavingTotalCse),
        Arc::new(GroupKeyReduction::new()),
        Arc::new(EagerAggregation::new()),
        Arc::new(PackedGroupKeys::new()),
        Arc::new(PackedJoinKeys::new()),
        Arc::new(ProjectionPushdown),
    ]
}

async fn run_plan(ctx: &ExecutionContext, logical: &query_engine::LogicalPlan) -> query_engine::Result<Vec<RecordBatch>> {
    use query_engine::physical::PhysicalPlanner;
    let mut planner = PhysicalPlanner::with_config(ctx.memory_pool().clone(), ctx.config().clone());
    for name in ctx.table_names() {
        if let Some(p) = ctx.table_provider(&name) {
            planner.register_table(name.clone(), p);
        }
    }
    planner.enable_subquery_execution();
    let physical = planner.create_physical_plan(logical)?;
    let n = physical.output_partitions().max(1);
    let mut all = Vec::new();
    for p in 0..n {
        let stream = physical.execute(p).await?;
        let bs: Vec<RecordBatch> = stream.try_collect().await?;
        all.extend(bs);
    }
    Ok(all)
}

fn cell(col: &ArrayRef, i: usize, unit: &str) -> i64 {
    if col.is_null(i) {
        return NULLV;
    }
    let num: Option<f64> = match col.data_type() {
        DataType::Int64 => Some(col.as_any().downcast_ref::<Int64Array>().unwrap().value(i) as f64),
        DataType::Int32 => Some(col.as_any().downcast_ref::<Int32Array>().unwrap().value(i) as f64),
        DataType::UInt64 => Some(col.as_any().downcast_ref::<UInt64Array>().unwrap().value(i) as f64),
        DataType::Float64 => Some(col.as_any().downcast_ref::<Float64Array>().unwrap().value(i)),
        DataType::Float32 => Some(col.as_any().downcast_ref::<Float32Array>().unwrap().value(i) as f64),
        _ => None,
    };
    match (num, unit) {
        (Some(x), "int") if x.fract() == 0.0 && x.abs() < 1e9 => x as i64,
        (Some(x), "f4") if x.is_finite() && x.abs() < 1e5 => (x * 1e4).round() as i64,
        _ => -999_000_000,
    }
}

fn rows_of(batches: &[RecordBatch], units: &[String]) -> Value {
    let mut rows = Vec::new();
    for b in batches {
        if b.num_columns() != units.len() {
            return json!({"k": "err", "cls": "Arity", "msg": format!("{} columns returned, {} expected", b.num_columns(), units.len())});
        }
        for i in 0..b.num_rows() {
            rows.push((0..units.len()).map(|j| cell(b.column(j), i, &units[j])).collect::<Vec<i64>>());
        }
    }
    json!({"k": "rows", "rows": rows})
}

struct Tables {
    schema: SchemaRef,
    whole: RecordBatch,
    uschema: SchemaRef,
    ubatch: RecordBatch,
}

fn tables(c: &Value) -> Tables {
    let dim = c["dim"].as_u64().unwrap() as usize;
    let rows = c["rows"].as_array().unwrap();
    let n = rows.len();
    let v = vec_column(dim, rows, 0, n);
    let schema = Arc::new(Schema::new(vec![Field::new("id", DataType::Int64, true), Field::new("v", v.data_type().clone(), true)]));
    let ids: ArrayRef = Arc::new(Int64Array::from((1..=n as i64).collect::<Vec<i64>>()));
    let whole = RecordBatch::try_new(schema.clone(), vec![ids.clone(), v]).unwrap();
    let uschema = Arc::new(Schema::new(vec![Field::new("uid", DataType::Int64, true), Field::new("tag", DataType::Int64, true)]));
    let tags: ArrayRef = Arc::new(Int64Array::from((1..=n as i64).map(|x| 10 * x).collect::<Vec<i64>>()));
    let ubatch = RecordBatch::try_new(uschema.clone(), vec![ids, tags]).unwrap();
    Tables { schema, whole, uschema, ubatch }
}

fn context(t: &Tables, path: &str, knn: &Arc<AtomicUsize>) -> ExecutionContext {
    let mut ctx = match path {
        "indexed_mem" | "stub_indexed" => ExecutionContext::with_config(ExecutionConfig { vector_search_mode: VectorSearchMode::Indexed, ..ExecutionConfig::default() }),
        _ => ExecutionContext::new(),
    };
    let n = t.whole.num_rows();
    match path {
        "stub" | "stub_indexed" => {
            ctx.register_table_provider("t", Arc::new(StubIndexTable { schema: t.schema.clone(), batches: vec![t.whole.clone()], knn_calls: knn.clone() }));
        }
        "batches" => {
            let mut bs: Vec<RecordBatch> = (0..n).map(|i| t.whole.slice(i, 1)).collect();
            bs.insert(n / 2, t.whole.slice(0, 0));
            ctx.register_table("t", t.schema.clone(), bs);
        }
        _ => ctx.register_table("t", t.schema.clone(), vec![t.whole.clone()]),
    }
    ctx.register_table("u", t.uschema.clone(), vec![t.ubatch.clone()]);
    ctx
}

pub fn run(a: &[String]) -> i32 {
    quiet_panics();
    // the DEFAULT mode is what the property is about: make sure the environment does not choose it
    std::env::remove_var("QE_VECTOR_SEARCH");
    let cases = read_ndjson(&a[0]);
    let mut out = Out::create(&a[1]);
    let rt = tokio::runtime::Builder::new_multi_thread().worker_threads(2).enable_all().build().unwrap();
    for c in cases {
        let t = tables(&c);
        let sql = c["sql"].as_str().unwrap().to_string();
        let units: Vec<String> = c["units"].as_array().unwrap().iter().map(|v| v.as_str().unwrap().to_string()).collect();
        let knn = Arc::new(AtomicUsize::new(0));
        // the optimized plan of the default context
        let ctx0 = context(&t, "default", &knn);
        let (has_node, plan) = match catch(AssertUnwindSafe(|| ctx0.optimized_plan(&sql))) {
            Ok(Ok(p)) => {
                let s = format!("{}", p);
                (if s.contains("VectorSearch") { 1 } else { 0 }, s)
            }
            Ok(Err(e)) => (-1, format!("error: {e}")),
            Err(p) => (-1, format!("panic: {p}")),
        };
        let mut outs = serde_json::Map::new();
        for path in c["paths"].as_array().unwrap() {
            let path = path.as_str().unwrap();
            knn.store(0, Ordering::SeqCst);
            let ctx = context(&t, path, &knn);
            let sql2 = sql.clone();
            let r = catch(AssertUnwindSafe(|| {
                rt.block_on(async {
                    let fut = async {
                        match path {
                            "norule" => {
                                let logical = ctx.logical_plan(&sql2)?;
                                let plan = Optimizer::with_rules(rules_without_vector_search()).optimize(logical)?;
                                run_plan(&ctx, &plan).await
                            }
                            "noopt" => {
                                let logical = ctx.logical_plan(&sql2)?;
                                run_plan(&ctx, &logical).await
                            }
                            _ => ctx.sql(&sql2).await.map(|r| r.batches),
                        }
                    };
                    tokio::time::timeout(std::time::Duration::from_secs(60), fut).await
                })
            }));
            let mut o = match r {
                Err(p) => json!({"k": "panic", "msg": p.chars().take(200).collect::<String>()}),
                Ok(Err(_)) => json!({"k": "hang"}),
                Ok(Ok(Err(e))) => json!({"k": "err", "cls": crate::sqlrun::err_class(&e), "msg": e.to_string().chars().take(240).collect::<String>()}),
                Ok(Ok(Ok(batches))) => rows_of(&batches, &units),
            };
            o["knn_calls"] = json!(knn.load(Ordering::SeqCst));
            outs.insert(path.to_string(), o);
        }
        out.put(&json!({"id": c["id"], "has_node": has_node, "plan": plan.chars().take(600).collect::<String>(), "outs": outs}));
    }
    out.finish();
    0
}
