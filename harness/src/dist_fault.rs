//! C10 — a failing fragment fails the whole query.
//!
//! Two bindings of `spec/Scatter.tla` to the real coordinator:
//!
//! * `dist-topo` / `dist-replay`: the REAL `execute_any_distributed` over real Parquet tables
//!   (t: 40 rows in 8 row groups, u: 4 rows in 2, w: 2 rows in 1), the initiator's own shard
//!   in-process, every other shard through `FaultTransport` — an implementation of the public
//!   `FragmentTransport` trait that runs the real `execute_fragment` on a peer context over the
//!   same files, encodes with the real `encode_ipc`, and then per (table, shard) injects exactly
//!   the fault the TLC vector names: transport error, HTTP error, a response cut inside the HTTP
//!   head, a payload cut at a chosen byte (classified by parsing the IPC framing here, not by the
//!   engine), a corrupted payload, a digest mismatch (produced by the worker's OWN check: a peer
//!   whose table copy differs, or a tampered request).  Replies are released in the order the
//!   case names.  The initiator's own shard is failed through a `TableProvider` whose shard
//!   cannot be scanned.
//! * `dist-http`: three nodes spawned in-process with `query_engine::distributed::spawn` on real
//!   sockets; the initiator reaches the two workers only through a TCP proxy of this harness
//!   that forwards everything, but cuts the `/fragment` response at a chosen byte, replaces its
//!   status, answers 503 itself, closes without answering or flips a byte.  Driven by
//!   `POST /sql?distributed=1` through the real `http_client`.
//!
//! Judgement is not made here: records go to `ScatterTrace.tla`.
use crate::util::*;
use arrow::array::{ArrayRef, Int64Array, StringArray};
use arrow::datatypes::{DataType, Field, Schema, SchemaRef};
use arrow::record_batch::RecordBatch;
use parquet::arrow::ArrowWriter;
use parquet::file::properties::WriterProperties;
use query_engine::distributed::coordinator::{decode_ipc, encode_ipc};
use query_engine::distributed::{
    assign_lpt, execute_any_distributed, execute_fragment, http_client, plan_distributed, plan_gather, splits_of,
    FragmentRequest, FragmentTransport, Participant, ServeOptions, ServerHandle, TableLoader,
};
use query_engine::physical::operators::TableProvider;
use query_engine::{ExecutionContext, QueryError};
use serde_json::{json, Value};
use std::collections::HashMap;
use std::path::{Path, PathBuf};
use std::sync::{Arc, Mutex};
use std::time::Duration;
use tokio::io::{AsyncReadExt, AsyncWriteExt};

// ---------------------------------------------------------------------------
// output: flushed per record, plus a marker naming the case in flight — corrupt payloads can make the
// code under test ABORT the process (allocation failure), which the driver has to attribute to a case.

struct Sink {
    f: std::fs::File,
    cur: PathBuf,
}
impl Sink {
    fn create(path: &str) -> Sink {
        Sink { f: std::fs::OpenOptions::new().create(true).append(true).open(path).unwrap_or_else(|e| panic!("open {path}: {e}")), cur: PathBuf::from(format!("{path}.cur")) }
    }
    fn begin(&mut self, case: &Value) {
        std::fs::write(&self.cur, serde_json::to_vec(case).unwrap()).unwrap();
    }
    fn put(&mut self, v: &Value) {
        use std::io::Write;
        let mut line = serde_json::to_vec(v).unwrap();
        line.push(b'\n');
        self.f.write_all(&line).unwrap();
        self.f.flush().unwrap();
    }
    fn finish(self) {
        let _ = std::fs::remove_file(&self.cur);
    }
}

// ---------------------------------------------------------------------------
// tables and statements

fn i64col(v: Vec<i64>) -> ArrayRef {
    Arc::new(Int64Array::from(v))
}

fn write_parquet(path: &Path, schema: SchemaRef, cols: Vec<ArrayRef>, rg_rows: usize) {
    std::fs::create_dir_all(path.parent().unwrap()).unwrap();
    if path.exists() {
        panic!("harness: {} would be rewritten (the footer cache is keyed by path+mtime)", path.display());
    }
    let batch = RecordBatch::try_new(schema.clone(), cols).unwrap();
    let props = WriterProperties::builder().set_max_row_group_size(rg_rows).build();
    let mut w = ArrowWriter::try_new(std::fs::File::create(path).unwrap(), schema, Some(props)).unwrap();
    w.write(&batch).unwrap();
    w.close().unwrap();
}

/// One copy of the three tables under `dir`.  `extra` rows are appended to every table: a copy
/// with extra = 1 has other row counts, hence another split digest (a stale / diverged node).
fn write_copy(dir: &Path, extra: i64) {
    let nt = 40 + extra;
    let st = Arc::new(Schema::new(vec![
        Field::new("id", DataType::Int64, false),
        Field::new("g", DataType::Int64, false),
        Field::new("v", DataType::Int64, false),
        Field::new("s", DataType::Utf8, false),
    ]));
    let ids: Vec<i64> = (0..nt).collect();
    write_parquet(
        &dir.join("t.parquet"),
        st,
        vec![
            i64col(ids.clone()),
            i64col(ids.iter().map(|i| i % 4).collect()),
            i64col(ids.iter().map(|i| (i * 7) % 40 + 100 * (i / 40)).collect()),
            Arc::new(StringArray::from(ids.iter().map(|i| format!("row-{i:03}")).collect::<Vec<_>>())),
        ],
        5,
    );
    let nu = 4 + extra;
    let su = Arc::new(Schema::new(vec![Field::new("g", DataType::Int64, false), Field::new("w", DataType::Int64, false)]));
    let gs: Vec<i64> = (0..nu).collect();
    write_parquet(&dir.join("u.parquet"), su, vec![i64col(gs.clone()), i64col(gs.iter().map(|g| 10 * g + 5).collect())], 2);
    let nw = 2 + extra;
    let sw = Arc::new(Schema::new(vec![Field::new("k", DataType::Int64, false), Field::new("z", DataType::Int64, false)]));
    let ks: Vec<i64> = (0..nw).collect();
    write_parquet(&dir.join("w.parquet"), sw, vec![i64col(ks.clone()), i64col(ks.iter().map(|k| k + 70).collect())], 64);
    // e: no row group at all (the coordinator's "active.is_empty()" path); the diverged copy has one row
    let se = Arc::new(Schema::new(vec![Field::new("a", DataType::Int64, false)]));
    write_parquet(&dir.join("e.parquet"), se, vec![i64col((0..extra).collect())], 64);
}

const TABLES: [&str; 4] = ["t", "u", "w", "e"];

fn ctx_over(dir: &Path) -> ExecutionContext {
    let mut c = ExecutionContext::new();
    for t in TABLES {
        c.register_parquet(t, dir.join(format!("{t}.parquet"))).unwrap_or_else(|e| panic!("register {t}: {e}"));
    }
    c
}

/// statement key -> SQL.  The shape each one takes is NOT assumed: it is read from the real
/// plan_distributed / plan_gather and reported, the driver checks that all four shapes occur.
pub fn statements() -> Vec<(&'static str, &'static str)> {
    vec![
        ("concat", "SELECT id, v, s FROM t WHERE v >= 3"),
        ("group", "SELECT g, COUNT(*) AS c, SUM(v) AS sv, MIN(v) AS lo, MAX(v) AS hi FROM t GROUP BY g"),
        ("global", "SELECT COUNT(*) AS c, SUM(v) AS sv FROM t WHERE v < 35"),
        ("topn", "SELECT id, v FROM t ORDER BY v DESC LIMIT 7"),
        ("join", "SELECT t.id, u.w FROM t JOIN u ON t.g = u.g WHERE t.v < 30 AND t.id IN (SELECT id FROM t WHERE v > 4)"),
        ("gunion", "SELECT g FROM t WHERE v < 9 UNION ALL SELECT w FROM u"),
        ("gunion2", "SELECT g FROM t WHERE v < 9 UNION ALL SELECT k FROM w"),
        ("gdistinct", "SELECT DISTINCT g FROM t"),
        ("empty", "SELECT COUNT(*) AS c FROM e"),
        ("tiny", "SELECT k, z FROM w WHERE k >= 0"),
    ]
}

fn sql_of(key: &str) -> String {
    statements().into_iter().find(|(k, _)| *k == key).map(|(_, s)| s.to_string()).unwrap_or_else(|| panic!("unknown statement key {key}"))
}

// ---------------------------------------------------------------------------
// a local shard that cannot be read (the initiator's own fragment fails)

#[derive(Debug)]
struct BrokenShard {
    schema: SchemaRef,
}
impl TableProvider for BrokenShard {
    fn schema(&self) -> SchemaRef {
        self.schema.clone()
    }
    fn scan(&self, _p: Option<&[usize]>) -> query_engine::Result<Vec<RecordBatch>> {
        Err(QueryError::Execution("injected: the initiator's own shard cannot be read".into()))
    }
}

/// Delegates everything to the real provider, except that a shard of it cannot be scanned.
#[derive(Debug)]
struct FailingLocal {
    inner: Arc<dyn TableProvider>,
}
impl TableProvider for FailingLocal {
    fn schema(&self) -> SchemaRef {
        self.inner.schema()
    }
    fn scan(&self, p: Option<&[usize]>) -> query_engine::Result<Vec<RecordBatch>> {
        self.inner.scan(p)
    }
    fn scan_with_filter(&self, p: Option<&[usize]>, f: Option<&query_engine::planner::Expr>) -> query_engine::Result<Vec<RecordBatch>> {
        self.inner.scan_with_filter(p, f)
    }
    fn statistics(&self) -> Option<query_engine::physical::operators::TableStatistics> {
        self.inner.statistics()
    }
    fn parquet_files(&self) -> Option<Vec<PathBuf>> {
        self.inner.parquet_files()
    }
    fn distributed_splits(&self, table: &str, nodes: usize) -> Option<query_engine::Result<query_engine::distributed::SplitSet>> {
        self.inner.distributed_splits(table, nodes)
    }
    fn shard_by_splits(&self, _s: &[query_engine::distributed::Split]) -> Option<query_engine::Result<Arc<dyn TableProvider>>> {
        Some(Ok(Arc::new(BrokenShard { schema: self.inner.schema() })))
    }
}

fn failing_ctx(dir: &Path, only: Option<&str>) -> ExecutionContext {
    let base = ctx_over(dir);
    let mut c = ExecutionContext::new();
    for t in TABLES {
        let p = base.table_provider(t).unwrap();
        if only.map(|o| o == t).unwrap_or(true) {
            c.register_table_provider(t, Arc::new(FailingLocal { inner: p }));
        } else {
            c.register_table_provider(t, p);
        }
    }
    c
}

// ---------------------------------------------------------------------------
// Arrow IPC stream framing, parsed independently of the engine

#[derive(Clone, Debug)]
struct Msg {
    start: usize,
    end: usize,
    kind: &'static str, // schema | dict | batch | other
    rows: i64,
}

#[derive(Clone, Debug)]
struct Layout {
    len: usize,
    msgs: Vec<Msg>,
    eos: usize, // offset of the end-of-stream marker (== len when absent)
}

fn parse_ipc(b: &[u8]) -> Result<Layout, String> {
    let mut pos = 0usize;
    let mut msgs = Vec::new();
    loop {
        if pos == b.len() {
            return Ok(Layout { len: b.len(), msgs, eos: pos });
        }
        if pos + 8 > b.len() {
            return Err(format!("framing: short prefix at {pos}"));
        }
        let marker = u32::from_le_bytes(b[pos..pos + 4].try_into().unwrap());
        if marker != 0xFFFF_FFFF {
            return Err(format!("framing: no continuation marker at {pos}"));
        }
        let mlen = i32::from_le_bytes(b[pos + 4..pos + 8].try_into().unwrap());
        if mlen == 0 {
            if pos + 8 != b.len() {
                return Err("framing: bytes after the end-of-stream marker".into());
            }
            return Ok(Layout { len: b.len(), msgs, eos: pos });
        }
        let mlen = mlen as usize;
        if pos + 8 + mlen > b.len() {
            return Err(format!("framing: metadata beyond the end at {pos}"));
        }
        let meta = &b[pos + 8..pos + 8 + mlen];
        let m = arrow::ipc::root_as_message(meta).map_err(|e| format!("framing: flatbuffer at {pos}: {e}"))?;
        let body = m.bodyLength() as usize;
        let end = pos + 8 + mlen + body;
        if end > b.len() {
            return Err(format!("framing: body beyond the end at {pos}"));
        }
        let (kind, rows) = match m.header_type() {
            arrow::ipc::MessageHeader::Schema => ("schema", 0),
            arrow::ipc::MessageHeader::DictionaryBatch => ("dict", 0),
            arrow::ipc::MessageHeader::RecordBatch => ("batch", m.header_as_record_batch().map(|r| r.length()).unwrap_or(0)),
            _ => ("other", 0),
        };
        msgs.push(Msg { start: pos, end, kind, rows });
        pos = end;
    }
}

/// Walk the framing the way a stream reader does and return the first declared length (metadata or
/// body) that exceeds the bytes that remain: a reader that trusts it allocates that much.
fn declared_overrun(b: &[u8]) -> Option<u64> {
    let mut pos = 0usize;
    loop {
        if pos + 4 > b.len() {
            return None;
        }
        let mut mlen = i32::from_le_bytes(b[pos..pos + 4].try_into().unwrap());
        let mut at = pos + 4;
        if mlen == -1 {
            if at + 4 > b.len() {
                return None;
            }
            mlen = i32::from_le_bytes(b[at..at + 4].try_into().unwrap());
            at += 4;
        }
        if mlen <= 0 {
            return None;
        }
        let mlen = mlen as usize;
        if at + mlen > b.len() {
            return Some(mlen as u64);
        }
        let Ok(m) = arrow::ipc::root_as_message(&b[at..at + mlen]) else { return None };
        let body = m.bodyLength();
        if body < 0 {
            return None;
        }
        if at + mlen + body as usize > b.len() || (body as u64) > (1u64 << 40) {
            return Some(body as u64);
        }
        pos = at + mlen + body as usize;
    }
}

const HEAVY_MIN: u64 = 48 << 20; // a reader that trusts such a length zeroes this much memory: seconds per case
const HEAVY_MAX: u64 = 3 << 30; // up to here it is merely slow; beyond, up to ABORTS_FROM, it could exhaust the box
const ABORTS_FROM: u64 = 1 << 44; // no allocator grants this: immediate allocation failure
static HEAVY_LEFT: std::sync::atomic::AtomicI64 = std::sync::atomic::AtomicI64::new(0);
static ABORT_LEFT: std::sync::atomic::AtomicI64 = std::sync::atomic::AtomicI64::new(0); // each one costs a process restart

/// true: run it; false: skip (too slow / too dangerous for this tier)
fn admit(declared: Option<u64>, rec: &mut Value) -> bool {
    let Some(d) = declared else { return true };
    rec["overrun"] = json!(1);
    rec["declared"] = json!(d);
    if d < HEAVY_MIN {
        return true;
    }
    if d >= ABORTS_FROM {
        if ABORT_LEFT.fetch_sub(1, std::sync::atomic::Ordering::SeqCst) > 0 {
            return true;
        }
        rec["skipped_heavy"] = json!(2);
        return false;
    }
    if d <= HEAVY_MAX && HEAVY_LEFT.fetch_sub(1, std::sync::atomic::Ordering::SeqCst) > 0 {
        return true;
    }
    rec["skipped_heavy"] = json!(1);
    false
}

impl Layout {
    fn rows_after(&self, off: usize) -> i64 {
        self.msgs.iter().filter(|m| m.end > off).map(|m| m.rows).sum()
    }
    /// Class of a cut that keeps exactly the first `off` bytes.
    fn class_of(&self, off: usize) -> &'static str {
        if off >= self.len {
            return "complete";
        }
        if off == 0 {
            return "empty";
        }
        if off >= self.eos {
            return "eos"; // every message arrived, only (part of) the end-of-stream marker is lost
        }
        for m in &self.msgs {
            if off > m.start && off < m.start + 4 {
                return "marker"; // inside the 4-byte continuation marker that opens message m
            }
            if off > m.start && off < m.end {
                return "inmsg";
            }
            if off == m.end {
                // a message boundary; harmless iff nothing with rows follows
                return if self.rows_after(off) > 0 { "boundary" } else { "boundary0" };
            }
        }
        "inmsg"
    }
    fn offsets_of(&self, cls: &str) -> Vec<usize> {
        (0..self.len).filter(|&o| self.class_of(o) == cls).collect()
    }
    fn to_json(&self) -> Value {
        json!({"len": self.len, "eos": self.eos,
               "msgs": self.msgs.iter().map(|m| json!([m.start, m.end, m.kind, m.rows])).collect::<Vec<_>>()})
    }
}

// ---------------------------------------------------------------------------
// rows as a bag

fn bag_of(batches: &[RecordBatch]) -> Vec<String> {
    let opts = arrow::util::display::FormatOptions::default().with_null("NULL");
    let mut out = Vec::new();
    for b in batches {
        let fm: Vec<_> = b.columns().iter().map(|c| arrow::util::display::ArrayFormatter::try_new(c.as_ref(), &opts).unwrap()).collect();
        for r in 0..b.num_rows() {
            out.push(fm.iter().map(|f| f.value(r).to_string()).collect::<Vec<_>>().join("|"));
        }
    }
    out.sort();
    out
}

/// full | partial (a proper sub-bag) | wrong
fn compare_bags(got: &[String], full: &[String]) -> &'static str {
    if got == full {
        return "full";
    }
    let mut need: HashMap<&str, i64> = HashMap::new();
    for r in full {
        *need.entry(r.as_str()).or_default() += 1;
    }
    for r in got {
        let e = need.entry(r.as_str()).or_default();
        *e -= 1;
        if *e < 0 {
            return "wrong";
        }
    }
    "partial"
}

// ---------------------------------------------------------------------------
// the fault-injecting transport

#[derive(Clone, Debug)]
enum Fault {
    None,
    Transport,
    Http(u16),
    Hdr,
    TruncCls(String, usize),
    TruncAt(usize),
    Flip(usize, u8),
    /// one bit of the first record batch's bodyLength (a 64-bit length field of the message header): +2^48 bytes
    FlipBodyLen,
    Garbage(usize),
    DigestStale,
    DigestTamper,
    // selftest only: a transport that silently loses rows but stays well-formed
    DropRows,
    EmptyOk,
}

fn fault_of(v: &Value) -> Fault {
    let sel = v["sel"].as_u64().unwrap_or(0) as usize;
    match v["kind"].as_str().unwrap_or("none") {
        "none" | "ok" => Fault::None,
        "transport" => Fault::Transport,
        "http" => Fault::Http(v["status"].as_u64().unwrap_or(503) as u16),
        "hdr" => Fault::Hdr,
        "trunc" => match v.get("off").and_then(|o| o.as_u64()) {
            Some(o) => Fault::TruncAt(o as usize),
            None => Fault::TruncCls(v["cls"].as_str().unwrap_or("inmsg").to_string(), sel),
        },
        "flip" => Fault::Flip(v["off"].as_u64().unwrap_or(0) as usize, v["xor"].as_u64().unwrap_or(255) as u8),
        "flip_bodylen" => Fault::FlipBodyLen,
        "garbage" => Fault::Garbage(sel),
        "digest" => {
            if v["variant"].as_str() == Some("tamper") {
                Fault::DigestTamper
            } else {
                Fault::DigestStale
            }
        }
        "droprows" => Fault::DropRows,
        "emptyok" => Fault::EmptyOk,
        other => panic!("unknown fault kind {other}"),
    }
}

struct FaultTransport {
    good: Arc<ExecutionContext>,
    stale: Arc<ExecutionContext>,
    plan: HashMap<(String, usize), Fault>,
    rank: HashMap<(String, usize), usize>,
    turn: tokio::sync::watch::Sender<usize>,
    log: Mutex<Vec<Value>>,
    /// appended to before a faulted answer is handed to the coordinator: survives a process abort
    side: Option<PathBuf>,
    /// corrupted payloads handed out, re-decoded AFTER the coordinator accepted them (row count of what it merged)
    flipped: Mutex<Vec<(String, usize, Vec<u8>)>>,
}

const GARBAGE_VARIANTS: usize = 9;

fn garbage(bytes: &[u8], lay: &Layout, variant: usize) -> (Vec<u8>, &'static str) {
    let mut b = bytes.to_vec();
    match variant % GARBAGE_VARIANTS {
        0 => (b"<html><body>503 Service Unavailable</body></html>".to_vec(), "html-body"),
        1 => (br#"{"error":"tables are still loading"}"#.to_vec(), "json-body"),
        2 => {
            // continuation marker of the first record batch destroyed
            let m = lay.msgs.iter().find(|m| m.kind == "batch").unwrap_or(&lay.msgs[0]);
            for x in &mut b[m.start..m.start + 4] {
                *x = 0x41;
            }
            (b, "batch-marker")
        }
        3 => {
            // metadata length of the schema message claims more than there is
            b[4..8].copy_from_slice(&0x7fff_fff0i32.to_le_bytes());
            (b, "schema-len-huge")
        }
        4 => {
            // the whole flatbuffer metadata of the first record batch (or schema) zeroed
            let m = lay.msgs.iter().find(|m| m.kind == "batch").unwrap_or(&lay.msgs[0]);
            let mlen = i32::from_le_bytes(b[m.start + 4..m.start + 8].try_into().unwrap()) as usize;
            for x in &mut b[m.start + 8..m.start + 8 + mlen] {
                *x = 0;
            }
            (b, "metadata-zeroed")
        }
        6 => {
            // continuation marker of the first record batch replaced by a small legacy length
            let m = lay.msgs.iter().find(|m| m.kind == "batch").unwrap_or(&lay.msgs[0]);
            b[m.start..m.start + 4].copy_from_slice(&16u32.to_le_bytes());
            (b, "batch-marker-small")
        }
        7 => {
            // the schema message's flatbuffer overwritten
            let mlen = i32::from_le_bytes(b[4..8].try_into().unwrap()) as usize;
            for x in &mut b[8..8 + mlen] {
                *x = 0xEE;
            }
            (b, "schema-metadata-garbage")
        }
        8 => {
            // the schema message removed: the stream starts with a record batch
            let m0 = &lay.msgs[0];
            (bytes[m0.end..].to_vec(), "schema-missing")
        }
        _ => {
            // every byte replaced by a fixed pseudo-random pattern
            for (i, x) in b.iter_mut().enumerate() {
                *x = ((i as u32).wrapping_mul(2654435761) >> 13) as u8;
            }
            (b, "noise")
        }
    }
}

impl FaultTransport {
    async fn real(&self, ctx: &ExecutionContext, req: &FragmentRequest) -> query_engine::Result<(Vec<u8>, usize)> {
        let (r, _) = execute_fragment(ctx, req).await?;
        let bytes = encode_ipc(&r.schema, &r.batches)?;
        Ok((bytes, r.row_count))
    }

    async fn answer(&self, address: &str, req: &FragmentRequest, fault: &Fault, rec: &mut Value) -> query_engine::Result<(Vec<u8>, usize, f64)> {
        let exec = |m: String| QueryError::Execution(m);
        match fault {
            Fault::Transport => return Err(exec(format!("connection refused: {address}"))),
            Fault::Http(st) => return Err(exec(format!("HTTP {st} \u{2014} tables are still loading"))),
            Fault::Hdr => return Err(exec("response has no header terminator".into())),
            Fault::DigestStale => {
                return match self.real(&self.stale, req).await {
                    Err(e) => Err(exec(format!("HTTP 400 \u{2014} {e}"))),
                    Ok(_) => {
                        rec["inject_failed"] = json!("the diverged copy answered");
                        Err(exec("harness: diverged copy answered".into()))
                    }
                };
            }
            Fault::DigestTamper => {
                let mut r2 = req.clone();
                r2.splits_digest ^= 0x5;
                return match self.real(&self.good, &r2).await {
                    Err(e) => Err(exec(format!("HTTP 400 \u{2014} {e}"))),
                    Ok(_) => {
                        rec["inject_failed"] = json!("a tampered digest was answered");
                        Err(exec("harness: tampered digest answered".into()))
                    }
                };
            }
            _ => {}
        }
        let (bytes, rows) = self.real(&self.good, req).await.map_err(|e| {
            rec["inject_failed"] = json!(format!("healthy fragment failed: {e}"));
            e
        })?;
        let lay = parse_ipc(&bytes).map_err(|e| {
            rec["inject_failed"] = json!(format!("harness cannot parse the IPC framing: {e}"));
            exec(e)
        })?;
        rec["len"] = json!(lay.len);
        rec["rows"] = json!(rows);
        if rec.get("want_layout").is_some() {
            rec["layout"] = lay.to_json();
        }
        match fault {
            Fault::None => Ok((bytes, rows, 0.0)),
            Fault::TruncCls(cls, sel) => {
                let offs = lay.offsets_of(cls);
                if offs.is_empty() {
                    rec["unresolved"] = json!(format!("no offset of class {cls}"));
                    return Ok((bytes, rows, 0.0));
                }
                let off = offs[sel % offs.len()];
                rec["off"] = json!(off);
                rec["cls"] = json!(cls);
                rec["lost"] = json!(lay.rows_after(off));
                Ok((bytes[..off].to_vec(), rows, 0.0))
            }
            Fault::TruncAt(off) => {
                let off = (*off).min(lay.len);
                rec["off"] = json!(off);
                rec["cls"] = json!(lay.class_of(off));
                rec["lost"] = json!(lay.rows_after(off));
                Ok((bytes[..off].to_vec(), rows, 0.0))
            }
            Fault::Flip(off, x) => {
                let off = (*off).min(lay.len - 1);
                let mut b = bytes.clone();
                b[off] ^= if *x == 0 { 0xff } else { *x };
                rec["off"] = json!(off);
                let region = if off >= lay.eos {
                    "eos"
                } else {
                    let m = lay.msgs.iter().find(|m| off >= m.start && off < m.end).unwrap();
                    let mlen = i32::from_le_bytes(bytes[m.start + 4..m.start + 8].try_into().unwrap()) as usize;
                    if off < m.start + 8 {
                        "prefix"
                    } else if off < m.start + 8 + mlen {
                        "metadata"
                    } else {
                        "body"
                    }
                };
                rec["cls"] = json!(region);
                if !admit(declared_overrun(&b), rec) {
                    return Err(exec("harness: skipped".into()));
                }
                self.flipped.lock().unwrap().push((req.table.clone(), req.shard_index, b.clone()));
                Ok((b, rows, 0.0))
            }
            Fault::FlipBodyLen => {
                let m = lay.msgs.iter().find(|m| m.kind == "batch").ok_or_else(|| exec("harness: no record batch in the payload".into()))?;
                let mlen = i32::from_le_bytes(bytes[m.start + 4..m.start + 8].try_into().unwrap()) as usize;
                let body = (m.end - m.start - 8 - mlen) as i64;
                let meta = &bytes[m.start + 8..m.start + 8 + mlen];
                let pat = body.to_le_bytes();
                let hits: Vec<usize> = (0..meta.len().saturating_sub(7)).filter(|&p| meta[p..p + 8] == pat).collect();
                if hits.len() != 1 {
                    rec["unresolved"] = json!(format!("bodyLength occurs {} times in the header", hits.len()));
                    return Ok((bytes, rows, 0.0));
                }
                let off = m.start + 8 + hits[0] + 6;
                let mut b = bytes.clone();
                b[off] ^= 0x01;
                rec["off"] = json!(off);
                rec["cls"] = json!("bodylen");
                if !admit(declared_overrun(&b), rec) {
                    return Err(exec("harness: skipped".into()));
                }
                self.flipped.lock().unwrap().push((req.table.clone(), req.shard_index, b.clone()));
                Ok((b, rows, 0.0))
            }
            Fault::Garbage(v) => {
                let (b, what) = garbage(&bytes, &lay, *v);
                rec["cls"] = json!(what);
                if !admit(declared_overrun(&b), rec) {
                    return Err(exec("harness: skipped".into()));
                }
                Ok((b, rows, 0.0))
            }
            Fault::DropRows => {
                let mut batches = decode_ipc(&bytes)?;
                let before: usize = batches.iter().map(|b| b.num_rows()).sum();
                if let Some(p) = batches.iter().rposition(|b| b.num_rows() > 0) {
                    let b = batches[p].clone();
                    batches[p] = b.slice(0, b.num_rows() - 1);
                }
                let after: usize = batches.iter().map(|b| b.num_rows()).sum();
                rec["lost"] = json!(before - after);
                let schema = batches[0].schema();
                Ok((encode_ipc(&schema, &batches)?, after, 0.0))
            }
            Fault::EmptyOk => {
                let batches = decode_ipc(&bytes)?;
                rec["lost"] = json!(rows);
                let schema = batches[0].schema();
                Ok((encode_ipc(&schema, &[])?, 0, 0.0))
            }
            _ => unreachable!(),
        }
    }
}

#[async_trait::async_trait]
impl FragmentTransport for FaultTransport {
    async fn send(&self, address: &str, req: &FragmentRequest) -> query_engine::Result<(Vec<u8>, usize, f64)> {
        let key = (req.table.clone(), req.shard_index);
        let fault = self.plan.get(&key).cloned().unwrap_or(Fault::None);
        let mut rec = json!({"t": req.table, "i": req.shard_index, "n": req.shard_count, "addr": address});
        if self.plan.contains_key(&("*layout*".to_string(), 0)) {
            rec["want_layout"] = json!(1);
        }
        // replies are released in the order the case names
        let my = self.rank.get(&key).copied();
        if let Some(my) = my {
            let mut rx = self.turn.subscribe();
            let waited = tokio::time::timeout(Duration::from_secs(5), rx.wait_for(|v| *v >= my)).await;
            if waited.is_err() {
                rec["order_timeout"] = json!(1);
            }
        }
        let out = self.answer(address, req, &fault, &mut rec).await;
        rec["returned"] = json!(if out.is_ok() { "bytes" } else { "err" });
        if let Some(o) = rec.as_object_mut() {
            o.remove("want_layout");
        }
        if let (Some(p), false) = (&self.side, matches!(fault, Fault::None)) {
            use std::io::Write;
            let mut brief = rec.clone();
            if let Some(o) = brief.as_object_mut() {
                o.remove("layout");
            }
            if let Ok(mut f) = std::fs::OpenOptions::new().create(true).append(true).open(p) {
                let _ = writeln!(f, "{brief}");
            }
        }
        self.log.lock().unwrap().push(rec);
        if let Some(my) = my {
            self.turn.send_modify(|v| {
                if *v <= my {
                    *v = my + 1
                }
            });
        }
        out
    }
}

// ---------------------------------------------------------------------------
// fixture

struct Fixture {
    init_dir: PathBuf,
    good: Arc<ExecutionContext>,
    stale: Arc<ExecutionContext>,
    init_ok: ExecutionContext,
    full: HashMap<String, Vec<String>>,
    topo: Mutex<HashMap<(String, usize), Value>>,
    rt: tokio::runtime::Runtime,
}

fn fixture(work: &Path) -> Fixture {
    let _ = std::fs::remove_dir_all(work);
    let init_dir = work.join("init");
    let peer_dir = work.join("peer");
    let stale_dir = work.join("stale");
    write_copy(&init_dir, 0);
    write_copy(&peer_dir, 0);
    write_copy(&stale_dir, 1);
    let rt = tokio::runtime::Builder::new_multi_thread().worker_threads(4).enable_all().build().unwrap();
    let good = Arc::new(ctx_over(&peer_dir));
    let stale = Arc::new(ctx_over(&stale_dir));
    let init_ok = ctx_over(&init_dir);
    let mut full = HashMap::new();
    for (k, sql) in statements() {
        let r = rt.block_on(good.sql(sql)).unwrap_or_else(|e| panic!("single-node answer of {k}: {e}"));
        full.insert(k.to_string(), bag_of(&r.batches));
    }
    Fixture { init_dir, good, stale, init_ok, full, topo: Mutex::new(HashMap::new()), rt }
}

fn participants(n: usize, me: i64) -> Vec<Participant> {
    (0..n).map(|i| Participant { node_id: i as u64, address: format!("10.0.0.{}:7777", i + 1), is_self: i as i64 == me }).collect()
}

/// shape + tables + active shards per table, all from the real planner / enumerator
fn topology(ctx: &ExecutionContext, sql: &str, n: usize) -> Result<Value, String> {
    let (shape, tables): (String, Vec<String>) = match plan_distributed(ctx, sql) {
        Ok(p) => (serde_json::to_value(p.shape).unwrap().as_str().unwrap().to_string(), vec![p.table]),
        Err(QueryError::NotImplemented(_)) => {
            let g = plan_gather(ctx, sql).map_err(|e| format!("plan_gather: {e}"))?;
            ("gather".to_string(), g.tables.iter().map(|t| t.name.clone()).collect())
        }
        Err(e) => return Err(format!("plan_distributed: {e}")),
    };
    let mut active = serde_json::Map::new();
    for t in &tables {
        let set = splits_of(ctx, t, n).map_err(|e| format!("splits_of {t}: {e}"))?;
        let a = assign_lpt(&set, n);
        let act: Vec<usize> = (0..n).filter(|&i| a.node_splits[i] > 0).collect();
        active.insert(t.clone(), json!(act));
    }
    Ok(json!({"shape": shape, "tables": tables, "active": active}))
}

fn run_case(fx: &Fixture, c: &Value, side: Option<&Path>) -> Value {
    let key = c["stmt"].as_str().unwrap();
    let sql = sql_of(key);
    let n = c["n"].as_u64().unwrap() as usize;
    let me = c["self"].as_i64().unwrap();
    let mut rec = c.clone();
    let cached = fx.topo.lock().unwrap().get(&(key.to_string(), n)).cloned();
    let topo = match cached.map(Ok).unwrap_or_else(|| topology(&fx.init_ok, &sql, n)) {
        Ok(t) => {
            fx.topo.lock().unwrap().insert((key.to_string(), n), t.clone());
            t
        }
        Err(e) => {
            rec["outcome"] = json!("setup_error");
            rec["err"] = json!(e);
            return rec;
        }
    };
    rec["shape"] = topo["shape"].clone();
    rec["tables"] = topo["tables"].clone();
    rec["active"] = topo["active"].clone();
    let mut plan = HashMap::new();
    for f in c["faults"].as_array().cloned().unwrap_or_default() {
        plan.insert((f["t"].as_str().unwrap().to_string(), f["i"].as_u64().unwrap() as usize), fault_of(&f));
    }
    if c["layout"].as_i64().unwrap_or(0) == 1 {
        plan.insert(("*layout*".to_string(), 0), Fault::None);
    }
    let mut rank = HashMap::new();
    for (k, o) in c["order"].as_array().cloned().unwrap_or_default().iter().enumerate() {
        rank.insert((o[0].as_str().unwrap().to_string(), o[1].as_u64().unwrap() as usize), k);
    }
    let (turn, _keep) = tokio::sync::watch::channel(0usize);
    let tr = FaultTransport { good: fx.good.clone(), stale: fx.stale.clone(), plan, rank, turn, log: Mutex::new(Vec::new()), side: side.map(|p| p.to_path_buf()), flipped: Mutex::new(Vec::new()) };
    let local = c["local"].as_str().unwrap_or("ok");
    let bad;
    let ictx: &ExecutionContext = if local == "err" {
        bad = failing_ctx(&fx.init_dir, c["local_table"].as_str());
        &bad
    } else {
        &fx.init_ok
    };
    let parts = participants(n, me);
    let t0 = std::time::Instant::now();
    let r = catch(std::panic::AssertUnwindSafe(|| {
        fx.rt.block_on(async { tokio::time::timeout(Duration::from_secs(60), execute_any_distributed(ictx, &sql, &parts, &tr)).await })
    }));
    let full = &fx.full[key];
    rec["rows_full"] = json!(full.len());
    rec["ms"] = json!(t0.elapsed().as_millis() as u64);
    match r {
        Err(p) => {
            rec["outcome"] = json!("panic");
            rec["err"] = json!(p.chars().take(200).collect::<String>());
        }
        Ok(Err(_)) => {
            rec["outcome"] = json!("hang");
            rec["err"] = json!("no result within 60 s");
        }
        Ok(Ok(Err(e))) => {
            rec["outcome"] = json!("err");
            rec["err"] = json!(e.to_string().chars().take(220).collect::<String>());
        }
        Ok(Ok(Ok(d))) => {
            let got = bag_of(&d.result.batches);
            rec["outcome"] = json!(compare_bags(&got, full));
            rec["rows_got"] = json!(got.len());
            rec["err"] = json!("");
            rec["dist_shape"] = serde_json::to_value(d.distribution.shape).unwrap();
            rec["contrib"] = json!(d.distribution.nodes.iter().map(|c| json!([c.table, c.shard_index, if c.local { 1 } else { 0 }, c.result_rows])).collect::<Vec<_>>());
            if rec["outcome"] != json!("full") {
                rec["got_sample"] = json!(got.iter().take(4).collect::<Vec<_>>());
            }
        }
    }
    let mut sends = tr.log.lock().unwrap().clone();
    if matches!(rec["outcome"].as_str(), Some("full") | Some("partial") | Some("wrong")) {
        // the coordinator decoded these bytes without dying: how many rows did it merge from them?
        for (t, i, b) in tr.flipped.lock().unwrap().iter() {
            let n = catch(std::panic::AssertUnwindSafe(|| decode_ipc(b).map(|bs| bs.iter().map(|x| x.num_rows()).sum::<usize>()).ok())).ok().flatten();
            for s in sends.iter_mut() {
                if s["t"].as_str() == Some(t.as_str()) && s["i"].as_u64() == Some(*i as u64) {
                    s["decoded_rows"] = json!(n);
                }
            }
        }
    }
    if sends.iter().any(|s| s.get("skipped_heavy").is_some()) {
        rec["outcome"] = json!("skipped");
    }
    sends.sort_by_key(|s| (s["t"].as_str().unwrap().to_string(), s["i"].as_u64().unwrap()));
    rec["sends"] = json!(sends);
    rec
}

/// dist-topo <out> <workdir>: for every statement x cluster size x initiator position: shape, tables,
/// active shards, and (from a fault-free run) the real answer class and every remote payload's layout.
pub fn topo(a: &[String]) -> i32 {
    quiet_panics();
    let _ = std::fs::remove_file(&a[0]);
    let mut out = Sink::create(&a[0]);
    let fx = fixture(Path::new(&a[1]));
    for (k, _) in statements() {
        for n in 1..=4usize {
            for me in -1..(n as i64) {
                let c = json!({"cid": 0, "stmt": k, "n": n, "self": me, "local": "ok", "faults": [], "layout": 1});
                let mut r = run_case(&fx, &c, None);
                r["sql"] = json!(sql_of(k));
                out.put(&r);
            }
        }
    }
    out.finish();
    0
}

/// dist-replay <in> <out> <workdir>.  Appends to <out>; <out>.cur names the case in flight, so that a
/// process abort inside the code under test can be attributed (the driver then resumes after it).
pub fn replay(a: &[String]) -> i32 {
    quiet_panics();
    let cases = read_ndjson(&a[0]);
    let mut out = Sink::create(&a[1]);
    let fx = fixture(Path::new(&a[2]));
    HEAVY_LEFT.store(a.get(3).and_then(|s| s.parse().ok()).unwrap_or(0), std::sync::atomic::Ordering::SeqCst);
    ABORT_LEFT.store(a.get(4).and_then(|s| s.parse().ok()).unwrap_or(0), std::sync::atomic::Ordering::SeqCst);
    for c in cases {
        out.begin(&c);
        let side = PathBuf::from(format!("{}.cur.sends", &a[1]));
        let _ = std::fs::remove_file(&side);
        let r = run_case(&fx, &c, Some(&side));
        out.put(&r);
    }
    out.finish();
    0
}

// ---------------------------------------------------------------------------
// real sockets: three spawned nodes, a fault-injecting TCP proxy in front of the two workers

#[derive(Clone, Debug)]
enum HFault {
    None,
    Close,
    Proxy503,
    Status(u16),
    CutHead(usize),  // keep this many bytes of the status line + headers (always short of the terminator)
    CutBody(usize),  // keep the complete head and this many body bytes
    CutCls(String, usize),
    FlipBody(usize),
}

fn hfault_of(v: &Value) -> HFault {
    let sel = v["sel"].as_u64().unwrap_or(0) as usize;
    match v["kind"].as_str().unwrap_or("none") {
        "none" | "ok" => HFault::None,
        "close" => HFault::Close,
        "proxy503" => HFault::Proxy503,
        "status" => HFault::Status(v["status"].as_u64().unwrap_or(503) as u16),
        "cut" => {
            if let Some(o) = v.get("head_off").and_then(|o| o.as_u64()) {
                HFault::CutHead(o as usize)
            } else if let Some(o) = v.get("body_off").and_then(|o| o.as_u64()) {
                HFault::CutBody(o as usize)
            } else {
                HFault::CutCls(v["cls"].as_str().unwrap_or("inmsg").to_string(), sel)
            }
        }
        "flip" => HFault::FlipBody(v["off"].as_u64().unwrap_or(0) as usize),
        other => panic!("unknown http fault kind {other}"),
    }
}

struct ProxyState {
    plan: Mutex<HashMap<(String, usize), HFault>>, // (table, peer ordinal)
    log: Mutex<Vec<Value>>,
    /// faulted sends are also appended here before the bytes leave: survives a process abort
    side: PathBuf,
    flipped: Mutex<Vec<(String, usize, Vec<u8>, usize)>>, // table, peer, corrupted body, rows the worker declared
}

async fn read_http_request(s: &mut tokio::net::TcpStream) -> Option<(Vec<u8>, usize)> {
    let mut buf = Vec::with_capacity(1024);
    let mut tmp = [0u8; 8192];
    loop {
        if let Some(p) = buf.windows(4).position(|w| w == b"\r\n\r\n") {
            let head = String::from_utf8_lossy(&buf[..p]).to_ascii_lowercase();
            let cl = head.lines().find_map(|l| l.strip_prefix("content-length:").map(|v| v.trim().parse::<usize>().unwrap_or(0))).unwrap_or(0);
            if buf.len() >= p + 4 + cl {
                return Some((buf, p + 4));
            }
        }
        match tokio::time::timeout(Duration::from_secs(30), s.read(&mut tmp)).await {
            Ok(Ok(0)) | Ok(Err(_)) | Err(_) => return None,
            Ok(Ok(n)) => buf.extend_from_slice(&tmp[..n]),
        }
    }
}

/// class of a cut of the whole HTTP response at `off`
fn http_class(head_len: usize, lay: &Layout, off: usize) -> &'static str {
    if off < head_len {
        "hdr"
    } else if off == head_len {
        "term"
    } else {
        lay.class_of(off - head_len)
    }
}

async fn proxy_conn(mut conn: tokio::net::TcpStream, upstream: String, peer: usize, st: Arc<ProxyState>) {
    let Some((reqbytes, body_at)) = read_http_request(&mut conn).await else { return };
    let first = String::from_utf8_lossy(&reqbytes[..reqbytes.iter().position(|b| *b == b'\r').unwrap_or(0)]).to_string();
    let is_fragment = first.starts_with("POST /fragment");
    let mut fault = HFault::None;
    let mut rec = json!({"peer": peer});
    if is_fragment {
        if let Ok(fr) = serde_json::from_slice::<FragmentRequest>(&reqbytes[body_at..]) {
            rec["t"] = json!(fr.table);
            rec["i"] = json!(fr.shard_index);
            rec["n"] = json!(fr.shard_count);
            let plan = st.plan.lock().unwrap();
            // peer -1 in a case = whichever peer is sent this table (the address order decides which one that is)
            fault = plan.get(&(fr.table.clone(), peer)).or_else(|| plan.get(&(fr.table.clone(), usize::MAX))).cloned().unwrap_or(HFault::None);
        }
    }
    match fault {
        HFault::Close => {
            rec["applied"] = json!("close");
            st.log.lock().unwrap().push(rec);
            let _ = conn.shutdown().await;
            return;
        }
        HFault::Proxy503 => {
            let body = br#"{"error":"injected: tables are still loading"}"#;
            let head = format!("HTTP/1.1 503 Service Unavailable\r\ncontent-type: application/json\r\ncontent-length: {}\r\n\r\n", body.len());
            rec["applied"] = json!("proxy503");
            st.log.lock().unwrap().push(rec);
            let _ = conn.write_all(head.as_bytes()).await;
            let _ = conn.write_all(body).await;
            let _ = conn.shutdown().await;
            return;
        }
        _ => {}
    }
    // forward
    let mut resp = Vec::new();
    let ok = async {
        let mut up = tokio::net::TcpStream::connect(&upstream).await.ok()?;
        up.write_all(&reqbytes).await.ok()?;
        up.flush().await.ok()?;
        tokio::time::timeout(Duration::from_secs(60), up.read_to_end(&mut resp)).await.ok()?.ok()?;
        Some(())
    }
    .await;
    if ok.is_none() {
        rec["applied"] = json!("upstream-failed");
        st.log.lock().unwrap().push(rec);
        return;
    }
    if !is_fragment {
        let _ = conn.write_all(&resp).await;
        let _ = conn.shutdown().await;
        return;
    }
    let head_len = resp.windows(4).position(|w| w == b"\r\n\r\n").map(|p| p + 4).unwrap_or(resp.len());
    rec["resp_len"] = json!(resp.len());
    rec["head_len"] = json!(head_len);
    let status_200 = resp.starts_with(b"HTTP/1.1 200");
    rec["upstream_200"] = json!(if status_200 { 1 } else { 0 });
    let lay = if status_200 { parse_ipc(&resp[head_len..]).ok() } else { None };
    if let Some(l) = &lay {
        rec["body_len"] = json!(l.len);
        if st.plan.lock().unwrap().contains_key(&("*layout*".to_string(), 0)) {
            rec["layout"] = l.to_json();
        }
    }
    let mut outb = resp.clone();
    match (&fault, &lay) {
        (HFault::None, _) => {
            rec["applied"] = json!("none");
        }
        (HFault::Status(code), _) => {
            let eol = resp.iter().position(|b| *b == b'\r').unwrap_or(0);
            let mut b = format!("HTTP/1.1 {code} Injected").into_bytes();
            b.extend_from_slice(&resp[eol..]);
            outb = b;
            rec["applied"] = json!("status");
            rec["status"] = json!(code);
        }
        (HFault::CutHead(k), Some(l)) | (HFault::CutBody(k), Some(l)) => {
            let off = if matches!(fault, HFault::CutHead(_)) { (*k).min(head_len - 1) } else { (head_len + *k).min(resp.len()) };
            outb.truncate(off);
            rec["applied"] = json!("cut");
            rec["off"] = json!(off);
            rec["cls"] = json!(http_class(head_len, l, off));
            rec["lost"] = json!(if off <= head_len { l.rows_after(0) } else { l.rows_after(off - head_len) });
        }
        (HFault::CutCls(cls, sel), Some(l)) => {
            let offs: Vec<usize> = (0..resp.len()).filter(|&o| http_class(head_len, l, o) == cls).collect();
            if offs.is_empty() {
                rec["applied"] = json!("unresolved");
            } else {
                let off = offs[sel % offs.len()];
                outb.truncate(off);
                rec["applied"] = json!("cut");
                rec["off"] = json!(off);
                rec["cls"] = json!(cls);
                rec["lost"] = json!(if off <= head_len { l.rows_after(0) } else { l.rows_after(off - head_len) });
            }
        }
        (HFault::FlipBody(off), Some(l)) => {
            let off = head_len + (*off).min(l.len - 1);
            outb[off] ^= 0xff;
            rec["applied"] = json!("flip");
            rec["off"] = json!(off - head_len);
            if !admit(declared_overrun(&outb[head_len..]), &mut rec) {
                outb = resp.clone();
                rec["applied"] = json!("skipped");
            } else {
                let declared_rows = String::from_utf8_lossy(&resp[..head_len]).to_ascii_lowercase().lines()
                    .find_map(|l| l.strip_prefix("x-qe-rows:").and_then(|v| v.trim().parse::<usize>().ok())).unwrap_or(0);
                rec["rows"] = json!(declared_rows);
                st.flipped.lock().unwrap().push((rec["t"].as_str().unwrap_or("").to_string(), peer, outb[head_len..].to_vec(), declared_rows));
            }
        }
        _ => {
            rec["applied"] = json!("unresolved");
        }
    }
    if !matches!(fault, HFault::None) {
        use std::io::Write;
        let mut brief = rec.clone();
        if let Some(o) = brief.as_object_mut() {
            o.remove("layout");
        }
        if let Ok(mut f) = std::fs::OpenOptions::new().create(true).append(true).open(&st.side) {
            let _ = writeln!(f, "{brief}");
        }
    }
    st.log.lock().unwrap().push(rec);
    let _ = conn.write_all(&outb).await;
    let _ = conn.flush().await;
    let _ = conn.shutdown().await;
}

async fn proxy_loop(listener: tokio::net::TcpListener, upstream: String, peer: usize, st: Arc<ProxyState>) {
    loop {
        let Ok((conn, _)) = listener.accept().await else { return };
        conn.set_nodelay(true).ok();
        tokio::spawn(proxy_conn(conn, upstream.clone(), peer, st.clone()));
    }
}

fn loader(dir: PathBuf) -> TableLoader {
    Box::new(move || Ok(ctx_over(&dir)))
}

fn opts(id: u64) -> ServeOptions {
    ServeOptions {
        bind: "127.0.0.1:0".into(),
        node_id: Some(id),
        discovery_interval: Duration::from_millis(40),
        probe_timeout: Duration::from_millis(3000),
        flight_bind: Some("none".into()),
        ..Default::default()
    }
}

async fn wait_members(a: &ServerHandle, want: usize) -> bool {
    for _ in 0..600 {
        let ms = a.state().membership.members();
        let up = ms.iter().filter(|m| m.is_self || m.status == query_engine::distributed::PeerStatus::Up).count();
        if ms.len() == want && up == want && a.state().tables_loaded() {
            return true;
        }
        tokio::time::sleep(Duration::from_millis(25)).await;
    }
    false
}

fn csv_bag(body: &[u8]) -> Vec<String> {
    let text = String::from_utf8_lossy(body);
    let mut rows: Vec<String> = text.lines().skip(1).filter(|l| !l.is_empty()).map(|l| l.replace(',', "|")).collect();
    rows.sort();
    rows
}

/// dist-http <in> <out> <workdir>
pub fn http(a: &[String]) -> i32 {
    quiet_panics();
    for v in ["QE_ADVERTISE_ADDR", "QE_NODE_ID", "POD_IP"] {
        std::env::remove_var(v);
    }
    let cases = read_ndjson(&a[0]);
    let mut out = Sink::create(&a[1]);
    let work = PathBuf::from(&a[2]);
    ABORT_LEFT.store(a.get(4).and_then(|s| s.parse().ok()).unwrap_or(0), std::sync::atomic::Ordering::SeqCst);
    let _ = std::fs::remove_dir_all(&work);
    let dirs: Vec<PathBuf> = (0..3).map(|i| work.join(format!("node{i}"))).collect();
    for d in &dirs {
        write_copy(d, 0);
    }
    let rt = tokio::runtime::Builder::new_multi_thread().worker_threads(4).enable_all().build().unwrap();
    let code = rt.block_on(async {
        let na = query_engine::distributed::spawn(opts(0), loader(dirs[0].clone())).await.expect("bind A");
        let nb = query_engine::distributed::spawn(opts(1), loader(dirs[1].clone())).await.expect("bind B");
        let nc = query_engine::distributed::spawn(opts(2), loader(dirs[2].clone())).await.expect("bind C");
        let st = Arc::new(ProxyState { plan: Mutex::new(HashMap::new()), log: Mutex::new(Vec::new()), side: PathBuf::from(format!("{}.cur.sends", &a[1])), flipped: Mutex::new(Vec::new()) });
        let mut paddr = Vec::new();
        for (k, up) in [nb.address().to_string(), nc.address().to_string()].into_iter().enumerate() {
            let l = tokio::net::TcpListener::bind("127.0.0.1:0").await.expect("bind proxy");
            paddr.push(l.local_addr().unwrap().to_string());
            tokio::spawn(proxy_loop(l, up, k, st.clone()));
        }
        let a_addr = na.address().to_string();
        for _ in 0..2400 {
            if na.state().tables_loaded() && nb.state().tables_loaded() && nc.state().tables_loaded() {
                break;
            }
            tokio::time::sleep(Duration::from_millis(25)).await;
        }
        let mut cur_n = 0usize;
        let t60 = Duration::from_secs(60);
        let mut full: HashMap<String, Vec<String>> = HashMap::new();
        for c in cases {
            let n = c["n"].as_u64().unwrap_or(2) as usize;
            if n != cur_n {
                let mut peers = vec![a_addr.clone()];
                peers.extend(paddr.iter().take(n - 1).cloned());
                na.set_peers(peers);
                if !wait_members(&na, n).await {
                    let mut r = c.clone();
                    r["outcome"] = json!("setup_error");
                    r["err"] = json!("the initiator never saw all peers up through the proxy");
                    out.put(&r);
                    continue;
                }
                cur_n = n;
            }
            let key = c["stmt"].as_str().unwrap().to_string();
            let sql = sql_of(&key);
            if !full.contains_key(&key) {
                match http_client::post_text(&a_addr, "/sql?distributed=0&format=csv", &sql, t60).await {
                    Ok(r) if r.status == 200 => {
                        full.insert(key.clone(), csv_bag(&r.body));
                    }
                    other => {
                        let mut r = c.clone();
                        r["outcome"] = json!("setup_error");
                        r["err"] = json!(format!("local answer over HTTP failed: {:?}", other.map(|r| (r.status, r.text()))));
                        out.put(&r);
                        continue;
                    }
                }
            }
            let todo = vec![c.clone()];
            for c in todo {
                out.begin(&c);
                let _ = std::fs::remove_file(&st.side);
                {
                    let mut p = st.plan.lock().unwrap();
                    p.clear();
                    for f in c["faults"].as_array().cloned().unwrap_or_default() {
                        p.insert((f["t"].as_str().unwrap().to_string(), f["peer"].as_i64().map(|x| if x < 0 { usize::MAX } else { x as usize }).unwrap()), hfault_of(&f));
                    }
                    if c["layout"].as_i64().unwrap_or(0) == 1 {
                        p.insert(("*layout*".to_string(), 0), HFault::None);
                    }
                    st.log.lock().unwrap().clear();
                    st.flipped.lock().unwrap().clear();
                }
                let mut rec = c.clone();
                let r = http_client::post_text(&a_addr, "/sql?distributed=1&format=csv", &sql, t60).await;
                let fullbag = &full[&key];
                rec["rows_full"] = json!(fullbag.len());
                match r {
                    Err(e) => {
                        rec["outcome"] = json!(if e.kind() == std::io::ErrorKind::TimedOut { "hang" } else { "client_err" });
                        rec["err"] = json!(e.to_string());
                    }
                    Ok(r) => {
                        rec["status"] = json!(r.status);
                        rec["distributed"] = json!(r.header("x-qe-distributed").unwrap_or(""));
                        rec["shards"] = json!(r.header("x-qe-shards").unwrap_or(""));
                        if r.status == 200 {
                            let got = csv_bag(&r.body);
                            rec["outcome"] = json!(compare_bags(&got, fullbag));
                            rec["rows_got"] = json!(got.len());
                            rec["err"] = json!("");
                        } else {
                            rec["outcome"] = json!("err");
                            rec["err"] = json!(r.text().chars().take(220).collect::<String>());
                        }
                    }
                }
                let mut log = st.log.lock().unwrap().clone();
                if rec["status"].as_u64() == Some(200) {
                    for (t, peer, b, _) in st.flipped.lock().unwrap().iter() {
                        let n = catch(std::panic::AssertUnwindSafe(|| decode_ipc(b).map(|bs| bs.iter().map(|x| x.num_rows()).sum::<usize>()).ok())).ok().flatten();
                        for s in log.iter_mut() {
                            if s["t"].as_str() == Some(t.as_str()) && s["peer"].as_u64() == Some(*peer as u64) {
                                s["decoded_rows"] = json!(n);
                            }
                        }
                    }
                }
                log.sort_by_key(|s| (s["t"].as_str().unwrap_or("").to_string(), s["peer"].as_u64().unwrap_or(0)));
                rec["sends"] = json!(log);
                out.put(&rec);
            }
        }
        na.shutdown().await;
        nb.shutdown().await;
        nc.shutdown().await;
        0
    });
    out.finish();
    code
}
