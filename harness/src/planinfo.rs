//! LogicalPlan introspection for the optimizer properties (C03, C31, C32):
//! rule construction by name, output schema, and the join tree as JSON.
use query_engine::optimizer::{self as opt, OptimizerRule};
use query_engine::physical::operators::TableStatistics;
use query_engine::planner::{Expr, JoinType, LogicalPlan};
use serde_json::{json, Value};
use std::collections::{BTreeSet, HashMap};
use std::sync::Arc;

pub const PRODUCTION_ORDER: [&str; 15] = [
    "ConstantFolding",
    "DeriveOrPredicates",
    "PredicatePushdown",
    "FlattenDependentJoin",
    "SubqueryDecorrelation",
    "SemiJoinPushdown",
    "JoinReorder",
    "PredicatePushdown",
    "HavingTotalCse",
    "GroupKeyReduction",
    "EagerAggregation",
    "PackedGroupKeys",
    "PackedJoinKeys",
    "ProjectionPushdown",
    "VectorSearchPushdown",
];

pub fn rule_by_name(name: &str, stats: &HashMap<String, TableStatistics>) -> Option<Arc<dyn OptimizerRule>> {
    let has = !stats.is_empty();
    Some(match name {
        "ConstantFolding" => Arc::new(opt::ConstantFolding),
        "DeriveOrPredicates" => Arc::new(opt::DeriveOrPredicates),
        "PredicatePushdown" => Arc::new(opt::PredicatePushdown),
        "FlattenDependentJoin" => Arc::new(opt::FlattenDependentJoin),
        "SubqueryDecorrelation" => Arc::new(opt::SubqueryDecorrelation),
        "SemiJoinPushdown" => Arc::new(opt::SemiJoinPushdown),
        "JoinReorder" => {
            if has {
                Arc::new(opt::JoinReorder::with_table_statistics(stats.clone()))
            } else {
                Arc::new(opt::JoinReorder::new())
            }
        }
        "HavingTotalCse" => Arc::new(opt::HavingTotalCse),
        "GroupKeyReduction" => {
            if has {
                Arc::new(opt::GroupKeyReduction::with_table_statistics(stats.clone()))
            } else {
                Arc::new(opt::GroupKeyReduction::new())
            }
        }
        "EagerAggregation" => {
            if has {
                Arc::new(opt::EagerAggregation::with_table_statistics(stats.clone()))
            } else {
                Arc::new(opt::EagerAggregation::new())
            }
        }
        "PackedGroupKeys" => {
            if has {
                Arc::new(opt::PackedGroupKeys::with_table_statistics(stats.clone()))
            } else {
                Arc::new(opt::PackedGroupKeys::new())
            }
        }
        "PackedJoinKeys" => {
            if has {
                Arc::new(opt::PackedJoinKeys::with_table_statistics(stats.clone()))
            } else {
                Arc::new(opt::PackedJoinKeys::new())
            }
        }
        "ProjectionPushdown" => Arc::new(opt::ProjectionPushdown),
        "VectorSearchPushdown" => Arc::new(opt::VectorSearchPushdown),
        _ => return None,
    })
}

pub fn schema_json(plan: &LogicalPlan) -> Value {
    let s = plan.schema();
    Value::Array(s.fields().iter().map(|f| json!([f.name, format!("{}", f.data_type)])).collect())
}

/// relation aliases mentioned by an expression (our generated aliases are x<N>, d<N>, c<N>)
fn expr_rels(e: &Expr) -> BTreeSet<String> {
    let s = format!("{}", e);
    let mut out = BTreeSet::new();
    let b = s.as_bytes();
    let mut i = 0;
    while i < b.len() {
        let start_ok = i == 0 || !(b[i - 1].is_ascii_alphanumeric() || b[i - 1] == b'_' || b[i - 1] == b'.');
        if start_ok && (b[i] == b'x' || b[i] == b'd' || b[i] == b'c') {
            let mut j = i + 1;
            while j < b.len() && b[j].is_ascii_digit() {
                j += 1;
            }
            if j > i + 1 && j < b.len() && b[j] == b'.' {
                out.insert(s[i..j].to_string());
                i = j;
                continue;
            }
        }
        i += 1;
    }
    out
}

fn rels_under(plan: &LogicalPlan, out: &mut Vec<String>) {
    match plan {
        LogicalPlan::SubqueryAlias(n) => out.push(n.alias.clone()),
        LogicalPlan::Scan(n) => out.push(n.table_name.clone()),
        other => {
            for c in other.children() {
                rels_under(c, out);
            }
        }
    }
}

fn walk(plan: &LogicalPlan, joins: &mut Vec<Value>, filters: &mut Vec<Value>) {
    match plan {
        LogicalPlan::Join(j) => {
            let mut l = Vec::new();
            let mut r = Vec::new();
            rels_under(&j.left, &mut l);
            rels_under(&j.right, &mut r);
            let on: Vec<Value> = j
                .on
                .iter()
                .map(|(a, b)| json!([expr_rels(a).into_iter().collect::<Vec<_>>(), expr_rels(b).into_iter().collect::<Vec<_>>(), format!("{} = {}", a, b)]))
                .collect();
            let kind = match j.join_type {
                JoinType::Inner => "inner",
                JoinType::Left => "left",
                JoinType::Right => "right",
                JoinType::Full => "full",
                JoinType::Semi => "semi",
                JoinType::Anti => "anti",
                JoinType::Cross => "cross",
                JoinType::Single => "single",
                JoinType::Mark => "mark",
            };
            joins.push(json!({"kind": kind, "left": l, "right": r, "on": on,
                              "filter": j.filter.as_ref().map(|f| format!("{}", f)),
                              "filter_rels": j.filter.as_ref().map(|f| expr_rels(f).into_iter().collect::<Vec<_>>()).unwrap_or_default()}));
        }
        LogicalPlan::Filter(f) => {
            filters.push(json!({"pred": format!("{}", f.predicate), "rels": expr_rels(&f.predicate).into_iter().collect::<Vec<_>>()}));
        }
        LogicalPlan::Scan(s) => {
            if let Some(f) = &s.filter {
                filters.push(json!({"pred": format!("{}", f), "rels": expr_rels(f).into_iter().collect::<Vec<_>>(), "scan": s.table_name}));
            }
        }
        _ => {}
    }
    for c in plan.children() {
        walk(c, joins, filters);
    }
}

/// qualified column references of an expression, read off its Debug form
/// (`Column { relation: Some("x1"), name: "id" }`); None when the expression embeds a sub-query plan
fn qualified_cols(e: &Expr) -> Option<Vec<(String, String)>> {
    let s = format!("{:?}", e);
    if s.contains("Subquery") || s.contains("Exists") {
        return None;
    }
    let mut out = Vec::new();
    let pat = "relation: Some(\"";
    let mut rest = s.as_str();
    while let Some(i) = rest.find(pat) {
        rest = &rest[i + pat.len()..];
        let Some(j) = rest.find('"') else { break };
        let q = rest[..j].to_string();
        rest = &rest[j..];
        let npat = "name: \"";
        let Some(k) = rest.find(npat) else { break };
        // the name must belong to this Column (directly after the relation)
        if k > 6 {
            continue;
        }
        rest = &rest[k + npat.len()..];
        let Some(m) = rest.find('"') else { break };
        out.push((q, rest[..m].to_string()));
        rest = &rest[m..];
    }
    Some(out)
}

fn resolves_in(plan: &LogicalPlan, q: &str, n: &str) -> bool {
    plan.schema().fields().iter().any(|f| f.relation.as_deref() == Some(q) && f.name.eq_ignore_ascii_case(n))
}

/// C31: every QUALIFIED column of a join key must be a column of the join input it is evaluated on
/// (left key on the left input, right key on the right input; a swapped pair is accepted too)
fn join_refs_unresolved(plan: &LogicalPlan, out: &mut Vec<String>, seen: &mut usize) {
    if let LogicalPlan::Join(j) = plan {
        for (a, b) in &j.on {
            let (Some(ca), Some(cb)) = (qualified_cols(a), qualified_cols(b)) else { continue };
            *seen += ca.len() + cb.len();
            let side = |cols: &Vec<(String, String)>, p: &LogicalPlan| cols.iter().all(|(q, n)| resolves_in(p, q, n));
            let straight = side(&ca, &j.left) && side(&cb, &j.right);
            let swapped = side(&ca, &j.right) && side(&cb, &j.left);
            if !(straight || swapped) {
                let mut l = Vec::new();
                let mut r = Vec::new();
                rels_under(&j.left, &mut l);
                rels_under(&j.right, &mut r);
                out.push(format!("{:?} join key {} = {} does not resolve on its inputs (left {:?}, right {:?})", j.join_type, a, b, l, r));
            }
        }
    }
    for c in plan.children() {
        join_refs_unresolved(c, out, seen);
    }
}

pub fn plan_info(plan: &LogicalPlan) -> Value {
    let mut joins = Vec::new();
    let mut filters = Vec::new();
    walk(plan, &mut joins, &mut filters);
    let mut rels = Vec::new();
    rels_under(plan, &mut rels);
    let mut unres = Vec::new();
    let mut seen = 0usize;
    join_refs_unresolved(plan, &mut unres, &mut seen);
    json!({"joins": joins, "filters": filters, "rels": rels, "schema": schema_json(plan), "join_refs_unresolved": unres, "join_key_cols_seen": seen})
}
