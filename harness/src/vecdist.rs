//! C38 — vector distance kernels (physical/vector.rs) replayed from VecDist.tla cases and recorded for
//! VecDistTrace.tla.
//!
//!   qev vecdist-replay <cases.ndjson> <out.ndjson>      cases emitted by TLC (or built by the check)
//!   qev vecdist-record <seed> <n> <out.ndjson>          random larger dimensions (7,8,9,16,384,1024,...)
//!
//! case: {"dim":d, "rows":[[int..] | NULL ..], "off":o, "len":n,            base column (d floats per row), sliced
//!        "q":[int..]                                                        literal query vector (any length)
//!      | "dim2":d2, "rows2":[..], "off2":o2,                                second column, sliced to the same len
//!        "path":"api"|"sql"}
//! A NULL row is [] (or the integer NULL sentinel) instead of a vector; its d child slots hold non-zero garbage.
//! record = case + "out": {"l2"|"cos"|"sim"|"dot": {"k":"ok","rows":[[isnull, finite, m, m2]..]} | {"k":"err"|"panic","msg"}}
//! where for a result x:  m = round(x * 10^4), m2 = round(x^2 * 10^4); for cosine DISTANCE y the pair is
//! reported for s = 1 - y (so the same identity as for cosine similarity applies) and "raw" = round(y * 10^4).
use crate::util::*;
use arrow::array::*;
use arrow::buffer::NullBuffer;
use arrow::datatypes::{DataType, Field};
use query_engine::physical::vector::{distance_column, distance_columns, DistanceKind};
use rand::{Rng, SeedableRng};
use serde_json::{json, Value};
use std::panic::AssertUnwindSafe;
use std::sync::Arc;

pub const NULLV: i64 = -1073741824;
pub const KINDS: [(&str, DistanceKind, &str); 4] = [
    ("l2", DistanceKind::L2, "l2_distance"),
    ("cos", DistanceKind::Cosine, "cosine_distance"),
    ("sim", DistanceKind::CosineSimilarity, "cosine_similarity"),
    ("dot", DistanceKind::Dot, "dot_product"),
];

/// FixedSizeList<Float32, dim> over `rows` (NULL sentinel = NULL row with garbage underneath), sliced.
pub fn vec_column(dim: usize, rows: &[Value], off: usize, len: usize) -> ArrayRef {
    let mut child: Vec<f32> = Vec::with_capacity(rows.len() * dim);
    let mut valid = Vec::with_capacity(rows.len());
    for (r, row) in rows.iter().enumerate() {
        match row.as_array().filter(|v| !v.is_empty()) {
            Some(v) => {
                assert_eq!(v.len(), dim, "row width");
                child.extend(v.iter().map(|x| x.as_i64().unwrap() as f32));
                valid.push(true);
            }
            None => {
                child.extend((0..dim).map(|j| if (r + j) % 2 == 0 { 3.0 } else { -2.0 }));
                valid.push(false);
            }
        }
    }
    let nulls = if valid.iter().all(|v| *v) { None } else { Some(NullBuffer::from(valid)) };
    let list = FixedSizeListArray::try_new(Arc::new(Field::new("item", DataType::Float32, true)), dim as i32, Arc::new(Float32Array::from(child)), nulls).unwrap();
    let arr: ArrayRef = Arc::new(list);
    arr.slice(off, len)
}

pub fn scaled(x: f64) -> (i64, i64, i64) {
    if !x.is_finite() || x.abs() > 1.0e12 {
        return (0, 0, 0);
    }
    (1, (x * 1e4).round() as i64, (x * x * 1e4).round() as i64)
}

fn project(kind: &str, arr: &ArrayRef) -> Value {
    let Some(f) = arr.as_any().downcast_ref::<Float64Array>() else {
        return json!({"k": "err", "msg": format!("result type {}", arr.data_type())});
    };
    let rows: Vec<Value> = (0..f.len())
        .map(|i| {
            if f.is_null(i) {
                return json!([1, 1, 0, 0, 0]);
            }
            let y = f.value(i);
            let x = if kind == "cos" { 1.0 - y } else { y };
            let (fin, m, m2) = scaled(x);
            let raw = scaled(y).1;
            json!([0, fin, m, m2, raw])
        })
        .collect();
    json!({"k": "ok", "rows": rows})
}

fn outcome(kind: &str, r: Result<query_engine::Result<ArrayRef>, String>) -> Value {
    match r {
        Ok(Ok(a)) => project(kind, &a),
        Ok(Err(e)) => json!({"k": "err", "msg": e.to_string().chars().take(200).collect::<String>()}),
        Err(p) => json!({"k": "panic", "msg": p.chars().take(200).collect::<String>()}),
    }
}

fn lit(q: &[i64]) -> String {
    format!("[{}]", q.iter().map(|x| format!("{x}.0")).collect::<Vec<_>>().join(", "))
}

pub fn run_case(rt: &tokio::runtime::Runtime, c: &Value) -> Value {
    let dim = c["dim"].as_u64().unwrap() as usize;
    let rows = c["rows"].as_array().unwrap();
    let off = c["off"].as_u64().unwrap() as usize;
    let len = c["len"].as_u64().unwrap() as usize;
    let col = vec_column(dim, rows, off, len);
    let sql = c.get("path").and_then(|p| p.as_str()) == Some("sql");
    let mut out = serde_json::Map::new();
    // "mode": "lit" (column vs literal q) | "col" (column vs column rows2); records are uniform: the unused side is []
    let is_col = c.get("mode").and_then(|m| m.as_str()).map(|m| m == "col").unwrap_or(c.get("q").is_none());
    let col2 = if is_col { Some(vec_column(c["dim2"].as_u64().unwrap() as usize, c["rows2"].as_array().unwrap(), c["off2"].as_u64().unwrap() as usize, len)) } else { None };
    let q: Option<Vec<i64>> = if is_col { None } else { Some(c["q"].as_array().unwrap().iter().map(|x| x.as_i64().unwrap()).collect()) };
    for (name, kind, func) in KINDS {
        let v = if sql {
            // SELECT f(v, <literal>|w) through the SQL front end on a one-batch memory table holding the SLICED arrays
            let ids: ArrayRef = Arc::new(Int64Array::from((0..len as i64).collect::<Vec<i64>>()));
            let mut fields = vec![Field::new("id", DataType::Int64, true), Field::new("v", col.data_type().clone(), true)];
            let mut cols = vec![ids, col.clone()];
            if let Some(c2) = &col2 {
                fields.push(Field::new("w", c2.data_type().clone(), true));
                cols.push(c2.clone());
            }
            let schema = Arc::new(arrow::datatypes::Schema::new(fields));
            let batch = RecordBatch::try_new(schema.clone(), cols).unwrap();
            let mut ctx = query_engine::ExecutionContext::new();
            ctx.register_table("t", schema, vec![batch]);
            let arg = match (&q, &col2) {
                (Some(q), _) => lit(q),
                _ => "w".to_string(),
            };
            let text = format!("SELECT id, {func}(v, {arg}) AS d FROM t ORDER BY id");
            let r = catch(AssertUnwindSafe(|| rt.block_on(async { ctx.sql(&text).await })));
            match r {
                Ok(Ok(res)) => {
                    // rows come back ordered by id; concatenate the distance column
                    let arrays: Vec<ArrayRef> = res.batches.iter().map(|b| b.column(1).clone()).collect();
                    let ids_ok = res.batches.iter().flat_map(|b| b.column(0).as_any().downcast_ref::<Int64Array>().unwrap().values().to_vec()).eq(0..len as i64);
                    if !ids_ok {
                        json!({"k": "err", "msg": "SQL path returned other ids than 0..len in order"})
                    } else if arrays.is_empty() {
                        json!({"k": "ok", "rows": []})
                    } else {
                        let refs: Vec<&dyn Array> = arrays.iter().map(|a| a.as_ref()).collect();
                        project(name, &arrow::compute::concat(&refs).unwrap())
                    }
                }
                Ok(Err(e)) => json!({"k": "err", "msg": e.to_string().chars().take(200).collect::<String>()}),
                Err(p) => json!({"k": "panic", "msg": p}),
            }
        } else if let Some(q) = &q {
            let qf: Vec<f32> = q.iter().map(|x| *x as f32).collect();
            let col = col.clone();
            outcome(name, catch(AssertUnwindSafe(|| distance_column(&col, &qf, kind, "v"))))
        } else {
            let (a, b) = (col.clone(), col2.clone().unwrap());
            outcome(name, catch(AssertUnwindSafe(|| distance_columns(&a, &b, kind))))
        };
        out.insert(name.to_string(), v);
    }
    let mut rec = c.clone();
    rec["out"] = Value::Object(out);
    rec
}

pub fn replay(a: &[String]) -> i32 {
    quiet_panics();
    let cases = read_ndjson(&a[0]);
    let mut out = Out::create(&a[1]);
    let rt = tokio::runtime::Builder::new_multi_thread().worker_threads(2).enable_all().build().unwrap();
    for c in cases {
        out.put(&run_case(&rt, &c));
    }
    out.finish();
    0
}

/// Random columns of larger dimension: small integers so that every sum is exact in f32 and < 2^31.
pub fn record(a: &[String]) -> i32 {
    quiet_panics();
    let seed: u64 = a[0].parse().unwrap();
    let n: usize = a[1].parse().unwrap();
    let mut out = Out::create(&a[2]);
    let mut rng = rand::rngs::StdRng::seed_from_u64(seed);
    let rt = tokio::runtime::Builder::new_multi_thread().worker_threads(2).enable_all().build().unwrap();
    let dims = [7usize, 8, 9, 15, 16, 17, 23, 24, 25, 31, 32, 33, 384, 385, 1023, 1024];
    for i in 0..n {
        let dim = if i % 5 == 4 { dims[12 + (i / 5) % 4] } else { dims[rng.gen_range(0..12)] };
        let nrows = rng.gen_range(1..=5usize);
        let amp: i64 = if dim > 100 { 2 } else { rng.gen_range(1..=4) };
        // a vector whose non-zero entries sit in chosen positions (so that a skipped remainder / lane shows)
        let mut vecr = |rng: &mut rand::rngs::StdRng| -> Value {
            let style = rng.gen_range(0..5);
            Value::Array(
                (0..dim)
                    .map(|j| {
                        let x: i64 = match style {
                            0 => rng.gen_range(-amp..=amp),
                            1 => {
                                if j >= dim - dim % 8 || dim % 8 == 0 && j == dim - 1 {
                                    rng.gen_range(1..=amp)
                                } else {
                                    0
                                }
                            } // only the remainder lanes
                            2 => {
                                if j % 8 == 7 || j == 0 {
                                    rng.gen_range(-amp..=amp)
                                } else {
                                    0
                                }
                            }
                            3 => 0, // zero vector
                            _ => rng.gen_range(0..=1),
                        };
                        json!(x)
                    })
                    .collect(),
            )
        };
        let mut rows: Vec<Value> = (0..nrows).map(|_| if rng.gen_bool(0.2) { json!([]) } else { vecr(&mut rng) }).collect();
        if rows.iter().all(|r| r.as_array().map(|a| a.is_empty()).unwrap_or(true)) {
            rows[0] = vecr(&mut rng);
        }
        let off = rng.gen_range(0..nrows);
        let len = rng.gen_range(1..=nrows - off);
        let mut c = json!({"dim": dim, "rows": rows, "off": off, "len": len, "path": if i % 7 == 3 { "sql" } else { "api" }, "src": "random",
                            "mode": "lit", "q": [], "dim2": 0, "rows2": [], "off2": 0});
        if i % 3 == 0 {
            let n2 = len + rng.gen_range(0..2usize);
            let off2 = rng.gen_range(0..=1usize);
            let rows2: Vec<Value> = (0..n2 + off2).map(|_| if rng.gen_bool(0.15) { json!([]) } else { vecr(&mut rng) }).collect();
            c["mode"] = json!("col");
            c["dim2"] = json!(dim);
            c["rows2"] = json!(rows2);
            c["off2"] = json!(off2);
        } else {
            let qlen = if i % 11 == 1 { dim + 1 } else if i % 11 == 2 { dim - 1 } else { dim };
            let qv = vecr(&mut rng);
            let mut q: Vec<Value> = qv.as_array().unwrap().clone();
            q.resize(qlen, json!(1));
            c["q"] = json!(q);
        }
        out.put(&run_case(&rt, &c));
    }
    out.finish();
    0
}
