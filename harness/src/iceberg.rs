//! C17 — materialise a model table directory (Iceberg.tla state) on disk and open it with the real
//! reader: `ExecutionContext::register_iceberg` + `SELECT *` / `SELECT COUNT(*)`.
//!
//! Input case (one ND-JSON line, emitted by TLC, `variant` added by the driver):
//!   {scheme, hint, variant, manifests:[{kind,uri,entries:[{file,status,content,format,uri}]}],
//!    snapshots:[{ts,uri,mlist:[i..]}], metas:[{ts,cur,snaps:[i..]}], opens:[{target, accept:[..]}]}
//! Output: the case + "obs": [{target, outcome: rows|refuse|panic, stage, rows:[x..], ybad, count, class, msg}].
//!
//! Concretisation (trusted, documented in checks/c17.py):
//!   file k            -> data/f<k>.parquet (k=21: data/f21.orc, still valid Parquet so that only the
//!                        file_format check can refuse it); columns x BIGINT, y BIGINT = 10*x
//!   delete files      -> valid Parquet with the table's schema (only the `content` check can refuse them)
//!   uri form 0..3     -> file:///abs | file:/abs | /abs | relative to the table dir
//!   uri form 4        -> s3://bucket/wh/t/<rel>; the object ALSO exists at <table>/s3:/bucket/wh/t/<rel>,
//!                        so a reader that treats the URI as a relative path finds it and serves rows
//!   metadata names    -> scheme 0: v<7+i>.metadata.json (v8,v9,v10,.. lexicographic != numeric)
//!                        scheme 1: <i-1 05>-<uuid>.metadata.json; scheme 2: <90-i 05>-<uuid>.metadata.json
//!   snapshot ids      -> fixed 63-bit ids unrelated to commit order; timestamp-ms = 1.7e12 + ts
//!   summary counts    -> snapshots[i].counts = [{m, c}]: c = 0 count fields absent from the list's schema,
//!                        1 nullable and truthful, 2 nullable and null (v2 names; v1 tables use the v1 names)
//!   an unreferenced data/orphan.parquet (x=999) is always present
use crate::util::*;
use apache_avro::types::Value as A;
use arrow::array::{Array, ArrayRef, Int64Array};
use arrow::datatypes::{DataType, Field, Schema};
use arrow::record_batch::RecordBatch;
use serde_json::{json, Value};
use std::path::{Path, PathBuf};
use std::sync::atomic::{AtomicUsize, Ordering};
use std::sync::{Arc, Mutex};

const SNAP_IDS: [i64; 10] = [
    0,
    8067241830172498312,
    1290837412093847127,
    5555000011112222333,
    3141592653589793238,
    2718281828459045235,
    6022140760000000001,
    1618033988749894848,
    7071067811865475244,
    4669201609102990671,
];
const UNKNOWN_ID: i64 = 4242424242424242424;
const TS0: i64 = 1_700_000_000_000;

fn snap_id(i: i64) -> i64 {
    if i >= 1 && (i as usize) < SNAP_IDS.len() {
        SNAP_IDS[i as usize]
    } else {
        UNKNOWN_ID
    }
}

fn rows_of(f: i64) -> Vec<i64> {
    match f {
        1 => vec![1],
        2 => vec![1, 2],
        3 => vec![3],
        4 => vec![2, 4],
        k => vec![k * 10],
    }
}

fn write_parquet(path: &Path, xs: &[i64]) {
    std::fs::create_dir_all(path.parent().unwrap()).unwrap();
    let schema = Arc::new(Schema::new(vec![
        Field::new("x", DataType::Int64, false),
        Field::new("y", DataType::Int64, true),
    ]));
    let x: ArrayRef = Arc::new(Int64Array::from(xs.to_vec()));
    let y: ArrayRef = Arc::new(Int64Array::from(xs.iter().map(|v| v * 10).collect::<Vec<_>>()));
    let batch = RecordBatch::try_new(schema.clone(), vec![x, y]).unwrap();
    let f = std::fs::File::create(path).unwrap();
    let mut w = parquet::arrow::ArrowWriter::try_new(f, schema, None).unwrap();
    w.write(&batch).unwrap();
    w.close().unwrap();
}

/// Data file `f` (0 = the orphan, x=999) at `dest`: written once per run into `pool`, then hard-linked
/// (the bytes of a model file never differ between cases; only the directory around them does).
fn place_parquet(pool: &Path, dest: &Path, f: i64) {
    let src = pool.join(format!("f{f}.parquet"));
    if !src.exists() {
        let tmp = pool.join(format!("f{f}.{:?}.tmp", std::thread::current().id()));
        write_parquet(&tmp, &if f == 0 { vec![999] } else { rows_of(f) });
        let _ = std::fs::rename(&tmp, &src);
    }
    std::fs::create_dir_all(dest.parent().unwrap()).unwrap();
    if std::fs::hard_link(&src, dest).is_err() {
        write_parquet(dest, &if f == 0 { vec![999] } else { rows_of(f) });
    }
}

const REMOTE_PREFIX: &str = "s3://bucket/wh/t/";

/// URI text for the object whose table-relative path is `rel`.
fn uri_of(form: i64, dir: &Path, rel: &str) -> String {
    let abs = dir.join(rel);
    let abs = abs.to_str().unwrap();
    match form {
        0 => format!("file://{abs}"),
        1 => format!("file:{abs}"),
        2 => abs.to_string(),
        3 => rel.to_string(),
        _ => format!("{REMOTE_PREFIX}{rel}"),
    }
}

/// Where the object's bytes are written: always at <dir>/<rel>, and for remote URIs also at the place a
/// reader mistaking the URI for a relative path would look.
fn places(form: i64, dir: &Path, rel: &str) -> Vec<PathBuf> {
    let mut v = vec![dir.join(rel)];
    if form == 4 {
        v.push(dir.join(format!("s3:/bucket/wh/t/{rel}")));
    }
    v
}

fn data_rel(f: i64) -> String {
    if f == 21 {
        "data/f21.orc".to_string()
    } else if f == 11 || f == 12 {
        format!("data/f{f}-deletes.parquet")
    } else {
        format!("data/f{f}.parquet")
    }
}

fn manifest_entry_schema(fv: i64) -> apache_avro::Schema {
    let content = if fv >= 2 { r#"{"name":"content","type":"int","field-id":134},"# } else { "" };
    let seq = if fv >= 2 {
        r#"{"name":"sequence_number","type":["null","long"],"default":null,"field-id":3},
           {"name":"file_sequence_number","type":["null","long"],"default":null,"field-id":4},"#
    } else {
        ""
    };
    let block = if fv >= 2 { "" } else { r#"{"name":"block_size_in_bytes","type":"long","field-id":105},"# };
    let s = format!(
        r#"{{"type":"record","name":"manifest_entry","fields":[
          {{"name":"status","type":"int","field-id":0}},
          {{"name":"snapshot_id","type":["null","long"],"default":null,"field-id":1}},
          {seq}
          {{"name":"data_file","field-id":2,"type":{{"type":"record","name":"r2","fields":[
             {content}
             {{"name":"file_path","type":"string","field-id":100}},
             {{"name":"file_format","type":"string","field-id":101}},
             {{"name":"partition","type":{{"type":"record","name":"r102","fields":[]}},"field-id":102}},
             {{"name":"record_count","type":"long","field-id":103}},
             {{"name":"file_size_in_bytes","type":"long","field-id":104}},
             {block}
             {{"name":"sort_order_id","type":["null","int"],"default":null,"field-id":140}}
          ]}}}}
        ]}}"#
    );
    apache_avro::Schema::parse_str(&s).unwrap_or_else(|e| panic!("manifest_entry schema: {e}"))
}

/// v1 called the summary counts added_data_files_count / existing_data_files_count / deleted_data_files_count.
fn count_names(fv: i64) -> [&'static str; 3] {
    if fv >= 2 {
        ["added_files_count", "existing_files_count", "deleted_files_count"]
    } else {
        ["added_data_files_count", "existing_data_files_count", "deleted_data_files_count"]
    }
}

/// Manifest-list schema. The summary counts are OPTIONAL in Iceberg: `with_counts = false` leaves the fields
/// out of the schema, otherwise they are nullable (null = unknown) and each entry says truthful or null.
fn manifest_file_schema(fv: i64, with_counts: bool) -> apache_avro::Schema {
    let v2 = if fv >= 2 {
        r#"{"name":"content","type":"int","field-id":517},
           {"name":"sequence_number","type":"long","field-id":515},
           {"name":"min_sequence_number","type":"long","field-id":516},"#
    } else {
        ""
    };
    let n = count_names(fv);
    let counts = if with_counts {
        format!(
            r#",{{"name":"{}","type":["null","int"],"default":null,"field-id":504}},
               {{"name":"{}","type":["null","int"],"default":null,"field-id":505}},
               {{"name":"{}","type":["null","int"],"default":null,"field-id":506}}"#,
            n[0], n[1], n[2]
        )
    } else {
        String::new()
    };
    let s = format!(
        r#"{{"type":"record","name":"manifest_file","fields":[
          {{"name":"manifest_path","type":"string","field-id":500}},
          {{"name":"manifest_length","type":"long","field-id":501}},
          {{"name":"partition_spec_id","type":"int","field-id":502}},
          {v2}
          {{"name":"added_snapshot_id","type":["null","long"],"default":null,"field-id":503}}
          {counts}
        ]}}"#
    );
    apache_avro::Schema::parse_str(&s).unwrap_or_else(|e| panic!("manifest_file schema: {e}"))
}

fn write_avro(paths: &[PathBuf], schema: &apache_avro::Schema, recs: Vec<A>, deflate: bool, meta: &[(&str, String)]) {
    let codec = if deflate {
        apache_avro::Codec::Deflate(apache_avro::DeflateSettings::default())
    } else {
        apache_avro::Codec::Null
    };
    let mut w = apache_avro::Writer::with_codec(schema, Vec::new(), codec).unwrap();
    for (k, v) in meta {
        w.add_user_metadata(k.to_string(), v).unwrap();
    }
    for r in recs {
        w.append_value(r).unwrap_or_else(|e| panic!("avro append: {e}"));
    }
    // a container file with zero records is legal; flush still writes the header
    w.flush().unwrap();
    let bytes = w.into_inner().unwrap();
    for p in paths {
        std::fs::create_dir_all(p.parent().unwrap()).unwrap();
        std::fs::write(p, &bytes).unwrap();
    }
}

fn opt_long(v: i64) -> A {
    A::Union(1, Box::new(A::Long(v)))
}
fn opt_int(v: i32) -> A {
    A::Union(1, Box::new(A::Int(v)))
}

fn meta_name(scheme: i64, i: usize) -> String {
    const UU: [&str; 8] = [
        "9c12f2a4-0d1e-4a5b-8b7e-1f2a3b4c5d6e", "1b7d0c3e-5f6a-4b2c-9d8e-7a6b5c4d3e2f", "e4a1b2c3-d4e5-4f60-8a9b-0c1d2e3f4a5b",
        "5a6b7c8d-9e0f-4a1b-8c2d-3e4f5a6b7c8d", "0f1e2d3c-4b5a-4968-8776-655443322110", "c0ffee00-1234-4abc-9def-0123456789ab",
        "77777777-aaaa-4bbb-8ccc-dddddddddddd", "2468ace0-1357-49bd-8f02-46813579bdf0",
    ];
    match scheme {
        0 => format!("v{}.metadata.json", 7 + i),
        1 => format!("{:05}-{}.metadata.json", i - 1, UU[i % 8]),
        _ => format!("{:05}-{}.metadata.json", 90 - i, UU[i % 8]),
    }
}

fn ints(v: &Value) -> Vec<i64> {
    v.as_array().map(|a| a.iter().map(|x| x.as_i64().unwrap()).collect()).unwrap_or_default()
}

/// Write the whole table directory of `case` under `dir` (which must not exist yet).
pub fn materialise(case: &Value, dir: &Path, pool: &Path) {
    let scheme = case["scheme"].as_i64().unwrap();
    let variant = case["variant"].as_i64().unwrap_or(0);
    let manifests = case["manifests"].as_array().cloned().unwrap_or_default();
    let snapshots = case["snapshots"].as_array().cloned().unwrap_or_default();
    let metas = case["metas"].as_array().cloned().unwrap_or_default();
    let has_delete = manifests.iter().any(|m| m["entries"].as_array().unwrap().iter().any(|e| e["content"].as_i64().unwrap() != 0));
    let fv: i64 = if !has_delete && variant % 2 == 1 { 1 } else { 2 };
    let deflate = (variant / 2) % 2 == 0;
    std::fs::create_dir_all(dir.join("metadata")).unwrap();
    std::fs::create_dir_all(dir.join("data")).unwrap();
    place_parquet(pool, &dir.join("data/orphan.parquet"), 0);

    // data files + manifests
    let entry_schema = manifest_entry_schema(fv);
    let mut manifest_uri: Vec<String> = vec![String::new()];
    let mut manifest_counts: Vec<(i32, i32, i32)> = vec![(0, 0, 0)];
    for (mi, m) in manifests.iter().enumerate() {
        let mi = mi + 1;
        let mut recs = Vec::new();
        let (mut na, mut ne, mut nd) = (0, 0, 0);
        for e in m["entries"].as_array().unwrap() {
            let f = e["file"].as_i64().unwrap();
            let form = e["uri"].as_i64().unwrap();
            let rel = data_rel(f);
            for p in places(form, dir, &rel) {
                if !p.exists() {
                    place_parquet(pool, &p, f);
                }
            }
            let status = e["status"].as_i64().unwrap() as i32;
            match status {
                0 => ne += 1,
                1 => na += 1,
                _ => nd += 1,
            }
            let fmt = if e["format"].as_i64().unwrap() == 0 { "PARQUET" } else { "ORC" };
            let mut df: Vec<(String, A)> = Vec::new();
            if fv >= 2 {
                df.push(("content".into(), A::Int(e["content"].as_i64().unwrap() as i32)));
            }
            df.push(("file_path".into(), A::String(uri_of(form, dir, &rel))));
            df.push(("file_format".into(), A::String(fmt.into())));
            df.push(("partition".into(), A::Record(vec![])));
            df.push(("record_count".into(), A::Long(rows_of(f).len() as i64)));
            df.push(("file_size_in_bytes".into(), A::Long(1024)));
            if fv < 2 {
                df.push(("block_size_in_bytes".into(), A::Long(67108864)));
            }
            df.push(("sort_order_id".into(), A::Union(0, Box::new(A::Null))));
            let mut rec: Vec<(String, A)> = vec![("status".into(), A::Int(status)), ("snapshot_id".into(), opt_long(snap_id(1)))];
            if fv >= 2 {
                rec.push(("sequence_number".into(), opt_long(mi as i64)));
                rec.push(("file_sequence_number".into(), opt_long(mi as i64)));
            }
            rec.push(("data_file".into(), A::Record(df)));
            recs.push(A::Record(rec));
        }
        let form = m["uri"].as_i64().unwrap();
        let rel = format!("metadata/{}-m{}.avro", "5e8f1c2d-aaaa-4bbb-8ccc-00000000000", mi);
        write_avro(
            &places(form, dir, &rel),
            &entry_schema,
            recs,
            deflate,
            &[("format-version", fv.to_string()), ("content", if m["kind"].as_i64().unwrap_or(0) == 0 { "data".into() } else { "deletes".to_string() })],
        );
        manifest_uri.push(uri_of(form, dir, &rel));
        manifest_counts.push((na, ne, nd));
    }

    // manifest lists
    let list_schemas = [manifest_file_schema(fv, false), manifest_file_schema(fv, true)];
    let cnames = count_names(fv);
    let mut list_uri: Vec<String> = vec![String::new()];
    for (si, s) in snapshots.iter().enumerate() {
        let si = si + 1;
        let mut recs = Vec::new();
        // per entry: 0 = count fields absent (whole list), 1 = truthful, 2 = null (unknown)
        let form_of = |mi: usize| -> i64 {
            s["counts"].as_array().and_then(|a| a.iter().find(|c| c["m"].as_i64() == Some(mi as i64))).and_then(|c| c["c"].as_i64()).unwrap_or(1)
        };
        let with_counts = !ints(&s["mlist"]).iter().any(|mi| form_of(*mi as usize) == 0);
        for mi in ints(&s["mlist"]) {
            let mi = mi as usize;
            let (na, ne, nd) = manifest_counts[mi];
            let mut rec: Vec<(String, A)> = vec![
                ("manifest_path".into(), A::String(manifest_uri[mi].clone())),
                ("manifest_length".into(), A::Long(4096)),
                ("partition_spec_id".into(), A::Int(0)),
            ];
            if fv >= 2 {
                rec.push(("content".into(), A::Int(manifests[mi - 1]["kind"].as_i64().unwrap_or(0) as i32)));
                rec.push(("sequence_number".into(), A::Long(mi as i64)));
                rec.push(("min_sequence_number".into(), A::Long(1)));
            }
            rec.push(("added_snapshot_id".into(), opt_long(snap_id(si as i64))));
            if with_counts {
                let null = || A::Union(0, Box::new(A::Null));
                let unknown = form_of(mi) == 2;
                rec.push((cnames[0].into(), if unknown { null() } else { opt_int(na) }));
                rec.push((cnames[1].into(), if unknown { null() } else { opt_int(ne) }));
                rec.push((cnames[2].into(), if unknown { null() } else { opt_int(nd) }));
            }
            recs.push(A::Record(rec));
        }
        let form = s["uri"].as_i64().unwrap();
        let rel = format!("metadata/snap-{}-1-{}.avro", snap_id(si as i64), "7d1e2f3a-bbbb-4ccc-8ddd-111111111111");
        write_avro(&places(form, dir, &rel), &list_schemas[with_counts as usize], recs, deflate, &[("format-version", fv.to_string())]);
        list_uri.push(uri_of(form, dir, &rel));
    }

    // metadata files
    for (i, m) in metas.iter().enumerate() {
        let i = i + 1;
        let snaps: Vec<Value> = ints(&m["snaps"])
            .into_iter()
            .map(|s| {
                json!({"snapshot-id": snap_id(s), "sequence-number": s, "timestamp-ms": TS0 + snapshots[s as usize - 1]["ts"].as_i64().unwrap(),
                       "manifest-list": list_uri[s as usize], "summary": {"operation": "append"}, "schema-id": 0})
            })
            .collect();
        let cur = m["cur"].as_i64().unwrap();
        let mut doc = json!({
            "format-version": fv,
            "table-uuid": "6a1b2c3d-4e5f-4a6b-8c7d-9e0f1a2b3c4d",
            "location": format!("file://{}", dir.display()),
            "last-updated-ms": TS0 + m["ts"].as_i64().unwrap(),
            "last-column-id": 2,
            "schemas": [{"type": "struct", "schema-id": 0, "fields": [
                {"id": 1, "name": "x", "required": true, "type": "long"}, {"id": 2, "name": "y", "required": false, "type": "long"}]}],
            "current-schema-id": 0,
            "partition-specs": [{"spec-id": 0, "fields": []}],
            "default-spec-id": 0, "last-partition-id": 999,
            "sort-orders": [{"order-id": 0, "fields": []}], "default-sort-order-id": 0,
            "properties": {}, "snapshots": snaps,
            "snapshot-log": ints(&m["snaps"]).iter().map(|s| json!({"snapshot-id": snap_id(*s), "timestamp-ms": TS0 + snapshots[*s as usize - 1]["ts"].as_i64().unwrap()})).collect::<Vec<_>>(),
            "metadata-log": (1..i).map(|j| json!({"metadata-file": dir.join("metadata").join(meta_name(scheme, j)).to_str().unwrap(), "timestamp-ms": TS0 + metas[j - 1]["ts"].as_i64().unwrap()})).collect::<Vec<_>>(),
        });
        if fv >= 2 {
            doc["last-sequence-number"] = json!(snapshots.len());
        } else {
            doc["schema"] = doc["schemas"][0].clone();
            doc["partition-spec"] = json!([]);
        }
        if cur != 0 {
            doc["current-snapshot-id"] = json!(snap_id(cur));
        } else if fv < 2 {
            doc["current-snapshot-id"] = json!(-1); // v1 writers say -1 for "none"; v2 writers omit the field
        } else if variant % 3 == 0 {
            doc["current-snapshot-id"] = Value::Null;
        }
        std::fs::write(dir.join("metadata").join(meta_name(scheme, i)), serde_json::to_vec_pretty(&doc).unwrap()).unwrap();
    }

    // version hint
    let hint = case["hint"].as_i64().unwrap_or(0);
    if hint != 0 {
        let n = 7 + hint;
        let text = match variant % 3 {
            0 => format!("{n}"),
            1 => format!("v{n}"),
            _ => format!("{n}\n"),
        };
        std::fs::write(dir.join("metadata/version-hint.text"), text).unwrap();
    }
}

fn err_class(e: &query_engine::error::QueryError) -> &'static str {
    use query_engine::error::QueryError as Q;
    match e {
        Q::Storage(_) => "Storage",
        Q::NotImplemented(_) => "NotImplemented",
        Q::Io(_) => "Io",
        Q::Parquet(_) => "Parquet",
        Q::Arrow(_) => "Arrow",
        Q::Execution(_) => "Execution",
        _ => "Other",
    }
}

fn column_i64(batches: &[RecordBatch], name: &str) -> Result<Vec<i64>, String> {
    let mut out = Vec::new();
    for b in batches {
        // the engine qualifies output columns ("t.x")
        let sch = b.schema();
        let idx = sch
            .fields()
            .iter()
            .position(|f| f.name() == name || f.name().ends_with(&format!(".{name}")))
            .ok_or_else(|| format!("no column {name} in {:?}", sch.fields().iter().map(|f| f.name().clone()).collect::<Vec<_>>()))?;
        let c = arrow::compute::cast(b.column(idx), &DataType::Int64).map_err(|e| e.to_string())?;
        let a = c.as_any().downcast_ref::<Int64Array>().unwrap();
        for i in 0..a.len() {
            out.push(if a.is_null(i) { i64::MIN } else { a.value(i) });
        }
    }
    Ok(out)
}

/// Open `dir` at `snap` with the real engine and read it back.
fn open_and_read(rt: &tokio::runtime::Runtime, dir: &Path, snap: Option<i64>) -> Value {
    let dir2 = dir.to_path_buf();
    let r = catch(std::panic::AssertUnwindSafe(move || {
        let mut ctx = query_engine::execution::ExecutionContext::new();
        if let Err(e) = ctx.register_iceberg("t", &dir2, snap) {
            return json!({"outcome": "refuse", "stage": "open", "class": err_class(&e), "msg": e.to_string()});
        }
        let star = match rt.block_on(ctx.sql("SELECT * FROM t")) {
            Ok(r) => r,
            Err(e) => return json!({"outcome": "refuse", "stage": "select", "class": err_class(&e), "msg": e.to_string()}),
        };
        let xs = match column_i64(&star.batches, "x") {
            Ok(v) => v,
            Err(m) => return json!({"outcome": "rows", "rows": [], "ybad": 1, "count": -1, "msg": m}),
        };
        let ys = column_i64(&star.batches, "y").unwrap_or_default();
        let ybad = if ys.len() != xs.len() { 1 } else { xs.iter().zip(ys.iter()).filter(|(x, y)| **y != **x * 10).count() };
        let ncols = star.schema.fields().len();
        let count = match rt.block_on(ctx.sql("SELECT COUNT(*) FROM t")) {
            Ok(r) => {
                let mut v = Vec::new();
                for b in &r.batches {
                    if let Ok(c) = arrow::compute::cast(b.column(0), &DataType::Int64) {
                        let a = c.as_any().downcast_ref::<Int64Array>().unwrap();
                        for i in 0..a.len() {
                            v.push(a.value(i));
                        }
                    }
                }
                if v.len() == 1 { v[0] } else { -2 }
            }
            Err(e) => return json!({"outcome": "refuse", "stage": "count", "class": err_class(&e), "msg": e.to_string(), "rows": xs}),
        };
        json!({"outcome": "rows", "rows": xs, "ybad": ybad, "count": count, "ncols": ncols, "row_count": star.row_count})
    }));
    match r {
        Ok(v) => v,
        Err(p) => json!({"outcome": "panic", "msg": p}),
    }
}

fn run_case(rt: &tokio::runtime::Runtime, case: &Value, dir: &Path, pool: &Path, keep: bool) -> Value {
    let _ = std::fs::remove_dir_all(dir);
    let tdir = dir.join("t");
    materialise(case, &tdir, pool);
    let mut obs = Vec::new();
    for o in case["opens"].as_array().unwrap() {
        let t = o["target"].as_i64().unwrap();
        let snap = if t == 0 { None } else { Some(snap_id(t)) };
        let mut r = open_and_read(rt, &tdir, snap);
        r["target"] = json!(t);
        obs.push(r);
    }
    if !keep {
        let _ = std::fs::remove_dir_all(dir);
    }
    let mut out = case.clone();
    out["obs"] = json!(obs);
    out
}

/// qev iceberg-replay <cases.ndjson> <out.ndjson> <workdir> [threads] [keep]
pub fn replay(a: &[String]) -> i32 {
    quiet_panics();
    let cases = read_ndjson(&a[0]);
    let work = PathBuf::from(&a[2]);
    assert!(work.is_absolute(), "workdir must be absolute");
    let threads: usize = a.get(3).and_then(|s| s.parse().ok()).unwrap_or(8).max(1);
    let keep = a.get(4).map(|s| s == "keep").unwrap_or(false);
    // a unique directory per process run: the engine caches footers by path, paths are never reused
    let run = work.join(format!("run-{}", std::process::id()));
    let _ = std::fs::remove_dir_all(&run);
    std::fs::create_dir_all(&run).unwrap();
    let pool = run.join("pool");
    std::fs::create_dir_all(&pool).unwrap();
    let rt = Arc::new(tokio::runtime::Builder::new_multi_thread().worker_threads(4).enable_all().build().unwrap());
    let cases = Arc::new(cases);
    let next = Arc::new(AtomicUsize::new(0));
    let results: Arc<Mutex<Vec<Option<Value>>>> = Arc::new(Mutex::new(vec![None; cases.len()]));
    let mut hs = Vec::new();
    for _ in 0..threads {
        let (rt, cases, next, results, run, pool) = (rt.clone(), cases.clone(), next.clone(), results.clone(), run.clone(), pool.clone());
        hs.push(std::thread::spawn(move || loop {
            let i = next.fetch_add(1, Ordering::SeqCst);
            if i >= cases.len() {
                break;
            }
            let dir = run.join(format!("c{i:06}"));
            let r = match catch(std::panic::AssertUnwindSafe(|| run_case(&rt, &cases[i], &dir, &pool, keep))) {
                Ok(v) => v,
                Err(p) => {
                    // a panic here is in the materialiser (tool problem), not in code under test
                    let mut v = cases[i].clone();
                    v["tool_error"] = json!(p);
                    v
                }
            };
            results.lock().unwrap()[i] = Some(r);
        }));
    }
    for h in hs {
        h.join().unwrap();
    }
    let mut out = Out::create(&a[1]);
    let mut bad = 0;
    for r in results.lock().unwrap().iter() {
        let r = r.as_ref().unwrap();
        if r.get("tool_error").is_some() {
            bad += 1;
        }
        out.put(r);
    }
    out.finish();
    if !keep {
        let _ = std::fs::remove_dir_all(&run);
    }
    if bad > 0 {
        eprintln!("iceberg-replay: {bad} cases failed to materialise");
        return 3;
    }
    0
}
