//! sqlrun — executes generated SQL cases on the real engine under a list of
//! configurations and records every outcome as integer-coded rows (the format
//! spec/SqlTrace.tla judges).
//!
//!   qev sqlrun <cases.ndjson> <configs.json> <out.ndjson> [workdir]
//!
//! case:   {"id", "tables":[{"name","cols":[[name,type]],"rows":[[int|NULL]]}], "sql", "out_types":[...]}
//! config: {"name", "layout":"mem"|"parquet", "batches":k, "files":k, "rg":n, "mem_limit":bytes|null,
//!          "opt":"prod"|"none", "partitions":n|null, "switches":[..]}
//! output: {"id", "outs":[{"k":"rows","rows":[[..]]} | {"k":"err","cls":..,"msg":..} | {"k":"panic","msg":..} | {"k":"hang"}],
//!          "meta":[{"cfg":name,"schema":[[name,type]],"paths":[..]}]}
use crate::util::*;
use arrow::array::*;
use arrow::datatypes::{DataType, Field, Schema, SchemaRef};
use arrow::record_batch::RecordBatch;
use futures::TryStreamExt;
use query_engine::execution::{ExecutionConfig, ExecutionContext};
use serde_json::{json, Value};
use std::sync::Arc;

pub const NULLV: i64 = -1073741824;
pub const DICT: [&str; 8] = ["", "a", "ab", "abc", "b", "ba", "c", "ca"];
pub const DATE_BASE: i32 = 19723; // 2024-01-01
pub const AVGSCALE: f64 = 720720.0;

pub fn arrow_type(t: &str) -> DataType {
    match t {
        "int" => DataType::Int64,
        "i32" => DataType::Int32,
        "dbl" => DataType::Float64,
        "str" => DataType::Utf8,
        "date" => DataType::Date32,
        "bool" => DataType::Boolean,
        _ => panic!("type {t}"),
    }
}

pub fn build_column(t: &str, vals: &[i64]) -> ArrayRef {
    let opt = |v: &i64| if *v == NULLV { None } else { Some(*v) };
    match t {
        "int" => Arc::new(Int64Array::from(vals.iter().map(opt).collect::<Vec<_>>())),
        "i32" => Arc::new(Int32Array::from(vals.iter().map(|v| opt(v).map(|x| x as i32)).collect::<Vec<_>>())),
        "dbl" => Arc::new(Float64Array::from(vals.iter().map(|v| opt(v).map(|x| x as f64 * 0.5)).collect::<Vec<_>>())),
        "str" => Arc::new(StringArray::from(vals.iter().map(|v| opt(v).map(|x| DICT[x as usize])).collect::<Vec<_>>())),
        "date" => Arc::new(Date32Array::from(vals.iter().map(|v| opt(v).map(|x| DATE_BASE + x as i32)).collect::<Vec<_>>())),
        "bool" => Arc::new(BooleanArray::from(vals.iter().map(|v| opt(v).map(|x| x != 0)).collect::<Vec<_>>())),
        _ => panic!("type {t}"),
    }
}

pub struct TableData {
    pub name: String,
    pub schema: SchemaRef,
    pub types: Vec<String>,
    pub rows: Vec<Vec<i64>>,
}

impl TableData {
    pub fn from_json(t: &Value) -> TableData {
        let cols = t["cols"].as_array().unwrap();
        let types: Vec<String> = cols.iter().map(|c| c[1].as_str().unwrap().to_string()).collect();
        let fields: Vec<Field> = cols
            .iter()
            .map(|c| Field::new(c[0].as_str().unwrap(), arrow_type(c[1].as_str().unwrap()), true))
            .collect();
        let rows = t["rows"]
            .as_array()
            .unwrap()
            .iter()
            .map(|r| r.as_array().unwrap().iter().map(|v| v.as_i64().unwrap()).collect())
            .collect();
        TableData { name: t["name"].as_str().unwrap().to_string(), schema: Arc::new(Schema::new(fields)), types, rows }
    }

    pub fn batch(&self, lo: usize, hi: usize) -> RecordBatch {
        let cols: Vec<ArrayRef> = (0..self.types.len())
            .map(|j| {
                let vals: Vec<i64> = self.rows[lo..hi].iter().map(|r| r[j]).collect();
                build_column(&self.types[j], &vals)
            })
            .collect();
        RecordBatch::try_new(self.schema.clone(), cols).unwrap()
    }

    /// split rows into k contiguous chunks (some possibly empty when k > rows)
    pub fn chunks(&self, k: usize) -> Vec<(usize, usize)> {
        let n = self.rows.len();
        let k = k.max(1);
        let mut out = Vec::new();
        let base = n / k;
        let rem = n % k;
        let mut lo = 0;
        for i in 0..k {
            let sz = base + if i < rem { 1 } else { 0 };
            out.push((lo, lo + sz));
            lo += sz;
        }
        out
    }
}

/// Write a table as `files` parquet files with row groups of `rg` rows under dir/<name>/
pub fn write_parquet(t: &TableData, dir: &std::path::Path, files: usize, rg: usize) -> std::path::PathBuf {
    write_parquet_named(t, dir, files, rg, false)
}

/// Registers a table written by write_parquet_named: a directory listing, or (same-named files in sub-directories)
/// an explicit file list, which is how a metadata layer hands files to ParquetTable.
pub fn register_pq(ctx: &mut ExecutionContext, name: &str, tdir: &std::path::Path, same_names: bool) -> query_engine::Result<()> {
    if !same_names {
        return ctx.register_parquet(name.to_string(), tdir);
    }
    let mut files = Vec::new();
    let mut subs: Vec<_> = std::fs::read_dir(tdir)?.filter_map(|e| e.ok()).map(|e| e.path()).filter(|p| p.is_dir()).collect();
    subs.sort();
    for sub in subs {
        let f = sub.join("part-000.parquet");
        if f.is_file() {
            files.push(f);
        }
    }
    let table = query_engine::storage::ParquetTable::try_from_files(files)?;
    ctx.register_table_provider(name.to_string(), Arc::new(table));
    Ok(())
}

pub fn write_parquet_named(t: &TableData, dir: &std::path::Path, files: usize, rg: usize, same_names: bool) -> std::path::PathBuf {
    use parquet::arrow::ArrowWriter;
    use parquet::file::properties::WriterProperties;
    let tdir = dir.join(&t.name);
    std::fs::create_dir_all(&tdir).unwrap();
    let chunks = t.chunks(files.max(1));
    for (i, (lo, hi)) in chunks.iter().enumerate() {
        if *lo == *hi && i > 0 {
            continue; // no empty extra files (one possibly-empty file is kept so the table exists)
        }
        // same_names: hive-style layout, every file is called part-000.parquet in its own directory
        let path = if same_names {
            let sub = tdir.join(format!("p={i:03}"));
            std::fs::create_dir_all(&sub).unwrap();
            sub.join("part-000.parquet")
        } else {
            tdir.join(format!("part-{i:03}.parquet"))
        };
        let f = std::fs::File::create(&path).unwrap();
        let props = WriterProperties::builder().set_max_row_group_size(rg.max(1)).build();
        let mut w = ArrowWriter::try_new(f, t.schema.clone(), Some(props)).unwrap();
        let mut p = *lo;
        while p < *hi {
            let q = (p + rg.max(1)).min(*hi);
            w.write(&t.batch(p, q)).unwrap();
            w.flush().unwrap();
            p = q;
        }
        if *lo == *hi {
            w.write(&t.batch(*lo, *hi)).unwrap();
        }
        w.close().unwrap();
    }
    tdir
}

fn num_at(col: &ArrayRef, i: usize) -> Option<f64> {
    use arrow::datatypes::*;
    macro_rules! prim {
        ($t:ty) => {
            if let Some(a) = col.as_any().downcast_ref::<PrimitiveArray<$t>>() {
                return Some(a.value(i) as f64);
            }
        };
    }
    prim!(Int8Type);
    prim!(Int16Type);
    prim!(Int32Type);
    prim!(Int64Type);
    prim!(UInt8Type);
    prim!(UInt16Type);
    prim!(UInt32Type);
    prim!(UInt64Type);
    prim!(Float32Type);
    prim!(Float64Type);
    prim!(Date32Type);
    if let Some(a) = col.as_any().downcast_ref::<PrimitiveArray<Date64Type>>() {
        return Some((a.value(i) / 86_400_000) as f64);
    }
    if let Some(a) = col.as_any().downcast_ref::<BooleanArray>() {
        return Some(if a.value(i) { 1.0 } else { 0.0 });
    }
    if let Some(a) = col.as_any().downcast_ref::<Decimal128Array>() {
        return Some(a.value(i) as f64 / 10f64.powi(a.scale() as i32));
    }
    None
}

fn str_at(col: &ArrayRef, i: usize) -> Option<String> {
    if let Some(a) = col.as_any().downcast_ref::<StringArray>() {
        return Some(a.value(i).to_string());
    }
    if let Some(a) = col.as_any().downcast_ref::<LargeStringArray>() {
        return Some(a.value(i).to_string());
    }
    if let Some(a) = col.as_any().downcast_ref::<StringViewArray>() {
        return Some(a.value(i).to_string());
    }
    None
}

const BAD: i64 = -999_000_000;

/// Convert one cell to its model integer according to the expected unit.
pub fn cell(col: &ArrayRef, i: usize, unit: &str) -> i64 {
    let col = if let DataType::Dictionary(_, v) = col.data_type() {
        arrow::compute::cast(col, v).unwrap()
    } else {
        col.clone()
    };
    if col.is_null(i) || *col.data_type() == DataType::Null {
        return NULLV;
    }
    let scaled = |x: f64, s: f64| -> i64 {
        let y = x * s;
        let r = y.round();
        if !y.is_finite() || (y - r).abs() > 1e-4 * (1.0 + y.abs() * 1e-9) || r.abs() > 2.0e9 {
            BAD
        } else {
            r as i64
        }
    };
    match unit {
        "int" | "i32" | "bool" => match num_at(&col, i) {
            Some(x) => scaled(x, 1.0),
            None => BAD - 1,
        },
        "dbl" => match num_at(&col, i) {
            Some(x) => scaled(x, 2.0),
            None => BAD - 1,
        },
        "avg_int" => match num_at(&col, i) {
            Some(x) => scaled(x, AVGSCALE),
            None => BAD - 1,
        },
        "avg_dbl" => match num_at(&col, i) {
            Some(x) => scaled(x, 2.0 * AVGSCALE),
            None => BAD - 1,
        },
        "date" => match num_at(&col, i) {
            Some(x) => scaled(x - DATE_BASE as f64, 1.0),
            None => BAD - 1,
        },
        "str" => match str_at(&col, i) {
            Some(s) => DICT.iter().position(|d| *d == s).map(|p| p as i64).unwrap_or(BAD - 2),
            None => BAD - 1,
        },
        _ => BAD - 3,
    }
}

pub fn rows_of(batches: &[RecordBatch], units: &[String]) -> Result<Vec<Vec<i64>>, String> {
    let mut out = Vec::new();
    for b in batches {
        if b.num_columns() != units.len() {
            return Err(format!("arity {} != expected {}", b.num_columns(), units.len()));
        }
        for i in 0..b.num_rows() {
            out.push((0..units.len()).map(|j| cell(b.column(j), i, &units[j])).collect());
        }
    }
    Ok(out)
}

pub fn err_class(e: &query_engine::QueryError) -> String {
    let s = format!("{:?}", e);
    s.split(|c: char| c == '(' || c == '{' || c == ' ').next().unwrap_or("Error").to_string()
}

pub struct Built {
    pub ctx: ExecutionContext,
    pub paths: Vec<(String, std::path::PathBuf)>,
    _tmp: Option<tempfile::TempDir>,
}

pub fn empty_ctx(cfg: &Value, workdir: &str) -> ExecutionContext {
    let mut config = ExecutionConfig::default();
    if let Some(m) = cfg.get("mem_limit").and_then(|v| v.as_u64()) {
        config = config.with_memory_limit(m as usize);
        let sp = std::path::Path::new(workdir).join("spill");
        std::fs::create_dir_all(&sp).ok();
        config = config.with_spill_path(sp);
    }
    let mut ctx = ExecutionContext::with_config(config);
    if let Some(p) = cfg.get("partitions").and_then(|v| v.as_u64()) {
        ctx = ctx.with_parallel_partitions(p as usize);
    }
    ctx
}

pub fn build_ctx(tables: &[TableData], cfg: &Value, workdir: &str) -> Result<Built, String> {
    let mut ctx = empty_ctx(cfg, workdir);
    let mut paths = Vec::new();
    let layout = cfg.get("layout").and_then(|v| v.as_str()).unwrap_or("mem");
    let mut tmp = None;
    if layout == "mem" {
        let k = cfg.get("batches").and_then(|v| v.as_u64()).unwrap_or(1) as usize;
        for t in tables {
            let keep_empty = cfg.get("keep_empty").and_then(|v| v.as_bool()).unwrap_or(false);
            let batches: Vec<RecordBatch> = t.chunks(k).into_iter().filter(|(lo, hi)| hi > lo || k == 1 || keep_empty).map(|(lo, hi)| t.batch(lo, hi)).collect();
            ctx.register_table(t.name.clone(), t.schema.clone(), batches);
        }
    } else {
        let d = tempfile::Builder::new().prefix("pq").tempdir_in(workdir).map_err(|e| e.to_string())?;
        let files = cfg.get("files").and_then(|v| v.as_u64()).unwrap_or(1) as usize;
        let rg = cfg.get("rg").and_then(|v| v.as_u64()).unwrap_or(1024) as usize;
        let same_names = cfg.get("same_names").and_then(|v| v.as_bool()).unwrap_or(false);
        for t in tables {
            let tdir = write_parquet_named(t, d.path(), files, rg, same_names);
            register_pq(&mut ctx, &t.name, &tdir, same_names).map_err(|e| format!("register_parquet: {e}"))?;
            paths.push((t.name.clone(), tdir));
        }
        tmp = Some(d);
    }
    Ok(Built { ctx, paths, _tmp: tmp })
}

/// In-process fragment transport: runs the peer's fragment on a second context over the same files
/// and round-trips the result through Arrow IPC (what the coordinator's own unit tests do).
pub struct InProc {
    pub peer: Arc<ExecutionContext>,
}

#[async_trait::async_trait]
impl query_engine::distributed::coordinator::FragmentTransport for InProc {
    async fn send(
        &self,
        _address: &str,
        req: &query_engine::distributed::coordinator::FragmentRequest,
    ) -> query_engine::Result<(Vec<u8>, usize, f64)> {
        let (r, _) = query_engine::distributed::coordinator::execute_fragment(&self.peer, req).await?;
        let bytes = query_engine::distributed::coordinator::encode_ipc(&r.schema, &r.batches)?;
        Ok((bytes, r.row_count, 0.0))
    }
}

async fn run_distributed(
    built: &Built,
    cfg: &Value,
    workdir: &str,
    sql: &str,
    n: usize,
) -> query_engine::Result<(SchemaRef, Vec<RecordBatch>, Value)> {
    use query_engine::distributed::coordinator::{execute_any_distributed, Participant};
    let mut peer = empty_ctx(cfg, workdir);
    let same_names = cfg.get("same_names").and_then(|v| v.as_bool()).unwrap_or(false);
    for (name, p) in &built.paths {
        register_pq(&mut peer, name, p, same_names)?;
    }
    let parts: Vec<Participant> = (0..n)
        .map(|i| Participant { node_id: i as u64 + 1, address: format!("127.0.0.1:{}", 17700 + i), is_self: i == 0 })
        .collect();
    let tr = InProc { peer: Arc::new(peer) };
    let r = execute_any_distributed(&built.ctx, sql, &parts, &tr).await?;
    let d = &r.distribution;
    let info = json!({"shape": format!("{:?}", d.shape), "table": d.table, "shard_count": d.shard_count, "total_splits": d.total_splits,
                      "nodes": d.nodes.iter().map(|c| json!([c.shard_index, c.assigned_splits, c.result_rows, c.local])).collect::<Vec<_>>(),
                      "partial_sql": d.partial_sql, "final_sql": d.final_sql});
    Ok((r.result.schema.clone(), r.result.batches, info))
}

/// Bind, apply exactly the named optimizer rules (with the tables' statistics, as the production
/// optimizer does), execute.  `info` receives the plan schema / join tree before and after.
async fn run_with_rules(
    ctx: &ExecutionContext,
    sql: &str,
    rules: &[String],
    info: &std::sync::Mutex<Value>,
) -> query_engine::Result<(SchemaRef, Vec<RecordBatch>)> {
    use crate::planinfo;
    let logical = ctx.logical_plan(sql)?;
    let mut stats = std::collections::HashMap::new();
    for name in ctx.table_names() {
        if let Some(p) = ctx.table_provider(&name) {
            if let Some(s) = p.statistics() {
                stats.insert(name.clone(), s);
            }
        }
    }
    let mut rs = Vec::new();
    for r in rules {
        match planinfo::rule_by_name(r, &stats) {
            Some(x) => rs.push(x),
            None => return Err(query_engine::QueryError::Plan(format!("harness: unknown rule {r}"))),
        }
    }
    let before = planinfo::plan_info(&logical);
    *info.lock().unwrap() = json!({"before": before});
    let optimizer = query_engine::optimizer::Optimizer::with_rules(rs).with_table_statistics(stats);
    let optimized = match optimizer.optimize(logical.clone()) {
        Ok(p) => p,
        Err(e) => {
            info.lock().unwrap()["optimize_error"] = json!(format!("{e}"));
            return Err(e);
        }
    };
    info.lock().unwrap()["after"] = planinfo::plan_info(&optimized);
    info.lock().unwrap()["changed"] = json!(format!("{}", optimized) != format!("{}", logical));
    execute_logical(ctx, &optimized).await
}

async fn execute_logical(ctx: &ExecutionContext, logical: &query_engine::planner::LogicalPlan) -> query_engine::Result<(SchemaRef, Vec<RecordBatch>)> {
    use query_engine::physical::PhysicalPlanner;
    let mut planner = PhysicalPlanner::with_config(ctx.memory_pool().clone(), ctx.config().clone());
    for name in ctx.table_names() {
        if let Some(p) = ctx.table_provider(&name) {
            planner.register_table(name.clone(), p);
        }
    }
    planner.enable_subquery_execution();
    let physical = planner.create_physical_plan(logical)?;
    let n = physical.output_partitions().max(1);
    let mut all = Vec::new();
    for p in 0..n {
        let stream = physical.execute(p).await?;
        let bs: Vec<RecordBatch> = stream.try_collect().await?;
        all.extend(bs);
    }
    Ok((physical.schema(), all))
}

/// C13: cut the table's enumerated splits into sub-row-group ranges of `cut` rows, assign them to
/// `nodes` shards by a seeded random assignment (any partition, not only LPT's), run the statement on
/// every shard context the coordinator's own constructor builds, and return the concatenation.
async fn run_shard_union(
    ctx: &ExecutionContext,
    sql: &str,
    table: &str,
    nodes: usize,
    cut: i64,
    seed: u64,
    info: &std::sync::Mutex<Value>,
) -> query_engine::Result<(SchemaRef, Vec<RecordBatch>)> {
    use query_engine::distributed::coordinator::{shard_context, splits_of};
    use query_engine::distributed::splits::{Assignment, Split, SplitSet};
    use rand::{Rng, SeedableRng};
    let set0 = splits_of(ctx, table, nodes)?;
    let mut splits: Vec<Split> = Vec::new();
    for s in &set0.splits {
        let mut off = 0i64;
        while off < s.num_rows {
            let n = cut.max(1).min(s.num_rows - off);
            let mut p = s.clone();
            p.row_offset = s.row_offset + off;
            p.num_rows = n;
            p.bytes = (s.bytes as i128 * n as i128 / s.num_rows.max(1) as i128) as u64;
            splits.push(p);
            off += n;
        }
    }
    // the engine keeps a split set in canonical order (table, file NAME, row group, offset) and hands every node its splits
    // in that order (assign_lpt): with same-named files the pieces of different files interleave
    splits.sort_by(|a, b| (&a.table, &a.file, a.row_group, a.row_offset).cmp(&(&b.table, &b.file, b.row_group, b.row_offset)));
    let set = SplitSet { table: set0.table.clone(), splits, total_bytes: set0.total_bytes, total_rows: set0.total_rows, target_split_bytes: set0.target_split_bytes };
    let mut rng = rand::rngs::StdRng::seed_from_u64(seed);
    let mut per_node: Vec<Vec<usize>> = vec![Vec::new(); nodes];
    for i in 0..set.splits.len() {
        per_node[rng.gen_range(0..nodes)].push(i);
    }
    let asg = Assignment {
        nodes,
        node_bytes: per_node.iter().map(|v| v.iter().map(|&i| set.splits[i].bytes).sum()).collect(),
        node_rows: per_node.iter().map(|v| v.iter().map(|&i| set.splits[i].num_rows).sum()).collect(),
        node_splits: per_node.iter().map(|v| v.len()).collect(),
        total_bytes: set.total_bytes,
        per_node,
    };
    let mut all = Vec::new();
    let mut schema = None;
    let mut whole_files = 0;
    let mut shard_rows = Vec::new();
    for i in 0..nodes {
        let (sctx, _stats) = shard_context(ctx, table, &set, &asg, i)?;
        if let Some(p) = sctx.table_provider(table) {
            if p.parquet_files().is_some() {
                whole_files += 1;
            }
        }
        let r = sctx.sql(sql).await?;
        shard_rows.push(r.row_count);
        schema = Some(r.schema.clone());
        all.extend(r.batches);
    }
    *info.lock().unwrap() = json!({"splits": set.splits.len(), "nodes": nodes, "cut": cut, "shards_exposing_whole_files": whole_files,
                                    "shard_rows": shard_rows, "ranges": set.splits.iter().map(|s| json!([s.file, s.row_group, s.row_offset, s.num_rows])).collect::<Vec<_>>()});
    Ok((schema.unwrap_or_else(|| Arc::new(Schema::empty())), all))
}

async fn run_unoptimized(ctx: &ExecutionContext, sql: &str) -> query_engine::Result<(SchemaRef, Vec<RecordBatch>)> {
    use query_engine::physical::PhysicalPlanner;
    let logical = ctx.logical_plan(sql)?;
    let mut planner = PhysicalPlanner::with_config(ctx.memory_pool().clone(), ctx.config().clone());
    for name in ctx.table_names() {
        if let Some(p) = ctx.table_provider(&name) {
            planner.register_table(name.clone(), p);
        }
    }
    planner.enable_subquery_execution();
    let physical = planner.create_physical_plan(&logical)?;
    let n = physical.output_partitions().max(1);
    let mut all = Vec::new();
    for p in 0..n {
        let stream = physical.execute(p).await?;
        let bs: Vec<RecordBatch> = stream.try_collect().await?;
        all.extend(bs);
    }
    Ok((physical.schema(), all))
}

pub fn schema_json(s: &Schema) -> Value {
    Value::Array(s.fields().iter().map(|f| json!([f.name(), format!("{}", f.data_type())])).collect())
}

pub fn run_one(rt: &tokio::runtime::Runtime, tables: &[TableData], sql: &str, units: &[String], cfg: &Value, workdir: &str) -> (Value, Value) {
    for s in cfg.get("switches").and_then(|v| v.as_array()).cloned().unwrap_or_default() {
        query_engine::verif_hooks::set_switch(s.as_str().unwrap(), true);
    }
    query_engine::verif_hooks::set_recording(true);
    let _ = query_engine::verif_hooks::take_paths();
    let built = match build_ctx(tables, cfg, workdir) {
        Ok(b) => b,
        Err(e) => return (json!({"k": "err", "cls": "Setup", "msg": e}), json!({"cfg": cfg["name"]})),
    };
    let opt_none = cfg.get("opt").and_then(|v| v.as_str()) == Some("none");
    let dist = cfg.get("dist").and_then(|v| v.as_u64());
    let shard_union: Option<Value> = cfg.get("shard_union").cloned();
    let rules_opt: Option<Vec<String>> = cfg.get("rules").and_then(|v| v.as_array()).map(|a| a.iter().map(|x| x.as_str().unwrap().to_string()).collect());
    let sql2 = sql.to_string();
    let ctxref = &built.ctx;
    let builtref = &built;
    let dist_info = std::sync::Mutex::new(Value::Null);
    let res = std::panic::catch_unwind(std::panic::AssertUnwindSafe(|| {
        rt.block_on(async {
            let fut = async {
                if let Some(su) = shard_union.as_ref() {
                    run_shard_union(ctxref, &sql2, su["table"].as_str().unwrap_or("t0"), su["nodes"].as_u64().unwrap_or(2) as usize,
                                    su["cut"].as_i64().unwrap_or(1), su["seed"].as_u64().unwrap_or(1), &dist_info).await
                } else if let Some(rules) = rules_opt.as_ref() {
                    run_with_rules(ctxref, &sql2, rules, &dist_info).await
                } else if let Some(n) = dist {
                    let (s, b, info) = run_distributed(builtref, cfg, workdir, &sql2, n as usize).await?;
                    *dist_info.lock().unwrap() = info;
                    Ok((s, b))
                } else if opt_none {
                    run_unoptimized(ctxref, &sql2).await
                } else {
                    ctxref.sql(&sql2).await.map(|r| (r.schema.clone(), r.batches))
                }
            };
            tokio::time::timeout(std::time::Duration::from_secs(30), fut).await
        })
    }));
    let paths = query_engine::verif_hooks::take_paths();
    for s in cfg.get("switches").and_then(|v| v.as_array()).cloned().unwrap_or_default() {
        query_engine::verif_hooks::set_switch(s.as_str().unwrap(), false);
    }
    let mut meta = json!({"cfg": cfg["name"], "paths": paths});
    let di = dist_info.lock().unwrap().clone();
    if !di.is_null() {
        if shard_union.is_some() {
            meta["shards"] = di;
        } else if rules_opt.is_some() {
            meta["plan"] = di;
        } else {
            meta["dist"] = di;
        }
    }
    let out = match res {
        Err(p) => {
            let msg = if let Some(s) = p.downcast_ref::<&str>() {
                s.to_string()
            } else if let Some(s) = p.downcast_ref::<String>() {
                s.clone()
            } else {
                "panic".into()
            };
            json!({"k": "panic", "msg": msg})
        }
        Ok(Err(_)) => json!({"k": "hang"}),
        Ok(Ok(Err(e))) => json!({"k": "err", "cls": err_class(&e), "msg": format!("{e}").chars().take(300).collect::<String>()}),
        Ok(Ok(Ok((schema, batches)))) => {
            meta["schema"] = schema_json(&schema);
            if dist.is_none() && rules_opt.is_none() && shard_union.is_none() && !opt_none {
                if let Ok(Ok(p)) = std::panic::catch_unwind(std::panic::AssertUnwindSafe(|| built.ctx.physical_plan(sql))) {
                    meta["plan_schema"] = schema_json(&p.schema());
                }
            }
            let bschemas: Vec<Value> = batches.iter().take(4).map(|b| schema_json(&b.schema())).collect();
            meta["batch_rows"] = json!(batches.iter().map(|b| b.num_rows()).collect::<Vec<_>>());
            meta["batch_schemas"] = Value::Array(bschemas);
            match rows_of(&batches, units) {
                Ok(rows) => json!({"k": "rows", "rows": rows}),
                Err(m) => json!({"k": "rows", "rows": [[BAD - 9]], "note": m}),
            }
        }
    };
    (out, meta)
}

pub fn sqlrun(a: &[String]) -> i32 {
    quiet_panics();
    let cases = read_ndjson(&a[0]);
    let cfgs: Vec<Value> = serde_json::from_str(&std::fs::read_to_string(&a[1]).unwrap()).unwrap();
    let mut out = Out::create(&a[2]);
    let workdir = a.get(3).cloned().unwrap_or_else(|| "/verif/work".to_string());
    std::fs::create_dir_all(&workdir).ok();
    let rt = tokio::runtime::Builder::new_multi_thread().worker_threads(4).enable_all().build().unwrap();
    for c in cases {
        let tables: Vec<TableData> = c["tables"].as_array().unwrap().iter().map(TableData::from_json).collect();
        let sql = c["sql"].as_str().unwrap();
        let units: Vec<String> = c["out_types"].as_array().unwrap().iter().map(|v| v.as_str().unwrap().to_string()).collect();
        let mut outs = Vec::new();
        let mut metas = Vec::new();
        for cfg in &cfgs {
            let (o, m) = run_one(&rt, &tables, sql, &units, cfg, &workdir);
            outs.push(o);
            metas.push(m);
        }
        out.put(&json!({"id": c["id"], "outs": outs, "meta": metas}));
    }
    out.finish();
    0
}
