//! C11 / C12 / C14 — split enumeration, LPT assignment, worker digest gate.
//!
//! * `splits-enum`  (C11): materialise TLC inventories as REAL Parquet files (row groups with the
//!   given row counts, incl. zero-row row groups), read the footers back independently of the
//!   engine, call the public `enumerate_parquet` for every variant x node count and record the
//!   `SplitSet` + digest.
//! * `lpt-replay`   (C12): build `SplitSet`s (public fields) from TLC instances and record what
//!   the real `assign_lpt` returns (twice, on a clone and from 4 threads).
//! * `gate-replay`  (C14): two table copies of real Parquet files, a `FragmentRequest` carrying the
//!   initiator's digest, the public `execute_fragment` on the worker's context.
use crate::util::*;
use parquet::data_type::{ByteArray, ByteArrayType, Int64Type};
use parquet::file::properties::WriterProperties;
use parquet::file::reader::{FileReader, SerializedFileReader};
use parquet::file::writer::SerializedFileWriter;
use parquet::schema::parser::parse_message_type;
use query_engine::distributed::{
    assign_lpt, enumerate_parquet, execute_fragment, splits_of, FragmentRequest, Split, SplitSet,
};
use serde_json::{json, Value};
use std::path::{Path, PathBuf};
use std::sync::Arc;

fn name_of(code: i64) -> String {
    format!("f{:02}.parquet", code)
}
fn code_of(name: &str) -> i64 {
    name.strip_prefix('f').and_then(|s| s.strip_suffix(".parquet")).and_then(|s| s.parse().ok()).unwrap_or(-1)
}
pub fn row_id(name: i64, rg: i64, row: i64) -> i64 {
    name * 1_000_000 + rg * 10_000 + row
}

/// Write one Parquet file: columns (id INT64, pad UTF8); one row group per entry of `rgs`
/// (`rows` rows, pad strings of `w` bytes).  Zero-row row groups are written too.
fn write_file(path: &Path, name: i64, rgs: &[Value]) {
    std::fs::create_dir_all(path.parent().unwrap()).unwrap();
    if path.exists() {
        panic!("harness: path {} would be rewritten (footer cache is keyed by path+mtime)", path.display());
    }
    let schema = Arc::new(parse_message_type("message schema { REQUIRED INT64 id; REQUIRED BYTE_ARRAY pad (UTF8); }").unwrap());
    let props = Arc::new(
        WriterProperties::builder()
            .set_dictionary_enabled(false)
            .set_compression(parquet::basic::Compression::UNCOMPRESSED)
            .build(),
    );
    let f = std::fs::File::create(path).unwrap();
    let mut w = SerializedFileWriter::new(f, schema, props).unwrap();
    for (gi, rg) in rgs.iter().enumerate() {
        let rows = rg["rows"].as_i64().unwrap();
        let width = rg["w"].as_i64().unwrap() as usize;
        let ids: Vec<i64> = (0..rows).map(|r| row_id(name, gi as i64, r)).collect();
        let pads: Vec<ByteArray> = (0..rows)
            .map(|r| {
                let mut s = vec![b'a' + (r % 26) as u8; width];
                if width > 0 {
                    s[0] = b'A' + (gi % 26) as u8;
                }
                ByteArray::from(s)
            })
            .collect();
        let mut rgw = w.next_row_group().unwrap();
        {
            let mut c = rgw.next_column().unwrap().unwrap();
            c.typed::<Int64Type>().write_batch(&ids, None, None).unwrap();
            c.close().unwrap();
        }
        {
            let mut c = rgw.next_column().unwrap().unwrap();
            c.typed::<ByteArrayType>().write_batch(&pads, None, None).unwrap();
            c.close().unwrap();
        }
        rgw.close().unwrap();
    }
    w.close().unwrap();
}

/// Footer read-back with the parquet crate directly (not through the engine's cache).
fn read_inventory(path: &Path) -> Vec<Value> {
    let r = SerializedFileReader::new(std::fs::File::open(path).unwrap()).unwrap();
    r.metadata().row_groups().iter().map(|g| json!({"rows": g.num_rows(), "bytes": g.total_byte_size()})).collect()
}

fn file_path(root: &Path, spec: &Value) -> PathBuf {
    root.join(format!("d{}", spec["dir"].as_i64().unwrap())).join(name_of(spec["name"].as_i64().unwrap()))
}

/// Materialise the files of one table copy under `root`; returns (paths in the given order, real inventory).
fn materialise(root: &Path, files: &[Value]) -> (Vec<PathBuf>, Vec<Value>) {
    let mut paths = Vec::new();
    let mut inv = Vec::new();
    for spec in files {
        let p = file_path(root, spec);
        write_file(&p, spec["name"].as_i64().unwrap(), spec["rgs"].as_array().unwrap());
        inv.push(json!({"name": spec["name"], "dir": spec["dir"], "rgs": read_inventory(&p)}));
        paths.push(p);
    }
    (paths, inv)
}

fn splitset_json(set: &SplitSet, paths: &[PathBuf]) -> Value {
    let splits: Vec<Value> = set
        .splits
        .iter()
        .map(|s| {
            let fi = paths.iter().position(|p| *p == s.path).map(|i| i as i64 + 1).unwrap_or(0);
            json!({"file": code_of(&s.file), "rg": s.row_group, "off": s.row_offset, "n": s.num_rows, "bytes": s.bytes, "fi": fi})
        })
        .collect();
    json!({"ok": 1, "splits": splits, "total_bytes": set.total_bytes, "total_rows": set.total_rows,
           "target": set.target_split_bytes, "digest": format!("{:016x}", set.digest()), "table": set.table})
}

/// C11.  in: {"gid", "nodes":[..], "calls":[{"tag","files":[{name,dir,rgs:[{rows,w}]}]}]}
pub fn splits_enum(a: &[String]) -> i32 {
    quiet_panics();
    let groups = read_ndjson(&a[0]);
    let mut out = Out::create(&a[1]);
    let work = PathBuf::from(&a[2]);
    for g in groups {
        let gid = g["gid"].as_i64().unwrap();
        let groot = work.join(format!("g{gid}"));
        let _ = std::fs::remove_dir_all(&groot);
        let nodes: Vec<usize> = g["nodes"].as_array().unwrap().iter().map(|v| v.as_u64().unwrap() as usize).collect();
        let mut calls_out = Vec::new();
        for (ci, call) in g["calls"].as_array().unwrap().iter().enumerate() {
            let root = groot.join(format!("c{ci}"));
            let files = call["files"].as_array().unwrap();
            let (paths, inv) = materialise(&root, files);
            let mut runs = Vec::new();
            for &n in &nodes {
                let p2 = paths.clone();
                let r = catch(std::panic::AssertUnwindSafe(move || {
                    let a = enumerate_parquet("t", &p2, n);
                    // same input again: must be the same value (function of its input)
                    let b = enumerate_parquet("t", &p2, n);
                    (a, b)
                }));
                let mut rec = match r {
                    Ok((Ok(s1), Ok(s2))) => {
                        let mut j = splitset_json(&s1, &paths);
                        let j2 = splitset_json(&s2, &paths);
                        j["again_same"] = json!(if j == j2 { 1 } else { 0 });
                        j
                    }
                    Ok((Err(e), _)) | Ok((_, Err(e))) => json!({"ok": 0, "err": e.to_string()}),
                    Err(p) => json!({"ok": 0, "err": format!("panic: {p}"), "panic": 1}),
                };
                rec["nodes"] = json!(n);
                runs.push(rec);
            }
            calls_out.push(json!({"tag": call["tag"], "files": inv, "runs": runs}));
        }
        out.put(&json!({"gid": gid, "calls": calls_out}));
        let _ = std::fs::remove_dir_all(&groot);
    }
    out.finish();
    0
}

fn build_set(sizes: &[u64], rows: &[i64], arr: i64) -> SplitSet {
    let k = sizes.len();
    let splits: Vec<Split> = (0..k)
        .map(|i| {
            let (file, rg, off) = match arr {
                0 => ("f01.parquet".to_string(), i, 0i64),                       // canonical order = index order
                1 => ("f01.parquet".to_string(), k - 1 - i, 0i64),               // canonical order = reverse index order
                2 => ("f01.parquet".to_string(), 0usize, 0i64),                  // all canonical keys equal
                3 => (format!("f{:02}.parquet", (i * 7 + 3) % 11), i % 2, (i / 2) as i64), // mixed keys, several files
                _ => (format!("f{:02}.parquet", k - i), 0usize, 0i64),
            };
            Split { table: "t".into(), path: PathBuf::from(format!("/nonexistent/{file}")), file, row_group: rg,
                    row_offset: off, num_rows: rows[i], bytes: sizes[i] }
        })
        .collect();
    SplitSet { table: "t".into(), total_bytes: sizes.iter().sum(), total_rows: rows.iter().sum(),
               target_split_bytes: 1, splits }
}

/// C12.  in: {"sizes":[..], "rows":[..], "n": N, "arr": a, ...} -> + assignment of the real assign_lpt
pub fn lpt_replay(a: &[String]) -> i32 {
    quiet_panics();
    let cases = read_ndjson(&a[0]);
    let mut out = Out::create(&a[1]);
    let sets: Arc<Vec<(SplitSet, usize)>> = Arc::new(
        cases
            .iter()
            .map(|c| {
                let sizes: Vec<u64> = c["sizes"].as_array().unwrap().iter().map(|v| v.as_u64().unwrap()).collect();
                let rows: Vec<i64> = c["rows"].as_array().unwrap().iter().map(|v| v.as_i64().unwrap()).collect();
                (build_set(&sizes, &rows, c["arr"].as_i64().unwrap_or(0)), c["n"].as_u64().unwrap() as usize)
            })
            .collect(),
    );
    // identical inputs -> bit-identical assignments: 4 threads run every instance concurrently (twice each)
    let hs: Vec<_> = (0..4)
        .map(|t| {
            let sets = sets.clone();
            std::thread::spawn(move || {
                let mut v: Vec<Option<(String, String)>> = Vec::with_capacity(sets.len());
                let order: Vec<usize> = if t % 2 == 0 { (0..sets.len()).collect() } else { (0..sets.len()).rev().collect() };
                v.resize(sets.len(), None);
                for i in order {
                    let (s, n) = &sets[i];
                    let r = catch(std::panic::AssertUnwindSafe(|| {
                        (serde_json::to_string(&assign_lpt(s, *n)).unwrap(), serde_json::to_string(&assign_lpt(s, *n)).unwrap())
                    }));
                    v[i] = r.ok();
                }
                v
            })
        })
        .collect();
    let threaded: Vec<Vec<Option<(String, String)>>> = hs.into_iter().map(|h| h.join().unwrap_or_default()).collect();
    for (i, c) in cases.iter().enumerate() {
        let (set, n) = &sets[i];
        let n = *n;
        let mut rec = c.clone();
        let first = catch(std::panic::AssertUnwindSafe(|| {
            let a = assign_lpt(set, n);
            let idle = a.idle_nodes();
            let imb = a.imbalance();
            (serde_json::to_value(&a).unwrap(), serde_json::to_string(&a).unwrap(), idle, imb)
        }));
        match first {
            Err(p) => {
                rec["panic"] = json!(1);
                rec["msg"] = json!(p);
            }
            Ok((v, text, idle, imb)) => {
                // the same set again and a deep copy of it
                let mut det = 1;
                let again = serde_json::to_string(&assign_lpt(set, n)).unwrap();
                let cl: SplitSet = set.clone();
                let cloned = serde_json::to_string(&assign_lpt(&cl, n)).unwrap();
                if again != text || cloned != text {
                    det = 0;
                }
                for t in &threaded {
                    match t.get(i) {
                        Some(Some((x, y))) if *x == text && *y == text => {}
                        _ => det = 0,
                    }
                }
                rec["panic"] = json!(0);
                rec["det"] = json!(det);
                rec["nodes"] = v["nodes"].clone();
                rec["per_node"] = v["per_node"].clone();
                rec["node_bytes"] = v["node_bytes"].clone();
                rec["node_rows"] = v["node_rows"].clone();
                rec["node_splits"] = v["node_splits"].clone();
                rec["total_bytes"] = v["total_bytes"].clone();
                rec["idle"] = json!(idle);
                rec["imb"] = json!(format!("{:.9}", imb));
            }
        }
        out.put(&rec);
    }
    out.finish();
    0
}

/// A node's context serving table `t` from its copy of the files.  `viadir`: through the public
/// `register_parquet(directory)`; otherwise an explicit file list in the given order (what the Iceberg
/// path produces).  No files at all: the node simply does not have the table.
fn table_ctx(paths: &[PathBuf], viadir: bool) -> Result<query_engine::ExecutionContext, String> {
    let mut c = query_engine::ExecutionContext::new();
    if paths.is_empty() {
        return Ok(c);
    }
    if viadir {
        c.register_parquet("t", paths[0].parent().unwrap()).map_err(|e| e.to_string())?;
    } else {
        let t = query_engine::ParquetTable::try_from_files(paths.to_vec()).map_err(|e| e.to_string())?;
        c.register_table_provider("t", Arc::new(t));
    }
    Ok(c)
}

fn ids_of(r: &query_engine::QueryResult) -> Vec<i64> {
    let mut ids = Vec::new();
    for b in &r.batches {
        if b.num_columns() == 0 {
            continue;
        }
        if let Some(col) = b.column(0).as_any().downcast_ref::<arrow::array::Int64Array>() {
            ids.extend(col.iter().map(|x| x.unwrap_or(-1)));
        }
    }
    ids.sort_unstable();
    ids
}

/// One fragment exchange between two long-lived contexts: the initiator's digest for `n` shards (xor `tamper`),
/// then the public execute_fragment on the worker's context.
fn exchange(rt: &tokio::runtime::Runtime, ictx: &query_engine::ExecutionContext, wctx: &query_engine::ExecutionContext,
            n: usize, idx: i64, tamper: i64, probe: bool) -> Result<Value, String> {
    // probe: a statement that cannot be planned; if its error surfaces, the fragment's SQL ran before the gate
    let sql = if probe { "SELECT no_such_column_qev FROM t" } else { "SELECT id FROM t" };
    // initiator side: its own split universe, digest and assignment
    let iset = splits_of(ictx, "t", n).map_err(|e| format!("initiator splits_of: {e}"))?;
    let digest = iset.digest() ^ (tamper as u64);
    let iasg = assign_lpt(&iset, n);
    let init_ids: Option<Vec<i64>> = if idx >= 0 && (idx as usize) < iasg.per_node.len() {
        let mut v = Vec::new();
        for &si in &iasg.per_node[idx as usize] {
            let s = &iset.splits[si];
            for r in s.row_offset..s.row_offset + s.num_rows {
                v.push(row_id(code_of(&s.file), s.row_group as i64, r));
            }
        }
        v.sort_unstable();
        Some(v)
    } else {
        None
    };
    let req: Result<FragmentRequest, String> = if idx >= 0 {
        Ok(FragmentRequest { sql: sql.into(), table: "t".into(), shard_index: idx as usize, shard_count: n, splits_digest: digest })
    } else {
        // wire form without a shard index
        serde_json::from_value(json!({"sql": sql, "table": "t", "shard_count": n, "splits_digest": digest}))
            .map_err(|e| format!("request rejected at decode: {e}"))
    };
    let mut o = json!({"init_digest": format!("{:016x}", digest),
                       "init_ids": init_ids.clone().unwrap_or_default(), "init_has": if init_ids.is_some() { 1 } else { 0 },
                       "init_splits": iset.len()});
    match req {
        Err(e) => {
            o["outcome"] = json!("refused");
            o["err"] = json!(e);
            o["ids"] = json!([]);
            o["ran_sql"] = json!(0);
        }
        Ok(req) => match rt.block_on(execute_fragment(wctx, &req)) {
            Ok((res, _stats)) => {
                o["outcome"] = json!("answered");
                o["err"] = json!("");
                o["ids"] = json!(ids_of(&res));
                o["ran_sql"] = json!(1);
            }
            Err(e) => {
                let text = e.to_string();
                o["outcome"] = json!("refused");
                o["ran_sql"] = json!(if text.contains("no_such_column_qev") { 1 } else { 0 });
                o["err"] = json!(text.chars().take(160).collect::<String>());
                o["ids"] = json!([]);
            }
        },
    }
    Ok(o)
}

fn merge_outcome(rec: &mut Value, r: Result<Result<Value, String>, String>) {
    match r {
        Ok(Ok(o)) => {
            for (k, v) in o.as_object().unwrap() {
                rec[k] = v.clone();
            }
        }
        Ok(Err(e)) => {
            rec["outcome"] = json!("setup_error");
            rec["err"] = json!(e);
        }
        Err(p) => {
            rec["outcome"] = json!("panic");
            rec["err"] = json!(p);
        }
    }
}

/// C14.  in: {"cid","kind","init":[spec..],"work":[spec..],"n","idx","tamper","probe","viadir"} ; idx = -1: request
/// built from JSON without shard_index.  out: + real inventories, outcome, ids returned, ids the initiator
/// attributes to the shard.
pub fn gate_replay(a: &[String]) -> i32 {
    quiet_panics();
    let cases = read_ndjson(&a[0]);
    let mut out = Out::create(&a[1]);
    let work = PathBuf::from(&a[2]);
    let rt = tokio::runtime::Builder::new_multi_thread().worker_threads(2).enable_all().build().unwrap();
    for c in cases {
        let cid = c["cid"].as_i64().unwrap();
        let root = work.join(format!("p{cid}"));
        let _ = std::fs::remove_dir_all(&root);
        let (ipaths, iinv) = materialise(&root.join("init"), c["init"].as_array().unwrap());
        let (wpaths, winv) = materialise(&root.join("work"), c["work"].as_array().unwrap());
        let n = c["n"].as_u64().unwrap() as usize;
        let idx = c["idx"].as_i64().unwrap();
        let tamper = c["tamper"].as_i64().unwrap_or(0);
        let probe = c["probe"].as_i64().unwrap_or(0) == 1;
        let mut rec = c.clone();
        rec["init"] = json!(iinv);
        rec["work"] = json!(winv);
        let r = catch(std::panic::AssertUnwindSafe(|| -> Result<Value, String> {
            let viadir = c["viadir"].as_i64().unwrap_or(0) == 1;
            let ictx = table_ctx(&ipaths, viadir).map_err(|e| format!("initiator: {e}"))?;
            let wctx = table_ctx(&wpaths, viadir).map_err(|e| format!("worker: {e}"))?;
            exchange(&rt, &ictx, &wctx, n, idx, tamper, probe)
        }));
        merge_outcome(&mut rec, r);
        out.put(&rec);
        let _ = std::fs::remove_dir_all(&root);
    }
    out.finish();
    0
}

/// Rewrite a file IN PLACE (same path, other content) and give it a modification time no earlier file of this
/// run had: the engine's footer cache is keyed by (path, mtime), and a rewrite within the timestamp granularity
/// of the file system is the business of another property (C19), not of this one.
fn rewrite_file(path: &Path, name: i64, rgs: &[Value], tick: u64) {
    std::fs::remove_file(path).unwrap();
    write_file(path, name, rgs);
    let t = std::time::SystemTime::now() + std::time::Duration::from_secs(3600 + 7 * tick);
    let f = std::fs::OpenOptions::new().write(true).open(path).unwrap();
    f.set_modified(t).unwrap();
}

/// C14 histories.  in: {"hid","viadir","steps":[{"kind","init":[spec..],"work":[spec..],"n","idx","probe"}]}: the two
/// contexts are built ONCE from the files of step 1 (register_parquet on the directory, or an explicit file list);
/// before every later step the files whose specification changed are rewritten under the same paths; then the
/// exchange runs on the SAME contexts.  out: one record per step (real footers as they are at that step).
pub fn gate_history(a: &[String]) -> i32 {
    quiet_panics();
    let cases = read_ndjson(&a[0]);
    let mut out = Out::create(&a[1]);
    let work = PathBuf::from(&a[2]);
    let rt = tokio::runtime::Builder::new_multi_thread().worker_threads(2).enable_all().build().unwrap();
    let mut tick: u64 = 0;
    for h in cases {
        let hid = h["hid"].as_i64().unwrap();
        let root = work.join(format!("h{hid}"));
        let _ = std::fs::remove_dir_all(&root);
        let viadir = h["viadir"].as_i64().unwrap_or(0) == 1;
        let steps = h["steps"].as_array().unwrap();
        let first = &steps[0];
        let (ipaths, _) = materialise(&root.join("init"), first["init"].as_array().unwrap());
        let (wpaths, _) = materialise(&root.join("work"), first["work"].as_array().unwrap());
        let ctxs = catch(std::panic::AssertUnwindSafe(|| -> Result<_, String> {
            Ok((table_ctx(&ipaths, viadir).map_err(|e| format!("initiator: {e}"))?,
                table_ctx(&wpaths, viadir).map_err(|e| format!("worker: {e}"))?))
        }));
        let mut prev = first.clone();
        let mut rewrites = 0;
        for (k, st) in steps.iter().enumerate() {
            let mut rec = st.clone();
            rec["hid"] = json!(hid);
            rec["step"] = json!(k + 1);
            rec["viadir"] = json!(if viadir { 1 } else { 0 });
            if k > 0 {
                for (side, paths) in [("init", &ipaths), ("work", &wpaths)] {
                    let now = st[side].as_array().unwrap();
                    let before = prev[side].as_array().unwrap();
                    if now.len() != before.len() {
                        panic!("history {hid}: the file set of {side} changes (only in-place rewrites are supported)");
                    }
                    for (i, spec) in now.iter().enumerate() {
                        if spec["name"] != before[i]["name"] || spec["dir"] != before[i]["dir"] {
                            panic!("history {hid}: file {i} of {side} is renamed or moved");
                        }
                        if spec["rgs"] != before[i]["rgs"] {
                            tick += 1;
                            rewrites += 1;
                            rewrite_file(&paths[i], spec["name"].as_i64().unwrap(), spec["rgs"].as_array().unwrap(), tick);
                        }
                    }
                }
                prev = st.clone();
            }
            rec["rewrites_so_far"] = json!(rewrites);
            // the footers as they are on disk NOW (read independently of the engine)
            let inv = |paths: &Vec<PathBuf>, specs: &Value| -> Vec<Value> {
                paths.iter().zip(specs.as_array().unwrap()).map(|(p, s)| json!({"name": s["name"], "dir": s["dir"], "rgs": read_inventory(p)})).collect()
            };
            rec["init"] = json!(inv(&ipaths, &st["init"]));
            rec["work"] = json!(inv(&wpaths, &st["work"]));
            let n = st["n"].as_u64().unwrap() as usize;
            let idx = st["idx"].as_i64().unwrap();
            let probe = st["probe"].as_i64().unwrap_or(0) == 1;
            let r = match &ctxs {
                Ok(Ok((ictx, wctx))) => catch(std::panic::AssertUnwindSafe(|| exchange(&rt, ictx, wctx, n, idx, 0, probe))),
                Ok(Err(e)) => Ok(Err(e.clone())),
                Err(p) => Err(p.clone()),
            };
            merge_outcome(&mut rec, r);
            out.put(&rec);
        }
        let _ = std::fs::remove_dir_all(&root);
    }
    out.finish();
    0
}
