//! C37 — arrow_ffi vector encodings and SIMD helpers against the Arrow kernels and VecEnc.tla.
//!
//!   qev ffi-replay <cases.ndjson> <out.ndjson> [types=i32,i64,f64,utf8,bool]
//!
//! A case is what spec/VecEnc.tla emits. An array is a sequence of SLOTS over a base buffer plus a
//! slice (off, len): slot v >= 0 is the valid value v, slot -1-g is a NULL whose backing storage holds g
//! (Arrow keeps a value under every NULL; a kernel that forgets the validity bitmap shows it).
//!   {"f":"un",  "base":[..],"off":o,"len":n, "exp":{"view":[..],"sum":s,"count":c}}
//!   {"f":"fil", "base":[..],"off":o,"len":n, "mask":[0|1..], "exp":[..]}
//!   {"f":"bin", "base":[..],"off":o,"len":n, "bbase":[..],"boff":o2, "exp":{"eq":[..],..,"add":[..],"mul":[..]}}
//! Every case is concretized as Int32 / Int64 / Float64 / Utf8 / Boolean arrays (really sliced: offset != 0
//! whenever off != 0), the PUBLIC arrow_ffi function is called, and so is the equivalent arrow::compute kernel.
//! Output: one line per evaluation on which implementation, Arrow and the spec do not all agree
//!   {"i":case#, "t":type, "op":op, "got":R, "arrow":R, "exp":[..], "enc":.., "tydrift":..}   R = {"k":"ok","v":[..]} | {"k":"err"|"panic","msg":..}
//!   ({"i","t","op","got","c":1} when the implementation failed and Arrow == spec: compact, nothing else to compare)
//! a few {"sample":1,..} lines of agreeing evaluations, and a last {"summary":1,..} line with the counters.
use crate::util::*;
use arrow::array::*;
use arrow::buffer::{BooleanBuffer, NullBuffer};
use arrow::datatypes::*;
use query_engine::arrow_ffi::{
    add_simd, compare_simd, count_simd, encode_optimal, filter_simd, multiply_simd, sum_simd, CodecScalarValue, CompareOp,
    VectorEncoding,
};
use serde_json::{json, Value};
use std::collections::BTreeMap;
use std::panic::AssertUnwindSafe;
use std::sync::Arc;

const NULLV: i64 = -1073741824;
const BAD: i64 = -999_000_000;
const STRS: [&str; 5] = ["a", "b", "c", "d", "e"];

/// "f64e": Float64 arrays whose values are the model values times 1e-20 -- pairwise distinct but closer to each other than
/// f64::EPSILON (an encoder that decides "constant" or "equal run" with a tolerance is only visible on such data)
const TINY: f64 = 1e-20;
static F64_TINY: std::sync::atomic::AtomicBool = std::sync::atomic::AtomicBool::new(false);

fn slot_valid(s: i64) -> bool {
    s >= 0
}
fn slot_backing(s: i64) -> i64 {
    if s >= 0 {
        s
    } else {
        -s - 1
    }
}

/// Build the base array for `slots` (values under NULL slots are the slot's backing value) and slice it.
fn build(ty: &str, slots: &[i64], off: usize, len: usize) -> ArrayRef {
    let nulls = NullBuffer::from(slots.iter().map(|s| slot_valid(*s)).collect::<Vec<bool>>());
    let nulls = if slots.iter().all(|s| slot_valid(*s)) && slots.len() % 2 == 0 { None } else { Some(nulls) };
    let back: Vec<i64> = slots.iter().map(|s| slot_backing(*s)).collect();
    let base: ArrayRef = match ty {
        "i32" => Arc::new(Int32Array::new(back.iter().map(|v| *v as i32).collect::<Vec<i32>>().into(), nulls)),
        "i64" => Arc::new(Int64Array::new(back.clone().into(), nulls)),
        "f64" => Arc::new(Float64Array::new(back.iter().map(|v| *v as f64).collect::<Vec<f64>>().into(), nulls)),
        "f64e" => Arc::new(Float64Array::new(back.iter().map(|v| *v as f64 * TINY).collect::<Vec<f64>>().into(), nulls)),
        "utf8" => {
            let dense = StringArray::from(back.iter().map(|v| STRS[*v as usize]).collect::<Vec<&str>>());
            let (offsets, values, _) = dense.into_parts();
            Arc::new(StringArray::new(offsets, values, nulls))
        }
        "bool" => Arc::new(BooleanArray::new(BooleanBuffer::from(back.iter().map(|v| *v != 0).collect::<Vec<bool>>()), nulls)),
        _ => panic!("type {ty}"),
    };
    base.slice(off, len)
}

/// Project an array to model codes (NULL sentinel for logical NULLs).
fn codes(arr: &ArrayRef) -> Result<Vec<i64>, String> {
    let arr: ArrayRef = if let DataType::Dictionary(_, v) = arr.data_type() {
        arrow::compute::cast(arr, v).map_err(|e| e.to_string())?
    } else {
        arr.clone()
    };
    let mut out = Vec::with_capacity(arr.len());
    for i in 0..arr.len() {
        if arr.is_null(i) {
            out.push(NULLV);
            continue;
        }
        let v = match arr.data_type() {
            DataType::Int32 => arr.as_any().downcast_ref::<Int32Array>().unwrap().value(i) as i64,
            DataType::Int64 => arr.as_any().downcast_ref::<Int64Array>().unwrap().value(i),
            DataType::Float64 => {
                let x = arr.as_any().downcast_ref::<Float64Array>().unwrap().value(i);
                let x = if F64_TINY.load(std::sync::atomic::Ordering::Relaxed) { (x / TINY).round() } else { x };
                if x.is_finite() && x.fract() == 0.0 && x.abs() < 1e9 {
                    x as i64
                } else {
                    BAD
                }
            }
            DataType::Utf8 => {
                let s = arr.as_any().downcast_ref::<StringArray>().unwrap().value(i);
                STRS.iter().position(|d| *d == s).map(|p| p as i64).unwrap_or(BAD)
            }
            DataType::Boolean => arr.as_any().downcast_ref::<BooleanArray>().unwrap().value(i) as i64,
            other => return Err(format!("result has type {other}")),
        };
        out.push(v);
    }
    Ok(out)
}

#[derive(Clone, PartialEq)]
enum R {
    Ok(Vec<i64>),
    Err(String),
    Panic(String),
}

impl R {
    fn json(&self) -> Value {
        match self {
            R::Ok(v) => json!({"k": "ok", "v": v}),
            R::Err(m) => json!({"k": "err", "msg": m.chars().take(160).collect::<String>()}),
            R::Panic(m) => json!({"k": "panic", "msg": m.chars().take(160).collect::<String>()}),
        }
    }
}

fn run<T>(f: impl FnOnce() -> Result<T, String>, conv: impl FnOnce(T) -> Result<Vec<i64>, String>) -> R {
    match catch(AssertUnwindSafe(f)) {
        Ok(Ok(v)) => match conv(v) {
            Ok(c) => R::Ok(c),
            Err(m) => R::Err(format!("unreadable result: {m}")),
        },
        Ok(Err(m)) => R::Err(m),
        Err(p) => R::Panic(p),
    }
}

fn scalar_codes(s: CodecScalarValue) -> Result<Vec<i64>, String> {
    Ok(vec![match s {
        CodecScalarValue::Null | CodecScalarValue::Int64(None) | CodecScalarValue::Float64(None) => NULLV,
        CodecScalarValue::Int64(Some(v)) => v,
        CodecScalarValue::Float64(Some(x)) => {
            if x.is_finite() && x.fract() == 0.0 {
                x as i64
            } else {
                BAD
            }
        }
        other => return Err(format!("sum returned {other:?}")),
    }])
}

fn ivec(v: &Value) -> Vec<i64> {
    v.as_array().map(|a| a.iter().map(|x| x.as_i64().unwrap()).collect()).unwrap_or_default()
}

struct Eval {
    op: &'static str,
    got: R,
    arrow: R,
    exp: Vec<i64>,
    enc: Option<String>,
    tydrift: Option<String>,
}

fn arrow_sum(a: &ArrayRef) -> Result<Vec<i64>, String> {
    let o: Option<i64> = match a.data_type() {
        DataType::Int32 => arrow::compute::sum(a.as_any().downcast_ref::<Int32Array>().unwrap()).map(|v| v as i64),
        DataType::Int64 => arrow::compute::sum(a.as_any().downcast_ref::<Int64Array>().unwrap()),
        DataType::Float64 => arrow::compute::sum(a.as_any().downcast_ref::<Float64Array>().unwrap()).map(|x| if x.fract() == 0.0 { x as i64 } else { BAD }),
        other => return Err(format!("no arrow sum for {other}")),
    };
    Ok(vec![o.unwrap_or(NULLV)])
}

fn enc_name(e: VectorEncoding) -> &'static str {
    match e {
        VectorEncoding::Flat => "Flat",
        VectorEncoding::Dictionary => "Dictionary",
        VectorEncoding::RunLengthEncoded => "RunLengthEncoded",
        VectorEncoding::Constant => "Constant",
        VectorEncoding::Lazy => "Lazy",
    }
}

fn eval_case(c: &Value, ty: &str) -> Vec<Eval> {
    let base = ivec(&c["base"]);
    let off = c["off"].as_u64().unwrap() as usize;
    let len = c["len"].as_u64().unwrap() as usize;
    let numeric = matches!(ty, "i32" | "i64" | "f64");     // f64e: no sum / add / multiply (products leave the scaled grid)
    F64_TINY.store(ty == "f64e", std::sync::atomic::Ordering::Relaxed);
    let a = build(ty, &base, off, len);
    let mut out = Vec::new();
    match c["f"].as_str().unwrap() {
        "un" => {
            // round trip through the optimal encoding
            let mut enc = None;
            let mut drift = None;
            let a2 = a.clone();
            let got = run(
                || {
                    let e = encode_optimal(a2.clone()).map_err(|e| e.to_string())?;
                    let d = e.decode();
                    Ok((enc_name(e.encoding()).to_string(), e.len(), d))
                },
                |(name, elen, d)| {
                    enc = Some(name);
                    if d.data_type() != a2.data_type() {
                        drift = Some(format!("{} -> {}", a2.data_type(), d.data_type()));
                    }
                    if elen != d.len() {
                        return Err(format!("EncodedArray::len() = {elen} but decode() has {} rows", d.len()));
                    }
                    codes(&d)
                },
            );
            out.push(Eval { op: "rt", got, arrow: R::Ok(codes(&a).unwrap()), exp: ivec(&c["exp"]["view"]), enc, tydrift: drift });
            // count
            let a3 = a.clone();
            let got = run(|| count_simd(a3.as_ref()).map_err(|e| e.to_string()), |n| Ok(vec![n]));
            out.push(Eval { op: "count", got, arrow: R::Ok(vec![(a.len() - a.logical_null_count()) as i64]), exp: vec![c["exp"]["count"].as_i64().unwrap()], enc: None, tydrift: None });
            // sum (numeric types only: Arrow has no sum for Utf8 / Boolean)
            if numeric {
                let a4 = a.clone();
                let got = run(|| sum_simd(a4.as_ref()).map_err(|e| e.to_string()), scalar_codes);
                out.push(Eval { op: "sum", got, arrow: R::Ok(arrow_sum(&a).unwrap()), exp: vec![c["exp"]["sum"].as_i64().unwrap()], enc: None, tydrift: None });
            }
        }
        "fil" => {
            let mask: Vec<bool> = ivec(&c["mask"]).iter().map(|m| *m != 0).collect();
            let a2 = a.clone();
            let m2 = mask.clone();
            let got = run(|| filter_simd(a2.as_ref(), &m2).map_err(|e| e.to_string()), |r| codes(&r));
            let ar = match arrow::compute::filter(a.as_ref(), &BooleanArray::from(mask)) {
                Ok(r) => R::Ok(codes(&r).unwrap()),
                Err(e) => R::Err(e.to_string()),
            };
            out.push(Eval { op: "filter", got, arrow: ar, exp: ivec(&c["exp"]), enc: None, tydrift: None });
        }
        "bin" => {
            let bbase = ivec(&c["bbase"]);
            let boff = c["boff"].as_u64().unwrap() as usize;
            let b = build(ty, &bbase, boff, len);
            use arrow::compute::kernels::cmp;
            let ops: [(&'static str, CompareOp, fn(&dyn Datum, &dyn Datum) -> Result<BooleanArray, arrow::error::ArrowError>); 6] = [
                ("eq", CompareOp::Eq, cmp::eq),
                ("ne", CompareOp::Ne, cmp::neq),
                ("lt", CompareOp::Lt, cmp::lt),
                ("le", CompareOp::Le, cmp::lt_eq),
                ("gt", CompareOp::Gt, cmp::gt),
                ("ge", CompareOp::Ge, cmp::gt_eq),
            ];
            for (name, op, kern) in ops {
                let (a2, b2) = (a.clone(), b.clone());
                let got = run(|| compare_simd(a2.as_ref(), b2.as_ref(), op).map_err(|e| e.to_string()), |r| codes(&(Arc::new(r) as ArrayRef)));
                let ar = match kern(&a, &b) {
                    Ok(r) => R::Ok(codes(&(Arc::new(r) as ArrayRef)).unwrap()),
                    Err(e) => R::Err(e.to_string()),
                };
                out.push(Eval { op: name, got, arrow: ar, exp: ivec(&c["exp"][name]), enc: None, tydrift: None });
            }
            if numeric {
                use arrow::compute::kernels::numeric;
                let (a2, b2) = (a.clone(), b.clone());
                let got = run(|| add_simd(a2.as_ref(), b2.as_ref()).map_err(|e| e.to_string()), |r| codes(&r));
                let ar = match numeric::add(&a, &b) {
                    Ok(r) => R::Ok(codes(&r).unwrap()),
                    Err(e) => R::Err(e.to_string()),
                };
                out.push(Eval { op: "add", got, arrow: ar, exp: ivec(&c["exp"]["add"]), enc: None, tydrift: None });
                let (a2, b2) = (a.clone(), b.clone());
                let got = run(|| multiply_simd(a2.as_ref(), b2.as_ref()).map_err(|e| e.to_string()), |r| codes(&r));
                let ar = match numeric::mul(&a, &b) {
                    Ok(r) => R::Ok(codes(&r).unwrap()),
                    Err(e) => R::Err(e.to_string()),
                };
                out.push(Eval { op: "mul", got, arrow: ar, exp: ivec(&c["exp"]["mul"]), enc: None, tydrift: None });
            }
        }
        f => panic!("family {f}"),
    }
    out
}

pub fn replay(a: &[String]) -> i32 {
    quiet_panics();
    let cases = read_ndjson(&a[0]);
    let mut out = Out::create(&a[1]);
    let types: Vec<String> = a.get(2).map(|s| s.split(',').map(|x| x.to_string()).collect()).unwrap_or_else(|| vec!["i32".into(), "i64".into(), "f64".into(), "utf8".into(), "bool".into()]);
    let mut evals = 0u64;
    let mut agree = 0u64;
    let mut by_op: BTreeMap<String, u64> = BTreeMap::new();
    let mut by_type: BTreeMap<String, u64> = BTreeMap::new();
    let mut encs: BTreeMap<String, u64> = BTreeMap::new();
    let mut agree_by: BTreeMap<String, u64> = BTreeMap::new();
    let mut lens: BTreeMap<String, u64> = BTreeMap::new();
    let mut sliced = 0u64;
    let mut skipped_bool = 0u64;
    let mut samples = 0;
    for (i, c) in cases.iter().enumerate() {
        let maxv = ivec(&c["base"]).iter().chain(ivec(&c["bbase"]).iter()).map(|s| slot_backing(*s)).max().unwrap_or(0);
        // a case may restrict its types ("types":[..]); otherwise all requested types
        let want: Vec<String> = match c.get("types") {
            Some(t) => t.as_array().unwrap().iter().map(|x| x.as_str().unwrap().to_string()).collect(),
            None => types.clone(),
        };
        for ty in &want {
            if ty == "bool" && maxv > 1 {
                skipped_bool += 1;
                continue;
            }
            for e in eval_case(c, ty) {
                evals += 1;
                *by_op.entry(e.op.to_string()).or_default() += 1;
                *by_type.entry(ty.clone()).or_default() += 1;
                if c["off"].as_u64().unwrap() > 0 {
                    sliced += 1;
                }
                if let Some(n) = &e.enc {
                    *encs.entry(n.clone()).or_default() += 1;
                }
                let all = e.got == R::Ok(e.exp.clone()) && e.arrow == R::Ok(e.exp.clone());
                if all {
                    agree += 1;
                    *agree_by.entry(format!("{}/{}", e.op, ty)).or_default() += 1;
                }
                *lens.entry(c["len"].as_u64().unwrap().to_string()).or_default() += 1;
                if !all || e.tydrift.is_some() || (samples < 12 && i % 97 == 5) {
                    // compact form when the implementation failed while Arrow and the spec agree: the operands are in the case
                    let failed = !matches!(e.got, R::Ok(_)) && e.arrow == R::Ok(e.exp.clone());
                    let mut rec = if failed {
                        json!({"i": i, "t": ty, "op": e.op, "got": e.got.json(), "c": 1})
                    } else {
                        json!({"i": i, "t": ty, "op": e.op, "got": e.got.json(), "arrow": e.arrow.json(), "exp": e.exp})
                    };
                    if let Some(n) = &e.enc {
                        rec["enc"] = json!(n);
                    }
                    if let Some(d) = &e.tydrift {
                        rec["tydrift"] = json!(d);
                    }
                    if all {
                        rec["sample"] = json!(1);
                        if e.tydrift.is_none() {
                            samples += 1;
                        }
                    }
                    out.put(&rec);
                }
            }
        }
    }
    out.put(&json!({"summary": 1, "cases": cases.len(), "evals": evals, "agree": agree, "by_op": by_op, "by_type": by_type,
                    "encodings_chosen": encs, "agree_by": agree_by, "evals_by_len": lens, "evals_on_sliced_arrays": sliced, "bool_skipped_value2": skipped_bool}));
    out.finish();
    0
}
