//! rtfilter — X05 "RuntimeFilter" conformance (spec/RuntimeFilter.tla, spec/RuntimeFilterTrace.tla).
//!
//!   qev rtfilter-contains <cases.ndjson> <out.ndjson>
//!     case: {"id", "kind":"bitmap", "min":i64, "nbits":n, "on":[offset..], "v":i64}
//!         | {"id", "kind":"set", "keys":[i64..], "v":i64}
//!     The payload is constructed the way hash_join.rs constructs it (min + packed u64 words / hash set) and the
//!     REAL `RuntimeFilterPayload::contains` is called.   output: case + {"got":0|1} | {"got":-1,"panic":msg}
//!
//!   qev rtfilter-run <cases.ndjson> <configs.json> <out.ndjson> <workdir>
//!     Same case/config format as `qev sqlrun` (the statement is run through ExecutionContext::sql by
//!     sqlrun::run_one); additionally RT_DEBUG is set and the process' stderr is captured around every run, so the
//!     planner's "[rt] linked" and the join's "[rt] publish" lines are attributed to the (case, config) that
//!     produced them: meta[i]["rt"] = {"linked","published","skipped","failed","nolink"}.
use crate::sqlrun::{run_one, TableData};
use crate::util::*;
use query_engine::physical::operators::streaming_parquet_scan::RuntimeFilterPayload;
use serde_json::{json, Value};

fn i64s(v: &Value) -> Vec<i64> {
    v.as_array().map(|a| a.iter().map(|x| x.as_i64().unwrap()).collect()).unwrap_or_default()
}

pub fn contains(a: &[String]) -> i32 {
    quiet_panics();
    let cases = read_ndjson(&a[0]);
    let mut out = Out::create(&a[1]);
    for c in cases {
        let v = c["v"].as_i64().unwrap();
        let payload = match c["kind"].as_str().unwrap() {
            "bitmap" => {
                let nbits = c["nbits"].as_u64().unwrap() as usize;
                let mut bits = vec![0u64; nbits.div_ceil(64)];
                for off in i64s(&c["on"]) {
                    let off = off as usize;
                    bits[off >> 6] |= 1u64 << (off & 63);
                }
                RuntimeFilterPayload::Bitmap { min: c["min"].as_i64().unwrap(), bits }
            }
            "set" => RuntimeFilterPayload::Set(i64s(&c["keys"]).into_iter().collect()),
            k => panic!("payload kind {k}"),
        };
        let mut r = c.clone();
        match catch(std::panic::AssertUnwindSafe(|| payload.contains(v))) {
            Ok(b) => r["got"] = json!(if b { 1 } else { 0 }),
            Err(m) => {
                r["got"] = json!(-1);
                r["panic"] = json!(m);
            }
        }
        out.put(&r);
    }
    out.finish();
    0
}

fn with_stderr_captured<T>(path: &std::path::Path, f: impl FnOnce() -> T) -> (T, String) {
    use std::io::Write;
    use std::os::unix::io::AsRawFd;
    let file = std::fs::File::create(path).unwrap();
    std::io::stderr().flush().ok();
    let saved = unsafe { libc::dup(2) };
    unsafe { libc::dup2(file.as_raw_fd(), 2) };
    let r = f();
    std::io::stderr().flush().ok();
    unsafe {
        libc::dup2(saved, 2);
        libc::close(saved);
    }
    drop(file);
    let s = std::fs::read_to_string(path).unwrap_or_default();
    (r, s)
}

pub fn run(a: &[String]) -> i32 {
    quiet_panics();
    std::env::set_var("RT_DEBUG", "1");
    std::env::remove_var("RT_DISABLE");
    let cases = read_ndjson(&a[0]);
    let cfgs: Vec<Value> = serde_json::from_str(&std::fs::read_to_string(&a[1]).unwrap()).unwrap();
    let mut out = Out::create(&a[2]);
    let workdir = a[3].clone();
    std::fs::create_dir_all(&workdir).ok();
    let errfile = std::path::Path::new(&workdir).join("rt_stderr.txt");
    let rt = tokio::runtime::Builder::new_multi_thread().worker_threads(4).enable_all().build().unwrap();
    for c in cases {
        let tables: Vec<TableData> = c["tables"].as_array().unwrap().iter().map(TableData::from_json).collect();
        let sql = c["sql"].as_str().unwrap();
        let units: Vec<String> = c["out_types"].as_array().unwrap().iter().map(|v| v.as_str().unwrap().to_string()).collect();
        let mut outs = Vec::new();
        let mut metas = Vec::new();
        for cfg in &cfgs {
            let ((o, mut m), err) = with_stderr_captured(&errfile, || run_one(&rt, &tables, sql, &units, cfg, &workdir));
            let cnt = |pat: &str| err.lines().filter(|l| l.contains(pat)).count();
            m["rt"] = json!({
                "linked": cnt("[rt] linked"),
                "published": cnt("[rt] publish: skip=false"),
                "skipped": cnt("[rt] publish: skip=true"),
                "failed": cnt("[rt] publish FAILED"),
                "nolink": cnt("[rt] no link"),
            });
            outs.push(o);
            metas.push(m);
        }
        out.put(&json!({"id": c["id"], "outs": outs, "meta": metas}));
    }
    out.finish();
    0
}
