//! C15 — cluster membership view (`query_engine::distributed::membership::Membership`).
//!
//! Subcommands (all file arguments are ND-JSON / JSON paths):
//!   member-universe <config A|B> <out.json>
//!       builds the concrete address universe, decides INDEPENDENTLY of `is_self_address`
//!       which spellings denote this node (string equality, std resolution through
//!       /etc/hosts, getifaddrs through libc) and records what the implementation says.
//!   member-replay <universe.json> <histories.ndjson> <out.ndjson> [mutant]
//!       steps TLC-emitted behaviours through the real object, compares the projected
//!       state after every call with the spec state carried in the history.
//!   member-record <universe.json> <seed> <n_seq> <seq_len> <n_conc> <threads> <ops_per_thread> <seq_out> <conc_out>
//!       records random sequential histories (complete observation after every call) and
//!       concurrent histories (invoke/response stamps) from the real object for
//!       MembershipTrace.tla.
//!
//! Addresses travel as RANKS (1-based index into the byte-wise sorted universe); null is -1.
use crate::util::*;
use query_engine::distributed::membership::{
    is_self_address, Discovery, Member, Membership, MembershipChange, PeerStatus,
};
use rand::{Rng, SeedableRng};
use serde_json::{json, Value};
use std::collections::{HashMap, HashSet};
use std::net::{IpAddr, Ipv4Addr, Ipv6Addr, ToSocketAddrs};
use std::sync::atomic::{AtomicU64, Ordering};
use std::sync::{Arc, Barrier};

// ------------------------------------------------------------------------------------------
// independent self-identification

/// Every IP bound to a local interface — own getifaddrs walk (not the engine's).
fn local_ips() -> Vec<IpAddr> {
    let mut out = Vec::new();
    unsafe {
        let mut ifap: *mut libc::ifaddrs = std::ptr::null_mut();
        if libc::getifaddrs(&mut ifap) != 0 {
            return out;
        }
        let mut p = ifap;
        while !p.is_null() {
            let ifa = &*p;
            if !ifa.ifa_addr.is_null() {
                let fam = (*ifa.ifa_addr).sa_family as i32;
                if fam == libc::AF_INET {
                    let sin = &*(ifa.ifa_addr as *const libc::sockaddr_in);
                    let b = sin.sin_addr.s_addr.to_ne_bytes(); // network order bytes as stored
                    out.push(IpAddr::V4(Ipv4Addr::new(b[0], b[1], b[2], b[3])));
                } else if fam == libc::AF_INET6 {
                    let sin6 = &*(ifa.ifa_addr as *const libc::sockaddr_in6);
                    out.push(IpAddr::V6(Ipv6Addr::from(sin6.sin6_addr.s6_addr)));
                }
            }
            p = ifa.ifa_next;
        }
        libc::freeifaddrs(ifap);
    }
    out.sort();
    out.dedup();
    out
}

fn split_host_port(a: &str) -> Option<(String, u16)> {
    let (h, p) = a.rsplit_once(':')?;
    let port: u16 = p.parse().ok()?;
    let h = h.trim_start_matches('[').trim_end_matches(']');
    Some((h.to_string(), port))
}

/// IPs a host spelling denotes: a literal is itself, a name goes through std resolution
/// (nsswitch "files" -> /etc/hosts; the universes only use `localhost`, so no DNS query).
fn host_ips(host: &str) -> Vec<IpAddr> {
    if let Ok(ip) = host.parse::<IpAddr>() {
        return vec![ip];
    }
    let mut v: Vec<IpAddr> = (host, 0u16).to_socket_addrs().map(|it| it.map(|sa| sa.ip()).collect()).unwrap_or_default();
    v.sort();
    v.dedup();
    v
}

/// Ground truth used by the check: does `cand` denote the node advertised as `me`?
fn indep_is_self(cand: &str, me: &str, local: &[IpAddr]) -> bool {
    if cand == me {
        return true;
    }
    let (Some((ch, cp)), Some((mh, mp))) = (split_host_port(cand), split_host_port(me)) else {
        return false;
    };
    if cp != mp {
        return false; // a different port is a different node, whatever the host
    }
    let ci = host_ips(&ch);
    let mi = host_ips(&mh);
    if ci.iter().any(|c| mi.contains(c)) {
        return true;
    }
    ci.iter().any(|c| local.contains(c))
}

pub fn universe(a: &[String]) -> i32 {
    quiet_panics();
    let config = a[0].as_str();
    let local = local_ips();
    let iface: Option<IpAddr> = local.iter().find(|ip| ip.is_ipv4() && !ip.is_loopback()).copied();
    // (string, role, named-by-the-property)
    let mut u: Vec<(String, &str, bool)> = Vec::new();
    let self_address;
    match config {
        "A" => {
            self_address = "127.0.0.1:7070".to_string();
            u.push((self_address.clone(), "self", true));
            u.push(("localhost:7070".into(), "self_localhost", true));
            u.push(("127.0.0.1:7071".into(), "port_only_difference", true));
            if let Some(ip) = iface {
                u.push((format!("{ip}:7070"), "self_interface_ip", false));
            }
            for i in 1..=3 {
                u.push((format!("10.0.0.{i}:7070"), "peer", true));
            }
        }
        "B" => {
            self_address = "localhost:7070".to_string();
            u.push((self_address.clone(), "self", true));
            u.push(("127.0.0.1:7070".into(), "self_loopback_literal", true));
            u.push(("localhost:7071".into(), "port_only_difference", true));
            if let Some(ip) = iface {
                u.push((format!("{ip}:7070"), "self_interface_ip", false));
                u.push((format!("{ip}:7071"), "interface_ip_other_port", true));
            }
            for i in 1..=2 {
                u.push((format!("10.0.0.{i}:7070"), "peer", true));
            }
        }
        _ => {
            eprintln!("unknown config {config}");
            return 2;
        }
    }
    u.sort_by(|x, y| x.0.as_bytes().cmp(y.0.as_bytes()));
    let addrs: Vec<&String> = u.iter().map(|x| &x.0).collect();
    let me = self_address.clone();
    let indep: Vec<i64> = u.iter().map(|x| indep_is_self(&x.0, &me, &local) as i64).collect();
    let mut imp = Vec::new();
    for x in &u {
        let (c, m) = (x.0.clone(), me.clone());
        match catch(move || is_self_address(&c, &m)) {
            Ok(b) => imp.push(json!(b as i64)),
            Err(p) => imp.push(json!({ "panic": p })),
        }
    }
    // what the resolver says about the names the universe uses (evidence of the ground truth)
    let lh: Vec<String> = host_ips("localhost").iter().map(|i| i.to_string()).collect();
    let out = json!({
        "config": config, "self_address": self_address, "self_id": 9,
        "addrs": addrs, "roles": u.iter().map(|x| x.1).collect::<Vec<_>>(),
        "named": u.iter().map(|x| x.2 as i64).collect::<Vec<_>>(),
        "indep_self": indep, "impl_self": imp,
        "self_rank": u.iter().position(|x| x.1 == "self").unwrap() + 1,
        "local_ips": local.iter().map(|i| i.to_string()).collect::<Vec<_>>(),
        "localhost_ips": lh,
    });
    std::fs::write(&a[1], serde_json::to_string(&out).unwrap()).unwrap();
    0
}

// ------------------------------------------------------------------------------------------
// binding: ranks <-> strings, calls, projection

struct Uni {
    addrs: Vec<String>,
    rank: HashMap<String, i64>,
    self_address: String,
    self_id: u64,
}

impl Uni {
    fn load(path: &str) -> Uni {
        let v: Value = serde_json::from_str(&std::fs::read_to_string(path).unwrap()).unwrap();
        let addrs: Vec<String> = v["addrs"].as_array().unwrap().iter().map(|x| x.as_str().unwrap().to_string()).collect();
        let rank = addrs.iter().enumerate().map(|(i, s)| (s.clone(), i as i64 + 1)).collect();
        Uni { addrs, rank, self_address: v["self_address"].as_str().unwrap().to_string(), self_id: v["self_id"].as_u64().unwrap() }
    }
    fn s(&self, r: i64) -> String {
        self.addrs[(r - 1) as usize].clone()
    }
    fn r(&self, s: &str) -> i64 {
        *self.rank.get(s).unwrap_or(&-2) // -2: a string outside the universe
    }
    fn fresh(&self) -> Membership {
        Membership::new(self.self_id, self.self_address.clone(), Discovery::Static(vec![]))
    }
}

#[derive(Clone, Debug)]
struct Call {
    k: String, // set | up | down | err | members | gen | resolved | peerlist | lasterr
    l: Vec<i64>,
    a: i64,
    id: i64,
    e: i64,
}

fn err_code(s: &Option<String>) -> i64 {
    match s {
        None => -1,
        Some(t) => t.strip_prefix('e').and_then(|n| n.parse::<i64>().ok()).unwrap_or(-2),
    }
}

fn status_code(s: PeerStatus) -> i64 {
    match s {
        PeerStatus::Unknown => 0,
        PeerStatus::Up => 1,
        PeerStatus::Down => 2,
    }
}

fn view_rows(u: &Uni, ms: &[Member]) -> (Vec<Vec<i64>>, i64) {
    let rows = ms
        .iter()
        .map(|m| {
            vec![
                u.r(&m.address),
                m.is_self as i64,
                status_code(m.status),
                m.node_id.map(|n| if n < 1_000_000 { n as i64 } else { -2 }).unwrap_or(-1),
                m.consecutive_failures.min(1_000_000) as i64,
                err_code(&m.last_error),
            ]
        })
        .collect();
    let sorted = ms.windows(2).all(|w| w[0].address.as_bytes() < w[1].address.as_bytes()) as i64;
    (rows, sorted)
}

/// Perform one call on the real object; returns the JSON of what it returned.
fn perform(u: &Uni, m: &Membership, c: &Call) -> (Value, i64) {
    match c.k.as_str() {
        "set" => {
            let ch = m.set_members(c.l.iter().map(|r| u.s(*r)).collect());
            let v: Vec<Value> = ch
                .iter()
                .map(|x| match x {
                    MembershipChange::Removed(s) => json!([0, u.r(s)]),
                    MembershipChange::Added(s) => json!([1, u.r(s)]),
                })
                .collect();
            (json!(v), 1)
        }
        "up" => {
            let id = if c.id >= 0 { Some(c.id as u64) } else { None };
            let flight = id.map(|i| format!("fl{i}"));
            m.record_up(&u.s(c.a), id, flight);
            (json!(0), 1)
        }
        "down" => {
            m.record_down(&u.s(c.a), format!("e{}", c.e));
            (json!(0), 1)
        }
        "err" => {
            m.record_resolve_error(format!("e{}", c.e));
            (json!(0), 1)
        }
        "members" => {
            let (rows, sorted) = view_rows(u, &m.members());
            (json!(rows), sorted)
        }
        "gen" => (json!(m.generation().min(1 << 30)), 1),
        "resolved" => (json!(m.resolved() as i64), 1),
        "peerlist" => (json!(m.peer_addresses().iter().map(|s| u.r(s)).collect::<Vec<_>>()), 1),
        "lasterr" => (json!(err_code(&m.last_resolve_error())), 1),
        other => panic!("unknown call {other}"),
    }
}

struct Obs {
    view: Vec<Vec<i64>>,
    sorted: i64,
    peers: Vec<i64>,
    gen: i64,
    resolved: i64,
    lasterr: i64,
    raw: Vec<Member>,
}

fn observe(u: &Uni, m: &Membership) -> Obs {
    let raw = m.members();
    let (view, sorted) = view_rows(u, &raw);
    Obs {
        view,
        sorted,
        peers: m.peer_addresses().iter().map(|s| u.r(s)).collect(),
        gen: m.generation().min(1 << 30) as i64,
        resolved: m.resolved() as i64,
        lasterr: err_code(&m.last_resolve_error()),
        raw,
    }
}

fn step_event(c: &Call, ret: &Value, o: &Obs) -> Value {
    json!({"ev": "step", "k": c.k, "L": c.l, "a": c.a, "id": c.id, "e": c.e, "panic": 0,
           "view": o.view, "sorted": o.sorted, "peers": o.peers, "gen": o.gen,
           "resolved": o.resolved, "lasterr": o.lasterr, "ret": ret})
}

fn panic_event(c: &Call, msg: &str) -> Value {
    json!({"ev": "step", "k": c.k, "L": c.l, "a": c.a, "id": c.id, "e": c.e, "panic": 1, "msg": msg})
}

/// Everything a probe learned about a peer, for the before/after comparison of a re-resolution.
fn probe_state(m: &Member) -> (Option<u64>, Option<String>, i64, Option<u64>, Option<String>, u32) {
    (m.node_id, m.flight.clone(), status_code(m.status), m.last_seen_unix_ms, m.last_error.clone(), m.consecutive_failures)
}

fn ints(v: &Value) -> Vec<i64> {
    v.as_array().unwrap().iter().map(|x| x.as_i64().unwrap()).collect()
}

// ------------------------------------------------------------------------------------------
// (R) spec -> implementation replay

/// history line: {"id": n, "h": [[k, L, a, id, e, peers, resolved, gen, lastErr], ...], "log": 0|1}
/// `mutant` (selftest only) perturbs how the history is driven, emulating a broken implementation:
///   clear_on_error  — a resolve error also empties the member set
///   rebuild_on_set  — set_members forgets every record before applying the new set
pub fn replay(a: &[String]) -> i32 {
    quiet_panics();
    let u = Uni::load(&a[0]);
    let hs = read_ndjson(&a[1]);
    let mut out = Out::create(&a[2]);
    let mutant = a.get(3).map(|s| s.as_str()).unwrap_or("");
    let spell: HashSet<i64> = {
        let v: Value = serde_json::from_str(&std::fs::read_to_string(&a[0]).unwrap()).unwrap();
        // the model's SelfSpellings (written by checks/c15.py after judging the spellings)
        ints(v.get("model_self").unwrap_or(&v["indep_self"])).iter().enumerate().filter(|(_, b)| **b == 1).map(|(i, _)| i as i64 + 1).collect()
    };
    let mut steps = 0u64;
    let mut matched = 0u64;
    let mut tags: HashMap<&'static str, u64> = HashMap::new();
    let mut distinct: HashSet<u64> = HashSet::new();
    let mut nontrivial: HashSet<u64> = HashSet::new();
    for h in &hs {
        let entries = h["h"].as_array().unwrap();
        let want_log = h.get("log").and_then(|x| x.as_i64()).unwrap_or(0) == 1;
        let m = u.fresh();
        let mut events: Vec<Value> = vec![json!({"ev": "reset"})];
        let mut diffs: Vec<Value> = Vec::new();
        let mut first_bad: i64 = -1;
        let (mut t_self_in_set, mut t_reresolve_probed) = (false, false);
        for (i, en) in entries.iter().enumerate() {
            let c = Call { k: en[0].as_str().unwrap().to_string(), l: ints(&en[1]), a: en[2].as_i64().unwrap(), id: en[3].as_i64().unwrap(), e: en[4].as_i64().unwrap() };
            steps += 1;
            let before = m.members();
            let before_peers: Vec<String> = before.iter().filter(|x| !x.is_self).map(|x| x.address.clone()).collect();
            // coverage tags (vacuity report)
            match c.k.as_str() {
                "set" => {
                    if c.l.iter().any(|r| spell.contains(r)) && c.l.iter().any(|r| !spell.contains(r)) {
                        *tags.entry("set_with_self_spelling_and_peers").or_default() += 1;
                        t_self_in_set = true;
                    }
                    let inc: HashSet<String> = c.l.iter().filter(|r| !spell.contains(r)).map(|r| u.s(*r)).collect();
                    let cur: HashSet<String> = before_peers.iter().cloned().collect();
                    if inc == cur && !cur.is_empty() {
                        *tags.entry("reresolve_same_set").or_default() += 1;
                        if before.iter().any(|x| !x.is_self && x.status != PeerStatus::Unknown) {
                            *tags.entry("reresolve_same_set_with_probe_state").or_default() += 1;
                            t_reresolve_probed = true;
                        }
                    } else if inc.intersection(&cur).any(|s| before.iter().any(|x| &x.address == s && x.status != PeerStatus::Unknown)) {
                        *tags.entry("churn_with_probed_survivor").or_default() += 1;
                    }
                    let mut seen = HashSet::new();
                    if c.l.iter().any(|r| !seen.insert(*r)) {
                        *tags.entry("set_with_duplicates").or_default() += 1;
                    }
                }
                "up" | "down" => {
                    let s = u.s(c.a);
                    if !before_peers.contains(&s) {
                        *tags.entry(if spell.contains(&c.a) { "probe_of_self_spelling" } else { "probe_of_absent_peer" }).or_default() += 1;
                    } else {
                        *tags.entry(if c.k == "up" { "up_on_peer" } else { "down_on_peer" }).or_default() += 1;
                    }
                }
                "err" => {
                    if !before_peers.is_empty() {
                        *tags.entry("resolve_error_with_members").or_default() += 1;
                    }
                }
                _ => {}
            }
            let (c2, mref) = (c.clone(), &m);
            let uref = &u;
            let r = catch(std::panic::AssertUnwindSafe(move || {
                if mutant == "rebuild_on_set" && c2.k == "set" {
                    mref.set_members(vec![]);
                }
                let ret = perform(uref, mref, &c2).0;
                if mutant == "clear_on_error" && c2.k == "err" {
                    mref.set_members(vec![]);
                }
                (ret, observe(uref, mref))
            }));
            let (ret, o) = match r {
                Ok(x) => x,
                Err(p) => {
                    events.push(panic_event(&c, &p));
                    diffs.push(json!({"step": i + 1, "field": "panic", "got": p}));
                    first_bad = i as i64 + 1;
                    break;
                }
            };
            events.push(step_event(&c, &ret, &o));
            // expected projection from the spec state carried by the history
            let mut exp_view: Vec<Vec<i64>> = en[5].as_array().unwrap().iter().map(|p| { let p = ints(p); vec![p[0], 0, p[1], p[2], p[3], p[4]] }).collect();
            let self_rank = u.r(&u.self_address);
            exp_view.push(vec![self_rank, 1, 1, u.self_id as i64, 0, -1]);
            exp_view.sort();
            let exp_peers: Vec<i64> = en[5].as_array().unwrap().iter().map(|p| p[0].as_i64().unwrap()).collect();
            let mut d = Vec::new();
            if o.view != exp_view { d.push(json!({"step": i + 1, "field": "view", "expected": exp_view, "got": o.view})); }
            if o.sorted != 1 { d.push(json!({"step": i + 1, "field": "sorted", "got": o.sorted})); }
            if o.peers != exp_peers { d.push(json!({"step": i + 1, "field": "peer_addresses", "expected": exp_peers, "got": o.peers})); }
            if o.resolved != en[6].as_i64().unwrap() { d.push(json!({"step": i + 1, "field": "resolved", "expected": en[6], "got": o.resolved})); }
            if o.gen != en[7].as_i64().unwrap() { d.push(json!({"step": i + 1, "field": "generation", "expected": en[7], "got": o.gen})); }
            if o.lasterr != en[8].as_i64().unwrap() { d.push(json!({"step": i + 1, "field": "last_resolve_error", "expected": en[8], "got": o.lasterr})); }
            // a re-resolution that leaves the address set as it was must keep EVERYTHING a probe
            // learned (also the fields the spec does not carry: flight, last_seen, error text)
            if c.k == "set" {
                let after_peers: Vec<String> = o.raw.iter().filter(|x| !x.is_self).map(|x| x.address.clone()).collect();
                if after_peers == before_peers {
                    for (b, n) in before.iter().filter(|x| !x.is_self).zip(o.raw.iter().filter(|x| !x.is_self)) {
                        if probe_state(b) != probe_state(n) {
                            d.push(json!({"step": i + 1, "field": "probe_state_extra", "address": b.address,
                                          "expected": format!("{:?}", probe_state(b)), "got": format!("{:?}", probe_state(n))}));
                        }
                    }
                }
            }
            if !d.is_empty() && first_bad < 0 {
                first_bad = i as i64 + 1;
            }
            diffs.extend(d);
        }
        let line = serde_json::to_string(&h["h"]).unwrap();
        let hh = { use std::hash::{Hash, Hasher}; let mut s = std::collections::hash_map::DefaultHasher::new(); line.hash(&mut s); s.finish() };
        distinct.insert(hh);
        if t_self_in_set && t_reresolve_probed {
            nontrivial.insert(hh);
        }
        if first_bad < 0 {
            matched += 1;
            if want_log {
                out.put(&json!({"id": h["id"], "ok": 1, "events": events}));
            }
        } else {
            diffs.truncate(8);
            out.put(&json!({"id": h["id"], "ok": 0, "step": first_bad, "diffs": diffs, "events": events}));
        }
    }
    out.put(&json!({"summary": {"histories": hs.len(), "matched": matched, "steps": steps, "distinct": distinct.len(),
                                 "distinct_nontrivial": nontrivial.len(), "tags": tags}}));
    out.finish();
    0
}

// ------------------------------------------------------------------------------------------
// (V) implementation -> spec: recorded histories

fn random_set(rng: &mut rand::rngs::StdRng, n: i64, cur: &[i64], spell: &[i64]) -> Vec<i64> {
    let mut l: Vec<i64> = Vec::new();
    match rng.gen_range(0..10) {
        0..=3 => {
            // the same set again, self spellings mixed in
            l.extend_from_slice(cur);
            for s in spell {
                if rng.gen_bool(0.4) { l.push(*s); }
            }
        }
        4..=6 => {
            l.extend_from_slice(cur);
            if !l.is_empty() && rng.gen_bool(0.5) { let i = rng.gen_range(0..l.len()); l.remove(i); }
            l.push(rng.gen_range(1..=n));
            if rng.gen_bool(0.5) { l.push(spell[rng.gen_range(0..spell.len())]); }
        }
        _ => {
            for r in 1..=n {
                if rng.gen_bool(0.4) { l.push(r); }
            }
        }
    }
    // order and multiplicity are the caller's business: shuffle, sometimes repeat
    for i in (1..l.len()).rev() {
        let j = rng.gen_range(0..=i);
        l.swap(i, j);
    }
    if !l.is_empty() && rng.gen_bool(0.3) {
        let x = l[rng.gen_range(0..l.len())];
        l.push(x);
    }
    l
}

fn random_call(rng: &mut rand::rngs::StdRng, n: i64, cur: &[i64], spell: &[i64], reads: bool) -> Call {
    let probe_addr = |rng: &mut rand::rngs::StdRng| if !cur.is_empty() && rng.gen_bool(0.8) { cur[rng.gen_range(0..cur.len())] } else { rng.gen_range(1..=n) };
    let r = rng.gen_range(0..if reads { 32 } else { 20 });
    let mut c = Call { k: String::new(), l: vec![], a: 0, id: -1, e: -1 };
    match r {
        0..=5 => { c.k = "set".into(); c.l = random_set(rng, n, cur, spell); }
        6..=11 => { c.k = "up".into(); c.a = probe_addr(rng); c.id = if rng.gen_bool(0.25) { -1 } else { rng.gen_range(1..=5) }; }
        12..=17 => { c.k = "down".into(); c.a = probe_addr(rng); c.e = rng.gen_range(1..=3); }
        18..=19 => { c.k = "err".into(); c.e = rng.gen_range(1..=3); }
        20..=24 => c.k = "members".into(),
        25..=28 => c.k = "gen".into(),
        29 => c.k = "peerlist".into(),
        30 => c.k = "resolved".into(),
        _ => c.k = "lasterr".into(),
    }
    c
}

static CLOCK: AtomicU64 = AtomicU64::new(1);

pub fn record(a: &[String]) -> i32 {
    quiet_panics();
    let u = Arc::new(Uni::load(&a[0]));
    let seed: u64 = a[1].parse().unwrap();
    let n_seq: usize = a[2].parse().unwrap();
    let seq_len: usize = a[3].parse().unwrap();
    let n_conc: usize = a[4].parse().unwrap();
    let threads: usize = a[5].parse().unwrap();
    let per: usize = a[6].parse().unwrap();
    let mut seq_out = Out::create(&a[7]);
    let mut conc_out = Out::create(&a[8]);
    let v: Value = serde_json::from_str(&std::fs::read_to_string(&a[0]).unwrap()).unwrap();
    let spell: Vec<i64> = ints(v.get("model_self").unwrap_or(&v["indep_self"])).iter().enumerate().filter(|(_, b)| **b == 1).map(|(i, _)| i as i64 + 1).collect();
    let n = u.addrs.len() as i64;
    let mut rng = rand::rngs::StdRng::seed_from_u64(seed ^ 0xC15);

    // sequential: complete observation after every call
    for _ in 0..n_seq {
        let m = u.fresh();
        seq_out.put(&json!({"ev": "reset"}));
        for _ in 0..seq_len {
            let cur: Vec<i64> = m.peer_addresses().iter().map(|s| u.r(s)).collect();
            let c = random_call(&mut rng, n, &cur, &spell, false);
            let (uref, mref, c2) = (&*u, &m, c.clone());
            match catch(std::panic::AssertUnwindSafe(move || { let ret = perform(uref, mref, &c2).0; (ret, observe(uref, mref)) })) {
                Ok((ret, o)) => seq_out.put(&step_event(&c, &ret, &o)),
                Err(p) => { seq_out.put(&panic_event(&c, &p)); break; }
            }
        }
    }
    seq_out.finish();

    // concurrent: `threads` threads on one object, invoke/response stamps from one atomic counter
    for hi in 0..n_conc {
        let m = Arc::new(u.fresh());
        // a common prefix so that the threads start from a populated view half of the time
        let mut pre: Vec<Value> = Vec::new();
        if hi % 2 == 1 {
            let c = Call { k: "set".into(), l: random_set(&mut rng, n, &[], &spell), a: 0, id: -1, e: -1 };
            let inv = CLOCK.fetch_add(1, Ordering::SeqCst);
            let (ret, sorted) = perform(&u, &m, &c);
            let res = CLOCK.fetch_add(1, Ordering::SeqCst);
            pre.push(json!({"t": 0, "k": c.k, "L": c.l, "a": c.a, "id": c.id, "e": c.e, "inv": inv, "res": res, "ret": ret, "sorted": sorted, "panic": 0}));
        }
        let start = m.peer_addresses().iter().map(|s| u.r(s)).collect::<Vec<_>>();
        let barrier = Arc::new(Barrier::new(threads));
        // two out of three histories race round by round: a spin barrier before every call makes
        // the calls of one round genuinely overlap (a call takes microseconds, a thread start longer)
        let rounds = hi % 3 != 0;
        let arrive = Arc::new(std::sync::atomic::AtomicUsize::new(0));
        let mut handles = Vec::new();
        for t in 0..threads {
            let (u, m, barrier, spell, start, arrive) = (u.clone(), m.clone(), barrier.clone(), spell.clone(), start.clone(), arrive.clone());
            let tseed: u64 = rng.gen();
            handles.push(std::thread::spawn(move || {
                let mut rng = rand::rngs::StdRng::seed_from_u64(tseed);
                let mut log: Vec<Value> = Vec::new();
                // the script is fixed before the race starts (arguments do not depend on the schedule)
                let script: Vec<Call> = (0..per).map(|_| random_call(&mut rng, n, &start, &spell, true)).collect();
                barrier.wait();
                for (ri, c) in script.into_iter().enumerate() {
                    if rounds {
                        arrive.fetch_add(1, Ordering::SeqCst);
                        let mut spins = 0u32;
                        while arrive.load(Ordering::SeqCst) < threads * (ri + 1) {
                            spins += 1;
                            if spins > 5000 { std::thread::yield_now(); } else { std::hint::spin_loop(); }
                        }
                    } else if rng.gen_bool(0.2) {
                        std::thread::yield_now();
                    }
                    let inv = CLOCK.fetch_add(1, Ordering::SeqCst);
                    let (uref, mref, c2) = (&*u, &*m, c.clone());
                    let r = catch(std::panic::AssertUnwindSafe(move || perform(uref, mref, &c2)));
                    let res = CLOCK.fetch_add(1, Ordering::SeqCst);
                    match r {
                        Ok((ret, sorted)) => log.push(json!({"t": t + 1, "k": c.k, "L": c.l, "a": c.a, "id": c.id, "e": c.e, "inv": inv, "res": res, "ret": ret, "sorted": sorted, "panic": 0})),
                        Err(p) => log.push(json!({"t": t + 1, "k": c.k, "L": c.l, "a": c.a, "id": c.id, "e": c.e, "inv": inv, "res": res, "ret": 0, "sorted": 1, "panic": 1, "msg": p})),
                    }
                }
                log
            }));
        }
        let mut ops = pre;
        for h in handles {
            ops.extend(h.join().unwrap());
        }
        // closing reads on the quiescent object pin the final state
        for k in ["members", "gen", "peerlist", "resolved", "lasterr"] {
            let c = Call { k: k.into(), l: vec![], a: 0, id: -1, e: -1 };
            let inv = CLOCK.fetch_add(1, Ordering::SeqCst);
            let (ret, sorted) = perform(&u, &m, &c);
            let res = CLOCK.fetch_add(1, Ordering::SeqCst);
            ops.push(json!({"t": 0, "k": c.k, "L": c.l, "a": c.a, "id": c.id, "e": c.e, "inv": inv, "res": res, "ret": ret, "sorted": sorted, "panic": 0}));
        }
        ops.sort_by_key(|o| o["inv"].as_u64().unwrap());
        // how much real overlap did this history have?
        let overlap = ops.iter().enumerate().filter(|(i, o)| ops[i + 1..].iter().any(|p| p["inv"].as_u64() < o["res"].as_u64())).count();
        conc_out.put(&json!({"ev": "reset"}));
        conc_out.put(&json!({"ev": "conc", "ops": ops, "overlap": overlap}));
    }
    conc_out.finish();
    0
}
