//! C39 — the TPC-H generator is deterministic and self-consistent.
//!
//! Records what the real generator produced (public API only: `TpchGenerator::with_seed/new`,
//! `generate_all`, `generate_to_parquet`, `TpchRowCounts::for_scale_factor`) as ND-JSON for
//! spec/TpchTrace.tla: per run an order-sensitive digest of every table, the row counts, and for
//! each of the ten foreign keys a summary (and, for small scale factors, the key sets themselves so
//! that TLC recomputes `referenced \subseteq existing` on its own).
use crate::util::*;
use arrow::array::*;
use arrow::datatypes::DataType;
use arrow::record_batch::RecordBatch;
use query_engine::execution::ExecutionContext;
use query_engine::tpch::{TpchRowCounts, TPCH_TABLES};
use query_engine::tpch::TpchGenerator;
use serde_json::{json, Map, Value};
use std::collections::{BTreeMap, BTreeSet};
use std::path::Path;
use std::sync::{Arc, Barrier};

struct Fnv(u64);
impl Fnv {
    fn new() -> Self {
        Fnv(0xcbf29ce484222325)
    }
    fn put(&mut self, b: &[u8]) {
        for x in b {
            self.0 ^= *x as u64;
            self.0 = self.0.wrapping_mul(0x100000001b3);
        }
    }
}

/// order-sensitive digest of all cell values (column by column, in row order), with type tags
fn digest_table(b: &RecordBatch) -> String {
    let mut h = Fnv::new();
    h.put(&(b.num_columns() as u64).to_le_bytes());
    h.put(&(b.num_rows() as u64).to_le_bytes());
    for (ci, col) in b.columns().iter().enumerate() {
        h.put(b.schema().field(ci).name().as_bytes());
        h.put(format!("{:?}", col.data_type()).as_bytes());
        for r in 0..col.len() {
            if col.is_null(r) {
                h.put(&[0xff, 0x00]);
                continue;
            }
            match col.data_type() {
                DataType::Int64 => h.put(&col.as_any().downcast_ref::<Int64Array>().unwrap().value(r).to_le_bytes()),
                DataType::Int32 => h.put(&col.as_any().downcast_ref::<Int32Array>().unwrap().value(r).to_le_bytes()),
                DataType::Date32 => h.put(&col.as_any().downcast_ref::<Date32Array>().unwrap().value(r).to_le_bytes()),
                DataType::Float64 => h.put(&col.as_any().downcast_ref::<Float64Array>().unwrap().value(r).to_bits().to_le_bytes()),
                DataType::Utf8 => {
                    let s = col.as_any().downcast_ref::<StringArray>().unwrap().value(r);
                    h.put(&(s.len() as u32).to_le_bytes());
                    h.put(s.as_bytes());
                }
                other => panic!("digest: unexpected column type {other:?}"),
            }
        }
    }
    format!("{:016x}", h.0)
}

fn one_batch(schema: arrow::datatypes::SchemaRef, batches: &[RecordBatch]) -> RecordBatch {
    arrow::compute::concat_batches(&schema, batches).expect("concat")
}

fn i64col(b: &RecordBatch, name: &str) -> Vec<i64> {
    let i = b.schema().index_of(name).unwrap_or_else(|_| panic!("no column {name}"));
    let a = b.column(i).as_any().downcast_ref::<Int64Array>().unwrap_or_else(|| panic!("{name} is not Int64"));
    (0..a.len()).map(|r| a.value(r)).collect()
}

type Tables = BTreeMap<String, RecordBatch>;

fn gen_memory(sf: f64, seed: Option<u64>) -> Tables {
    let mut g = match seed {
        Some(s) => TpchGenerator::with_seed(sf, s),
        None => TpchGenerator::new(sf),
    };
    let mut ctx = ExecutionContext::new();
    g.generate_all(&mut ctx);
    let mut out = Tables::new();
    for t in TPCH_TABLES {
        let p = ctx.table_provider(t).unwrap_or_else(|| panic!("table {t} not registered"));
        let batches = p.scan(None).unwrap_or_else(|e| panic!("scan {t}: {e}"));
        out.insert(t.to_string(), one_batch(p.schema(), &batches));
    }
    out
}

fn gen_parquet(sf: f64, seed: Option<u64>, dir: &Path) -> Tables {
    let mut g = match seed {
        Some(s) => TpchGenerator::with_seed(sf, s),
        None => TpchGenerator::new(sf),
    };
    g.generate_to_parquet(dir).unwrap_or_else(|e| panic!("generate_to_parquet: {e}"));
    let mut out = Tables::new();
    for t in TPCH_TABLES {
        let f = std::fs::File::open(dir.join(format!("{t}.parquet"))).unwrap_or_else(|e| panic!("open {t}.parquet: {e}"));
        let rb = parquet::arrow::arrow_reader::ParquetRecordBatchReaderBuilder::try_new(f).expect("parquet reader");
        let schema = rb.schema().clone();
        let batches: Vec<RecordBatch> = rb.build().expect("reader").map(|b| b.expect("batch")).collect();
        out.insert(t.to_string(), one_batch(schema, &batches));
    }
    out
}

const PAIR: i64 = 100_000;

fn fk_summary(refs: &[i64], existing: &[i64], with_sets: bool) -> Value {
    let ex: BTreeSet<i64> = existing.iter().copied().collect();
    let rf: BTreeSet<i64> = refs.iter().copied().collect();
    let missing: Vec<i64> = rf.iter().copied().filter(|k| !ex.contains(k)).collect();
    let missing_rows = refs.iter().filter(|k| !ex.contains(k)).count();
    let mut o = json!({
        "rows": refs.len(), "refs": rf.len(), "existing": ex.len(),
        "missing": missing.len(), "missing_rows": missing_rows,
        "min_ref": rf.iter().next().copied().unwrap_or(-1), "max_ref": rf.iter().next_back().copied().unwrap_or(-1),
        "min_existing": ex.iter().next().copied().unwrap_or(-1), "max_existing": ex.iter().next_back().copied().unwrap_or(-1),
        "min_missing": missing.first().copied().unwrap_or(-1), "max_missing": missing.last().copied().unwrap_or(-1),
        "sets": if with_sets { 1 } else { 0 },
    });
    o["refset"] = if with_sets { json!(rf.iter().collect::<Vec<_>>()) } else { json!([]) };
    o["exset"] = if with_sets { json!(ex.iter().collect::<Vec<_>>()) } else { json!([]) };
    o
}

fn describe(t: &Tables, with_sets: bool) -> (Value, Value, Value) {
    let mut dig = Map::new();
    let mut counts = Map::new();
    for (n, b) in t {
        dig.insert(n.clone(), json!(digest_table(b)));
        counts.insert(n.clone(), json!(b.num_rows()));
    }
    let pair = |p: &[i64], s: &[i64]| -> Vec<i64> { p.iter().zip(s).map(|(a, b)| a * PAIR + b).collect() };
    let l = &t["lineitem"];
    let ps = &t["partsupp"];
    let mut fk = Map::new();
    fk.insert("l_orderkey".into(), fk_summary(&i64col(l, "l_orderkey"), &i64col(&t["orders"], "o_orderkey"), with_sets));
    fk.insert("l_partkey".into(), fk_summary(&i64col(l, "l_partkey"), &i64col(&t["part"], "p_partkey"), with_sets));
    fk.insert("l_suppkey".into(), fk_summary(&i64col(l, "l_suppkey"), &i64col(&t["supplier"], "s_suppkey"), with_sets));
    fk.insert(
        "l_partsupp".into(),
        fk_summary(&pair(&i64col(l, "l_partkey"), &i64col(l, "l_suppkey")), &pair(&i64col(ps, "ps_partkey"), &i64col(ps, "ps_suppkey")), with_sets),
    );
    fk.insert("o_custkey".into(), fk_summary(&i64col(&t["orders"], "o_custkey"), &i64col(&t["customer"], "c_custkey"), with_sets));
    fk.insert("c_nationkey".into(), fk_summary(&i64col(&t["customer"], "c_nationkey"), &i64col(&t["nation"], "n_nationkey"), with_sets));
    fk.insert("s_nationkey".into(), fk_summary(&i64col(&t["supplier"], "s_nationkey"), &i64col(&t["nation"], "n_nationkey"), with_sets));
    fk.insert("n_regionkey".into(), fk_summary(&i64col(&t["nation"], "n_regionkey"), &i64col(&t["region"], "r_regionkey"), with_sets));
    fk.insert("ps_partkey".into(), fk_summary(&i64col(ps, "ps_partkey"), &i64col(&t["part"], "p_partkey"), with_sets));
    fk.insert("ps_suppkey".into(), fk_summary(&i64col(ps, "ps_suppkey"), &i64col(&t["supplier"], "s_suppkey"), with_sets));
    (Value::Object(dig), Value::Object(counts), Value::Object(fk))
}

fn counts_of(sf: f64) -> Value {
    let c = TpchRowCounts::for_scale_factor(sf);
    json!({"nation": c.nation, "region": c.region, "part": c.part, "supplier": c.supplier, "partsupp": c.partsupp,
           "customer": c.customer, "orders": c.orders, "lineitem": c.lineitem})
}

/// one generation, judged later by TLC.  sink: 1 memory, 2 parquet.  seed < 0: `TpchGenerator::new`.
fn run_one(n: i64, seed: i64, thread: usize, sink: u32, rep: usize, with_sets: bool, dir: &Path) -> Value {
    let sf = n as f64 / 1000.0;
    let sd = if seed < 0 { None } else { Some(seed as u64) };
    let d = dir.to_path_buf();
    let r = catch(move || {
        let t = if sink == 1 { gen_memory(sf, sd) } else { gen_parquet(sf, sd, &d) };
        describe(&t, with_sets)
    });
    let mut rec = json!({"ev": "gen", "sf": n, "seed": seed, "thread": thread, "sink": sink, "rep": rep});
    match r {
        Ok((dig, counts, fk)) => {
            let all: Vec<String> = dig.as_object().unwrap().iter().map(|(k, v)| format!("{k}:{}", v.as_str().unwrap())).collect();
            rec["panic"] = json!(0);
            rec["digest"] = json!(all.join("|"));
            rec["digests"] = dig;
            rec["counts"] = counts;
            rec["fk"] = fk;
            rec["declared"] = counts_of(sf);
        }
        Err(p) => {
            rec["panic"] = json!(1);
            rec["msg"] = json!(p);
        }
    }
    rec
}

/// tpch-record <spec.json> <out.ndjson> <workdir>
/// spec: {"sfs":[N..] (N = sf*1000), "seeds":[..], "reps":k, "threads":t, "parquet_sfs":[..], "conc_sfs":[..],
///        "keysets_max":N, "count_sfs":[..]}
pub fn record(a: &[String]) -> i32 {
    quiet_panics();
    let spec: Value = serde_json::from_str(&std::fs::read_to_string(&a[0]).unwrap()).unwrap();
    let mut out = Out::create(&a[1]);
    let work = Path::new(&a[2]);
    let ints = |k: &str| -> Vec<i64> { spec[k].as_array().map(|v| v.iter().map(|x| x.as_i64().unwrap()).collect()).unwrap_or_default() };
    let (sfs, seeds) = (ints("sfs"), ints("seeds"));
    let reps = spec["reps"].as_u64().unwrap_or(2) as usize;
    let threads = spec["threads"].as_u64().unwrap_or(4) as usize;
    let (pq, conc) = (ints("parquet_sfs"), ints("conc_sfs"));
    let keysets_max = spec["keysets_max"].as_i64().unwrap_or(0);
    // the declared cardinalities over the whole range of scale factors
    for n in ints("count_sfs") {
        out.put(&json!({"ev": "counts", "sf": n, "counts": counts_of(n as f64 / 1000.0)}));
    }
    let mut dirno = 0;
    let mut fresh = |tag: &str| {
        dirno += 1;
        let d = work.join(format!("pq-{tag}-{dirno}"));
        let _ = std::fs::remove_dir_all(&d);
        d
    };
    for &n in &sfs {
        for &seed in &seeds {
            // repeated sequential runs in memory (key sets only on the first, they are large)
            for rep in 0..reps {
                out.put(&run_one(n, seed, 0, 1, rep, rep == 0 && n <= keysets_max, work));
            }
            // to Parquet and read back
            if pq.contains(&n) {
                for rep in 0..reps.min(2) {
                    let d = fresh("seq");
                    out.put(&run_one(n, seed, 0, 2, rep, false, &d));
                    let _ = std::fs::remove_dir_all(&d);
                }
            }
            // concurrently: `threads` generators released together; odd threads write Parquet
            if conc.contains(&n) {
                let bar = Arc::new(Barrier::new(threads));
                let mut hs = Vec::new();
                for t in 1..=threads {
                    let bar = bar.clone();
                    let d = fresh(&format!("t{t}"));
                    let sink = if t % 2 == 1 && pq.contains(&n) { 2 } else { 1 };
                    hs.push(std::thread::spawn(move || {
                        bar.wait();
                        let r = run_one(n, seed, t, sink, 0, false, &d);
                        let _ = std::fs::remove_dir_all(&d);
                        r
                    }));
                }
                for h in hs {
                    match h.join() {
                        Ok(r) => out.put(&r),
                        Err(_) => out.put(&json!({"ev": "gen", "sf": n, "seed": seed, "thread": 99, "sink": 1, "rep": 0, "panic": 1, "msg": "thread died"})),
                    }
                }
            }
        }
        // the default constructor is a generator for a fixed seed too
        for rep in 0..2 {
            out.put(&run_one(n, -1, 0, 1, rep, false, work));
        }
    }
    out.finish();
    0
}
