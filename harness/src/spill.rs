//! C08 — spill state machines replayed on the REAL spillable operators.
//!
//! `qev spill-replay cases.ndjson out.ndjson workdir`
//!
//! Every case (emitted by TLC from spec/ExternalSort.tla, SpillAgg.tla, SpillJoin.tla, then
//! concretised by checks/spillmodel.py) is built into Arrow batches and run through the public
//! constructors `ExternalSortExec::new / with_fetch`, `SpillableHashAggregateExec::new`,
//! `SpillableHashJoinExec::new` over an in-memory leaf (`MemoryTableExec`, or a one-partition
//! sequential leaf for inputs of >= 1000 rows where MemoryTableExec would deal the batches out to
//! several partitions), once per requested budget and once with an unlimited budget.
//!
//! Budgets: `ExecutionConfig { memory_limit, spill_threshold, spill_path }`.  The engine sizes a
//! batch with the private `estimate_batch_size`; `est()` below is a replica of it and is VALIDATED
//! on every spilled sort (the pool must report exactly the sum of the replica's sizes as spilled
//! bytes, because every run flush records its buffer size).  For a sort the limit is chosen so
//! that the engine's own flush condition (`buffer + batch > threshold && !buffer.is_empty()`)
//! produces exactly the run partition the model names: the admissible thresholds form an interval
//! [lo, hi]; both ends are run (boundary of `>`).
//!
//! Which path ran is OBSERVED, not assumed: `MemoryPool::spilled()` and the names of the files the
//! operator created in its spill directory (inotify on the pre-created `sort_0_<n>` / `agg_0_<n>` /
//! `join_0_<n>` directory; the directory number is the engine's process-wide spill counter, which
//! the harness tracks with a window of candidate directories).
use crate::util::*;
use arrow::array::*;
use arrow::datatypes::{DataType, Field, Schema, SchemaRef};
use arrow::record_batch::RecordBatch;
use async_trait::async_trait;
use futures::TryStreamExt;
use query_engine::execution::{create_memory_pool, ExecutionConfig};
use query_engine::physical::operators::spillable::AggregateExpr;
use query_engine::physical::operators::{
    ExternalSortExec, MemoryTableExec, SpillableHashAggregateExec, SpillableHashJoinExec,
};
use query_engine::physical::{PhysicalOperator, RecordBatchStream};
use query_engine::planner::{AggregateFunction, Expr, JoinType, NullOrdering, SortDirection, SortExpr};
use serde_json::{json, Value};
use std::collections::BTreeSet;
use std::path::{Path, PathBuf};
use std::sync::Arc;

const NULLC: i64 = -1073741824;
const UNKNOWN: i64 = 999_999;

// ------------------------------------------------------------------ typed values
// order- and equality-preserving images of the model's key codes 0..3 (NULL stays NULL)
// (the same numbers as I32V, so that a bigint key equals an integer key with the same code)
const I64V: [i64; 4] = [-2_000_000_000, -1, 0, 7];
const I32V: [i32; 4] = [-2_000_000_000, -1, 0, 7];
const F64V: [f64; 4] = [-1.5, 0.0, 0.25, 1e18];
const STRV: [&str; 4] = ["", "a", "ab", "b"];
const D32V: [i32; 4] = [-1, 0, 1, 19000];
const TSV: [i64; 4] = [-1, 0, 1, 1_700_000_000_000_000];

fn dtype(kt: &str) -> DataType {
    match kt {
        "i64" => DataType::Int64,
        "i32" => DataType::Int32,
        "f64" => DataType::Float64,
        "utf8" => DataType::Utf8,
        "date32" => DataType::Date32,
        "ts" => DataType::Timestamp(arrow::datatypes::TimeUnit::Microsecond, None),
        other => panic!("harness: unknown key type {other}"),
    }
}

fn key_array(kt: &str, codes: &[i64]) -> ArrayRef {
    let o = |c: &i64| -> Option<usize> {
        if *c == NULLC {
            None
        } else {
            Some(*c as usize)
        }
    };
    match kt {
        "i64" => Arc::new(Int64Array::from(codes.iter().map(|c| o(c).map(|i| I64V[i])).collect::<Vec<_>>())),
        "i32" => Arc::new(Int32Array::from(codes.iter().map(|c| o(c).map(|i| I32V[i])).collect::<Vec<_>>())),
        "f64" => Arc::new(Float64Array::from(codes.iter().map(|c| o(c).map(|i| F64V[i])).collect::<Vec<_>>())),
        "utf8" => Arc::new(StringArray::from(codes.iter().map(|c| o(c).map(|i| STRV[i])).collect::<Vec<_>>())),
        "date32" => Arc::new(Date32Array::from(codes.iter().map(|c| o(c).map(|i| D32V[i])).collect::<Vec<_>>())),
        "ts" => Arc::new(TimestampMicrosecondArray::from(codes.iter().map(|c| o(c).map(|i| TSV[i])).collect::<Vec<_>>())),
        other => panic!("harness: unknown key type {other}"),
    }
}

/// inverse of `key_array` on whatever array type the operator returned (UNKNOWN = a value that is
/// no image of a model code)
fn decode_key(kt: &str, a: &ArrayRef, row: usize) -> i64 {
    if a.is_null(row) {
        return NULLC;
    }
    let pos = |p: Option<usize>| p.map(|i| i as i64).unwrap_or(UNKNOWN);
    match kt {
        "i64" => match a.as_any().downcast_ref::<Int64Array>() {
            Some(x) => pos(I64V.iter().position(|v| *v == x.value(row))),
            None => UNKNOWN,
        },
        "i32" => match a.as_any().downcast_ref::<Int32Array>() {
            Some(x) => pos(I32V.iter().position(|v| *v == x.value(row))),
            None => match a.as_any().downcast_ref::<Int64Array>() {
                Some(x) => pos(I32V.iter().position(|v| *v as i64 == x.value(row))),
                None => UNKNOWN,
            },
        },
        "f64" => match a.as_any().downcast_ref::<Float64Array>() {
            Some(x) => pos(F64V.iter().position(|v| *v == x.value(row))),
            None => UNKNOWN,
        },
        "utf8" => {
            let s: Option<String> = if let Some(x) = a.as_any().downcast_ref::<StringArray>() {
                Some(x.value(row).to_string())
            } else if let Some(x) = a.as_any().downcast_ref::<LargeStringArray>() {
                Some(x.value(row).to_string())
            } else if let Some(x) = a.as_any().downcast_ref::<StringViewArray>() {
                Some(x.value(row).to_string())
            } else {
                arrow::compute::cast(a, &DataType::Utf8).ok().and_then(|c| c.as_any().downcast_ref::<StringArray>().map(|x| x.value(row).to_string()))
            };
            match s {
                Some(s) => pos(STRV.iter().position(|v| *v == s)),
                None => UNKNOWN,
            }
        }
        "date32" => match a.as_any().downcast_ref::<Date32Array>() {
            Some(x) => pos(D32V.iter().position(|v| *v == x.value(row))),
            None => UNKNOWN,
        },
        "ts" => match a.as_any().downcast_ref::<TimestampMicrosecondArray>() {
            Some(x) => pos(TSV.iter().position(|v| *v == x.value(row))),
            None => UNKNOWN,
        },
        _ => UNKNOWN,
    }
}

fn int_cell(a: &ArrayRef, row: usize) -> Value {
    if a.is_null(row) {
        return json!(NULLC);
    }
    if let Some(x) = a.as_any().downcast_ref::<Int64Array>() {
        return json!(x.value(row));
    }
    if let Some(x) = a.as_any().downcast_ref::<Int32Array>() {
        return json!(x.value(row) as i64);
    }
    if let Some(x) = a.as_any().downcast_ref::<UInt64Array>() {
        return json!(x.value(row));
    }
    if let Some(x) = a.as_any().downcast_ref::<Float64Array>() {
        return json!(x.value(row));
    }
    json!(format!("?{:?}", a.data_type()))
}

/// Replica of the private `estimate_batch_size` of src/physical/operators/spillable.rs
/// (validated against `MemoryPool::spilled()` on every spilled sort).
fn est(batch: &RecordBatch) -> usize {
    batch
        .columns()
        .iter()
        .map(|c| {
            let rows = c.len();
            let null_bytes = rows.div_ceil(8);
            match c.data_type() {
                t if t.primitive_width().is_some() => rows * t.primitive_width().unwrap_or(8) + null_bytes,
                DataType::Boolean => rows.div_ceil(8) + null_bytes,
                DataType::Utf8 => {
                    let data = match c.as_any().downcast_ref::<StringArray>() {
                        Some(a) if rows > 0 => (a.value_offsets()[rows] - a.value_offsets()[0]) as usize,
                        _ => 0,
                    };
                    data + rows * 4 + null_bytes
                }
                _ => c.get_array_memory_size(),
            }
        })
        .sum()
}

// ------------------------------------------------------------------ leaves
/// One-partition leaf that yields its batches in order (inputs of >= 1000 rows: MemoryTableExec
/// would deal the batches out round-robin to rayon-many partitions, which reorders them).
#[derive(Debug)]
struct SeqLeaf {
    schema: SchemaRef,
    batches: Vec<RecordBatch>,
}

#[async_trait]
impl PhysicalOperator for SeqLeaf {
    fn schema(&self) -> SchemaRef {
        self.schema.clone()
    }
    fn children(&self) -> Vec<Arc<dyn PhysicalOperator>> {
        vec![]
    }
    async fn execute(&self, partition: usize) -> query_engine::Result<RecordBatchStream> {
        query_engine::physical::check_partition(self, partition)?;
        Ok(Box::pin(futures::stream::iter(self.batches.clone().into_iter().map(Ok))))
    }
    fn name(&self) -> &str {
        "SeqLeaf"
    }
}

fn leaf(name: &str, schema: &SchemaRef, batches: &[RecordBatch], kind: &str) -> Arc<dyn PhysicalOperator> {
    let rows: usize = batches.iter().map(|b| b.num_rows()).sum();
    if kind == "seq" || rows >= 1000 {
        Arc::new(SeqLeaf { schema: schema.clone(), batches: batches.to_vec() })
    } else {
        Arc::new(MemoryTableExec::new(name, schema.clone(), batches.to_vec(), None))
    }
}

// ------------------------------------------------------------------ spill directory observation
struct Watch {
    fd: i32,
    root: PathBuf,
    next: u64,
    armed: Vec<(i32, PathBuf, u64)>,
    parent_wd: i32,
}

const WINDOW: u64 = 3;

impl Watch {
    fn new(root: &Path) -> Watch {
        std::fs::create_dir_all(root).unwrap();
        let fd = unsafe { libc::inotify_init1(libc::IN_NONBLOCK | libc::IN_CLOEXEC) };
        if fd < 0 {
            panic!("harness: inotify_init1 failed");
        }
        let parent_wd = add_watch(fd, root);
        Watch { fd, root: root.to_path_buf(), next: 0, armed: Vec::new(), parent_wd }
    }

    /// pre-create the directories the operator may choose next (`<prefix>_0_<n>`), watched
    fn arm(&mut self, prefix: &str) {
        self.drain();
        self.armed.clear();
        for n in self.next..self.next + WINDOW {
            let d = self.root.join(format!("{prefix}_0_{n}"));
            std::fs::create_dir_all(&d).unwrap();
            let wd = add_watch(self.fd, &d);
            self.armed.push((wd, d, n));
        }
        self.drain(); // the IN_CREATE events of our own mkdirs on the parent
    }

    fn drain(&mut self) -> Vec<(i32, u32, String)> {
        let mut out = Vec::new();
        let mut buf = vec![0u8; 1 << 16];
        loop {
            let n = unsafe { libc::read(self.fd, buf.as_mut_ptr() as *mut libc::c_void, buf.len()) };
            if n <= 0 {
                break;
            }
            let mut off = 0usize;
            while off + 16 <= n as usize {
                let wd = i32::from_ne_bytes(buf[off..off + 4].try_into().unwrap());
                let mask = u32::from_ne_bytes(buf[off + 4..off + 8].try_into().unwrap());
                let len = u32::from_ne_bytes(buf[off + 12..off + 16].try_into().unwrap()) as usize;
                let name_bytes = &buf[off + 16..off + 16 + len];
                let end = name_bytes.iter().position(|b| *b == 0).unwrap_or(len);
                out.push((wd, mask, String::from_utf8_lossy(&name_bytes[..end]).to_string()));
                off += 16 + len;
            }
        }
        out
    }

    /// after a run: the files created in the spill directory the operator used (None = the
    /// operator did not enter a spill path, or used a directory outside the window)
    fn collect(&mut self, err_msg: Option<&str>) -> (Option<Vec<String>>, bool) {
        let ev = self.drain();
        let mut used: Option<u64> = None;
        // an error raised inside the spill path names its directory (which then stays behind, possibly empty)
        if let Some(m) = err_msg {
            for (_, d, n) in &self.armed {
                if m.contains(&format!("{}/", d.display())) {
                    used = Some(*n);
                }
            }
        }
        let mut files = BTreeSet::new();
        let mut outside = false;
        for (wd, mask, name) in &ev {
            if *wd == self.parent_wd {
                if mask & libc::IN_CREATE != 0 {
                    // a spill directory we did not pre-create: resynchronise the counter
                    if let Some(n) = name.rsplit('_').next().and_then(|s| s.parse::<u64>().ok()) {
                        self.next = self.next.max(n + 1);
                        outside = true;
                    }
                }
                continue;
            }
            if let Some((_, _, n)) = self.armed.iter().find(|(w, _, _)| w == wd) {
                if mask & (libc::IN_CREATE | libc::IN_MOVED_TO) != 0 && !name.is_empty() {
                    files.insert(name.clone());
                    used = Some(used.map_or(*n, |u: u64| u.max(*n)));
                }
                if mask & libc::IN_DELETE_SELF != 0 {
                    used = Some(used.map_or(*n, |u: u64| u.max(*n)));
                }
            }
        }
        for (wd, d, _) in self.armed.drain(..) {
            unsafe { libc::inotify_rm_watch(self.fd, wd) };
            let _ = std::fs::remove_dir_all(&d);
        }
        let _ = self.drain();
        match used {
            Some(n) => {
                self.next = self.next.max(n + 1);
                (Some(files.into_iter().collect()), outside)
            }
            None => (None, outside),
        }
    }
}

fn add_watch(fd: i32, p: &Path) -> i32 {
    let c = std::ffi::CString::new(p.to_str().unwrap()).unwrap();
    let wd = unsafe {
        libc::inotify_add_watch(fd, c.as_ptr(), libc::IN_CREATE | libc::IN_MOVED_TO | libc::IN_DELETE_SELF)
    };
    if wd < 0 {
        panic!("harness: inotify_add_watch({}) failed", p.display());
    }
    wd
}

// ------------------------------------------------------------------ running an operator
struct RunOut {
    kind: &'static str, // rows | err | panic | hang
    msg: String,
    batches: Vec<RecordBatch>,
    spilled: usize,
    files: Option<Vec<String>>,
    outside: bool,
}

fn config(limit: usize, factor: f64, spill: &Path) -> ExecutionConfig {
    let mut c = ExecutionConfig::new().with_memory_limit(limit).with_spill_path(spill.to_path_buf());
    c.spill_threshold = factor;
    c
}

/// memory_limit / spill_threshold pair whose product truncates to exactly `thr`
/// (`prod` = try the production factor 0.8 first)
fn limit_for(thr: usize, prod: bool) -> (usize, f64) {
    if prod {
        let base = (thr as f64 / 0.8).ceil() as usize;
        for l in base.saturating_sub(2)..base + 3 {
            if (l as f64 * 0.8) as usize == thr {
                return (l, 0.8);
            }
        }
    }
    (thr, 1.0)
}

fn run_op(
    rt: &tokio::runtime::Runtime,
    watch: &mut Watch,
    prefix: &str,
    make: &dyn Fn(ExecutionConfig, query_engine::execution::SharedMemoryPool) -> Arc<dyn PhysicalOperator>,
    limit: usize,
    factor: f64,
) -> RunOut {
    let r = run_op_once(rt, watch, prefix, make, limit, factor);
    if r.outside {
        // the operator used a spill directory outside the watched window (the counter is resynchronised now): observe it again
        let mut r2 = run_op_once(rt, watch, prefix, make, limit, factor);
        r2.outside = r2.outside || r2.files.is_none();
        return r2;
    }
    r
}

fn run_op_once(
    rt: &tokio::runtime::Runtime,
    watch: &mut Watch,
    prefix: &str,
    make: &dyn Fn(ExecutionConfig, query_engine::execution::SharedMemoryPool) -> Arc<dyn PhysicalOperator>,
    limit: usize,
    factor: f64,
) -> RunOut {
    watch.arm(prefix);
    let pool = create_memory_pool(limit);
    let cfg = config(limit, factor, &watch.root);
    let pool2 = pool.clone();
    let res = catch(std::panic::AssertUnwindSafe(|| {
        let op = make(cfg, pool2);
        rt.block_on(async {
            let fut = async {
                let mut all = Vec::new();
                for p in 0..op.output_partitions().max(1) {
                    let s = op.execute(p).await?;
                    let b: Vec<RecordBatch> = s.try_collect().await?;
                    all.extend(b);
                }
                Ok::<_, query_engine::QueryError>(all)
            };
            tokio::time::timeout(std::time::Duration::from_secs(120), fut).await
        })
    }));
    let err_msg: Option<String> = match &res {
        Ok(Ok(Err(e))) => Some(e.to_string()),
        _ => None,
    };
    let (files, outside) = watch.collect(err_msg.as_deref());
    let spilled = pool.spilled();
    match res {
        Err(p) => RunOut { kind: "panic", msg: p, batches: vec![], spilled, files, outside },
        Ok(Err(_)) => RunOut { kind: "hang", msg: "no result after 120 s".into(), batches: vec![], spilled, files, outside },
        Ok(Ok(Err(e))) => RunOut { kind: "err", msg: e.to_string(), batches: vec![], spilled, files, outside },
        Ok(Ok(Ok(b))) => RunOut { kind: "rows", msg: String::new(), batches: b, spilled, files, outside },
    }
}

fn run_json(tag: &str, thr: Option<usize>, limit: usize, factor: f64, r: &RunOut, rows: Value) -> Value {
    json!({"tag": tag, "thr": thr.map(|t| t as i64).unwrap_or(-1), "limit": if limit > (1usize << 50) { -1 } else { limit as i64 }, "factor": factor,
           "k": r.kind, "msg": r.msg.chars().take(300).collect::<String>(),
           "spilled": r.spilled as i64, "files": r.files, "outside": r.outside, "rows": rows})
}

const UNLIMITED: usize = 1usize << 40;

// ------------------------------------------------------------------ helpers
fn permute(n: usize, perm: &Value) -> Vec<usize> {
    let mut idx: Vec<usize> = (0..n).collect();
    match perm {
        Value::String(s) if s == "rev" => idx.reverse(),
        Value::Number(x) => {
            // deterministic Fisher-Yates on an LCG seeded by the case
            let mut st = x.as_u64().unwrap_or(1).wrapping_mul(6364136223846793005).wrapping_add(1442695040888963407);
            for i in (1..n).rev() {
                st = st.wrapping_mul(6364136223846793005).wrapping_add(1442695040888963407);
                let j = (st >> 33) as usize % (i + 1);
                idx.swap(i, j);
            }
        }
        _ => {}
    }
    idx
}

fn codes(v: &Value) -> Vec<i64> {
    v.as_array().unwrap().iter().map(|x| x.as_i64().unwrap()).collect()
}

fn strs(v: &Value) -> Vec<String> {
    v.as_array().unwrap().iter().map(|x| x.as_str().unwrap().to_string()).collect()
}

/// thresholds requested by the case ("lo","hi","mid") inside the admissible interval
fn pick_thresholds(which: &[String], lo: usize, hi: usize) -> Vec<(String, usize)> {
    let mut out: Vec<(String, usize)> = Vec::new();
    for w in which {
        let t = match w.as_str() {
            "lo" => lo,
            "hi" => hi,
            "mid" => lo + (hi - lo) / 2,
            _ => continue,
        };
        if !out.iter().any(|(_, x)| *x == t) {
            out.push((w.clone(), t));
        }
    }
    out
}

// ------------------------------------------------------------------ SORT
/// case: {op:"sort", ktypes:[..], batches:[[[k1,k2],..],..], spec:[{desc,nf}], fetch, path, runs:[batches per run],
///        scale, perm, leaf, thr:["lo","hi"], prod}
fn sort_case(rt: &tokio::runtime::Runtime, watch: &mut Watch, c: &Value) -> Value {
    let ktypes = strs(&c["ktypes"]);
    let nk = ktypes.len();
    let scale = c["scale"].as_u64().unwrap_or(1) as usize;
    let mut fields: Vec<Field> = (0..nk).map(|i| Field::new(format!("k{}", i + 1), dtype(&ktypes[i]), true)).collect();
    fields.push(Field::new("id", DataType::Int64, true));
    let schema: SchemaRef = Arc::new(Schema::new(fields));
    let mut batches = Vec::new();
    let mut next_id: i64 = 0;
    for (bi, b) in c["batches"].as_array().unwrap().iter().enumerate() {
        let rows = b.as_array().unwrap();
        let mut keys: Vec<Vec<i64>> = vec![Vec::new(); nk];
        let mut ids: Vec<i64> = Vec::new();
        for r in rows {
            let kc = codes(r);
            for _ in 0..scale {
                for i in 0..nk {
                    keys[i].push(kc[i]);
                }
                ids.push(next_id);
                next_id += 1;
            }
        }
        let perm = match &c["perm"] {
            Value::Number(x) => permute(ids.len(), &json!(x.as_u64().unwrap_or(0) + 7919 * bi as u64)),
            other => permute(ids.len(), other),
        };
        let mut cols: Vec<ArrayRef> = (0..nk).map(|i| key_array(&ktypes[i], &perm.iter().map(|p| keys[i][*p]).collect::<Vec<_>>())).collect();
        cols.push(Arc::new(Int64Array::from(perm.iter().map(|p| ids[*p]).collect::<Vec<_>>())));
        batches.push(RecordBatch::try_new(schema.clone(), cols).unwrap());
    }
    let order: Vec<SortExpr> = c["spec"]
        .as_array()
        .unwrap()
        .iter()
        .enumerate()
        .map(|(i, s)| SortExpr {
            expr: Expr::column(format!("k{}", i + 1)),
            direction: if s["desc"].as_i64().unwrap() == 1 { SortDirection::Desc } else { SortDirection::Asc },
            nulls: if s["nf"].as_i64().unwrap() == 1 { NullOrdering::NullsFirst } else { NullOrdering::NullsLast },
        })
        .collect();
    let fetch = { let f = c["fetch"].as_i64().unwrap_or(-1); if f >= 0 { f * scale as i64 } else { f } };
    let z: Vec<usize> = batches.iter().map(est).collect();
    let total: usize = z.iter().sum();
    let leaf_kind = c["leaf"].as_str().unwrap_or("mem").to_string();
    let make = |cfg: ExecutionConfig, pool: query_engine::execution::SharedMemoryPool| -> Arc<dyn PhysicalOperator> {
        let input = leaf("t", &schema, &batches, &leaf_kind);
        if fetch >= 0 {
            Arc::new(ExternalSortExec::with_fetch(input, order.clone(), pool, cfg, fetch as usize))
        } else {
            Arc::new(ExternalSortExec::new(input, order.clone(), pool, cfg))
        }
    };
    // the interval of thresholds under which the engine's own flush rule yields the model's runs
    let (mut lo, mut hi) = (0usize, usize::MAX);
    let spill = c["path"].as_str().unwrap() == "spill";
    if spill {
        let runs: Vec<usize> = c["runs"].as_array().unwrap().iter().map(|x| x.as_u64().unwrap() as usize).collect();
        let mut starts = BTreeSet::new();
        let mut acc = 0;
        for r in &runs {
            starts.insert(acc);
            acc += r;
        }
        if acc != batches.len() {
            panic!("harness: run partition does not cover the batches");
        }
        let mut buf = 0usize;
        for (i, zi) in z.iter().enumerate() {
            if i > 0 && starts.contains(&i) {
                hi = hi.min((buf + zi).saturating_sub(1));
                if buf + zi == 0 {
                    lo = usize::MAX; // a zero-byte batch can never start a run
                }
                buf = *zi;
            } else {
                if i > 0 {
                    lo = lo.max(buf + zi);
                }
                buf += zi;
            }
        }
        hi = hi.min(total.saturating_sub(1));
        if total == 0 {
            lo = usize::MAX;
        }
    } else {
        lo = total; // fits exactly: `total > threshold` is false
        hi = total;
    }
    let mut runs_out = Vec::new();
    let rows_json = |r: &RunOut| -> Value {
        let mut keys = Vec::new();
        let mut ids = Vec::new();
        for b in &r.batches {
            for row in 0..b.num_rows() {
                let kv: Vec<i64> = (0..nk).map(|i| if i < b.num_columns() { decode_key(&ktypes[i], b.column(i), row) } else { UNKNOWN }).collect();
                keys.push(kv);
                ids.push(if b.num_columns() > nk { int_cell(b.column(nk), row) } else { json!(UNKNOWN) });
            }
        }
        json!({"keys": keys, "ids": ids})
    };
    if lo > hi {
        runs_out.push(json!({"tag": "unrealizable", "k": "skip", "lo": lo as i64, "hi": if hi == usize::MAX { -1 } else { hi as i64 }}));
    } else {
        let which = if c["thr"].is_array() { strs(&c["thr"]) } else { vec!["lo".to_string()] };
        for (tag, t) in pick_thresholds(&which, lo, hi.min(1usize << 45)) {
            let (limit, factor) = limit_for(t, c["prod"].as_i64().unwrap_or(0) == 1);
            let r = run_op(rt, watch, "sort", &make, limit, factor);
            runs_out.push(run_json(&tag, Some(t), limit, factor, &r, rows_json(&r)));
        }
    }
    let r = run_op(rt, watch, "sort", &make, UNLIMITED, 1.0);
    runs_out.push(run_json("unl", None, UNLIMITED, 1.0, &r, rows_json(&r)));
    json!({"id": c["id"], "op": "sort", "est": z, "total": total as i64, "n": next_id, "lo": if lo == usize::MAX { -1 } else { lo as i64 },
           "hi": if hi == usize::MAX { -1 } else { hi as i64 }, "runs": runs_out})
}

// ------------------------------------------------------------------ AGGREGATE
/// case: {op:"agg", ktype, batches:[[[k,v],..],..], shape:"basic"|"distinct"|"keys"|"global", scale, levels:[j..] | "last", prod}
/// Model value codes: v in {NULL, 0..} used as is (Int64).  scale > 1 widens the grouping with a second
/// column j = 0..scale-1 (every model row is replicated once per j), so a batch holds >= scale groups.
fn agg_case(rt: &tokio::runtime::Runtime, watch: &mut Watch, c: &Value) -> Value {
    let kt = c["ktype"].as_str().unwrap().to_string();
    let shape = c["shape"].as_str().unwrap().to_string();
    let scale = c["scale"].as_u64().unwrap_or(1) as usize;
    let wide = scale > 1;
    let mut fields = vec![Field::new("k", dtype(&kt), true)];
    if wide {
        fields.push(Field::new("j", DataType::Int64, false));
    }
    fields.push(Field::new("v", DataType::Int64, true));
    let schema: SchemaRef = Arc::new(Schema::new(fields));
    let mut batches = Vec::new();
    for (bi, b) in c["batches"].as_array().unwrap().iter().enumerate() {
        let (mut ks, mut js, mut vs): (Vec<i64>, Vec<i64>, Vec<Option<i64>>) = (vec![], vec![], vec![]);
        for r in b.as_array().unwrap() {
            let kv = codes(r);
            for j in 0..scale {
                ks.push(kv[0]);
                js.push(j as i64);
                vs.push(if kv[1] == NULLC { None } else { Some(kv[1]) });
            }
        }
        let perm = match &c["perm"] {
            Value::Number(x) => permute(ks.len(), &json!(x.as_u64().unwrap_or(0) + 7919 * bi as u64)),
            other => permute(ks.len(), other),
        };
        let mut cols: Vec<ArrayRef> = vec![key_array(&kt, &perm.iter().map(|p| ks[*p]).collect::<Vec<_>>())];
        if wide {
            cols.push(Arc::new(Int64Array::from(perm.iter().map(|p| js[*p]).collect::<Vec<_>>())));
        }
        cols.push(Arc::new(Int64Array::from(perm.iter().map(|p| vs[*p]).collect::<Vec<_>>())));
        batches.push(RecordBatch::try_new(schema.clone(), cols).unwrap());
    }
    let mut group_by: Vec<Expr> = Vec::new();
    let mut out_fields: Vec<Field> = Vec::new();
    if shape != "global" {
        group_by.push(Expr::column("k"));
        out_fields.push(Field::new("k", dtype(&kt), true));
        if wide {
            group_by.push(Expr::column("j"));
            out_fields.push(Field::new("j", DataType::Int64, true));
        }
    }
    let ngroup = group_by.len();
    let mk = |func: AggregateFunction, distinct: bool| AggregateExpr { func, input: Expr::column("v"), distinct, second_arg: None };
    let mut aggs: Vec<AggregateExpr> = Vec::new();
    if shape != "keys" {
        aggs.push(mk(AggregateFunction::Count, false));
        aggs.push(mk(AggregateFunction::Sum, false));
        aggs.push(mk(AggregateFunction::Min, false));
        aggs.push(mk(AggregateFunction::Max, false));
        for n in ["cnt", "sum", "min", "max"] {
            out_fields.push(Field::new(n, DataType::Int64, true));
        }
        if shape == "distinct" || shape == "global" {
            aggs.push(mk(AggregateFunction::CountDistinct, true)); // as the binder lowers COUNT(DISTINCT v)
            out_fields.push(Field::new("cntd", DataType::Int64, true));
        }
    }
    let out_schema: SchemaRef = Arc::new(Schema::new(out_fields));
    let leaf_kind = c["leaf"].as_str().unwrap_or("mem").to_string();
    let make = |cfg: ExecutionConfig, pool: query_engine::execution::SharedMemoryPool| -> Arc<dyn PhysicalOperator> {
        let input = leaf("t", &schema, &batches, &leaf_kind);
        Arc::new(SpillableHashAggregateExec::new(input, group_by.clone(), aggs.clone(), out_schema.clone(), pool, cfg))
    };
    let z: Vec<usize> = batches.iter().map(est).collect();
    let total: usize = z.iter().sum();
    let rows_json = |r: &RunOut| -> Value {
        let mut rows = Vec::new();
        for b in &r.batches {
            for row in 0..b.num_rows() {
                let mut v: Vec<Value> = Vec::new();
                for ci in 0..b.num_columns() {
                    if ci == 0 && ngroup > 0 {
                        v.push(json!(decode_key(&kt, b.column(0), row)));
                    } else {
                        v.push(int_cell(b.column(ci), row));
                    }
                }
                rows.push(v);
            }
        }
        json!(rows)
    };
    let mut runs_out = Vec::new();
    for (tag, t) in levels(c, &z, total) {
        let (limit, factor) = limit_for(t, c["prod"].as_i64().unwrap_or(0) == 1);
        let r = run_op(rt, watch, "agg", &make, limit, factor);
        runs_out.push(run_json(&tag, Some(t), limit, factor, &r, rows_json(&r)));
    }
    let r = run_op(rt, watch, "agg", &make, UNLIMITED, 1.0);
    runs_out.push(run_json("unl", None, UNLIMITED, 1.0, &r, rows_json(&r)));
    json!({"id": c["id"], "op": "agg", "est": z, "total": total as i64, "runs": runs_out})
}

/// thresholds for the partitioned operators: level j = the estimate of the first j input batches
/// (0 = nothing fits), "last" = total - 1 (one byte short), "fit" = total (must NOT spill)
fn levels(c: &Value, z: &[usize], total: usize) -> Vec<(String, usize)> {
    let mut out: Vec<(String, usize)> = Vec::new();
    if let Some(a) = c["levels"].as_array() {
        for l in a {
            let (tag, t) = match l {
                Value::String(s) if s == "last" => ("last".to_string(), total.saturating_sub(1)),
                Value::String(s) if s == "fit" => ("fit".to_string(), total),
                Value::Number(n) => {
                    let j = (n.as_u64().unwrap() as usize).min(z.len());
                    (format!("L{j}"), z[..j].iter().sum::<usize>())
                }
                _ => continue,
            };
            if tag != "fit" && t >= total {
                continue; // would not spill
            }
            if !out.iter().any(|(_, x)| *x == t) {
                out.push((tag, t));
            }
        }
    }
    out
}

// ------------------------------------------------------------------ JOIN
/// case: {op:"join", ktype, rktype?, jt, build_right, left:[[[k,id],..],..], right:[..], levels, prod}
fn join_case(rt: &tokio::runtime::Runtime, watch: &mut Watch, c: &Value) -> Value {
    let lkt = c["ktype"].as_str().unwrap().to_string();
    let rkt = c["rktype"].as_str().unwrap_or(&lkt).to_string();
    let jt = match c["jt"].as_str().unwrap() {
        "inner" => JoinType::Inner,
        "left" => JoinType::Left,
        "right" => JoinType::Right,
        "full" => JoinType::Full,
        "semi" => JoinType::Semi,
        "anti" => JoinType::Anti,
        other => panic!("harness: join type {other}"),
    };
    let build_right = c["build_right"].as_i64().unwrap_or(0) == 1;
    let scale = c["scale"].as_u64().unwrap_or(1) as usize;
    let side = |v: &Value, kt: &str, kn: &str, idn: &str| -> (SchemaRef, Vec<RecordBatch>) {
        let schema: SchemaRef = Arc::new(Schema::new(vec![Field::new(kn, dtype(kt), true), Field::new(idn, DataType::Int64, false)]));
        let mut out = Vec::new();
        for (bi, b) in v.as_array().unwrap().iter().enumerate() {
            let (mut ks, mut ids): (Vec<i64>, Vec<i64>) = (vec![], vec![]);
            for r in b.as_array().unwrap() {
                let kv = codes(r);
                for j in 0..scale {
                    ks.push(kv[0]);
                    ids.push(kv[1] * scale as i64 + j as i64);
                }
            }
            let perm = match &c["perm"] {
                Value::Number(x) => permute(ks.len(), &json!(x.as_u64().unwrap_or(0) + 7919 * bi as u64)),
                other => permute(ks.len(), other),
            };
            out.push(
                RecordBatch::try_new(
                    schema.clone(),
                    vec![key_array(kt, &perm.iter().map(|p| ks[*p]).collect::<Vec<_>>()), Arc::new(Int64Array::from(perm.iter().map(|p| ids[*p]).collect::<Vec<_>>()))],
                )
                .unwrap(),
            );
        }
        (schema, out)
    };
    let (ls, lb) = side(&c["left"], &lkt, "lk", "lid");
    let (rs, rb) = side(&c["right"], &rkt, "rk", "rid");
    let leaf_kind = c["leaf"].as_str().unwrap_or("mem").to_string();
    let make = |cfg: ExecutionConfig, pool: query_engine::execution::SharedMemoryPool| -> Arc<dyn PhysicalOperator> {
        let l = leaf("l", &ls, &lb, &leaf_kind);
        let r = leaf("r", &rs, &rb, &leaf_kind);
        Arc::new(SpillableHashJoinExec::new(l, r, vec![(Expr::column("lk"), Expr::column("rk"))], jt, pool, cfg).with_build_right(build_right))
    };
    // the build side as the operator chooses it
    let build_is_right = build_right || matches!(jt, JoinType::Right);
    let z: Vec<usize> = (if build_is_right { &rb } else { &lb }).iter().map(est).collect();
    let total: usize = z.iter().sum();
    let semi = matches!(jt, JoinType::Semi | JoinType::Anti);
    let rows_json = |r: &RunOut| -> Value {
        let mut rows = Vec::new();
        for b in &r.batches {
            for row in 0..b.num_rows() {
                if semi {
                    // left schema: lk, lid
                    rows.push(json!([int_cell(b.column(1), row), decode_key(&lkt, b.column(0), row)]));
                } else if b.num_columns() >= 4 {
                    rows.push(json!([int_cell(b.column(1), row), int_cell(b.column(3), row), decode_key(&lkt, b.column(0), row), decode_key(&rkt, b.column(2), row)]));
                } else {
                    rows.push(json!([UNKNOWN, UNKNOWN, UNKNOWN, UNKNOWN]));
                }
            }
        }
        json!(rows)
    };
    let mut runs_out = Vec::new();
    for (tag, t) in levels(c, &z, total) {
        let (limit, factor) = limit_for(t, c["prod"].as_i64().unwrap_or(0) == 1);
        let r = run_op(rt, watch, "join", &make, limit, factor);
        runs_out.push(run_json(&tag, Some(t), limit, factor, &r, rows_json(&r)));
    }
    let r = run_op(rt, watch, "join", &make, UNLIMITED, 1.0);
    runs_out.push(run_json("unl", None, UNLIMITED, 1.0, &r, rows_json(&r)));
    json!({"id": c["id"], "op": "join", "est": z, "total": total as i64, "build": if build_is_right { "right" } else { "left" }, "runs": runs_out})
}

// ------------------------------------------------------------------ entry
pub fn replay(a: &[String]) -> i32 {
    if a.len() < 3 {
        eprintln!("usage: qev spill-replay cases.ndjson out.ndjson workdir");
        return 2;
    }
    quiet_panics();
    let cases = read_ndjson(&a[0]);
    let mut out = Out::create(&a[1]);
    let root = PathBuf::from(&a[2]).join(format!("spill-{}", std::process::id()));
    let _ = std::fs::remove_dir_all(&root);
    let mut watch = Watch::new(&root);
    let rt = tokio::runtime::Builder::new_multi_thread().worker_threads(2).enable_all().build().unwrap();
    for c in &cases {
        let rec = match c["op"].as_str().unwrap_or("") {
            "sort" => sort_case(&rt, &mut watch, c),
            "agg" => agg_case(&rt, &mut watch, c),
            "join" => join_case(&rt, &mut watch, c),
            other => {
                eprintln!("harness: unknown op {other}");
                return 2;
            }
        };
        out.put(&rec);
    }
    out.finish();
    let _ = std::fs::remove_dir_all(&root);
    0
}
