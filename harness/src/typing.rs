//! typing — X04 "Typing" (sub-model of C30, tie to C01): records, for one SQL statement over a tiny table that
//! has one column per type, what every level of the engine SAYS the result columns' types are and what the
//! returned batches ARE, plus the returned values.
//!
//!   qev typing-run <setup.json> <cases.ndjson> <out.ndjson> [workdir]
//!
//! setup:  {"tables":[{"name","cols":[[name,arrowtype]],"rows":[[cell]]}],
//!          "configs":[{"name","layout":"mem"|"parquet","cuts":[row index,..] (mem: batch boundaries), "rg":n (parquet)}]}
//!         cell: null | integer | float | string | bool   (Date32: integer days since the epoch)
//! case:   {"id","sql"}
//! output: {"id","runs":[{"cfg",
//!                        "logical":  {"k":"ok","schema":[[name,type]]} | {"k":"err","msg"} | {"k":"panic","msg"},
//!                        "physical": same,
//!                        "result":   {"k":"ok","schema":[[name,type]],"batches":[{"schema":[[name,type]],"rows":n}],
//!                                     "values":[[cell,..] per row]}
//!                                  | {"k":"err","msg"} | {"k":"panic","msg"} | {"k":"hang"}}]}
//!         result cell: null | ["i",int] | ["f","<shortest round-trip repr>"] | ["s",string] | ["b",bool] | ["d",days] | ["?",debug]
//!
//! The module interprets nothing: the judgement is spec/TypingTrace.tla's.
use crate::util::*;
use arrow::array::*;
use arrow::datatypes::{DataType, Field, Schema, SchemaRef};
use arrow::record_batch::RecordBatch;
use query_engine::execution::ExecutionContext;
use serde_json::{json, Value};
use std::sync::Arc;

fn arrow_type(t: &str) -> DataType {
    match t {
        "Int32" => DataType::Int32,
        "Int64" => DataType::Int64,
        "Float64" => DataType::Float64,
        "Utf8" => DataType::Utf8,
        "Date32" => DataType::Date32,
        "Boolean" => DataType::Boolean,
        _ => panic!("typing: unknown column type {t}"),
    }
}

struct Table {
    name: String,
    schema: SchemaRef,
    rows: Vec<Vec<Value>>,
}

impl Table {
    fn from_json(t: &Value) -> Table {
        let fields: Vec<Field> = t["cols"].as_array().unwrap().iter().map(|c| Field::new(c[0].as_str().unwrap(), arrow_type(c[1].as_str().unwrap()), true)).collect();
        let rows = t["rows"].as_array().unwrap().iter().map(|r| r.as_array().unwrap().clone()).collect();
        Table { name: t["name"].as_str().unwrap().to_string(), schema: Arc::new(Schema::new(fields)), rows }
    }

    fn batch(&self, lo: usize, hi: usize) -> RecordBatch {
        let cols: Vec<ArrayRef> = self
            .schema
            .fields()
            .iter()
            .enumerate()
            .map(|(j, f)| {
                let cells: Vec<&Value> = self.rows[lo..hi].iter().map(|r| &r[j]).collect();
                let a: ArrayRef = match f.data_type() {
                    DataType::Int32 => Arc::new(Int32Array::from(cells.iter().map(|v| v.as_i64().map(|x| i32::try_from(x).expect("Int32 cell out of range"))).collect::<Vec<_>>())),
                    DataType::Int64 => Arc::new(Int64Array::from(cells.iter().map(|v| v.as_i64()).collect::<Vec<_>>())),
                    DataType::Float64 => Arc::new(Float64Array::from(cells.iter().map(|v| v.as_f64()).collect::<Vec<_>>())),
                    DataType::Utf8 => Arc::new(StringArray::from(cells.iter().map(|v| v.as_str()).collect::<Vec<_>>())),
                    DataType::Date32 => Arc::new(Date32Array::from(cells.iter().map(|v| v.as_i64().map(|x| x as i32)).collect::<Vec<_>>())),
                    DataType::Boolean => Arc::new(BooleanArray::from(cells.iter().map(|v| v.as_bool()).collect::<Vec<_>>())),
                    _ => unreachable!(),
                };
                a
            })
            .collect();
        RecordBatch::try_new(self.schema.clone(), cols).unwrap()
    }
}

/// Parquet files are written once per configuration; a fresh ExecutionContext is built for every case so that no
/// state (memory pool, caches, poisoned locks after a panic) leaks from one recorded statement into the next.
struct Prepared {
    dirs: Vec<(String, std::path::PathBuf)>,
    _tmp: Option<tempfile::TempDir>,
}

fn prepare(tables: &[Table], cfg: &Value, workdir: &str) -> Result<Prepared, String> {
    let layout = cfg.get("layout").and_then(|v| v.as_str()).unwrap_or("mem");
    if layout == "mem" {
        return Ok(Prepared { dirs: Vec::new(), _tmp: None });
    }
    use parquet::arrow::ArrowWriter;
    use parquet::file::properties::WriterProperties;
    let d = tempfile::Builder::new().prefix("typing-pq").tempdir_in(workdir).map_err(|e| e.to_string())?;
    let rg = cfg.get("rg").and_then(|v| v.as_u64()).unwrap_or(1024).max(1) as usize;
    let mut dirs = Vec::new();
    for t in tables {
        let tdir = d.path().join(&t.name);
        std::fs::create_dir_all(&tdir).map_err(|e| e.to_string())?;
        let f = std::fs::File::create(tdir.join("part-000.parquet")).map_err(|e| e.to_string())?;
        let props = WriterProperties::builder().set_max_row_group_size(rg).build();
        let mut w = ArrowWriter::try_new(f, t.schema.clone(), Some(props)).map_err(|e| e.to_string())?;
        let mut p = 0;
        while p < t.rows.len() {
            let q = (p + rg).min(t.rows.len());
            w.write(&t.batch(p, q)).map_err(|e| e.to_string())?;
            w.flush().map_err(|e| e.to_string())?;
            p = q;
        }
        w.close().map_err(|e| e.to_string())?;
        dirs.push((t.name.clone(), tdir));
    }
    Ok(Prepared { dirs, _tmp: Some(d) })
}

fn build_ctx(tables: &[Table], cfg: &Value, prep: &Prepared) -> Result<ExecutionContext, String> {
    let mut ctx = ExecutionContext::new();
    let layout = cfg.get("layout").and_then(|v| v.as_str()).unwrap_or("mem");
    if layout == "mem" {
        for t in tables {
            let mut cuts: Vec<usize> = cfg.get("cuts").and_then(|v| v.as_array()).map(|a| a.iter().map(|x| x.as_u64().unwrap() as usize).filter(|c| *c > 0 && *c < t.rows.len()).collect()).unwrap_or_default();
            cuts.push(t.rows.len());
            let mut lo = 0;
            let mut batches = Vec::new();
            for c in cuts {
                batches.push(t.batch(lo, c));
                lo = c;
            }
            ctx.register_table(t.name.clone(), t.schema.clone(), batches);
        }
    } else {
        for (name, dir) in &prep.dirs {
            ctx.register_parquet(name.clone(), dir).map_err(|e| format!("register_parquet: {e}"))?;
        }
    }
    Ok(ctx)
}

fn schema_json(s: &Schema) -> Value {
    Value::Array(s.fields().iter().map(|f| json!([f.name(), format!("{}", f.data_type())])).collect())
}

fn cell(col: &ArrayRef, i: usize) -> Value {
    if col.is_null(i) || col.data_type() == &DataType::Null {
        return Value::Null;
    }
    macro_rules! int {
        ($t:ty) => {
            if let Some(a) = col.as_any().downcast_ref::<$t>() {
                return json!(["i", a.value(i) as i64]);
            }
        };
    }
    int!(Int8Array);
    int!(Int16Array);
    int!(Int32Array);
    int!(Int64Array);
    int!(UInt8Array);
    int!(UInt16Array);
    int!(UInt32Array);
    if let Some(a) = col.as_any().downcast_ref::<UInt64Array>() {
        return json!(["u", a.value(i).to_string()]);
    }
    if let Some(a) = col.as_any().downcast_ref::<Float64Array>() {
        return json!(["f", format!("{:?}", a.value(i))]);
    }
    if let Some(a) = col.as_any().downcast_ref::<Float32Array>() {
        return json!(["f", format!("{:?}", a.value(i) as f64)]);
    }
    if let Some(a) = col.as_any().downcast_ref::<StringArray>() {
        return json!(["s", a.value(i)]);
    }
    if let Some(a) = col.as_any().downcast_ref::<LargeStringArray>() {
        return json!(["s", a.value(i)]);
    }
    if let Some(a) = col.as_any().downcast_ref::<StringViewArray>() {
        return json!(["s", a.value(i)]);
    }
    if let Some(a) = col.as_any().downcast_ref::<BooleanArray>() {
        return json!(["b", a.value(i)]);
    }
    if let Some(a) = col.as_any().downcast_ref::<Date32Array>() {
        return json!(["d", a.value(i)]);
    }
    if let DataType::Dictionary(_, v) = col.data_type() {
        if let Ok(c) = arrow::compute::cast(col.as_ref(), v) {
            return cell(&c, i);
        }
    }
    match arrow::util::display::array_value_to_string(col.as_ref(), i) {
        Ok(s) => json!(["?", s]),
        Err(e) => json!(["?", format!("unprintable: {e}")]),
    }
}

fn panic_msg(p: Box<dyn std::any::Any + Send>) -> String {
    if let Some(s) = p.downcast_ref::<&str>() {
        s.to_string()
    } else if let Some(s) = p.downcast_ref::<String>() {
        s.clone()
    } else {
        "panic".into()
    }
}

fn short(e: impl std::fmt::Display) -> String {
    format!("{e}").chars().take(300).collect()
}

fn level<F: FnOnce() -> query_engine::Result<Value>>(f: F) -> Value {
    match std::panic::catch_unwind(std::panic::AssertUnwindSafe(f)) {
        Ok(Ok(s)) => json!({"k": "ok", "schema": s}),
        Ok(Err(e)) => json!({"k": "err", "msg": short(e)}),
        Err(p) => json!({"k": "panic", "msg": short(panic_msg(p))}),
    }
}

fn run_one(rt: &tokio::runtime::Runtime, ctx: &ExecutionContext, sql: &str) -> Value {
    let plan_json = |p: &query_engine::planner::LogicalPlan| {
        let s = p.schema();
        Value::Array(s.fields().iter().map(|f| json!([f.name, format!("{}", f.data_type)])).collect())
    };
    let logical = level(|| ctx.logical_plan(sql).map(|p| plan_json(&p)));
    let physical = level(|| ctx.physical_plan(sql).map(|p| schema_json(&p.schema())));
    let res = std::panic::catch_unwind(std::panic::AssertUnwindSafe(|| rt.block_on(async { tokio::time::timeout(std::time::Duration::from_secs(30), ctx.sql(sql)).await })));
    let result = match res {
        Err(p) => json!({"k": "panic", "msg": short(panic_msg(p))}),
        Ok(Err(_)) => json!({"k": "hang"}),
        Ok(Ok(Err(e))) => json!({"k": "err", "msg": short(e)}),
        Ok(Ok(Ok(r))) => {
            let mut values = Vec::new();
            let mut batches = Vec::new();
            for b in &r.batches {
                batches.push(json!({"schema": schema_json(&b.schema()), "rows": b.num_rows()}));
                for i in 0..b.num_rows() {
                    values.push(Value::Array(b.columns().iter().map(|c| cell(c, i)).collect()));
                }
            }
            json!({"k": "ok", "schema": schema_json(&r.schema), "batches": batches, "values": values})
        }
    };
    json!({"logical": logical, "physical": physical, "result": result})
}

pub fn run(a: &[String]) -> i32 {
    quiet_panics();
    let setup: Value = serde_json::from_str(&std::fs::read_to_string(&a[0]).unwrap()).unwrap();
    let cases = read_ndjson(&a[1]);
    let mut out = Out::create(&a[2]);
    let workdir = a.get(3).cloned().unwrap_or_else(|| "/verif/work".to_string());
    std::fs::create_dir_all(&workdir).ok();
    let tables: Vec<Table> = setup["tables"].as_array().unwrap().iter().map(Table::from_json).collect();
    let cfgs = setup["configs"].as_array().unwrap().clone();
    let rt = tokio::runtime::Builder::new_multi_thread().worker_threads(2).enable_all().build().unwrap();
    let mut prepared = Vec::new();
    for cfg in &cfgs {
        match prepare(&tables, cfg, &workdir) {
            Ok(b) => prepared.push(b),
            Err(e) => {
                eprintln!("typing-run: cannot prepare configuration {}: {e}", cfg["name"]);
                return 2;
            }
        }
    }
    for c in cases {
        let sql = c["sql"].as_str().unwrap();
        let mut runs = Vec::new();
        for (cfg, prep) in cfgs.iter().zip(&prepared) {
            let mut r = match std::panic::catch_unwind(std::panic::AssertUnwindSafe(|| build_ctx(&tables, cfg, prep))) {
                Ok(Ok(ctx)) => run_one(&rt, &ctx, sql),
                Ok(Err(e)) => {
                    eprintln!("typing-run: cannot build configuration {}: {e}", cfg["name"]);
                    return 2;
                }
                Err(_) => {
                    eprintln!("typing-run: panic while registering the table for configuration {}", cfg["name"]);
                    return 2;
                }
            };
            r["cfg"] = cfg["name"].clone();
            runs.push(r);
        }
        out.put(&json!({"id": c["id"], "runs": runs}));
    }
    out.finish();
    0
}
