//! C06 — compiled predicates vs the interpreter.
//!
//! `qev compiled-replay <in.ndjson> <out.ndjson>`
//!
//! One input line = {"variant", "table": {f,g,k,m,d: [token codes of the R table rows]}, "lens": [...],
//! "cases": [{"id", "e": AST as emitted by spec/CompiledExpr.tla}]}.
//! For every case and every batch length L the batch is the token table tiled to L rows (row i = table[i % R]),
//! concretized HERE (codes -> f64 / i64 / i32 / days).  We call the public
//!   `CompiledPredicate::compile(expr, schema)` + `.evaluate(batch)`   and   `evaluate_expr(batch, expr)`
//! and compare validity bit for bit and the value bit on every valid row.  The per-row results of the longest batch
//! are returned (first R rows) for the comparison with the spec; every other length must be the same row function
//! (a chunk-boundary defect breaks exactly that).  The consumer `FilterExec` over a `MemoryTableExec` is driven on
//! the 1025- and 2049-row batches and, for renderable expressions, `SELECT id FROM t WHERE ...` through
//! `ExecutionContext` (run the harness a second time with QE_COMPILE=0 to get the interpreter-only answers).
use crate::util::*;
use arrow::array::{Array, BooleanArray, Date32Array, Float64Array, Int32Array, Int64Array};
use arrow::datatypes::{DataType, Field, Schema, SchemaRef};
use arrow::record_batch::RecordBatch;
use futures::TryStreamExt;
use query_engine::physical::compiled_expr::{compilation_enabled, CompiledPredicate};
use query_engine::physical::operators::{evaluate_expr, FilterExec, MemoryTableExec};
use query_engine::physical::PhysicalOperator;
use query_engine::planner::{BinaryOp, Column, Expr, ScalarValue, UnaryOp};
use serde_json::{json, Value};
use std::sync::Arc;

const NULLTOK: i64 = -1073741824;

/// spec code -> f64 (the concretization of the double tokens)
fn f_of(code: i64) -> f64 {
    match code {
        -1000 => f64::NEG_INFINITY,
        1000 => f64::INFINITY,
        -1 => -0.0,
        1 => 0.0,
        2000 => f64::NAN,
        c => (c / 10) as f64,
    }
}
fn i_of(code: i64, min: i64, max: i64) -> i64 {
    match code {
        -9 => min,
        9 => max,
        c => c,
    }
}

fn schema() -> SchemaRef {
    Arc::new(Schema::new(vec![
        Field::new("f", DataType::Float64, true),
        Field::new("g", DataType::Float64, true),
        Field::new("k", DataType::Int64, true),
        Field::new("m", DataType::Int32, true),
        Field::new("d", DataType::Date32, true),
        Field::new("id", DataType::Int64, false),
    ]))
}

struct Table {
    f: Vec<i64>,
    g: Vec<i64>,
    k: Vec<i64>,
    m: Vec<i64>,
    d: Vec<i64>,
}

fn toks(v: &Value) -> Vec<i64> {
    v.as_array().unwrap().iter().map(|x| x.as_i64().unwrap()).collect()
}

fn batch_of(t: &Table, len: usize) -> RecordBatch {
    let r = t.f.len();
    let col = |src: &Vec<i64>| -> Vec<i64> { (0..len).map(|i| src[i % r]).collect() };
    let opt = |v: i64| if v == NULLTOK { None } else { Some(v) };
    let f: Float64Array = col(&t.f).into_iter().map(|c| opt(c).map(f_of)).collect();
    let g: Float64Array = col(&t.g).into_iter().map(|c| opt(c).map(f_of)).collect();
    let k: Int64Array = col(&t.k).into_iter().map(|c| opt(c).map(|c| i_of(c, i64::MIN, i64::MAX))).collect();
    let m: Int32Array = col(&t.m).into_iter().map(|c| opt(c).map(|c| i_of(c, i32::MIN as i64, i32::MAX as i64) as i32)).collect();
    let d: Date32Array = col(&t.d).into_iter().map(|c| opt(c).map(|c| i_of(c, i32::MIN as i64, i32::MAX as i64) as i32)).collect();
    let id: Int64Array = (0..len as i64).collect::<Vec<_>>().into();
    RecordBatch::try_new(schema(), vec![Arc::new(f), Arc::new(g), Arc::new(k), Arc::new(m), Arc::new(d), Arc::new(id)]).unwrap()
}

fn value_expr(x: &Value) -> Expr {
    match x["k"].as_str().unwrap() {
        "col" => Expr::Column(Column::new(x["c"].as_str().unwrap())),
        "lit" => {
            let v = x["v"].as_i64().unwrap();
            Expr::Literal(match x["t"].as_str().unwrap() {
                "f64" => ScalarValue::Float64(f_of(v).into()),
                "i64" => ScalarValue::Int64(i_of(v, i64::MIN, i64::MAX)),
                "i32" => ScalarValue::Int32(i_of(v, i32::MIN as i64, i32::MAX as i64) as i32),
                "date" => ScalarValue::Date32(i_of(v, i32::MIN as i64, i32::MAX as i64) as i32),
                other => panic!("harness: literal type {other}"),
            })
        }
        "ar" => Expr::BinaryExpr {
            left: Box::new(value_expr(&x["a"])),
            op: match x["op"].as_str().unwrap() {
                "add" => BinaryOp::Add,
                "sub" => BinaryOp::Subtract,
                "mul" => BinaryOp::Multiply,
                "div" => BinaryOp::Divide,
                other => panic!("harness: arithmetic {other}"),
            },
            right: Box::new(value_expr(&x["b"])),
        },
        other => panic!("harness: value expression {other}"),
    }
}

pub fn bool_expr(q: &Value) -> Expr {
    let k = q["k"].as_str().unwrap();
    match k {
        "cmp" => Expr::BinaryExpr {
            left: Box::new(value_expr(&q["a"])),
            op: match q["op"].as_str().unwrap() {
                "eq" => BinaryOp::Eq,
                "ne" => BinaryOp::NotEq,
                "lt" => BinaryOp::Lt,
                "le" => BinaryOp::LtEq,
                "gt" => BinaryOp::Gt,
                "ge" => BinaryOp::GtEq,
                other => panic!("harness: comparison {other}"),
            },
            right: Box::new(value_expr(&q["b"])),
        },
        "btw" => Expr::Between {
            expr: Box::new(value_expr(&q["x"])),
            low: Box::new(value_expr(&q["lo"])),
            high: Box::new(value_expr(&q["hi"])),
            negated: q["neg"].as_i64().unwrap_or(0) != 0,
        },
        "not" => Expr::UnaryExpr { op: UnaryOp::Not, expr: Box::new(bool_expr(&q["a"])) },
        "and" | "or" => Expr::BinaryExpr {
            left: Box::new(bool_expr(&q["a"])),
            op: if k == "and" { BinaryOp::And } else { BinaryOp::Or },
            right: Box::new(bool_expr(&q["b"])),
        },
        other => panic!("harness: boolean expression {other}"),
    }
}

/// SQL text for expressions whose literals can be written down (finite, no -0.0, no type extremes)
fn sql_value(x: &Value) -> Option<String> {
    match x["k"].as_str().unwrap() {
        "col" => Some(x["c"].as_str().unwrap().to_string()),
        "lit" => {
            let v = x["v"].as_i64().unwrap();
            match x["t"].as_str().unwrap() {
                "f64" => match v {
                    1 => Some("0.0".into()),
                    c if c % 10 == 0 && c.abs() < 1000 => Some(if c < 0 { format!("({}.0)", c / 10) } else { format!("{}.0", c / 10) }),
                    _ => None,
                },
                "i64" if v.abs() < 9 => Some(if v < 0 { format!("({v})") } else { v.to_string() }),
                _ => None,
            }
        }
        "ar" => {
            let op = match x["op"].as_str().unwrap() { "add" => "+", "sub" => "-", "mul" => "*", _ => "/" };
            Some(format!("({} {} {})", sql_value(&x["a"])?, op, sql_value(&x["b"])?))
        }
        _ => None,
    }
}
fn sql_bool(q: &Value) -> Option<String> {
    let k = q["k"].as_str().unwrap();
    Some(match k {
        "cmp" => {
            let op = match q["op"].as_str().unwrap() { "eq" => "=", "ne" => "<>", "lt" => "<", "le" => "<=", "gt" => ">", _ => ">=" };
            format!("({} {} {})", sql_value(&q["a"])?, op, sql_value(&q["b"])?)
        }
        "btw" => format!("({} {}BETWEEN {} AND {})", sql_value(&q["x"])?, if q["neg"].as_i64().unwrap_or(0) != 0 { "NOT " } else { "" },
                         sql_value(&q["lo"])?, sql_value(&q["hi"])?),
        "not" => format!("(NOT {})", sql_bool(&q["a"])?),
        "and" => format!("({} AND {})", sql_bool(&q["a"])?, sql_bool(&q["b"])?),
        "or" => format!("({} OR {})", sql_bool(&q["a"])?, sql_bool(&q["b"])?),
        _ => return None,
    })
}

fn chars(b: &BooleanArray) -> Vec<u8> {
    (0..b.len()).map(|i| if b.is_null(i) { b'N' } else if b.value(i) { b'1' } else { b'0' }).collect()
}

fn interp(batch: &RecordBatch, expr: &Expr) -> Result<BooleanArray, String> {
    let (b, e) = (batch.clone(), expr.clone());
    match catch(std::panic::AssertUnwindSafe(move || evaluate_expr(&b, &e))) {
        Ok(Ok(arr)) => arr.as_any().downcast_ref::<BooleanArray>().cloned().ok_or_else(|| "not boolean".to_string()),
        Ok(Err(e)) => Err(e.to_string()),
        Err(p) => Err(format!("panic: {p}")),
    }
}

fn filter_ids(rt: &tokio::runtime::Runtime, batch: &RecordBatch, expr: &Expr) -> Result<Vec<i64>, String> {
    let (b, e) = (batch.clone(), expr.clone());
    let r = catch(std::panic::AssertUnwindSafe(move || -> Result<Vec<i64>, String> {
        let scan = MemoryTableExec::new("t", b.schema(), vec![b], None);
        let filter = FilterExec::new(Arc::new(scan), e);
        let mut ids = Vec::new();
        for p in 0..filter.output_partitions() {
            let batches: Vec<RecordBatch> = rt
                .block_on(async { filter.execute(p).await?.try_collect::<Vec<_>>().await })
                .map_err(|e| e.to_string())?;
            for ob in batches {
                let a = ob.column(ob.schema().index_of("id").unwrap()).as_any().downcast_ref::<Int64Array>().unwrap().clone();
                ids.extend(a.values().iter().copied());
            }
        }
        ids.sort_unstable();
        Ok(ids)
    }));
    match r {
        Ok(x) => x,
        Err(p) => Err(format!("panic: {p}")),
    }
}

pub fn replay(a: &[String]) -> i32 {
    quiet_panics();
    if a.len() < 2 {
        eprintln!("usage: qev compiled-replay <in.ndjson> <out.ndjson>");
        return 2;
    }
    let groups = read_ndjson(&a[0]);
    let mut out = Out::create(&a[1]);
    let rt = tokio::runtime::Builder::new_multi_thread().worker_threads(2).enable_all().build().unwrap();
    let sch = schema();
    for g in groups {
        let t = Table { f: toks(&g["table"]["f"]), g: toks(&g["table"]["g"]), k: toks(&g["table"]["k"]), m: toks(&g["table"]["m"]), d: toks(&g["table"]["d"]) };
        let r = t.f.len();
        let lens: Vec<usize> = g["lens"].as_array().unwrap().iter().map(|x| x.as_u64().unwrap() as usize).collect();
        let lmax = *lens.iter().max().unwrap();
        assert!(lmax >= r, "harness: the longest batch must cover the token table");
        let batches: Vec<RecordBatch> = lens.iter().map(|&l| batch_of(&t, l)).collect();
        let want_sql = g["sql"].as_i64().unwrap_or(0) != 0;
        let mut ctx = query_engine::ExecutionContext::new();
        if want_sql {
            let bi = lens.iter().position(|&l| l == lmax).unwrap();
            ctx.register_table("t", sch.clone(), vec![batches[bi].clone()]);
        }
        let mut recs = Vec::new();
        for c in g["cases"].as_array().unwrap() {
            let expr = bool_expr(&c["e"]);
            let mut rec = json!({"id": c["id"], "mode": if compilation_enabled() { 1 } else { 0 }});
            let e1 = expr.clone();
            let s1 = sch.clone();
            let compiled = match catch(std::panic::AssertUnwindSafe(move || CompiledPredicate::compile(&e1, &s1))) {
                Ok(c) => c,
                Err(p) => {
                    rec["panic"] = json!(format!("compile panicked: {p}"));
                    recs.push(rec);
                    continue;
                }
            };
            rec["compiled"] = json!(if compiled.is_some() { 1 } else { 0 });
            let mut canon_i: Vec<u8> = Vec::new();
            let mut canon_c: Vec<u8> = Vec::new();
            let mut per_len = Vec::new();
            let mut results: Vec<(usize, Option<Vec<u8>>, Option<Vec<u8>>)> = Vec::new();
            for (li, &l) in lens.iter().enumerate() {
                let b = &batches[li];
                let mut lr = json!({"len": l});
                let ir = interp(b, &expr);
                let iv = match &ir {
                    Ok(arr) => Some(chars(arr)),
                    Err(e) => {
                        lr["ierr"] = json!(e.chars().take(160).collect::<String>());
                        None
                    }
                };
                let mut cv = None;
                if let Some(cp) = &compiled {
                    let b2 = b.clone();
                    match catch(std::panic::AssertUnwindSafe(|| cp.evaluate(&b2))) {
                        Ok(Some(arr)) => {
                            if arr.len() != l {
                                lr["clen"] = json!(arr.len());
                            }
                            // raw value bits under NULL (not observable through a filter; fidelity only)
                            if let Ok(ia) = &ir {
                                if ia.len() == arr.len() {
                                    let raw = (0..l).filter(|&i| arr.is_null(i) && ia.is_null(i) && arr.values().value(i) != ia.values().value(i)).count();
                                    if raw > 0 {
                                        lr["rawdiff"] = json!(raw);
                                    }
                                }
                            }
                            cv = Some(chars(&arr));
                        }
                        Ok(None) => lr["cnone"] = json!(1),
                        Err(p) => lr["cpanic"] = json!(p),
                    }
                }
                if let (Some(i), Some(c)) = (&iv, &cv) {
                    let diff: Vec<usize> = (0..i.len().min(c.len())).filter(|&x| i[x] != c[x]).collect();
                    let vdiff = (0..i.len().min(c.len())).filter(|&x| (i[x] == b'N') != (c[x] == b'N')).count();
                    lr["vdiff"] = json!(vdiff);
                    lr["ndiff"] = json!(diff.len());
                    lr["diff"] = json!(diff.iter().take(400).collect::<Vec<_>>());
                    if i.len() != c.len() {
                        lr["lenmismatch"] = json!([i.len(), c.len()]);
                    }
                }
                if l == lmax {
                    if let Some(i) = &iv {
                        canon_i = i[..r].to_vec();
                    }
                    if let Some(c) = &cv {
                        canon_c = c[..r].to_vec();
                    }
                }
                // the consumer
                if l == 1025 || l == lmax {
                    match filter_ids(&rt, b, &expr) {
                        Ok(ids) => {
                            lr["kept_n"] = json!(ids.len());
                            let mut s = vec![b'0'; l];
                            for i in &ids {
                                s[*i as usize] = b'1';
                            }
                            lr["kept"] = json!(String::from_utf8(s).unwrap());
                        }
                        Err(e) => lr["ferr"] = json!(e.chars().take(160).collect::<String>()),
                    }
                }
                results.push((l, iv, cv));
                per_len.push(lr);
            }
            // every length computes the same row function
            let mut incons = Vec::new();
            for (l, iv, cv) in &results {
                for (which, v, canon) in [("I", iv, &canon_i), ("C", cv, &canon_c)] {
                    if let Some(v) = v {
                        if canon.is_empty() {
                            continue;
                        }
                        if let Some(i) = (0..v.len()).find(|&i| v[i] != canon[i % r]) {
                            incons.push(json!([l, i, which, (v[i] as char).to_string(), (canon[i % r] as char).to_string()]));
                        }
                    }
                }
            }
            rec["ri"] = json!(String::from_utf8(canon_i).unwrap());
            rec["rc"] = json!(String::from_utf8(canon_c).unwrap());
            rec["lens"] = json!(per_len);
            rec["incons"] = json!(incons);
            if want_sql {
                if let Some(w) = sql_bool(&c["e"]) {
                    let sql = format!("SELECT id FROM t WHERE {w}");
                    let s2 = sql.clone();
                    let cref = &ctx;
                    let rtr = &rt;
                    rec["sql"] = json!(sql);
                    rec["sql_ids"] = match catch(std::panic::AssertUnwindSafe(move || rtr.block_on(cref.sql(&s2)))) {
                        Ok(Ok(res)) => {
                            let mut ids = Vec::new();
                            for b in &res.batches {
                                let a = b.column(0).as_any().downcast_ref::<Int64Array>().unwrap().clone();
                                ids.extend(a.values().iter().copied());
                            }
                            ids.sort_unstable();
                            let mut s = vec![b'0'; lmax];
                            for i in &ids {
                                s[*i as usize] = b'1';
                            }
                            json!({"ok": 1, "kept": String::from_utf8(s[..r].to_vec()).unwrap(), "n": ids.len()})
                        }
                        Ok(Err(e)) => json!({"ok": 0, "err": e.to_string().chars().take(160).collect::<String>()}),
                        Err(p) => json!({"ok": 0, "panic": 1, "err": p}),
                    };
                }
            }
            recs.push(rec);
        }
        out.put(&json!({"variant": g["variant"], "recs": recs}));
    }
    out.finish();
    0
}
