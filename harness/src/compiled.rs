//! stub (being built)
pub fn replay(_a: &[String]) -> i32 { eprintln!("not built yet"); 2 }
