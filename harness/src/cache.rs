//! C19 — rewritten files are never served from a stale cache (spec/CacheCoherence.tla).
//!
//! `cache-replay <cases.ndjson> <out.ndjson> <workdir> [threads] [keep]`
//!   Every input line is one history emitted by TLC (write / query / query without cache entries /
//!   external sidecar build on 1..2 paths) plus the concrete table contents chosen by the driver.  The
//!   history is executed on REAL files inside THIS process (the footer cache, the schema cache and
//!   `sidecar_dict_cols` are process-global; `QE_IPC_CACHE` is read once per process, so the driver
//!   starts one `cache-replay` process per mode).  Every history gets its own directory, so the
//!   path-keyed caches of different histories never meet.
//!
//!     write  p v len sec ns  the file image of content version v in length class `len` (all images of
//!                         one class have the SAME byte length: padding lives in a footer key/value
//!                         entry) replaces path p — by rename of a temp file or in place — and its
//!                         mtime is set to exactly (BASE_SEC+sec, NS_BASE+ns) with utimensat (forwards or backwards); the stat tuple
//!                         is read back and asserted
//!     query  p            a new ExecutionContext (or the history's long-lived one), register_parquet,
//!                         then four statements that reach the Parquet file through the morsel
//!                         aggregate, the streaming scan, the eager filtered scan and the
//!                         dictionary-group morsel path; rows are recorded verbatim
//!     xquery p            the same statements where no path-keyed cache entry can exist: through a
//!                         FRESH ALIAS of the directory (a new symlink; the sidecar directory is the
//!                         same physical one) in this process, or — cases with `xreal` — in a really
//!                         fresh process of the same mode (`qev cache-query`)
//!     build  p            ANOTHER process with QE_IPC_CACHE=1 runs the public
//!                         `ipc_cache::ensure_sidecar(p)` — a second node sharing the data directory:
//!                         one long-lived `qev cache-helper` child, always handed a fresh alias (so it
//!                         carries nothing over), or — `xreal` — a new `qev cache-build` process
//!
//! The judge is the driver (checks/c19.py): an answer must be the answer of the CURRENT content.
use crate::util::*;
use arrow::array::{Array, ArrayRef, Int64Array, StringArray};
use arrow::datatypes::{DataType, Field, Schema};
use arrow::record_batch::RecordBatch;
use parquet::file::metadata::KeyValue;
use parquet::file::properties::WriterProperties;
use serde_json::{json, Value};
use std::collections::HashMap;
use std::path::{Path, PathBuf};
use std::sync::atomic::{AtomicUsize, Ordering};
use std::sync::{Arc, Mutex};

/// The harness binary for child processes: the path this process was started with (a rebuild by
/// somebody else replaces the file; /proc/self/exe would then name a deleted inode).
pub fn exe_path() -> PathBuf {
    let a0 = PathBuf::from(std::env::args().next().unwrap_or_default());
    if a0.is_absolute() && a0.exists() {
        return a0;
    }
    std::env::current_exe().unwrap()
}

pub const NULLV: i64 = -1073741824;
/// Base of the model clock: model second k is BASE_SEC + k (a fixed instant in the past, never "now").
pub const BASE_SEC: i64 = 1_700_000_000;
/// Model nanosecond k is NS_BASE + k.
pub const NS_BASE: i64 = 1000;

/// s column of row x (three distinct low-cardinality values).
pub fn s_of(x: i64) -> String {
    format!("k{}", x.rem_euclid(3))
}

/// One Parquet image: columns x BIGINT, s VARCHAR (= k<x mod 3>), y BIGINT (= 10x); one row group per
/// entry of `rgs`; uncompressed; column s dictionary-encoded iff `dict`; `pad` bytes of footer padding.
pub fn parquet_image(rgs: &[Vec<i64>], dict: bool, pad: usize) -> Vec<u8> {
    let schema = Arc::new(Schema::new(vec![
        Field::new("x", DataType::Int64, false),
        Field::new("s", DataType::Utf8, false),
        Field::new("y", DataType::Int64, false),
    ]));
    let props = WriterProperties::builder()
        .set_compression(parquet::basic::Compression::UNCOMPRESSED)
        .set_dictionary_enabled(dict)
        .set_key_value_metadata(Some(vec![KeyValue::new("pad".to_string(), "p".repeat(pad))]))
        .build();
    let mut buf: Vec<u8> = Vec::new();
    {
        let mut w = parquet::arrow::ArrowWriter::try_new(&mut buf, schema.clone(), Some(props)).unwrap();
        for rg in rgs {
            let x: ArrayRef = Arc::new(Int64Array::from(rg.clone()));
            let s: ArrayRef = Arc::new(StringArray::from(rg.iter().map(|v| s_of(*v)).collect::<Vec<_>>()));
            let y: ArrayRef = Arc::new(Int64Array::from(rg.iter().map(|v| v * 10).collect::<Vec<_>>()));
            let b = RecordBatch::try_new(schema.clone(), vec![x, s, y]).unwrap();
            w.write(&b).unwrap();
            w.flush().unwrap();
        }
        w.close().unwrap();
    }
    buf
}

/// Images of all versions in `nclass` length classes: image[v][c] has length target[c] for every v.
pub struct Images {
    pub bytes: Vec<Vec<Vec<u8>>>,
    pub target: Vec<usize>,
}

pub fn build_images(versions: &[(Vec<Vec<i64>>, bool)], nclass: usize) -> Images {
    let base: Vec<usize> = versions.iter().map(|(r, d)| parquet_image(r, *d, 0).len()).collect();
    let mut t = base.iter().max().unwrap() + 8;
    let mut target = Vec::new();
    let mut per_class: Vec<Vec<Vec<u8>>> = Vec::new();
    while target.len() < nclass {
        // find the next length every version can be padded to exactly
        let mut imgs = Vec::new();
        for (i, (r, d)) in versions.iter().enumerate() {
            let mut pad = t - base[i];
            let mut hit = None;
            for _ in 0..6 {
                let b = parquet_image(r, *d, pad);
                if b.len() == t {
                    hit = Some(b);
                    break;
                }
                if b.len() > t {
                    let over = b.len() - t;
                    if over > pad {
                        break;
                    }
                    pad -= over;
                } else {
                    pad += t - b.len();
                }
            }
            match hit {
                Some(b) => imgs.push(b),
                None => break,
            }
        }
        if imgs.len() == versions.len() {
            target.push(t);
            per_class.push(imgs);
            t += 29;
        } else {
            t += 1;
        }
        assert!(t < base.iter().max().unwrap() + 4096, "cannot equalise image lengths");
    }
    // transpose to [version][class]
    let bytes = (0..versions.len()).map(|v| (0..nclass).map(|c| per_class[c][v].clone()).collect()).collect();
    Images { bytes, target }
}

pub fn set_mtime(path: &Path, sec: i64, nsec: i64) {
    use std::os::unix::ffi::OsStrExt;
    let c = std::ffi::CString::new(path.as_os_str().as_bytes()).unwrap();
    let ts = [
        libc::timespec { tv_sec: sec as libc::time_t, tv_nsec: nsec as _ },
        libc::timespec { tv_sec: sec as libc::time_t, tv_nsec: nsec as _ },
    ];
    let r = unsafe { libc::utimensat(libc::AT_FDCWD, c.as_ptr(), ts.as_ptr(), 0) };
    assert!(r == 0, "utimensat({}) failed", path.display());
}

/// Replace `path` by `bytes` with mtime exactly (sec, nsec). repl 0 = temp file + rename, 1 = in place.
pub fn replace_file(path: &Path, bytes: &[u8], sec: i64, nsec: i64, repl: i64) {
    if repl == 0 {
        let tmp = path.with_extension("tmp-write");
        std::fs::write(&tmp, bytes).unwrap();
        set_mtime(&tmp, sec, nsec);
        std::fs::rename(&tmp, path).unwrap();
    } else {
        std::fs::write(path, bytes).unwrap();
        set_mtime(path, sec, nsec);
    }
    // read back what the engine will see (the model's file[p] is compared with this)
    let md = std::fs::metadata(path).unwrap();
    use std::os::unix::fs::MetadataExt;
    assert!(md.len() as usize == bytes.len() && md.mtime() == sec && md.mtime_nsec() == nsec, "file system did not keep the requested stat tuple");
}

fn cell(a: &ArrayRef, i: usize) -> Value {
    if a.is_null(i) {
        return json!(NULLV);
    }
    match a.data_type() {
        DataType::Utf8 => json!(a.as_any().downcast_ref::<StringArray>().unwrap().value(i)),
        _ => match arrow::compute::cast(a, &DataType::Int64) {
            Ok(c) => {
                let c = c.as_any().downcast_ref::<Int64Array>().unwrap();
                if c.is_null(i) {
                    json!(NULLV)
                } else {
                    json!(c.value(i))
                }
            }
            Err(_) => match arrow::compute::cast(a, &DataType::Utf8) {
                Ok(c) => json!(c.as_any().downcast_ref::<StringArray>().unwrap().value(i)),
                Err(e) => json!(format!("?{e}")),
            },
        },
    }
}

/// All rows of a result as JSON arrays, sorted (the statements have no ORDER BY).
pub fn rows_json(batches: &[RecordBatch]) -> Vec<Value> {
    let mut rows: Vec<Vec<Value>> = Vec::new();
    for b in batches {
        for i in 0..b.num_rows() {
            rows.push(b.columns().iter().map(|c| cell(c, i)).collect());
        }
    }
    let mut keyed: Vec<(String, Value)> = rows.into_iter().map(|r| (serde_json::to_string(&r).unwrap(), json!(r))).collect();
    keyed.sort_by(|a, b| a.0.cmp(&b.0));
    keyed.into_iter().map(|(_, v)| v).collect()
}

pub const STATEMENTS: [(&str, &str); 4] = [
    ("agg", "SELECT COUNT(*), SUM(x), MIN(y), MAX(y) FROM t"),
    ("scan", "SELECT x, s, y FROM t"),
    ("filter", "SELECT x, y FROM t WHERE x >= 25"),
    ("group", "SELECT s, COUNT(*), SUM(x) FROM t GROUP BY s"),
];

/// One statement on `ctx`: {"rows": [...]} | {"err": text} | {"panic": text}
pub fn run_stmt(rt: &tokio::runtime::Runtime, ctx: &query_engine::execution::ExecutionContext, sql: &str) -> Value {
    let r = catch(std::panic::AssertUnwindSafe(|| match rt.block_on(ctx.sql(sql)) {
        Ok(r) => json!({"rows": rows_json(&r.batches)}),
        Err(e) => json!({"err": e.to_string().chars().take(240).collect::<String>()}),
    }));
    match r {
        Ok(v) => v,
        Err(p) => json!({"panic": p.chars().take(240).collect::<String>()}),
    }
}

fn sidecar_state(p: &Path) -> Value {
    let mut name = p.file_name().unwrap().to_os_string();
    name.push(".qeipc");
    let dir = p.with_file_name(name);
    match std::fs::read_to_string(dir.join(".complete")) {
        Ok(s) => {
            let n = std::fs::read_dir(&dir).map(|d| d.filter(|e| e.as_ref().map(|e| e.file_name().to_string_lossy().ends_with(".arrow")).unwrap_or(false)).count()).unwrap_or(0);
            json!({"stamp": s, "rgs": n})
        }
        Err(_) => json!(null),
    }
}

fn versions_of(case: &Value) -> Vec<(Vec<Vec<i64>>, bool)> {
    case["versions"]
        .as_array()
        .unwrap()
        .iter()
        .map(|v| {
            let rgs = v["rgs"].as_array().unwrap().iter().map(|g| g.as_array().unwrap().iter().map(|x| x.as_i64().unwrap()).collect()).collect();
            (rgs, v["dict"].as_i64().unwrap() != 0)
        })
        .collect()
}

type ImageCache = Mutex<HashMap<String, Arc<Images>>>;

fn images_for(cache: &ImageCache, case: &Value) -> Arc<Images> {
    let key = serde_json::to_string(&case["versions"]).unwrap();
    if let Some(i) = cache.lock().unwrap().get(&key) {
        return i.clone();
    }
    let im = Arc::new(build_images(&versions_of(case), 2));
    cache.lock().unwrap().insert(key, im.clone());
    im
}

/// The external builder: ONE child process per replay run (QE_IPC_CACHE=1) that runs
/// `ipc_cache::ensure_sidecar` on every path it is sent.  It is always handed a FRESH alias of the
/// history's directory (a new symlink), so none of its path-keyed caches can carry anything over:
/// every request behaves like a new process.
pub struct Helper {
    child: std::process::Child,
    stdin: std::process::ChildStdin,
    stdout: std::io::BufReader<std::process::ChildStdout>,
}

impl Helper {
    pub fn spawn(exe: &Path) -> Helper {
        let mut child = std::process::Command::new(exe)
            .arg("cache-helper")
            .env("QE_IPC_CACHE", "1")
            .env("RAYON_NUM_THREADS", "2")
            .stdin(std::process::Stdio::piped())
            .stdout(std::process::Stdio::piped())
            .spawn()
            .expect("spawn cache-helper");
        let stdin = child.stdin.take().unwrap();
        let stdout = std::io::BufReader::new(child.stdout.take().unwrap());
        Helper { child, stdin, stdout }
    }
    pub fn build(&mut self, path: &Path) -> Value {
        use std::io::{BufRead, Write};
        writeln!(self.stdin, "{}", path.display()).unwrap();
        self.stdin.flush().unwrap();
        let mut line = String::new();
        self.stdout.read_line(&mut line).expect("helper died");
        serde_json::from_str(&line).unwrap_or_else(|_| panic!("helper said {line:?}"))
    }
}

impl Drop for Helper {
    fn drop(&mut self) {
        let _ = self.child.kill();
        let _ = self.child.wait();
    }
}

/// qev cache-helper: read parquet paths from stdin, ensure_sidecar each, answer one JSON line each
pub fn helper(_a: &[String]) -> i32 {
    use std::io::{BufRead, Write};
    quiet_panics();
    let stdin = std::io::stdin();
    let mut out = std::io::stdout();
    for line in stdin.lock().lines() {
        let line = match line {
            Ok(l) => l,
            Err(_) => break,
        };
        let p = PathBuf::from(line.trim());
        let r = catch(std::panic::AssertUnwindSafe(|| query_engine::storage::ipc_cache::ensure_sidecar(&p).is_some()));
        let v = match r {
            Ok(b) => json!({"built": b}),
            Err(m) => json!({"panic": m}),
        };
        writeln!(out, "{v}").unwrap();
        out.flush().unwrap();
    }
    0
}

fn four_statements(rt: &tokio::runtime::Runtime, ctx: &query_engine::execution::ExecutionContext) -> Value {
    let mut answers = serde_json::Map::new();
    for (kind, sql) in STATEMENTS.iter() {
        answers.insert(kind.to_string(), run_stmt(rt, ctx, sql));
    }
    Value::Object(answers)
}

fn run_history(rt: &tokio::runtime::Runtime, case: &Value, dir: &Path, images: &Images, exe: &Path, helper: &Mutex<Helper>) -> Value {
    let _ = std::fs::remove_dir_all(dir);
    let real = dir.join("d");
    std::fs::create_dir_all(&real).unwrap();
    let repl = case["repl"].as_i64().unwrap_or(0);
    let shared = case["shared_ctx"].as_i64().unwrap_or(0) != 0;
    let xreal = case["xreal"].as_i64().unwrap_or(0) != 0;
    let fname = |p: i64| format!("p{p}.parquet");
    let mut nalias = 0;
    // a path name nobody has used yet for the same directory: path-keyed caches are cold for it
    let mut alias = |p: i64| -> PathBuf {
        nalias += 1;
        let a = dir.join(format!("a{nalias}"));
        std::os::unix::fs::symlink(&real, &a).unwrap();
        a.join(fname(p))
    };
    let mut long_lived: HashMap<i64, query_engine::execution::ExecutionContext> = HashMap::new();
    let mut obs = Vec::new();
    for st in case["steps"].as_array().unwrap() {
        let p = st["p"].as_i64().unwrap();
        let path = real.join(fname(p));
        match st["a"].as_str().unwrap() {
            "write" => {
                let v = st["v"].as_i64().unwrap() as usize;
                let c = st["len"].as_i64().unwrap() as usize;
                let sec = BASE_SEC + st["sec"].as_i64().unwrap();
                // model nanoseconds may be negative (rewrites with an EARLIER mtime): shift into 0..1e9
                let nsec = NS_BASE + st["ns"].as_i64().unwrap();
                replace_file(&path, &images.bytes[v - 1][c], sec, nsec, if path.exists() { repl } else { 0 });
                obs.push(json!({"a": "write", "len": images.target[c]}));
            }
            "build" => {
                let r = if xreal {
                    let out = std::process::Command::new(exe).arg("cache-build").arg(&path).env("QE_IPC_CACHE", "1").env("RAYON_NUM_THREADS", "2").output().expect("spawn cache-build");
                    json!({"built": out.status.code() == Some(0)})
                } else {
                    let a = alias(p);
                    helper.lock().unwrap().build(&a)
                };
                obs.push(json!({"a": "build", "r": r, "sidecar": sidecar_state(&path)}));
            }
            "xquery" => {
                // the same statements where no path-keyed cache entry exists: through a fresh alias of the
                // directory in this process, or (xreal) in a fresh process of the same mode
                let ans = if xreal {
                    let out = std::process::Command::new(exe).arg("cache-query").arg(&path).env("RAYON_NUM_THREADS", "2").output().expect("spawn cache-query");
                    serde_json::from_slice(&out.stdout).unwrap_or_else(|_| {
                        json!({"child_failed": {"exit": out.status.code(), "msg": String::from_utf8_lossy(&out.stderr).chars().take(300).collect::<String>()}})
                    })
                } else {
                    let a = alias(p);
                    let mut c = query_engine::execution::ExecutionContext::new();
                    match c.register_parquet("t", &a) {
                        Ok(()) => four_statements(rt, &c),
                        Err(e) => json!({"child_failed": {"msg": e.to_string()}}),
                    }
                };
                obs.push(json!({"a": "xquery", "ans": ans, "sidecar": sidecar_state(&path)}));
            }
            "query" => {
                let mut fresh_ctx;
                let ctx: &query_engine::execution::ExecutionContext = if shared {
                    if !long_lived.contains_key(&p) {
                        let mut c = query_engine::execution::ExecutionContext::new();
                        if let Err(e) = c.register_parquet("t", &path) {
                            obs.push(json!({"a": "query", "register_err": e.to_string()}));
                            continue;
                        }
                        long_lived.insert(p, c);
                    }
                    &long_lived[&p]
                } else {
                    fresh_ctx = query_engine::execution::ExecutionContext::new();
                    if let Err(e) = fresh_ctx.register_parquet("t", &path) {
                        obs.push(json!({"a": "query", "register_err": e.to_string()}));
                        continue;
                    }
                    &fresh_ctx
                };
                let ans = four_statements(rt, ctx);
                obs.push(json!({"a": "query", "ans": ans, "sidecar": sidecar_state(&path)}));
            }
            other => panic!("unknown step {other}"),
        }
    }
    let mut out = case.clone();
    out.as_object_mut().unwrap().remove("versions");
    out["obs"] = json!(obs);
    out
}

/// qev cache-replay <cases.ndjson> <out.ndjson> <workdir> [threads] [keep]
pub fn replay(a: &[String]) -> i32 {
    quiet_panics();
    let cases = read_ndjson(&a[0]);
    let work = PathBuf::from(&a[2]);
    assert!(work.is_absolute(), "workdir must be absolute");
    let threads: usize = a.get(3).and_then(|s| s.parse().ok()).unwrap_or(4).max(1);
    let keep = a.get(4).map(|s| s == "keep").unwrap_or(false);
    let run = work.join(format!("run-{}", std::process::id()));
    let _ = std::fs::remove_dir_all(&run);
    std::fs::create_dir_all(&run).unwrap();
    let exe = crate::cache::exe_path();
    let helper = Arc::new(Mutex::new(Helper::spawn(&exe)));
    let rt = Arc::new(tokio::runtime::Builder::new_multi_thread().worker_threads(2).enable_all().build().unwrap());
    let cases = Arc::new(cases);
    let images: Arc<ImageCache> = Arc::new(Mutex::new(HashMap::new()));
    let next = Arc::new(AtomicUsize::new(0));
    let results: Arc<Mutex<Vec<Option<Value>>>> = Arc::new(Mutex::new(vec![None; cases.len()]));
    let mut hs = Vec::new();
    for _ in 0..threads {
        let (rt, cases, next, results, run, images, exe, helper) = (rt.clone(), cases.clone(), next.clone(), results.clone(), run.clone(), images.clone(), exe.clone(), helper.clone());
        hs.push(std::thread::spawn(move || loop {
            let i = next.fetch_add(1, Ordering::SeqCst);
            if i >= cases.len() {
                break;
            }
            let dir = run.join(format!("h{i:06}"));
            let r = match catch(std::panic::AssertUnwindSafe(|| {
                let im = images_for(&images, &cases[i]);
                run_history(&rt, &cases[i], &dir, &im, &exe, &helper)
            })) {
                Ok(v) => v,
                Err(p) => {
                    let mut v = cases[i].clone();
                    v["tool_error"] = json!(p);
                    v
                }
            };
            if !keep {
                let _ = std::fs::remove_dir_all(&dir);
            }
            results.lock().unwrap()[i] = Some(r);
        }));
    }
    for h in hs {
        h.join().unwrap();
    }
    let mut out = Out::create(&a[1]);
    let mut bad = 0;
    for r in results.lock().unwrap().iter() {
        let r = r.as_ref().unwrap();
        if r.get("tool_error").is_some() {
            bad += 1;
            eprintln!("cache-replay: tool error: {}", r["tool_error"]);
        }
        out.put(r);
    }
    out.finish();
    if !keep {
        let _ = std::fs::remove_dir_all(&run);
    }
    if bad > 0 {
        return 3;
    }
    0
}

/// qev cache-query <parquet path>: the four statements in this (fresh) process, answers as one JSON object on stdout
pub fn query(a: &[String]) -> i32 {
    quiet_panics();
    let rt = tokio::runtime::Builder::new_multi_thread().worker_threads(2).enable_all().build().unwrap();
    let mut ctx = query_engine::execution::ExecutionContext::new();
    let mut answers = serde_json::Map::new();
    match ctx.register_parquet("t", &a[0]) {
        Err(e) => {
            for (kind, _) in STATEMENTS.iter() {
                answers.insert(kind.to_string(), json!({"err": format!("register: {e}")}));
            }
        }
        Ok(()) => {
            for (kind, sql) in STATEMENTS.iter() {
                answers.insert(kind.to_string(), run_stmt(&rt, &ctx, sql));
            }
        }
    }
    println!("{}", Value::Object(answers));
    0
}

/// qev cache-build <parquet path>   (run with QE_IPC_CACHE=1)
pub fn build(a: &[String]) -> i32 {
    let p = PathBuf::from(&a[0]);
    match query_engine::storage::ipc_cache::ensure_sidecar(&p) {
        Some(_) => 0,
        None => {
            eprintln!("ensure_sidecar returned None");
            4
        }
    }
}
