//! C05 — statistics-based row-group skipping.
//!
//! `qev prune-replay <groups.ndjson> <out.ndjson> <workdir>`
//!
//! One input line = one group: a column type + concretization (token -> concrete value, owned HERE,
//! the spec only knows the order), a list of row-group contents (rows of token pairs for the columns
//! a, b) and a list of predicate ASTs (as emitted by spec/RowGroupPruning.tla).  The group is written
//! as ONE real Parquet file with one row group per content; for every predicate we record
//!   * the public `prune_row_groups` / `row_group_definitely_matches` verdicts on the REAL footer,
//!   * what the real consumer `ParallelParquetSource::try_new_with_filter` queues (row group, filter_all_true)
//!     and the rows `read_row_group` then delivers,
//!   * the engine's own `evaluate_expr` verdict for every row of every row group (decoded from the file),
//!   * (selected predicates) end to end: `ParquetTable::scan_with_filter` + `filter_batches` vs the same
//!     batches filtered in memory, and the SQL text through `ExecutionContext` on register_parquet vs
//!     register_table.
//! The real footer statistics are read back and reported in token codes (fidelity vs the model's Stats).
use crate::util::*;
use arrow::array::{
    Array, ArrayRef, BooleanArray, Date32Array, Float64Array, Int32Array, Int64Array, StringArray,
};
use arrow::datatypes::{DataType, Field, Schema, SchemaRef};
use arrow::record_batch::RecordBatch;
use parquet::arrow::arrow_reader::ParquetRecordBatchReaderBuilder;
use parquet::arrow::ArrowWriter;
use parquet::file::properties::{EnabledStatistics, WriterProperties};
use parquet::file::statistics::Statistics;
use query_engine::physical::morsel::ParallelParquetSource;
use query_engine::physical::operators::{evaluate_expr, filter_batches, TableProvider};
use query_engine::planner::{BinaryOp, Column, Expr, ScalarValue, UnaryOp};
use query_engine::storage::row_group_pruning::{
    prune_row_groups, row_group_definitely_matches, row_group_might_match,
};
use serde_json::{json, Value};
use std::path::{Path, PathBuf};
use std::sync::Arc;

pub const NULLTOK: i64 = -1073741824;
pub const NANTOK: i64 = 6;

#[derive(Clone, Copy, PartialEq, Debug)]
pub enum Kind {
    I32,
    I64,
    F64,
    Str,
    Date,
}

/// token -> concrete value.  The ORDER of the six tokens is the order of the concrete values in the
/// column's own comparison (integers, f64 total order, UTF-8 byte order).
pub struct Conc {
    pub kind: Kind,
    pub ints: Vec<i64>,
    pub floats: Vec<f64>,
    pub strs: Vec<String>,
}

pub fn conc_of(ty: &str, name: &str) -> Conc {
    let kind = match ty {
        "i32" => Kind::I32,
        "i64" => Kind::I64,
        "f64" => Kind::F64,
        "str" => Kind::Str,
        "date" => Kind::Date,
        other => panic!("harness: unknown column type {other}"),
    };
    let p53: i64 = 1 << 53;
    let ints: Vec<i64> = match (kind, name) {
        (Kind::I32, "small") | (Kind::I64, "small") | (Kind::Date, "small") => vec![-7, -1, 0, 1, 5, 9],
        (Kind::I32, "edge") | (Kind::Date, "edge") => {
            vec![i32::MIN as i64, i32::MIN as i64 + 1, -1, 0, i32::MAX as i64 - 1, i32::MAX as i64]
        }
        (Kind::I64, "edge") => vec![i64::MIN, i64::MIN + 1, -1, 0, i64::MAX - 1, i64::MAX],
        (Kind::I64, "big53") => vec![-p53 - 1, -p53, 0, p53, p53 + 1, p53 + 2],
        (Kind::I64, "wrap32") => vec![-(1i64 << 32) + 3, -5, 0, 3, i32::MAX as i64, (1i64 << 32) - 5],
        (Kind::F64, _) | (Kind::Str, _) => vec![],
        (k, n) => panic!("harness: no concretization {n} for {k:?}"),
    };
    let floats: Vec<f64> = match (kind, name) {
        (Kind::F64, "zeros") => vec![-1.5, -0.0, 0.0, 0.5, 2.0, f64::INFINITY, f64::NAN],
        (Kind::F64, "plain") => vec![-2.5, -1.0, 0.25, 1.0, 3.5, 1e300, f64::NAN],
        (Kind::F64, n) => panic!("harness: no f64 concretization {n}"),
        _ => vec![],
    };
    let base = ["", "A", "a~", "z", "\u{e9}", "\u{10000}"];
    let strs: Vec<String> = match (kind, name) {
        (Kind::Str, "uni") => base.iter().map(|s| s.to_string()).collect(),
        // > 64 bytes with a common prefix: the writer truncates min/max statistics
        (Kind::Str, "long") => base.iter().map(|s| format!("{}{}", "k".repeat(70), s)).collect(),
        (Kind::Str, n) => panic!("harness: no string concretization {n}"),
        _ => vec![],
    };
    Conc { kind, ints, floats, strs }
}

impl Conc {
    pub fn dtype(&self) -> DataType {
        match self.kind {
            Kind::I32 => DataType::Int32,
            Kind::I64 => DataType::Int64,
            Kind::F64 => DataType::Float64,
            Kind::Str => DataType::Utf8,
            Kind::Date => DataType::Date32,
        }
    }
    pub fn array(&self, toks: &[i64]) -> ArrayRef {
        let isnull = |t: &i64| *t == NULLTOK;
        match self.kind {
            Kind::I32 => Arc::new(Int32Array::from(
                toks.iter().map(|t| if isnull(t) { None } else { Some(self.ints[*t as usize] as i32) }).collect::<Vec<_>>(),
            )),
            Kind::Date => Arc::new(Date32Array::from(
                toks.iter().map(|t| if isnull(t) { None } else { Some(self.ints[*t as usize] as i32) }).collect::<Vec<_>>(),
            )),
            Kind::I64 => Arc::new(Int64Array::from(
                toks.iter().map(|t| if isnull(t) { None } else { Some(self.ints[*t as usize]) }).collect::<Vec<_>>(),
            )),
            Kind::F64 => Arc::new(Float64Array::from(
                toks.iter().map(|t| if isnull(t) { None } else { Some(self.floats[*t as usize]) }).collect::<Vec<_>>(),
            )),
            Kind::Str => Arc::new(StringArray::from(
                toks.iter().map(|t| if isnull(t) { None } else { Some(self.strs[*t as usize].clone()) }).collect::<Vec<_>>(),
            )),
        }
    }
    /// literal of literal-type `lt` denoting token `t` (python only asks for representable ones)
    pub fn literal(&self, lt: &str, t: i64) -> ScalarValue {
        let as_f = |t: i64| -> f64 {
            if self.kind == Kind::F64 { self.floats[t as usize] } else { self.ints[t as usize] as f64 }
        };
        let as_i = |t: i64| -> i64 {
            if self.kind == Kind::F64 { self.floats[t as usize] as i64 } else { self.ints[t as usize] }
        };
        match lt {
            "i32" => ScalarValue::Int32(as_i(t) as i32),
            "i64" => ScalarValue::Int64(as_i(t)),
            "date" => ScalarValue::Date32(as_i(t) as i32),
            "ts" => ScalarValue::Timestamp(as_i(t)),
            "f64" => ScalarValue::Float64(as_f(t).into()),
            "f32" => ScalarValue::Float32((as_f(t) as f32).into()),
            "str" => ScalarValue::Utf8(match self.kind {
                Kind::Str => self.strs[t as usize].clone(),
                Kind::Date => civil(as_i(t)).unwrap_or_else(|| as_i(t).to_string()),
                Kind::F64 => format!("{:?}", as_f(t)),
                _ => as_i(t).to_string(),
            }),
            other => panic!("harness: unknown literal type {other}"),
        }
    }
    fn sql_literal(&self, lt: &str, t: i64) -> Option<String> {
        match self.literal(lt, t) {
            ScalarValue::Int64(v) => Some(if v < 0 { format!("({v})") } else { v.to_string() }),
            ScalarValue::Int32(v) => Some(format!("CAST({v} AS INT)")),
            ScalarValue::Date32(d) => Some(format!("DATE '{}'", civil(d as i64)?)),
            ScalarValue::Float64(f) => {
                let f: f64 = f.into();
                if !f.is_finite() || f.abs() > 1e15 {
                    None
                } else if f == 0.0 && f.is_sign_negative() {
                    Some("(-0.0)".to_string())
                } else if f < 0.0 {
                    Some(format!("({f:?})"))
                } else {
                    Some(format!("{f:?}"))
                }
            }
            ScalarValue::Utf8(s) => Some(format!("'{}'", s.replace('\'', "''"))),
            _ => None,
        }
    }
    /// reverse map of a concrete footer value to a token (or -100 when it is not a token value)
    fn tok_of_i(&self, v: i64) -> i64 {
        self.ints.iter().position(|x| *x == v).map(|p| p as i64).unwrap_or(-100)
    }
    fn tok_of_f(&self, v: f64) -> i64 {
        self.floats.iter().position(|x| x.to_bits() == v.to_bits()).map(|p| p as i64).unwrap_or(-100)
    }
    fn tok_of_s(&self, v: &[u8]) -> i64 {
        self.strs.iter().position(|x| x.as_bytes() == v).map(|p| p as i64).unwrap_or(-100)
    }
}

/// The order facts of a concretization, for the cross-check with the spec's PROFILE tables.
fn tables(conc: &Conc) -> Value {
    let n = 6usize;
    let (round, trunc, order_ok): (Vec<i64>, Vec<i64>, bool) = match conc.kind {
        Kind::I32 | Kind::I64 | Kind::Date => {
            let r = (0..n).map(|t| (0..n).position(|u| (conc.ints[u] as f64) == (conc.ints[t] as f64)).unwrap() as i64).collect();
            let tr = (0..n).map(|t| conc.tok_of_i((conc.ints[t] as i32) as i64)).collect();
            (r, tr, conc.ints.windows(2).all(|w| w[0] < w[1]))
        }
        Kind::F64 => ((0..n as i64).collect(), (0..n as i64).collect(),
                      conc.floats.windows(2).all(|w| w[0].total_cmp(&w[1]) == std::cmp::Ordering::Less)),
        Kind::Str => ((0..n as i64).collect(), (0..n as i64).collect(), conc.strs.windows(2).all(|w| w[0].as_bytes() < w[1].as_bytes())),
    };
    let zero = |neg: bool| -> i64 {
        conc.floats.iter().position(|f| *f == 0.0 && f.is_sign_negative() == neg).map(|p| p as i64).unwrap_or(-1)
    };
    json!({"round": round, "trunc": trunc, "order_ok": order_ok, "negzero": zero(true), "poszero": zero(false),
           "long": conc.strs.first().map(|s| s.len() > 64).unwrap_or(false)})
}

/// days since 1970-01-01 -> YYYY-MM-DD (proleptic Gregorian), only for years 1..9999
fn civil(z: i64) -> Option<String> {
    let z = z + 719468;
    let era = if z >= 0 { z } else { z - 146096 } / 146097;
    let doe = z - era * 146097;
    let yoe = (doe - doe / 1460 + doe / 36524 - doe / 146096) / 365;
    let y = yoe + era * 400;
    let doy = doe - (365 * yoe + yoe / 4 - yoe / 100);
    let mp = (5 * doy + 2) / 153;
    let d = doy - (153 * mp + 2) / 5 + 1;
    let m = if mp < 10 { mp + 3 } else { mp - 9 };
    let y = if m <= 2 { y + 1 } else { y };
    if !(1..=9999).contains(&y) {
        return None;
    }
    Some(format!("{y:04}-{m:02}-{d:02}"))
}

fn colname(c: &Value) -> &'static str {
    if c.as_i64() == Some(2) { "b" } else { "a" }
}
fn binop(op: &str) -> BinaryOp {
    match op {
        "eq" => BinaryOp::Eq,
        "ne" => BinaryOp::NotEq,
        "lt" => BinaryOp::Lt,
        "le" => BinaryOp::LtEq,
        "gt" => BinaryOp::Gt,
        "ge" => BinaryOp::GtEq,
        other => panic!("harness: unknown comparison {other}"),
    }
}
fn flag(v: &Value) -> bool {
    v.as_i64().unwrap_or(0) != 0 || v.as_bool().unwrap_or(false)
}

/// spec AST -> engine Expr
pub fn build_expr(p: &Value, conc: &Conc) -> Expr {
    let k = p["k"].as_str().unwrap();
    let col = |c: &Value| Expr::Column(Column::new(colname(c)));
    let lit = |lt: &Value, t: &Value| Expr::Literal(conc.literal(lt.as_str().unwrap(), t.as_i64().unwrap()));
    match k {
        "cmp" => {
            let (c, l) = (col(&p["c"]), lit(&p["lt"], &p["l"]));
            let (left, right) = if flag(&p["flip"]) { (l, c) } else { (c, l) };
            Expr::BinaryExpr { left: Box::new(left), op: binop(p["op"].as_str().unwrap()), right: Box::new(right) }
        }
        "btw" => Expr::Between {
            expr: Box::new(col(&p["c"])),
            low: Box::new(lit(&p["lt"], &p["l"])),
            high: Box::new(lit(&p["lt"], &p["l2"])),
            negated: flag(&p["neg"]),
        },
        "in" => Expr::InList {
            expr: Box::new(col(&p["c"])),
            list: p["ls"].as_array().unwrap().iter().map(|t| lit(&p["lt"], t)).collect(),
            negated: flag(&p["neg"]),
        },
        "not" => Expr::UnaryExpr { op: UnaryOp::Not, expr: Box::new(build_expr(&p["a"], conc)) },
        "and" | "or" => Expr::BinaryExpr {
            left: Box::new(build_expr(&p["a"], conc)),
            op: if k == "and" { BinaryOp::And } else { BinaryOp::Or },
            right: Box::new(build_expr(&p["b"], conc)),
        },
        other => panic!("harness: unknown predicate kind {other}"),
    }
}

fn sql_of(p: &Value, conc: &Conc) -> Option<String> {
    let k = p["k"].as_str().unwrap();
    let sop = |op: &str| match op {
        "eq" => "=",
        "ne" => "<>",
        "lt" => "<",
        "le" => "<=",
        "gt" => ">",
        _ => ">=",
    };
    Some(match k {
        "cmp" => {
            let l = conc.sql_literal(p["lt"].as_str().unwrap(), p["l"].as_i64().unwrap())?;
            let c = colname(&p["c"]);
            let o = sop(p["op"].as_str().unwrap());
            if flag(&p["flip"]) { format!("({l} {o} {c})") } else { format!("({c} {o} {l})") }
        }
        "btw" => format!(
            "({} {}BETWEEN {} AND {})",
            colname(&p["c"]),
            if flag(&p["neg"]) { "NOT " } else { "" },
            conc.sql_literal(p["lt"].as_str().unwrap(), p["l"].as_i64().unwrap())?,
            conc.sql_literal(p["lt"].as_str().unwrap(), p["l2"].as_i64().unwrap())?
        ),
        "in" => {
            let items: Option<Vec<String>> =
                p["ls"].as_array().unwrap().iter().map(|t| conc.sql_literal(p["lt"].as_str().unwrap(), t.as_i64().unwrap())).collect();
            format!("({} {}IN ({}))", colname(&p["c"]), if flag(&p["neg"]) { "NOT " } else { "" }, items?.join(", "))
        }
        "not" => format!("(NOT {})", sql_of(&p["a"], conc)?),
        "and" => format!("({} AND {})", sql_of(&p["a"], conc)?, sql_of(&p["b"], conc)?),
        "or" => format!("({} OR {})", sql_of(&p["a"], conc)?, sql_of(&p["b"], conc)?),
        _ => return None,
    })
}

fn schema_of(conc: &Conc) -> SchemaRef {
    Arc::new(Schema::new(vec![
        Field::new("a", conc.dtype(), true),
        Field::new("b", conc.dtype(), true),
        Field::new("id", DataType::Int64, false),
    ]))
}

fn rg_batch(conc: &Conc, schema: &SchemaRef, gi: usize, rows: &[Value]) -> RecordBatch {
    let a: Vec<i64> = rows.iter().map(|r| r[0].as_i64().unwrap()).collect();
    let b: Vec<i64> = rows.iter().map(|r| r[1].as_i64().unwrap()).collect();
    let ids: Vec<i64> = (0..rows.len()).map(|r| gi as i64 * 100 + r as i64).collect();
    RecordBatch::try_new(schema.clone(), vec![conc.array(&a), conc.array(&b), Arc::new(Int64Array::from(ids))]).unwrap()
}

fn write_table(path: &Path, batches: &[RecordBatch], schema: &SchemaRef, wstats: &str) {
    if path.exists() {
        panic!("harness: path {} would be rewritten (footer cache is keyed by path+mtime)", path.display());
    }
    std::fs::create_dir_all(path.parent().unwrap()).unwrap();
    let mut b = WriterProperties::builder().set_max_row_group_size(1 << 20);
    b = match wstats {
        "none" => b.set_statistics_enabled(EnabledStatistics::None),
        "chunk" => b.set_statistics_enabled(EnabledStatistics::Chunk),
        "notrunc" => b.set_statistics_enabled(EnabledStatistics::Page).set_statistics_truncate_length(None),
        "nodict" => b.set_statistics_enabled(EnabledStatistics::Page).set_dictionary_enabled(false),
        _ => b.set_statistics_enabled(EnabledStatistics::Page),
    };
    let f = std::fs::File::create(path).unwrap();
    let mut w = ArrowWriter::try_new(f, schema.clone(), Some(b.build())).unwrap();
    for batch in batches {
        w.write(batch).unwrap();
        w.flush().unwrap(); // one row group per content
    }
    w.close().unwrap();
}

fn stat_json(conc: &Conc, st: Option<&Statistics>) -> Value {
    let Some(st) = st else { return json!({"st": 0}) };
    let nulls = st.null_count_opt().map(|n| n as i64).unwrap_or(-1);
    let (has, mn, mx, txt) = match st {
        Statistics::Int32(s) => match (s.min_opt(), s.max_opt()) {
            (Some(a), Some(b)) => (1, conc.tok_of_i(*a as i64), conc.tok_of_i(*b as i64), format!("{a}..{b}")),
            _ => (0, 0, 0, String::new()),
        },
        Statistics::Int64(s) => match (s.min_opt(), s.max_opt()) {
            (Some(a), Some(b)) => (1, conc.tok_of_i(*a), conc.tok_of_i(*b), format!("{a}..{b}")),
            _ => (0, 0, 0, String::new()),
        },
        Statistics::Double(s) => match (s.min_opt(), s.max_opt()) {
            (Some(a), Some(b)) => (1, conc.tok_of_f(*a), conc.tok_of_f(*b), format!("{a:?}..{b:?}")),
            _ => (0, 0, 0, String::new()),
        },
        Statistics::ByteArray(s) => match (s.min_opt(), s.max_opt()) {
            (Some(a), Some(b)) => (1, conc.tok_of_s(a.data()), conc.tok_of_s(b.data()),
                                   format!("{}..{}", String::from_utf8_lossy(a.data()), String::from_utf8_lossy(b.data()))),
            _ => (0, 0, 0, String::new()),
        },
        _ => (0, 0, 0, "other".to_string()),
    };
    json!({"st": 1, "has": has, "min": mn, "max": mx, "nulls": nulls, "txt": txt})
}

fn verdicts(arr: &ArrayRef) -> String {
    match arr.as_any().downcast_ref::<BooleanArray>() {
        None => "E".repeat(arr.len()),
        Some(b) => (0..b.len()).map(|i| if b.is_null(i) { 'N' } else if b.value(i) { '1' } else { '0' }).collect(),
    }
}

fn ids_of(batches: &[RecordBatch]) -> Vec<i64> {
    let mut out = Vec::new();
    for b in batches {
        let idx = b.schema().index_of("id").expect("id column");
        let a = b.column(idx).as_any().downcast_ref::<Int64Array>().expect("id is int64").clone();
        out.extend(a.values().iter().copied());
    }
    out.sort_unstable();
    out
}

fn bits(n: usize, set: &[usize]) -> String {
    (0..n).map(|i| if set.contains(&i) { '1' } else { '0' }).collect()
}

fn sql_ids(rt: &tokio::runtime::Runtime, ctx: &query_engine::ExecutionContext, sql: &str) -> Value {
    let s = sql.to_string();
    match catch(std::panic::AssertUnwindSafe(|| rt.block_on(ctx.sql(&s)))) {
        Ok(Ok(r)) => json!({"ok": 1, "ids": ids_of(&r.batches)}),
        Ok(Err(e)) => json!({"ok": 0, "err": e.to_string().chars().take(200).collect::<String>()}),
        Err(p) => json!({"ok": 0, "panic": 1, "err": p.chars().take(200).collect::<String>()}),
    }
}

/// `SELECT COUNT(*), SUM(id) ...`: one row of integers (NULL -> null)
fn sql_agg(rt: &tokio::runtime::Runtime, ctx: &query_engine::ExecutionContext, sql: &str) -> Value {
    let s = sql.to_string();
    match catch(std::panic::AssertUnwindSafe(|| rt.block_on(ctx.sql(&s)))) {
        Ok(Ok(r)) => {
            let mut rows = Vec::new();
            for b in &r.batches {
                for i in 0..b.num_rows() {
                    let row: Vec<Value> = (0..b.num_columns())
                        .map(|c| {
                            let col = b.column(c);
                            if col.is_null(i) {
                                Value::Null
                            } else if let Some(a) = col.as_any().downcast_ref::<Int64Array>() {
                                json!(a.value(i))
                            } else {
                                json!(arrow::util::display::array_value_to_string(col, i).unwrap_or_default())
                            }
                        })
                        .collect();
                    rows.push(Value::Array(row));
                }
            }
            json!({"ok": 1, "rows": rows})
        }
        Ok(Err(e)) => json!({"ok": 0, "err": e.to_string().chars().take(200).collect::<String>()}),
        Err(p) => json!({"ok": 0, "panic": 1, "err": p.chars().take(200).collect::<String>()}),
    }
}

pub fn replay(a: &[String]) -> i32 {
    quiet_panics();
    if a.len() < 3 {
        eprintln!("usage: qev prune-replay <groups.ndjson> <out.ndjson> <workdir>");
        return 2;
    }
    let groups = read_ndjson(&a[0]);
    let mut out = Out::create(&a[1]);
    let work = PathBuf::from(&a[2]);
    let rt = tokio::runtime::Builder::new_multi_thread().worker_threads(2).enable_all().build().unwrap();
    for g in groups {
        let gid = g["gid"].as_i64().unwrap();
        let conc = conc_of(g["type"].as_str().unwrap(), g["conc"].as_str().unwrap());
        let wstats = g["wstats"].as_str().unwrap_or("page");
        let schema = schema_of(&conc);
        let rgs = g["rgs"].as_array().unwrap();
        let batches: Vec<RecordBatch> = rgs.iter().enumerate().map(|(gi, r)| rg_batch(&conc, &schema, gi, r.as_array().unwrap())).collect();
        let dir = work.join(format!("g{gid}-{}", std::process::id()));
        let _ = std::fs::remove_dir_all(&dir);
        let path = dir.join("t.parquet");
        write_table(&path, &batches, &schema, wstats);

        // the REAL footer + the rows decoded back from the file (not the batches we wrote)
        let builder = ParquetRecordBatchReaderBuilder::try_new(std::fs::File::open(&path).unwrap()).unwrap();
        let metadata = builder.metadata().clone();
        let file_schema = builder.schema().clone();
        let nrg = metadata.num_row_groups();
        if nrg != rgs.len() {
            panic!("harness: wrote {} row groups, footer has {nrg}", rgs.len());
        }
        let decoded: Vec<RecordBatch> = (0..nrg)
            .map(|i| {
                let b = ParquetRecordBatchReaderBuilder::try_new(std::fs::File::open(&path).unwrap()).unwrap();
                let bs: Vec<RecordBatch> = b.with_row_groups(vec![i]).build().unwrap().map(|x| x.unwrap()).collect();
                arrow::compute::concat_batches(&file_schema, &bs).unwrap()
            })
            .collect();
        let stats: Vec<Value> = (0..nrg)
            .map(|i| {
                let rg = metadata.row_group(i);
                json!({"rows": rg.num_rows(), "a": stat_json(&conc, rg.column(0).statistics()), "b": stat_json(&conc, rg.column(1).statistics())})
            })
            .collect();

        let table = query_engine::ParquetTable::try_new(&path).expect("ParquetTable::try_new");
        let e2e_sel: Vec<usize> = g["e2e"].as_array().map(|v| v.iter().map(|x| x.as_u64().unwrap() as usize).collect()).unwrap_or_default();
        let want_mw = flag(&g["mw"]);
        let want_api = flag(&g["api"]);
        let mut pq_ctx = query_engine::ExecutionContext::new();
        let mut mem_ctx = query_engine::ExecutionContext::new();
        if !e2e_sel.is_empty() {
            pq_ctx.register_parquet("t", &path).expect("register_parquet");
            mem_ctx.register_table("t", file_schema.clone(), decoded.clone());
        }

        let mut res = Vec::new();
        for (pi, p) in g["preds"].as_array().unwrap().iter().enumerate() {
            let expr = build_expr(p, &conc);
            let mut rec = json!({});
            // 1. the public pruning functions on the real footer
            let e1 = expr.clone();
            let (md, fs) = (metadata.clone(), file_schema.clone());
            match catch(std::panic::AssertUnwindSafe(move || {
                let kept = prune_row_groups(&md, &fs, Some(&e1));
                let might: Vec<usize> = (0..md.num_row_groups()).filter(|&i| row_group_might_match(&e1, md.row_group(i), &fs)).collect();
                let def: Vec<usize> = (0..md.num_row_groups()).filter(|&i| row_group_definitely_matches(&e1, md.row_group(i), &fs)).collect();
                (kept, might, def)
            })) {
                Ok((kept, might, def)) => {
                    rec["kept"] = json!(bits(nrg, &kept));
                    rec["def"] = json!(bits(nrg, &def));
                    if kept != might {
                        rec["might"] = json!(bits(nrg, &might));
                    }
                }
                Err(m) => rec["panic"] = json!(format!("pruning panicked: {m}")),
            }
            // 2. the engine's own evaluator on every decoded row group
            let mut ev = Vec::new();
            let mut everr = Value::Null;
            for b in &decoded {
                let (b2, e2) = (b.clone(), expr.clone());
                match catch(std::panic::AssertUnwindSafe(move || evaluate_expr(&b2, &e2))) {
                    Ok(Ok(arr)) => ev.push(verdicts(&arr)),
                    Ok(Err(e)) => {
                        everr = json!(e.to_string().chars().take(160).collect::<String>());
                        ev.push("E".repeat(b.num_rows()));
                    }
                    Err(m) => {
                        everr = json!(format!("panic: {m}"));
                        ev.push("P".repeat(b.num_rows()));
                    }
                }
            }
            rec["ev"] = json!(ev);
            if !everr.is_null() {
                rec["everr"] = everr;
            }
            // 3. the real consumer: what the morsel source queues and delivers
            if want_mw {
                let (e3, fs, pth) = (expr.clone(), file_schema.clone(), path.clone());
                match catch(std::panic::AssertUnwindSafe(move || -> Result<(Vec<usize>, Vec<usize>, Vec<i64>), String> {
                    let src = ParallelParquetSource::try_new_with_filter(vec![pth], fs, None, 8192, Some(&e3)).map_err(|e| e.to_string())?;
                    let (mut k, mut d, mut got) = (Vec::new(), Vec::new(), Vec::new());
                    while let Some(w) = src.get_work() {
                        k.push(w.row_group_idx);
                        if w.filter_all_true {
                            d.push(w.row_group_idx);
                        }
                        let bs = src.read_row_group(&w).map_err(|e| e.to_string())?;
                        got.extend(ids_of(&bs));
                    }
                    got.sort_unstable();
                    Ok((k, d, got))
                })) {
                    Ok(Ok((k, d, got))) => {
                        rec["mw_kept"] = json!(bits(nrg, &k));
                        rec["mw_def"] = json!(bits(nrg, &d));
                        rec["mw_ids"] = json!(got);
                    }
                    Ok(Err(e)) => rec["mw_err"] = json!(e.chars().take(160).collect::<String>()),
                    Err(m) => rec["mw_panic"] = json!(m),
                }
            }
            // 4. provider API end to end: scan_with_filter + FilterExec's re-check, vs memory
            if want_api {
                let (e4, dec) = (expr.clone(), decoded.clone());
                let tref = &table;
                match catch(std::panic::AssertUnwindSafe(move || -> Result<(Vec<i64>, Vec<i64>), String> {
                    let scanned = tref.scan_with_filter(None, Some(&e4)).map_err(|e| e.to_string())?;
                    let pq = filter_batches(scanned, &e4).map_err(|e| e.to_string())?;
                    let mem = filter_batches(dec, &e4).map_err(|e| e.to_string())?;
                    Ok((ids_of(&pq), ids_of(&mem)))
                })) {
                    Ok(Ok((pq, mem))) => {
                        if pq != mem {
                            rec["api_pq"] = json!(pq);
                            rec["api_mem"] = json!(mem);
                        }
                        rec["api"] = json!(if pq == mem { 1 } else { 0 });
                    }
                    Ok(Err(e)) => rec["api_err"] = json!(e.chars().take(160).collect::<String>()),
                    Err(m) => rec["api_panic"] = json!(m),
                }
            }
            // 5. SQL end to end
            if e2e_sel.contains(&pi) {
                if let Some(w) = sql_of(p, &conc) {
                    let sql = format!("SELECT id FROM t WHERE {w}");
                    rec["sql"] = json!(sql);
                    rec["sql_pq"] = sql_ids(&rt, &pq_ctx, &sql);
                    rec["sql_mem"] = sql_ids(&rt, &mem_ctx, &sql);
                    let agg = format!("SELECT COUNT(*), SUM(id) FROM t WHERE {w}");
                    rec["agg_pq"] = sql_agg(&rt, &pq_ctx, &agg);
                    rec["agg_mem"] = sql_agg(&rt, &mem_ctx, &agg);
                }
            }
            res.push(rec);
        }
        out.put(&json!({"gid": gid, "stats": stats, "res": res, "tables": tables(&conc)}));
        drop(pq_ctx);
        drop(mem_ctx);
        let _ = std::fs::remove_dir_all(&dir);
    }
    out.finish();
    0
}
