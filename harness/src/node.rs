//! C35 / C34 — the node's SQL front door (HTTP `/sql`, `/fragment`, `/readyz` and Arrow Flight)
//! exercised on REAL in-process nodes started with `query_engine::distributed::spawn`.
//!
//! `node-replay <in.ndjson> <out.ndjson> <workdir> [jobs] [corrupt] [npeers]`
//!   in : one history per line {"id", "steps":[step..]}; steps are the actions of spec/FrontDoor.tla
//!        (LoadDone, LoadFail, Resolve, ProbeUp, ProbeDown, Tick, PeerDies, Drain, Req).
//!   out: the same history with an "obs" object per step: what the real node did, projected to the
//!        spec's observables (outcome class inputs, headers, decoded rows vs the engine's own rows,
//!        fragment counters of the peers, the node state as the public accessors show it).
//!   Nothing is judged here: TLC (FrontDoorTrace.tla) judges the records.
//!
//! The node under test (NUT) gets a TableLoader that blocks on a channel (observable not-ready
//! window) or fails, a discovery source that cannot resolve (observable unresolved window) and an
//! hour-long discovery interval, so its membership changes only when the history says so:
//! through the node's own public `Membership` (set_members / record_up / record_down — the calls
//! the discovery loop makes) or through `ServerHandle::set_peers` + the real loop (Tick).
//! Peers are real nodes with the same Parquet files; a peer "dies" by `ServerHandle::shutdown`.
//! Expected rows are the engine's own: the same SQL on a plain `ExecutionContext`.
use crate::util::*;
use arrow::array::*;
use arrow::datatypes::{DataType, Field, Schema, SchemaRef};
use arrow::record_batch::RecordBatch;
use arrow_flight::client::FlightClient;
use arrow_flight::decode::DecodedPayload;
use arrow_flight::error::FlightError;
use arrow_flight::{FlightDescriptor, Ticket};
use futures::{StreamExt, TryStreamExt};
use query_engine::distributed::{
    assign_lpt, http_client, spawn, splits_of, FragmentRequest, NodeState, PeerStatus, ServeOptions, ServerHandle,
    TableLoader,
};
use query_engine::error::QueryError;
use query_engine::ExecutionContext;
use serde_json::{json, Value};
use std::collections::HashMap;
use std::path::{Path, PathBuf};
use std::sync::Arc;
use std::time::{Duration, Instant};

const HTTP_TIMEOUT: Duration = Duration::from_secs(120);
const WAIT: Duration = Duration::from_secs(60);
const BAD_DNS: &str = "qev unresolvable name.invalid";
pub const BIG_ROWS: i64 = 10_000;

// ------------------------------------------------------------------------------------------
// data

const NASTY: [&str; 12] = [
    "plain",
    "with,comma",
    "with \"quote\"",
    "line1\nline2",
    "na\u{ef}ve caf\u{e9} \u{2603}",
    "  spaced  ",
    "tab\there",
    "'single'",
    "{\"json\": [1, null]}",
    "back\\slash",
    "crlf\r\nend",
    "",
];

fn t_batch() -> RecordBatch {
    let n = 48i64;
    let a: Vec<i64> = (0..n).collect();
    let g: Vec<Option<i64>> = (0..n).map(|i| if i % 11 == 5 { None } else { Some(i % 4) }).collect();
    let b: Vec<Option<&str>> = (0..n).map(|i| if i % 7 == 3 { None } else { Some(NASTY[(i as usize) % NASTY.len()]) }).collect();
    let c: Vec<Option<f64>> = (0..n).map(|i| if i % 5 == 4 { None } else { Some(i as f64 * 0.25 - 3.0) }).collect();
    let schema = Arc::new(Schema::new(vec![
        Field::new("a", DataType::Int64, false),
        Field::new("g", DataType::Int64, true),
        Field::new("b", DataType::Utf8, true),
        Field::new("c", DataType::Float64, true),
    ]));
    RecordBatch::try_new(
        schema,
        vec![
            Arc::new(Int64Array::from(a)),
            Arc::new(Int64Array::from(g)),
            Arc::new(StringArray::from(b)),
            Arc::new(Float64Array::from(c)),
        ],
    )
    .unwrap()
}

fn big_batch() -> RecordBatch {
    let n = BIG_ROWS;
    let k: Vec<i64> = (0..n).collect();
    let v: Vec<i64> = (0..n).map(|i| (i * 7) % 1000).collect();
    let s: Vec<Option<String>> = (0..n).map(|i| if i % 13 == 6 { None } else { Some(format!("s{i}")) }).collect();
    let schema = Arc::new(Schema::new(vec![
        Field::new("k", DataType::Int64, false),
        Field::new("v", DataType::Int64, false),
        Field::new("s", DataType::Utf8, true),
    ]));
    RecordBatch::try_new(
        schema,
        vec![Arc::new(Int64Array::from(k)), Arc::new(Int64Array::from(v)), Arc::new(StringArray::from(s))],
    )
    .unwrap()
}

fn write_parquet(path: &Path, batch: &RecordBatch, rg_rows: usize) {
    let props = parquet::file::properties::WriterProperties::builder().set_max_row_group_size(rg_rows).build();
    let f = std::fs::File::create(path).unwrap_or_else(|e| panic!("create {}: {e}", path.display()));
    let mut w = parquet::arrow::ArrowWriter::try_new(f, batch.schema(), Some(props)).unwrap();
    w.write(batch).unwrap();
    w.close().unwrap();
}

#[derive(Clone)]
struct Data {
    t: String,
    big: String,
}

fn make_data(work: &Path) -> Data {
    let dir = work.join(format!("data-{}", std::process::id()));
    let _ = std::fs::remove_dir_all(&dir);
    std::fs::create_dir_all(&dir).unwrap();
    let t = dir.join("t.parquet");
    let big = dir.join("big.parquet");
    write_parquet(&t, &t_batch(), 8);
    write_parquet(&big, &big_batch(), 2500);
    Data { t: t.to_string_lossy().into_owned(), big: big.to_string_lossy().into_owned() }
}

fn load_ctx(d: &Data) -> Result<ExecutionContext, QueryError> {
    let mut c = ExecutionContext::new();
    c.register_parquet("t", &d.t)?;
    c.register_parquet("big", &d.big)?;
    Ok(c)
}

// ------------------------------------------------------------------------------------------
// rows

#[derive(Clone, Debug, PartialEq, Eq, PartialOrd, Ord, Hash)]
enum Cell {
    Null,
    I(i64),
    F(u64),
    S(String),
    B(bool),
    O(String),
}
type Row = Vec<Cell>;

fn fbits(x: f64) -> u64 {
    if x == 0.0 {
        0
    } else {
        x.to_bits()
    }
}

/// 'i' integer, 'f' float, 's' string, 'b' bool, 'o' anything else (compared through its display form)
fn tclass(dt: &DataType) -> char {
    match dt {
        DataType::Int8 | DataType::Int16 | DataType::Int32 | DataType::Int64 => 'i',
        DataType::UInt8 | DataType::UInt16 | DataType::UInt32 | DataType::UInt64 => 'i',
        DataType::Float16 | DataType::Float32 | DataType::Float64 => 'f',
        DataType::Utf8 | DataType::LargeUtf8 | DataType::Utf8View => 's',
        DataType::Boolean => 'b',
        _ => 'o',
    }
}

fn rows_of(batches: &[RecordBatch]) -> Vec<Row> {
    let mut out = Vec::new();
    for b in batches {
        let cols: Vec<Vec<Cell>> = b.columns().iter().map(|c| cells_of(c)).collect();
        for r in 0..b.num_rows() {
            out.push(cols.iter().map(|c| c[r].clone()).collect());
        }
    }
    out
}

fn cells_of(col: &ArrayRef) -> Vec<Cell> {
    use arrow::compute::cast;
    let n = col.len();
    let null = |i: usize| col.is_null(i);
    match tclass(col.data_type()) {
        'i' => {
            let c = cast(col, &DataType::Int64).expect("cast to i64");
            let a = c.as_any().downcast_ref::<Int64Array>().unwrap();
            (0..n).map(|i| if null(i) { Cell::Null } else { Cell::I(a.value(i)) }).collect()
        }
        'f' => {
            let c = cast(col, &DataType::Float64).expect("cast to f64");
            let a = c.as_any().downcast_ref::<Float64Array>().unwrap();
            (0..n).map(|i| if null(i) { Cell::Null } else { Cell::F(fbits(a.value(i))) }).collect()
        }
        's' => {
            let c = cast(col, &DataType::Utf8).expect("cast to utf8");
            let a = c.as_any().downcast_ref::<StringArray>().unwrap();
            (0..n).map(|i| if null(i) { Cell::Null } else { Cell::S(a.value(i).to_string()) }).collect()
        }
        'b' => {
            let a = col.as_any().downcast_ref::<BooleanArray>().unwrap();
            (0..n).map(|i| if null(i) { Cell::Null } else { Cell::B(a.value(i)) }).collect()
        }
        _ => {
            let f = arrow::util::display::ArrayFormatter::try_new(col.as_ref(), &Default::default()).expect("formatter");
            (0..n).map(|i| if null(i) { Cell::Null } else { Cell::O(f.value(i).to_string()) }).collect()
        }
    }
}

fn schema_sig(s: &Schema) -> Vec<(String, String)> {
    s.fields().iter().map(|f| (f.name().clone(), format!("{}", f.data_type()))).collect()
}

/// CSV cannot tell NULL from the empty string: `lenient` identifies them.
fn cell_eq(a: &Cell, b: &Cell, lenient: bool) -> bool {
    if a == b {
        return true;
    }
    if lenient {
        let e = |c: &Cell| matches!(c, Cell::Null) || matches!(c, Cell::S(s) if s.is_empty());
        return e(a) && e(b);
    }
    false
}

fn norm(rows: &[Row], lenient: bool) -> Vec<Row> {
    rows.iter()
        .map(|r| r.iter().map(|c| if lenient && matches!(c, Cell::S(s) if s.is_empty()) { Cell::Null } else { c.clone() }).collect())
        .collect()
}

/// sequence equality when `ordered`, bag equality otherwise; returns a short difference description
fn rows_diff(expect: &[Row], got: &[Row], ordered: bool, lenient: bool) -> Option<String> {
    if expect.len() != got.len() {
        return Some(format!("{} rows expected, {} decoded", expect.len(), got.len()));
    }
    let mut e = norm(expect, lenient);
    let mut g = norm(got, lenient);
    if !ordered {
        e.sort();
        g.sort();
    }
    for (i, (x, y)) in e.iter().zip(g.iter()).enumerate() {
        if x.len() != y.len() || !x.iter().zip(y.iter()).all(|(p, q)| cell_eq(p, q, lenient)) {
            return Some(format!("row {i}{}: expected {:?}, decoded {:?}", if ordered { "" } else { " (sorted)" }, x, y));
        }
    }
    None
}

// ---- decoders -------------------------------------------------------------------------------

fn decode_ipc(body: &[u8]) -> Result<(SchemaRef, Vec<RecordBatch>), String> {
    let r = arrow::ipc::reader::StreamReader::try_new(std::io::Cursor::new(body), None).map_err(|e| format!("ipc: {e}"))?;
    let schema = r.schema();
    let mut out = Vec::new();
    for b in r {
        out.push(b.map_err(|e| format!("ipc batch: {e}"))?);
    }
    Ok((schema, out))
}

fn decode_json(body: &[u8], names: &[String], types: &[char]) -> Result<Vec<Row>, String> {
    let v: Value = serde_json::from_slice(body).map_err(|e| format!("json: {e}"))?;
    let arr = v.as_array().ok_or("json: body is not an array")?;
    let mut out = Vec::with_capacity(arr.len());
    for (ri, o) in arr.iter().enumerate() {
        let o = o.as_object().ok_or_else(|| format!("json: row {ri} is not an object"))?;
        for k in o.keys() {
            if !names.iter().any(|n| n == k) {
                return Err(format!("json: row {ri} has a key {k:?} that is not a result column"));
            }
        }
        let mut row = Vec::with_capacity(names.len());
        for (n, t) in names.iter().zip(types.iter()) {
            let cell = match o.get(n) {
                None | Some(Value::Null) => Cell::Null,
                Some(x) => match t {
                    'i' => x.as_i64().map(Cell::I).ok_or_else(|| format!("json: row {ri} column {n}: {x} is not an integer"))?,
                    'f' => x.as_f64().map(|f| Cell::F(fbits(f))).ok_or_else(|| format!("json: row {ri} column {n}: {x} is not a number"))?,
                    's' => x.as_str().map(|s| Cell::S(s.to_string())).ok_or_else(|| format!("json: row {ri} column {n}: {x} is not a string"))?,
                    'b' => x.as_bool().map(Cell::B).ok_or_else(|| format!("json: row {ri} column {n}: {x} is not a boolean"))?,
                    _ => Cell::O(x.as_str().map(|s| s.to_string()).unwrap_or_else(|| x.to_string())),
                },
            };
            row.push(cell);
        }
        out.push(row);
    }
    Ok(out)
}

/// RFC 4180 reader: records of fields; quoted fields may hold commas, quotes ("") and line breaks.
pub fn csv_records(body: &[u8]) -> Result<Vec<Vec<String>>, String> {
    let text = std::str::from_utf8(body).map_err(|e| format!("csv: not utf-8: {e}"))?;
    let cs: Vec<char> = text.chars().collect();
    let mut recs = Vec::new();
    let mut rec: Vec<String> = Vec::new();
    let mut field = String::new();
    let mut i = 0;
    let mut at_field_start = true;
    let mut any = false;
    while i < cs.len() {
        let c = cs[i];
        if at_field_start && c == '"' {
            // quoted field
            i += 1;
            loop {
                if i >= cs.len() {
                    return Err("csv: unterminated quoted field".into());
                }
                if cs[i] == '"' {
                    if i + 1 < cs.len() && cs[i + 1] == '"' {
                        field.push('"');
                        i += 2;
                    } else {
                        i += 1;
                        break;
                    }
                } else {
                    field.push(cs[i]);
                    i += 1;
                }
            }
            at_field_start = false;
            any = true;
            if i < cs.len() && cs[i] != ',' && cs[i] != '\n' && cs[i] != '\r' {
                return Err(format!("csv: garbage after closing quote at char {i}"));
            }
            continue;
        }
        match c {
            ',' => {
                rec.push(std::mem::take(&mut field));
                at_field_start = true;
                any = true;
                i += 1;
            }
            '\r' if i + 1 < cs.len() && cs[i + 1] == '\n' => {
                rec.push(std::mem::take(&mut field));
                recs.push(std::mem::take(&mut rec));
                at_field_start = true;
                any = false;
                i += 2;
            }
            '\n' => {
                rec.push(std::mem::take(&mut field));
                recs.push(std::mem::take(&mut rec));
                at_field_start = true;
                any = false;
                i += 1;
            }
            '"' => return Err(format!("csv: quote inside an unquoted field at char {i}")),
            _ => {
                field.push(c);
                at_field_start = false;
                any = true;
                i += 1;
            }
        }
    }
    if any || !field.is_empty() || !rec.is_empty() {
        rec.push(field);
        recs.push(rec);
    }
    Ok(recs)
}

fn decode_csv(body: &[u8], names: &[String], types: &[char]) -> Result<(Vec<Row>, bool), String> {
    let recs = csv_records(body)?;
    if recs.is_empty() {
        return Ok((Vec::new(), true));
    }
    let header_ok = recs[0] == names;
    let mut out = Vec::with_capacity(recs.len() - 1);
    for (ri, r) in recs[1..].iter().enumerate() {
        if r.len() != names.len() {
            return Err(format!("csv: record {ri} has {} fields, the result has {} columns", r.len(), names.len()));
        }
        let mut row = Vec::with_capacity(r.len());
        for (f, t) in r.iter().zip(types.iter()) {
            let cell = match t {
                's' => Cell::S(f.clone()),
                _ if f.is_empty() => Cell::Null,
                'i' => f.parse::<i64>().map(Cell::I).map_err(|_| format!("csv: record {ri}: {f:?} is not an integer"))?,
                'f' => f.parse::<f64>().map(|x| Cell::F(fbits(x))).map_err(|_| format!("csv: record {ri}: {f:?} is not a number"))?,
                'b' => match f.as_str() {
                    "true" => Cell::B(true),
                    "false" => Cell::B(false),
                    _ => return Err(format!("csv: record {ri}: {f:?} is not a boolean")),
                },
                _ => Cell::O(f.clone()),
            };
            row.push(cell);
        }
        out.push(row);
    }
    Ok((out, header_ok))
}

// ------------------------------------------------------------------------------------------
// reference: the engine's own rows

enum RefRes {
    Rows { names: Vec<String>, types: Vec<char>, sig: Vec<(String, String)>, rows: Vec<Row> },
    Err { kind: &'static str, msg: String },
}

fn err_kind(e: &QueryError) -> &'static str {
    match e {
        QueryError::Parse(_) | QueryError::Bind(_) | QueryError::Type(_) | QueryError::Plan(_) => "invalid",
        QueryError::TableNotFound(_) | QueryError::ColumnNotFound(_) => "notfound",
        QueryError::NotImplemented(_) => "unimpl",
        _ => "internal",
    }
}

struct Reference {
    ctx: ExecutionContext,
    cache: tokio::sync::Mutex<HashMap<String, Arc<RefRes>>>,
}

impl Reference {
    async fn get(&self, sql: &str) -> Arc<RefRes> {
        let mut c = self.cache.lock().await;
        if let Some(r) = c.get(sql) {
            return r.clone();
        }
        let r = match self.ctx.sql(sql).await {
            Ok(q) => {
                let schema = q.batches.first().map(|b| b.schema()).unwrap_or_else(|| q.schema.clone());
                RefRes::Rows {
                    names: schema.fields().iter().map(|f| f.name().clone()).collect(),
                    types: schema.fields().iter().map(|f| tclass(f.data_type())).collect(),
                    sig: schema_sig(&schema),
                    rows: rows_of(&q.batches),
                }
            }
            Err(e) => RefRes::Err { kind: err_kind(&e), msg: e.to_string() },
        };
        let r = Arc::new(r);
        c.insert(sql.to_string(), r.clone());
        r
    }
}

// ------------------------------------------------------------------------------------------
// nodes

struct Node {
    handle: Option<ServerHandle>,
    state: Arc<NodeState>,
    addr: String,
    flight_addr: Option<std::net::SocketAddr>,
    load_tx: Option<std::sync::mpsc::Sender<bool>>,
    flight: Option<FlightClient>,
    alive: bool,
}

fn isolate_env() {
    std::env::remove_var("QE_ADVERTISE_ADDR");
    std::env::remove_var("QE_NODE_ID");
    std::env::remove_var("POD_IP");
}

async fn wait_until(what: &str, mut f: impl FnMut() -> bool) -> Result<(), String> {
    let t0 = Instant::now();
    while !f() {
        if t0.elapsed() > WAIT {
            return Err(format!("timeout waiting for {what}"));
        }
        tokio::time::sleep(Duration::from_millis(2)).await;
    }
    Ok(())
}

async fn spawn_nut(data: &Data, drain: bool) -> Result<Node, String> {
    let (tx, rx) = std::sync::mpsc::channel::<bool>();
    let d = data.clone();
    let loader: TableLoader = Box::new(move || match rx.recv() {
        Ok(true) => load_ctx(&d),
        Ok(false) => Err(QueryError::Execution("qev: deliberate load failure".into())),
        Err(_) => Err(QueryError::Execution("qev: history ended while loading".into())),
    });
    let opts = ServeOptions {
        bind: "127.0.0.1:0".into(),
        node_id: Some(100),
        peers_dns: Some(BAD_DNS.into()),
        peers_dns_port: Some(1),
        discovery_interval: Duration::from_secs(3600),
        probe_timeout: Duration::from_secs(5),
        drain: if drain { Duration::from_secs(45) } else { Duration::ZERO },
        shutdown_grace: Duration::from_secs(1),
        ..Default::default()
    };
    let h = spawn(opts, loader).await.map_err(|e| format!("spawn: {e}"))?;
    let state = h.state().clone();
    // the first (and only spontaneous) discovery pass must be over before the history drives membership
    {
        let st = state.clone();
        wait_until("first discovery pass", move || st.membership.last_resolve_error().is_some()).await?;
        tokio::time::sleep(Duration::from_millis(3)).await;
    }
    Ok(Node {
        addr: h.address().to_string(),
        flight_addr: h.flight_addr(),
        state,
        handle: Some(h),
        load_tx: Some(tx),
        flight: None,
        alive: true,
    })
}

async fn spawn_peer(data: &Data, id: u64) -> Result<Node, String> {
    let d = data.clone();
    let loader: TableLoader = Box::new(move || load_ctx(&d));
    let opts = ServeOptions {
        bind: "127.0.0.1:0".into(),
        node_id: Some(id),
        discovery_interval: Duration::from_secs(3600),
        probe_timeout: Duration::from_secs(5),
        shutdown_grace: Duration::from_secs(1),
        flight_bind: Some("none".into()),
        ..Default::default()
    };
    let h = spawn(opts, loader).await.map_err(|e| format!("spawn peer: {e}"))?;
    let state = h.state().clone();
    {
        let st = state.clone();
        wait_until("peer tables", move || st.tables_loaded() || st.load_error().is_some()).await?;
    }
    if let Some(e) = state.load_error() {
        return Err(format!("peer failed to load: {e}"));
    }
    Ok(Node { addr: h.address().to_string(), flight_addr: None, state, handle: Some(h), load_tx: None, flight: None, alive: true })
}

struct Cluster {
    nut: Node,
    peers: HashMap<i64, Node>,
    draining: bool,
    reserved: Vec<i32>,
}

fn load_of(s: &NodeState) -> &'static str {
    if s.tables_loaded() {
        "loaded"
    } else if s.load_error().is_some() {
        "failed"
    } else {
        "loading"
    }
}

fn snapshot(c: &Cluster, npeers: i64) -> Value {
    let members = c.nut.state.membership.members();
    let mut view = Vec::new();
    let mut alive = Vec::new();
    for p in 1..=npeers {
        let st = match c.peers.get(&p) {
            None => "absent",
            Some(n) => match members.iter().find(|m| !m.is_self && m.address == n.addr) {
                None => "absent",
                Some(m) => match m.status {
                    PeerStatus::Unknown => "unknown",
                    PeerStatus::Up => "up",
                    PeerStatus::Down => "down",
                },
            },
        };
        view.push(json!(st));
        alive.push(json!(if c.peers.get(&p).map(|n| n.alive).unwrap_or(true) { 1 } else { 0 }));
    }
    let extra = members.iter().filter(|m| !m.is_self && !c.peers.values().any(|n| n.addr == m.address)).count();
    json!({"load": load_of(&c.nut.state), "resolved": if c.nut.state.membership.resolved() { 1 } else { 0 },
           "view": view, "alive": alive, "draining": if c.draining { 1 } else { 0 }, "strangers": extra})
}

async fn qtotal(addr: &str) -> Result<i64, String> {
    let r = http_client::get(addr, "/cluster", HTTP_TIMEOUT).await.map_err(|e| format!("GET /cluster {addr}: {e}"))?;
    let v: Value = serde_json::from_slice(&r.body).map_err(|e| format!("/cluster json: {e}"))?;
    v["node"]["queries_total"].as_i64().ok_or_else(|| "no queries_total in /cluster".to_string())
}

/// (own queries_total, sum over alive peers)
async fn counters(c: &Cluster) -> Result<(i64, i64), String> {
    let own = qtotal(&c.nut.addr).await?;
    let mut sum = 0;
    for n in c.peers.values() {
        if n.alive {
            sum += qtotal(&n.addr).await?;
        }
    }
    Ok((own, sum))
}

// ------------------------------------------------------------------------------------------
// requests

struct Env {
    data: Data,
    reference: Reference,
    digest_t: u64,
    npeers: i64,
    corrupt: String,
}

fn mode_query(req: &Value) -> String {
    let mut q = Vec::new();
    let f = req["fmt_s"].as_str().unwrap_or("");
    if !f.is_empty() {
        q.push(format!("format={f}"));
    }
    let m = req["mode_s"].as_str().unwrap_or("");
    if !m.is_empty() {
        q.push(format!("distributed={m}"));
    }
    if req["swap"].as_i64().unwrap_or(0) == 1 {
        q.reverse();
    }
    if q.is_empty() {
        String::new()
    } else {
        format!("?{}", q.join("&"))
    }
}

fn err_text(body: &[u8]) -> String {
    serde_json::from_slice::<Value>(body)
        .ok()
        .and_then(|v| v.get("error").and_then(|e| e.as_str()).map(String::from))
        .unwrap_or_else(|| String::from_utf8_lossy(body).chars().take(200).collect())
}

fn nr_kind(text: &str) -> &'static str {
    if text.contains("still loading") {
        "loading"
    } else if text.contains("failed to load") {
        "failed"
    } else {
        "other"
    }
}

struct HttpOut {
    obs: Value,
    rows: Option<Vec<Row>>,
    sig: Option<Vec<(String, String)>>,
}

/// POST /sql and project the response.  `fmt`: the abstract format the response must be decoded as.
async fn http_sql(env: &Env, addr: &str, req: &Value, fmt: &str) -> Result<HttpOut, String> {
    let sql = req["sql"].as_str().unwrap_or("");
    let ordered = req["ordered"].as_i64().unwrap_or(0) == 1;
    let path = format!("/sql{}", mode_query(req));
    let r = http_client::post_text(addr, &path, sql, HTTP_TIMEOUT).await.map_err(|e| format!("POST {path}: {e}"))?;
    let mut o = json!({"status": r.status, "dist": -1, "reason": 0, "rows_hdr": -1, "rows_body": -1, "rows_eq": -1,
                       "body_ok": -1, "ref": "none", "ref_rows": -1, "nr": "", "shards": -1, "detail": "", "hdr_ok": -1,
                       "ctype": r.header("content-type").unwrap_or("")});
    match r.header("x-qe-distributed") {
        Some("true") => o["dist"] = json!(1),
        Some("false") => o["dist"] = json!(0),
        Some(_) => o["dist"] = json!(-2),
        None => {}
    }
    if let Some(v) = r.header("x-qe-distributed-skipped") {
        o["reason"] = json!(if v.trim().is_empty() { 0 } else { 1 });
        o["reason_text"] = json!(v.chars().take(120).collect::<String>());
    }
    if let Some(v) = r.header("x-qe-rows") {
        o["rows_hdr"] = json!(v.parse::<i64>().unwrap_or(-2));
    }
    if let Some(v) = r.header("x-qe-shards") {
        o["shards"] = json!(v.parse::<i64>().unwrap_or(-2));
    }
    let mut rows_out = None;
    let mut sig_out = None;
    let reference = env.reference.get(sql.trim()).await;
    match &*reference {
        RefRes::Err { kind, .. } => o["ref"] = json!(*kind),
        RefRes::Rows { rows, .. } => {
            o["ref"] = json!("ok");
            o["ref_rows"] = json!(rows.len());
        }
    }
    if r.status != 200 {
        let t = err_text(&r.body);
        if r.status == 503 {
            o["nr"] = json!(nr_kind(&t));
        }
        o["detail"] = json!(t.chars().take(240).collect::<String>());
        return Ok(HttpOut { obs: o, rows: None, sig: None });
    }
    // a 200: the body must decode to the engine's own rows
    match &*reference {
        RefRes::Err { kind, msg } => {
            o["ref"] = json!(*kind);
            o["detail"] = json!(format!("the engine itself fails this statement: {msg}").chars().take(240).collect::<String>());
            // still decode what can be decoded without a schema
            if fmt == "arrow" {
                if let Ok((_, b)) = decode_ipc(&r.body) {
                    o["rows_body"] = json!(b.iter().map(|x| x.num_rows()).sum::<usize>());
                }
            }
        }
        RefRes::Rows { names, types, sig, rows } => {
            o["ref"] = json!("ok");
            o["ref_rows"] = json!(rows.len());
            let decoded: Result<(Vec<Row>, bool), String> = match fmt {
                "arrow" => decode_ipc(&r.body).map(|(s, b)| {
                    let ssig = schema_sig(&s);
                    let same = ssig.len() == sig.len() && ssig.iter().zip(sig.iter()).all(|(x, y)| x == y);
                    sig_out = Some(ssig);
                    (rows_of(&b), same)
                }),
                "json" => decode_json(&r.body, names, types).map(|x| (x, true)),
                "csv" => decode_csv(&r.body, names, types),
                other => Err(format!("harness: unknown format {other}")),
            };
            match decoded {
                Err(e) => {
                    o["body_ok"] = json!(0);
                    o["detail"] = json!(e);
                }
                Ok((mut got, hdr_ok)) => {
                    if env.corrupt == "row" && !got.is_empty() {
                        let k = got.len() / 2;
                        got[k][0] = Cell::O("qev-corrupted".into());
                    }
                    if env.corrupt == "droprow" && !got.is_empty() {
                        got.pop();
                    }
                    o["body_ok"] = json!(1);
                    o["hdr_ok"] = json!(if hdr_ok { 1 } else { 0 });
                    o["rows_body"] = json!(got.len());
                    match rows_diff(rows, &got, ordered, fmt == "csv") {
                        None => o["rows_eq"] = json!(1),
                        Some(d) => {
                            o["rows_eq"] = json!(0);
                            o["detail"] = json!(d.chars().take(400).collect::<String>());
                        }
                    }
                    rows_out = Some(got);
                }
            }
        }
    }
    Ok(HttpOut { obs: o, rows: rows_out, sig: sig_out })
}

async fn http_fragment(env: &Env, addr: &str, req: &Value) -> Result<Value, String> {
    let sql = req["sql"].as_str().unwrap_or("");
    let ordered = req["ordered"].as_i64().unwrap_or(0) == 1;
    let fr = FragmentRequest { sql: sql.to_string(), table: "t".into(), shard_index: 0, shard_count: 1, splits_digest: env.digest_t };
    let body = serde_json::to_vec(&fr).unwrap();
    let r = http_client::post_json(addr, "/fragment", &body, HTTP_TIMEOUT).await.map_err(|e| format!("POST /fragment: {e}"))?;
    let mut o = json!({"status": r.status, "dist": -1, "reason": 0, "rows_hdr": -1, "rows_body": -1, "rows_eq": -1, "body_ok": -1,
                       "ref": "none", "ref_rows": -1, "nr": "", "shards": -1, "detail": "", "hdr_ok": -1});
    if let Some(v) = r.header("x-qe-rows") {
        o["rows_hdr"] = json!(v.parse::<i64>().unwrap_or(-2));
    }
    if r.status != 200 {
        let t = err_text(&r.body);
        if r.status == 503 {
            o["nr"] = json!(nr_kind(&t));
        }
        o["detail"] = json!(t.chars().take(240).collect::<String>());
        return Ok(o);
    }
    let reference = env.reference.get(sql.trim()).await;
    if let RefRes::Rows { rows, .. } = &*reference {
        o["ref"] = json!("ok");
        o["ref_rows"] = json!(rows.len());
        match decode_ipc(&r.body) {
            Err(e) => {
                o["body_ok"] = json!(0);
                o["detail"] = json!(e);
            }
            Ok((_, b)) => {
                let got = rows_of(&b);
                o["body_ok"] = json!(1);
                o["rows_body"] = json!(got.len());
                match rows_diff(rows, &got, ordered, false) {
                    None => o["rows_eq"] = json!(1),
                    Some(d) => {
                        o["rows_eq"] = json!(0);
                        o["detail"] = json!(d);
                    }
                }
            }
        }
    } else {
        o["ref"] = json!("err");
    }
    Ok(o)
}

async fn http_get_status(addr: &str, path: &str) -> Result<Value, String> {
    let r = http_client::get(addr, path, HTTP_TIMEOUT).await.map_err(|e| format!("GET {path}: {e}"))?;
    let v: Value = serde_json::from_slice(&r.body).unwrap_or(Value::Null);
    Ok(json!({"status": r.status, "ready_field": v.get("ready").and_then(|x| x.as_bool()).map(|b| if b { 1 } else { 0 }).unwrap_or(-1),
              "sd_field": v.get("shutting_down").and_then(|x| x.as_bool()).map(|b| if b { 1 } else { 0 }).unwrap_or(-1),
              "why": v.get("reason").and_then(|x| x.as_str()).unwrap_or("")}))
}

// ---- Flight -----------------------------------------------------------------------------------

fn code_of(e: &FlightError) -> String {
    match e {
        FlightError::Tonic(s) => format!("{:?}", s.code()),
        other => format!("client:{}", other.to_string().chars().take(80).collect::<String>()),
    }
}
fn msg_of(e: &FlightError) -> String {
    match e {
        FlightError::Tonic(s) => s.message().chars().take(200).collect(),
        other => other.to_string().chars().take(200).collect(),
    }
}

async fn flight_client(n: &mut Node) -> Result<&mut FlightClient, String> {
    if n.flight.is_none() {
        let addr = n.flight_addr.ok_or("flight is disabled on the node")?;
        let ch = tonic::transport::Endpoint::from_shared(format!("http://{addr}"))
            .map_err(|e| format!("flight uri: {e}"))?
            .connect_timeout(Duration::from_secs(30))
            .connect()
            .await
            .map_err(|e| format!("flight connect: {e}"))?;
        n.flight = Some(FlightClient::new(ch));
    }
    Ok(n.flight.as_mut().unwrap())
}

fn flight_cmd(req: &Value) -> Vec<u8> {
    let sql = req["sql"].as_str().unwrap_or("");
    let m = req["fmode_s"].as_str().unwrap_or("");
    if m.is_empty() {
        sql.as_bytes().to_vec() // raw SQL command: mode defaults to auto
    } else {
        serde_json::to_vec(&json!({"sql": sql, "mode": m})).unwrap()
    }
}

fn tamper_ticket(base: &[u8], how: &str) -> Vec<u8> {
    let set = |f: &dyn Fn(&mut serde_json::Map<String, Value>)| -> Vec<u8> {
        let mut v: Value = serde_json::from_slice(base).expect("base ticket is JSON");
        f(v.as_object_mut().expect("ticket object"));
        serde_json::to_vec(&v).unwrap()
    };
    match how {
        "malformed" => base[..base.len() / 2].to_vec(),
        "notjson" => b"not json".to_vec(),
        "oversized" => set(&|o| {
            let s = o["sql"].as_str().unwrap().to_string();
            o.insert("sql".into(), json!(format!("{s}{}", " ".repeat(1024 * 1024))));
        }),
        "v0" => set(&|o| {
            o.insert("v".into(), json!(0));
        }),
        "v2" => set(&|o| {
            o.insert("v".into(), json!(2));
        }),
        "nov" => set(&|o| {
            o.remove("v");
        }),
        "badmode" => set(&|o| {
            o.insert("mode".into(), json!("maybe"));
        }),
        _ => base.to_vec(),
    }
}

struct FlightOut {
    obs: Value,
    rows: Option<Vec<Row>>,
    sig: Option<Vec<(String, String)>>,
}

async fn do_get(client: &mut FlightClient, ticket: Vec<u8>) -> (Value, Option<Vec<RecordBatch>>, Option<SchemaRef>) {
    let mut o = json!({"code": "ok", "msgs": 0, "trailers": 0, "trailer_last": 0, "trailer_rows": -1, "dist": -1, "reason": 0,
                       "max_slice": 0, "seq": "", "msg": "", "shards": -1});
    let stream = match client.do_get(Ticket::new(ticket)).await {
        Ok(s) => s,
        Err(e) => {
            o["code"] = json!(code_of(&e));
            o["msg"] = json!(msg_of(&e));
            return (o, None, None);
        }
    };
    let mut dec = stream.into_inner();
    let mut batches = Vec::new();
    let mut schema = None;
    let mut seq = Vec::new();
    let (mut msgs, mut trailers, mut last_meta, mut max_slice) = (0i64, 0i64, false, 0usize);
    let mut trailer: Option<Value> = None;
    loop {
        match dec.try_next().await {
            Ok(None) => break,
            Err(e) => {
                o["code"] = json!(code_of(&e));
                o["msg"] = json!(msg_of(&e));
                return (o, None, None);
            }
            Ok(Some(d)) => {
                msgs += 1;
                let meta = !d.inner.app_metadata.is_empty();
                last_meta = meta;
                if meta {
                    trailers += 1;
                    trailer = serde_json::from_slice(&d.inner.app_metadata).ok();
                }
                let tag = match d.payload {
                    DecodedPayload::Schema(s) => {
                        schema = Some(s);
                        "S".to_string()
                    }
                    DecodedPayload::RecordBatch(b) => {
                        max_slice = max_slice.max(b.num_rows());
                        let t = format!("B{}", b.num_rows());
                        batches.push(b);
                        t
                    }
                    DecodedPayload::None => "N".to_string(),
                };
                if seq.len() < 12 {
                    seq.push(format!("{tag}{}", if meta { "*" } else { "" }));
                }
            }
        }
    }
    o["msgs"] = json!(msgs);
    o["trailers"] = json!(trailers);
    o["trailer_last"] = json!(if last_meta { 1 } else { 0 });
    o["max_slice"] = json!(max_slice);
    o["seq"] = json!(seq.join(","));
    if let Some(t) = trailer {
        o["trailer_rows"] = json!(t.get("rows").and_then(|x| x.as_i64()).unwrap_or(-2));
        o["dist"] = json!(match t.get("distributed").and_then(|x| x.as_bool()) {
            Some(true) => 1,
            Some(false) => 0,
            None => -2,
        });
        o["reason"] = json!(match t.get("skipped_reason").and_then(|x| x.as_str()) {
            Some(s) if !s.trim().is_empty() => 1,
            _ => 0,
        });
        o["shards"] = json!(t.get("shards").and_then(|x| x.as_i64()).unwrap_or(-1));
    }
    (o, Some(batches), schema)
}

/// GetFlightInfo, then DoGet on the (possibly tampered) ticket.
async fn flight_pair(env: &Env, c: &mut Cluster, req: &Value) -> Result<FlightOut, String> {
    let sql = req["sql"].as_str().unwrap_or("").to_string();
    let ordered = req["ordered"].as_i64().unwrap_or(0) == 1;
    let tamper = req["tamper"].as_str().unwrap_or("none").to_string();
    let count = req["cnt"].as_i64().unwrap_or(0) == 1;
    let mut o = json!({"gfi": "skipped", "gfi_msg": "", "gfi_selfq": -1, "gfi_frags": -1, "info_schema_eq": -1,
                       "ticket_v": -1, "ticket_mode": "", "ticket_sql_eq": -1, "dg_selfq": -1, "dg_frags": -1,
                       "rows_body": -1, "rows_eq": -1, "ref": "none", "ref_rows": -1, "detail": "", "replay_same": -1,
                       "schema_eq_ref": -1});
    let c0 = if count { Some(counters(c).await?) } else { None };
    let mut base: Option<Vec<u8>> = None;
    let mut info_sig = None;
    if tamper != "forged" {
        let cmd = flight_cmd(req);
        let client = flight_client(&mut c.nut).await?;
        match client.get_flight_info(FlightDescriptor::new_cmd(cmd)).await {
            Ok(info) => {
                o["gfi"] = json!("ok");
                if let Some(t) = info.endpoint.first().and_then(|e| e.ticket.clone()) {
                    if let Ok(v) = serde_json::from_slice::<Value>(&t.ticket) {
                        o["ticket_v"] = json!(v.get("v").and_then(|x| x.as_i64()).unwrap_or(-1));
                        o["ticket_mode"] = json!(v.get("mode").and_then(|x| x.as_str()).unwrap_or(""));
                        o["ticket_sql_eq"] = json!(if v.get("sql").and_then(|x| x.as_str()) == Some(sql.trim()) { 1 } else { 0 });
                    }
                    base = Some(t.ticket.to_vec());
                }
                info_sig = info.try_decode_schema().ok().map(|s| schema_sig(&s));
            }
            Err(e) => {
                o["gfi"] = json!(code_of(&e));
                o["gfi_msg"] = json!(msg_of(&e));
            }
        }
    }
    let c1 = if count { Some(counters(c).await?) } else { None };
    if let (Some(a), Some(b)) = (c0, c1) {
        o["gfi_selfq"] = json!(b.0 - a.0);
        o["gfi_frags"] = json!(b.1 - a.1);
    }
    let gfi_failed = tamper != "forged" && base.is_none();
    if gfi_failed && tamper == "none" {
        if let RefRes::Rows { rows, .. } = &*env.reference.get(sql.trim()).await {
            o["ref"] = json!("ok");
            o["ref_rows"] = json!(rows.len());
        }
        // the pair's outcome is the GetFlightInfo status; no ticket to redeem
        o["dg"] = json!({"code": "skipped"});
        return Ok(FlightOut { obs: o, rows: None, sig: None });
    }
    let hand_mode = match req["fmode_s"].as_str().unwrap_or("") {
        "" => "auto",
        m => m,
    };
    let hand = serde_json::to_vec(&json!({"v": 1, "sql": sql.trim(), "mode": hand_mode})).unwrap();
    let base = base.unwrap_or(hand);
    let ticket = tamper_ticket(&base, &tamper);
    o["ticket_len"] = json!(ticket.len());
    let client = flight_client(&mut c.nut).await?;
    let (mut dg, mut batches, schema) = do_get(client, ticket.clone()).await;
    if tamper == "replay" {
        let first = batches.as_ref().map(|b| rows_of(b));
        let first_code = dg["code"].clone();
        let client = flight_client(&mut c.nut).await?;
        let (dg2, b2, _s2) = do_get(client, ticket).await;
        let second = b2.as_ref().map(|b| rows_of(b));
        let same = first_code == dg2["code"]
            && match (&first, &second) {
                (Some(x), Some(y)) => rows_diff(x, y, ordered, false).is_none(),
                (None, None) => true,
                _ => false,
            };
        o["replay_same"] = json!(if same { 1 } else { 0 });
        dg = dg2;
        batches = b2;
    }
    let c2 = if count { Some(counters(c).await?) } else { None };
    if let (Some(a), Some(b)) = (c1, c2) {
        o["dg_selfq"] = json!(b.0 - a.0);
        o["dg_frags"] = json!(b.1 - a.1);
    }
    let mut rows_out = None;
    let mut sig_out = None;
    {
        let reference = env.reference.get(sql.trim()).await;
        match &*reference {
            RefRes::Err { kind, .. } => o["ref"] = json!(*kind),
            RefRes::Rows { rows, .. } => {
                o["ref"] = json!("ok");
                o["ref_rows"] = json!(rows.len());
            }
        }
    }
    if let Some(b) = &batches {
        let mut got = rows_of(b);
        if env.corrupt == "frow" && !got.is_empty() {
            let k = got.len() / 2;
            got[k][0] = Cell::O("qev-corrupted".into());
        }
        o["rows_body"] = json!(got.len());
        let reference = env.reference.get(sql.trim()).await;
        match &*reference {
            RefRes::Rows { rows, sig, .. } => {
                o["ref"] = json!("ok");
                o["ref_rows"] = json!(rows.len());
                match rows_diff(rows, &got, ordered, false) {
                    None => o["rows_eq"] = json!(1),
                    Some(d) => {
                        o["rows_eq"] = json!(0);
                        o["detail"] = json!(d.chars().take(400).collect::<String>());
                    }
                }
                if let Some(s) = &schema {
                    let ss = schema_sig(s);
                    o["schema_eq_ref"] = json!(if &ss == sig { 1 } else { 0 });
                    if let Some(i) = &info_sig {
                        o["info_schema_eq"] = json!(if i == &ss { 1 } else { 0 });
                    }
                    sig_out = Some(ss);
                }
            }
            RefRes::Err { kind, .. } => o["ref"] = json!(*kind),
        }
        rows_out = Some(got);
    }
    if env.corrupt == "trailer" && dg["trailer_rows"].as_i64().unwrap_or(-1) >= 0 {
        dg["trailer_rows"] = json!(dg["trailer_rows"].as_i64().unwrap() + 1);
    }
    o["dg"] = dg;
    Ok(FlightOut { obs: o, rows: rows_out, sig: sig_out })
}

// ------------------------------------------------------------------------------------------
// one history

async fn ensure_peer(env: &Env, c: &mut Cluster, p: i64) -> Result<String, String> {
    if !c.peers.contains_key(&p) {
        let n = spawn_peer(&env.data, p as u64).await?;
        c.peers.insert(p, n);
    }
    Ok(c.peers[&p].addr.clone())
}

fn ints(v: &Value) -> Vec<i64> {
    v.as_array().map(|a| a.iter().filter_map(|x| x.as_i64()).collect()).unwrap_or_default()
}

/// Keep a dead peer's port out of circulation (bound, not listening: connects are refused) so that no node
/// of a concurrently replayed history can be given the same ephemeral port while this history still runs.
fn reserve_port(addr: &str) -> Option<i32> {
    let sa: std::net::SocketAddr = addr.parse().ok()?;
    let std::net::SocketAddr::V4(v4) = sa else { return None };
    unsafe {
        let fd = libc::socket(libc::AF_INET, libc::SOCK_STREAM, 0);
        if fd < 0 {
            return None;
        }
        let one: libc::c_int = 1;
        libc::setsockopt(fd, libc::SOL_SOCKET, libc::SO_REUSEADDR, &one as *const _ as *const libc::c_void, 4);
        let sin = libc::sockaddr_in {
            sin_family: libc::AF_INET as u16,
            sin_port: v4.port().to_be(),
            sin_addr: libc::in_addr { s_addr: u32::from_ne_bytes(v4.ip().octets()) },
            sin_zero: [0; 8],
        };
        if libc::bind(fd, &sin as *const _ as *const libc::sockaddr, std::mem::size_of::<libc::sockaddr_in>() as u32) != 0 {
            libc::close(fd);
            return None;
        }
        Some(fd)
    }
}

async fn kill_peer(c: &mut Cluster, p: i64) -> Result<(), String> {
    if let Some(n) = c.peers.get_mut(&p) {
        if let Some(h) = n.handle.take() {
            h.shutdown().await;
            if let Some(fd) = reserve_port(&n.addr) {
                c.reserved.push(fd);
            }
        }
        n.alive = false;
        // the listener is closed once shutdown() returns; make sure of it
        let addr = n.addr.clone();
        let t0 = Instant::now();
        while http_client::get(&addr, "/healthz", Duration::from_secs(2)).await.is_ok() {
            if t0.elapsed() > WAIT {
                return Err(format!("peer {p} still answers after shutdown"));
            }
            tokio::time::sleep(Duration::from_millis(5)).await;
        }
    }
    Ok(())
}

async fn run_step(env: &Env, c: &mut Cluster, step: &Value) -> Result<Value, String> {
    let a = step["a"].as_str().unwrap_or("");
    match a {
        "LoadDone" | "LoadFail" => {
            let tx = c.nut.load_tx.take().ok_or("load already decided")?;
            tx.send(a == "LoadDone").map_err(|_| "loader gone".to_string())?;
            let st = c.nut.state.clone();
            wait_until("load outcome", move || st.tables_loaded() || st.load_error().is_some()).await?;
            Ok(snapshot(c, env.npeers))
        }
        "Resolve" => {
            let mut addrs = Vec::new();
            for p in ints(&step["S"]) {
                addrs.push(ensure_peer(env, c, p).await?);
            }
            if step["withself"].as_i64().unwrap_or(0) == 1 {
                addrs.push(c.nut.addr.clone());
            }
            let m = c.nut.state.membership.clone();
            tokio::task::spawn_blocking(move || m.set_members(addrs)).await.map_err(|e| format!("set_members: {e}"))?;
            Ok(snapshot(c, env.npeers))
        }
        "ProbeUp" | "ProbeDown" => {
            let p = step["p"].as_i64().unwrap_or(0);
            let addr = ensure_peer(env, c, p).await?;
            if a == "ProbeUp" {
                c.nut.state.membership.record_up(&addr, Some(p as u64), None);
            } else {
                c.nut.state.membership.record_down(&addr, "qev: probe timed out");
            }
            Ok(snapshot(c, env.npeers))
        }
        "Tick" => {
            // the real path: ServerHandle::set_peers + the discovery loop (resolve, then GET /healthz on every peer)
            let set = ints(&step["S"]);
            let mut addrs = Vec::new();
            for p in &set {
                addrs.push(ensure_peer(env, c, *p).await?);
            }
            let mut listed = addrs.clone();
            listed.push(c.nut.addr.clone());
            let t0 = Instant::now();
            loop {
                match &c.nut.handle {
                    Some(h) => h.set_peers(listed.clone()),
                    None => return Err("Tick after Drain".into()),
                }
                tokio::time::sleep(Duration::from_millis(15)).await;
                let members = c.nut.state.membership.members();
                let peers: Vec<_> = members.iter().filter(|m| !m.is_self).collect();
                let ok = c.nut.state.membership.resolved()
                    && peers.len() == set.len()
                    && set.iter().all(|p| {
                        let n = &c.peers[p];
                        peers.iter().any(|m| m.address == n.addr && m.status == if n.alive { PeerStatus::Up } else { PeerStatus::Down })
                    });
                if ok {
                    break;
                }
                if t0.elapsed() > WAIT {
                    return Err(format!("Tick: the discovery loop did not converge: {:?}", members));
                }
            }
            tokio::time::sleep(Duration::from_millis(25)).await;
            Ok(snapshot(c, env.npeers))
        }
        "PeerDies" => {
            kill_peer(c, step["p"].as_i64().unwrap_or(0)).await?;
            Ok(snapshot(c, env.npeers))
        }
        "Drain" => {
            let h = c.nut.handle.take().ok_or("already draining")?;
            tokio::spawn(async move { h.shutdown().await });
            c.draining = true;
            let t0 = Instant::now();
            let mut seen = 0;
            while t0.elapsed() < Duration::from_secs(20) {
                let r = http_get_status(&c.nut.addr, "/readyz").await?;
                if r["sd_field"] == json!(1) {
                    seen = 1;
                    break;
                }
                tokio::time::sleep(Duration::from_millis(5)).await;
            }
            let mut s = snapshot(c, env.npeers);
            s["sd_seen"] = json!(seen);
            Ok(s)
        }
        "Req" => run_request(env, c, step).await,
        other => Err(format!("unknown step {other}")),
    }
}

async fn run_request(env: &Env, c: &mut Cluster, req: &Value) -> Result<Value, String> {
    let ep = req["ep"].as_str().unwrap_or("");
    // peers dying while the request is pending: the node's view stays what it was at the decision
    for p in ints(&req["dies"]) {
        kill_peer(c, p).await?;
    }
    let mut o = snapshot(c, env.npeers);
    let count = req["cnt"].as_i64().unwrap_or(0) == 1;
    let addr = c.nut.addr.clone();
    match ep {
        "readyz" | "healthz" => {
            o["http"] = http_get_status(&addr, &format!("/{ep}")).await?;
        }
        "fragment" => {
            o["http"] = http_fragment(env, &addr, req).await?;
        }
        "sql" => {
            let c0 = if count { Some(counters(c).await?) } else { None };
            let fmt = req["fmt"].as_str().unwrap_or("arrow");
            let h = http_sql(env, &addr, req, fmt).await?;
            o["http"] = h.obs;
            if let Some(a) = c0 {
                let b = counters(c).await?;
                o["http"]["selfq"] = json!(b.0 - a.0);
                o["http"]["frags"] = json!(b.1 - a.1);
            }
        }
        "flight" => {
            let f = flight_pair(env, c, req).await?;
            o["flight"] = f.obs;
        }
        "both" => {
            let ordered = req["ordered"].as_i64().unwrap_or(0) == 1;
            let c0 = if count { Some(counters(c).await?) } else { None };
            let h = http_sql(env, &addr, req, "arrow").await?;
            o["http"] = h.obs;
            if let Some(a) = c0 {
                let b = counters(c).await?;
                o["http"]["selfq"] = json!(b.0 - a.0);
                o["http"]["frags"] = json!(b.1 - a.1);
            }
            let f = flight_pair(env, c, req).await?;
            o["flight"] = f.obs;
            let mut x = json!({"schema_eq": -1, "rows_eq": -1, "detail": ""});
            if let (Some(hs), Some(fs)) = (&h.sig, &f.sig) {
                x["schema_eq"] = json!(if hs == fs { 1 } else { 0 });
                if hs != fs {
                    x["detail"] = json!(format!("http schema {:?} vs flight schema {:?}", hs, fs));
                }
            }
            if let (Some(hr), Some(fr)) = (&h.rows, &f.rows) {
                match rows_diff(hr, fr, ordered, false) {
                    None => x["rows_eq"] = json!(1),
                    Some(d) => {
                        x["rows_eq"] = json!(0);
                        x["detail"] = json!(format!("http vs flight: {d}").chars().take(400).collect::<String>());
                    }
                }
            }
            o["cross"] = x;
        }
        other => return Err(format!("unknown endpoint {other}")),
    }
    // the view must not have moved under the request
    let after = snapshot(c, env.npeers);
    o["stable"] = json!(if after["view"] == o["view"] && after["load"] == o["load"] && after["resolved"] == o["resolved"] { 1 } else { 0 });
    Ok(o)
}

async fn run_history(env: Arc<Env>, hist: Value) -> Value {
    let steps = hist["steps"].as_array().cloned().unwrap_or_default();
    let drain = steps.iter().any(|s| s["a"] == "Drain");
    let mut out = hist.clone();
    let mut c = match spawn_nut(&env.data, drain).await {
        Ok(n) => Cluster { nut: n, peers: HashMap::new(), draining: false, reserved: Vec::new() },
        Err(e) => {
            out["err"] = json!(e);
            return out;
        }
    };
    let mut done = Vec::new();
    for s in &steps {
        let mut rec = s.clone();
        match run_step(&env, &mut c, s).await {
            Ok(o) => {
                rec["obs"] = o;
                done.push(rec);
            }
            Err(e) => {
                out["err"] = json!(format!("step {}: {e}", done.len() + 1));
                done.push(rec);
                break;
            }
        }
    }
    out["steps"] = json!(done);
    // tear down
    drop(c.nut.load_tx.take());
    c.nut.flight = None;
    if let Some(h) = c.nut.handle.take() {
        h.shutdown().await;
    }
    for (_, mut n) in c.peers.drain() {
        if let Some(h) = n.handle.take() {
            h.shutdown().await;
        }
    }
    for fd in c.reserved.drain(..) {
        unsafe {
            libc::close(fd);
        }
    }
    out
}

fn make_env(work: &Path, npeers: i64, corrupt: &str) -> Env {
    isolate_env();
    let data = make_data(work);
    let ctx = load_ctx(&data).expect("reference context");
    // every participant of a 2- and 3-node fan-out must own a split, or a dead peer could go unnoticed
    for table in ["t", "big"] {
        for n in 2..=4usize {
            let set = splits_of(&ctx, table, n).expect("splits_of");
            let asg = assign_lpt(&set, n);
            if asg.node_splits.iter().any(|&k| k == 0) {
                panic!("harness: table {table} leaves a node without splits at {n} nodes: {:?}", asg.node_splits);
            }
        }
    }
    let digest_t = splits_of(&ctx, "t", 1).expect("splits_of").digest();
    Env {
        data,
        reference: Reference { ctx, cache: tokio::sync::Mutex::new(HashMap::new()) },
        digest_t,
        npeers,
        corrupt: corrupt.to_string(),
    }
}

/// node-replay <in> <out> <workdir> [jobs] [corrupt]
pub fn replay(a: &[String]) -> i32 {
    let hists = read_ndjson(&a[0]);
    let mut out = Out::create(&a[1]);
    let work = PathBuf::from(&a[2]);
    let jobs: usize = a.get(3).and_then(|s| s.parse().ok()).unwrap_or(4);
    let corrupt = a.get(4).cloned().unwrap_or_default();
    let npeers: i64 = a.get(5).and_then(|s| s.parse().ok()).unwrap_or(2);
    std::fs::create_dir_all(&work).unwrap();
    let rt = tokio::runtime::Builder::new_multi_thread().worker_threads(4).max_blocking_threads(256).enable_all().build().unwrap();
    let env = Arc::new(make_env(&work, npeers, &corrupt));
    let t0 = Instant::now();
    let results: Vec<Value> = rt.block_on(async {
        futures::stream::iter(hists.into_iter().map(|h| {
            let env = env.clone();
            async move { tokio::spawn(run_history(env, h)).await.unwrap_or_else(|e| json!({"err": format!("history task panicked: {e}")})) }
        }))
        .buffer_unordered(jobs.max(1))
        .collect()
        .await
    });
    let mut results = results;
    results.sort_by_key(|r| r["id"].as_i64().unwrap_or(0));
    let (mut nsteps, mut nreq) = (0, 0);
    for r in &results {
        for s in r["steps"].as_array().map(|x| x.as_slice()).unwrap_or(&[]) {
            nsteps += 1;
            if s["a"] == "Req" {
                nreq += 1;
            }
        }
        out.put(r);
    }
    out.put(&json!({"summary": {"histories": results.len(), "steps": nsteps, "requests": nreq, "wall_s": t0.elapsed().as_secs_f64()}}));
    out.finish();
    let data_dir = Path::new(&env.data.t).parent().map(|p| p.to_path_buf());
    if let Some(d) = data_dir {
        let _ = std::fs::remove_dir_all(d);
    }
    // draining nodes linger in the background; do not wait for them
    std::process::exit(0);
}

/// node-probe <workdir> : classification of statements by the engine itself (development aid and fidelity input)
///   in : <stmts.json> = [{"name","sql"}] ; out: per statement local outcome, plan_distributed / plan_gather verdicts
pub fn classify(a: &[String]) -> i32 {
    let stmts: Value = serde_json::from_str(&std::fs::read_to_string(&a[0]).expect("read stmts")).expect("stmts json");
    let work = PathBuf::from(&a[2]);
    std::fs::create_dir_all(&work).unwrap();
    let rt = tokio::runtime::Builder::new_multi_thread().worker_threads(2).enable_all().build().unwrap();
    let env = make_env(&work, 2, "");
    let mut out = Vec::new();
    for s in stmts.as_array().expect("array") {
        let sql = s["sql"].as_str().unwrap_or("");
        let local = rt.block_on(env.reference.get(sql.trim()));
        let (lk, lrows, lmsg) = match &*local {
            RefRes::Rows { rows, .. } => ("ok", rows.len() as i64, String::new()),
            RefRes::Err { kind, msg } => (*kind, -1, msg.clone()),
        };
        let pd = match query_engine::distributed::plan_distributed(&env.reference.ctx, sql) {
            Ok(p) => format!("ok:{:?}", p.shape),
            Err(e) => format!("{}:{}", err_kind(&e), e.to_string().chars().take(100).collect::<String>()),
        };
        let pg = match query_engine::distributed::plan_gather(&env.reference.ctx, sql) {
            Ok(p) => format!("ok:{}", p.tables.len()),
            Err(e) => format!("{}:{}", err_kind(&e), e.to_string().chars().take(100).collect::<String>()),
        };
        let pp = match env.reference.ctx.physical_plan(sql) {
            Ok(_) => "ok".to_string(),
            Err(e) => err_kind(&e).to_string(),
        };
        out.push(json!({"name": s["name"], "sql": sql, "local": lk, "rows": lrows, "msg": lmsg.chars().take(160).collect::<String>(),
                        "plan_distributed": pd, "plan_gather": pg, "physical_plan": pp}));
    }
    std::fs::write(&a[1], serde_json::to_string_pretty(&json!(out)).unwrap()).unwrap();
    let _ = std::fs::remove_dir_all(Path::new(&env.data.t).parent().unwrap());
    0
}
