//! C18 — Parquet table statistics are sound bounds.
//!
//! `qev pqstats-replay <cases.ndjson> <out.ndjson> <workdir> [threads]`
//!
//! A case is a table over two nullable integer columns `c`, `d` in TOKEN form
//!   {"id", "writer": 0 (SerializedFileWriter) | 1 (ArrowWriter, one flush per row group),
//!    "cols": [{"files": [[[tok,..] per row group] per file], "flags": [0 none | 1 chunk | 2 page, per file]} x2]}
//! tokens: NULL = -1073741824, -9 / 9 = the column type's MIN / MAX, everything else itself.
//! For every case and every type in {int32, int64, date32} the files are REALLY written into a fresh,
//! never reused directory, then
//!   * `ParquetTable::try_new(dir)`, `statistics()` twice + once on a second provider over the same directory,
//!   * truth: every row group read back with the parquet crate (independent of the engine) and `scan(None)`,
//!   * the real footers (per chunk: rows, statistics present?, null count, min/max),
//!   * through `ExecutionContext::register_parquet("t", dir)`: three statements, each under `catch`.
//! Output: one record per (case, type) with concrete i64 values and order-preserving RANK codes for TLC
//! (token of rank r -> 2r; a value that is no token -> the odd number between its neighbours).
use crate::util::*;
use arrow::array::{Array, ArrayRef, Date32Array, Int32Array, Int64Array};
use arrow::datatypes::{DataType, Field, Schema};
use arrow::record_batch::RecordBatch;
use parquet::arrow::arrow_reader::ParquetRecordBatchReaderBuilder;
use parquet::arrow::ArrowWriter;
use parquet::data_type::{Int32Type, Int64Type};
use parquet::file::properties::{EnabledStatistics, WriterProperties};
use parquet::file::reader::{FileReader, SerializedFileReader};
use parquet::file::statistics::Statistics;
use parquet::file::writer::SerializedFileWriter;
use parquet::schema::parser::parse_message_type;
use parquet::schema::types::ColumnPath;
use query_engine::physical::operators::TableProvider;
use serde_json::{json, Value};
use std::path::{Path, PathBuf};
use std::sync::Arc;

const NULL: i64 = -1073741824;
const TOKENS: [i64; 6] = [-9, -2, 0, 1, 5, 9]; // ascending once concretised
const NAMES: [&str; 2] = ["c", "d"];

#[derive(Clone, Copy, PartialEq)]
enum Ty {
    I32,
    I64,
    Date,
}
impl Ty {
    fn name(self) -> &'static str {
        match self {
            Ty::I32 => "int32",
            Ty::I64 => "int64",
            Ty::Date => "date32",
        }
    }
    fn lo(self) -> i64 {
        if self == Ty::I64 { i64::MIN } else { i32::MIN as i64 }
    }
    fn hi(self) -> i64 {
        if self == Ty::I64 { i64::MAX } else { i32::MAX as i64 }
    }
    fn conc(self, tok: i64) -> Option<i64> {
        match tok {
            NULL => None,
            -9 => Some(self.lo()),
            9 => Some(self.hi()),
            v => Some(v),
        }
    }
    /// order-preserving 32-bit code of a concrete value
    fn code(self, v: i64) -> i64 {
        let mut below = 0;
        for (r, t) in TOKENS.iter().enumerate() {
            let c = self.conc(*t).unwrap();
            if c == v {
                return 2 * r as i64;
            }
            if c < v {
                below += 1;
            }
        }
        2 * below - 1
    }
    fn code_opt(self, v: Option<i64>) -> i64 {
        v.map(|x| self.code(x)).unwrap_or(NULL)
    }
}

type Rg = Vec<Option<i64>>;
type Col = Vec<Vec<Rg>>; // file -> row group -> rows

fn stat_level(flag: i64) -> EnabledStatistics {
    match flag {
        0 => EnabledStatistics::None,
        2 => EnabledStatistics::Page,
        _ => EnabledStatistics::Chunk,
    }
}

fn props(flags: [i64; 2]) -> WriterProperties {
    WriterProperties::builder()
        .set_column_statistics_enabled(ColumnPath::from(NAMES[0]), stat_level(flags[0]))
        .set_column_statistics_enabled(ColumnPath::from(NAMES[1]), stat_level(flags[1]))
        .build()
}

fn write_serialized(path: &Path, ty: Ty, rgs: [&Vec<Rg>; 2], flags: [i64; 2]) {
    let decl = match ty {
        Ty::I32 => "OPTIONAL INT32 c; OPTIONAL INT32 d;",
        Ty::I64 => "OPTIONAL INT64 c; OPTIONAL INT64 d;",
        Ty::Date => "OPTIONAL INT32 c (DATE); OPTIONAL INT32 d (DATE);",
    };
    let schema = Arc::new(parse_message_type(&format!("message schema {{ {decl} }}")).unwrap());
    let f = std::fs::File::create(path).unwrap();
    let mut w = SerializedFileWriter::new(f, schema, Arc::new(props(flags))).unwrap();
    for gi in 0..rgs[0].len() {
        let mut rgw = w.next_row_group().unwrap();
        for ci in 0..2 {
            let rows = &rgs[ci][gi];
            let defs: Vec<i16> = rows.iter().map(|v| if v.is_some() { 1 } else { 0 }).collect();
            let mut c = rgw.next_column().unwrap().unwrap();
            if ty == Ty::I64 {
                let vals: Vec<i64> = rows.iter().flatten().copied().collect();
                c.typed::<Int64Type>().write_batch(&vals, Some(&defs), None).unwrap();
            } else {
                let vals: Vec<i32> = rows.iter().flatten().map(|v| *v as i32).collect();
                c.typed::<Int32Type>().write_batch(&vals, Some(&defs), None).unwrap();
            }
            c.close().unwrap();
        }
        rgw.close().unwrap();
    }
    w.close().unwrap();
}

fn arrow_type(ty: Ty) -> DataType {
    match ty {
        Ty::I32 => DataType::Int32,
        Ty::I64 => DataType::Int64,
        Ty::Date => DataType::Date32,
    }
}

fn arrow_col(ty: Ty, rows: &Rg) -> ArrayRef {
    match ty {
        Ty::I64 => Arc::new(Int64Array::from(rows.clone())),
        Ty::I32 => Arc::new(Int32Array::from(rows.iter().map(|v| v.map(|x| x as i32)).collect::<Vec<_>>())),
        Ty::Date => Arc::new(Date32Array::from(rows.iter().map(|v| v.map(|x| x as i32)).collect::<Vec<_>>())),
    }
}

fn write_arrow(path: &Path, ty: Ty, rgs: [&Vec<Rg>; 2], flags: [i64; 2]) {
    let schema = Arc::new(Schema::new(vec![
        Field::new(NAMES[0], arrow_type(ty), true),
        Field::new(NAMES[1], arrow_type(ty), true),
    ]));
    let f = std::fs::File::create(path).unwrap();
    let mut w = ArrowWriter::try_new(f, schema.clone(), Some(props(flags))).unwrap();
    for gi in 0..rgs[0].len() {
        let b = RecordBatch::try_new(schema.clone(), vec![arrow_col(ty, &rgs[0][gi]), arrow_col(ty, &rgs[1][gi])]).unwrap();
        w.write(&b).unwrap();
        w.flush().unwrap(); // one row group per flush
    }
    w.close().unwrap();
}

fn i64s(a: &ArrayRef) -> Vec<Option<i64>> {
    let c = arrow::compute::cast(a, &DataType::Int64)
        .or_else(|_| arrow::compute::cast(a, &DataType::Int32).and_then(|x| arrow::compute::cast(&x, &DataType::Int64)))
        .unwrap();
    let a = c.as_any().downcast_ref::<Int64Array>().unwrap();
    (0..a.len()).map(|i| if a.is_null(i) { None } else { Some(a.value(i)) }).collect()
}

/// Truth + footers of one file, read with the parquet crate only.
fn read_back(path: &Path) -> (Vec<[Rg; 2]>, Vec<[Value; 2]>, Vec<[[Option<i64>; 2]; 2]>) {
    let r = SerializedFileReader::new(std::fs::File::open(path).unwrap()).unwrap();
    let md = r.metadata();
    let mut truth = Vec::new();
    let mut foot = Vec::new();
    let mut mm = Vec::new();
    for gi in 0..md.num_row_groups() {
        let g = md.row_group(gi);
        let mut rows: [Rg; 2] = [Vec::new(), Vec::new()];
        if g.num_rows() > 0 {
            let rd = ParquetRecordBatchReaderBuilder::try_new(std::fs::File::open(path).unwrap())
                .unwrap()
                .with_row_groups(vec![gi])
                .build()
                .unwrap();
            for b in rd {
                let b = b.unwrap();
                for ci in 0..2 {
                    let idx = b.schema().index_of(NAMES[ci]).unwrap();
                    rows[ci].extend(i64s(b.column(idx)));
                }
            }
        }
        let mut fj: [Value; 2] = [Value::Null, Value::Null];
        let mut fm = [[None, None], [None, None]];
        for ci in 0..2 {
            let ch = g.columns().iter().find(|c| c.column_path().string() == NAMES[ci]).unwrap();
            let (has, hn, n, lo, hi) = match ch.statistics() {
                None => (0, 0, 0u64, None, None),
                Some(s) => {
                    let (lo, hi) = match s {
                        Statistics::Int64(s) => (s.min_opt().copied(), s.max_opt().copied()),
                        Statistics::Int32(s) => (s.min_opt().map(|v| *v as i64), s.max_opt().map(|v| *v as i64)),
                        _ => (None, None),
                    };
                    (1, if s.null_count_opt().is_some() { 1 } else { 0 }, s.null_count_opt().unwrap_or(0), lo, hi)
                }
            };
            let both = lo.is_some() && hi.is_some();
            fj[ci] = json!({"rows": g.num_rows(), "has_stats": has, "has_nulls": hn, "nulls": n,
                            "has_mm": if both { 1 } else { 0 }, "min": lo, "max": hi, "num_values": ch.num_values()});
            fm[ci] = [lo, hi];
        }
        truth.push(rows);
        foot.push(fj);
        mm.push(fm);
    }
    (truth, foot, mm)
}

fn cell_i64(b: &RecordBatch, col: usize, row: usize) -> Option<i64> {
    let v = i64s(b.column(col));
    v[row]
}

fn run_sql(rt: &tokio::runtime::Runtime, dir: &Path, sql: &str, shape: u8) -> Value {
    let dir = dir.to_path_buf();
    let sql2 = sql.to_string();
    let r = catch(std::panic::AssertUnwindSafe(move || -> Result<Value, String> {
        let mut ctx = query_engine::ExecutionContext::new();
        ctx.register_parquet("t", &dir).map_err(|e| format!("register: {e}"))?;
        let res = rt.block_on(ctx.sql(&sql2)).map_err(|e| e.to_string())?;
        let mut rows: Vec<Vec<Option<i64>>> = Vec::new();
        for b in &res.batches {
            for i in 0..b.num_rows() {
                rows.push((0..b.num_columns()).map(|c| cell_i64(b, c, i)).collect());
            }
        }
        rows.sort();
        let _ = shape;
        Ok(json!({"ok": 1, "rows": rows}))
    }));
    match r {
        Ok(Ok(v)) => v,
        Ok(Err(e)) => json!({"ok": 0, "err": e.chars().take(200).collect::<String>()}),
        Err(p) => json!({"ok": 0, "panic": 1, "err": p.chars().take(200).collect::<String>()}),
    }
}

fn stats_json(ty: Ty, st: &Option<query_engine::physical::operators::TableStatistics>) -> Value {
    match st {
        None => json!({"some": 0}),
        Some(s) => {
            let mut cols = serde_json::Map::new();
            let mut names: Vec<&String> = s.column_stats.keys().collect();
            names.sort();
            for n in names {
                let c = &s.column_stats[n];
                let has_mm = c.min_i64.is_some() && c.max_i64.is_some();
                cols.insert(
                    n.clone(),
                    json!({"present": 1,
                           "has_nulls": if c.null_count.is_some() { 1 } else { 0 }, "null_count": c.null_count.unwrap_or(0),
                           "has_mm": if has_mm { 1 } else { 0 }, "has_min": if c.min_i64.is_some() { 1 } else { 0 },
                           "has_max": if c.max_i64.is_some() { 1 } else { 0 },
                           "min": c.min_i64, "max": c.max_i64,
                           "min_code": ty.code_opt(c.min_i64), "max_code": ty.code_opt(c.max_i64),
                           "ndv_est": c.ndv_est}),
                );
            }
            json!({"some": 1, "row_count": s.row_count, "total_byte_size": s.total_byte_size, "cols": cols})
        }
    }
}

fn parse_col(v: &Value, ty: Ty) -> (Col, Vec<i64>) {
    let files: Col = v["files"]
        .as_array()
        .unwrap()
        .iter()
        .map(|f| {
            f.as_array()
                .unwrap()
                .iter()
                .map(|g| g.as_array().unwrap().iter().map(|t| ty.conc(t.as_i64().unwrap())).collect())
                .collect()
        })
        .collect();
    let flags = v["flags"].as_array().unwrap().iter().map(|x| x.as_i64().unwrap()).collect();
    (files, flags)
}

fn codes(ty: Ty, rows: &Rg) -> Vec<i64> {
    rows.iter().map(|v| ty.code_opt(*v)).collect()
}

fn one(rt: &tokio::runtime::Runtime, case: &Value, ty: Ty, root: &Path) -> Value {
    let id = case["id"].as_i64().unwrap();
    let dir = root.join(format!("c{id}_{}", ty.name()));
    if dir.exists() {
        panic!("harness: directory {} would be reused (footer cache is keyed by path+mtime)", dir.display());
    }
    std::fs::create_dir_all(&dir).unwrap();
    let writer = case["writer"].as_i64().unwrap_or(0);
    let cols: Vec<(Col, Vec<i64>)> = case["cols"].as_array().unwrap().iter().map(|c| parse_col(c, ty)).collect();
    assert!(cols.len() == 2, "a case has exactly two columns");
    let nf = cols[0].0.len();
    let mut paths: Vec<PathBuf> = Vec::new();
    for fi in 0..nf {
        let p = dir.join(format!("f{}.parquet", fi + 1));
        let rgs = [&cols[0].0[fi], &cols[1].0[fi]];
        let flags = [cols[0].1[fi], cols[1].1[fi]];
        let any_empty = rgs[0].iter().any(|g| g.is_empty());
        if writer == 1 && !any_empty {
            write_arrow(&p, ty, rgs, flags);
        } else {
            write_serialized(&p, ty, rgs, flags);
        }
        paths.push(p);
    }
    // ---- truth and footers, independent of the engine
    let mut truth: [Col; 2] = [Vec::new(), Vec::new()];
    let mut foots: [Vec<Vec<Value>>; 2] = [Vec::new(), Vec::new()];
    let mut foot_codes: [Vec<Vec<Value>>; 2] = [Vec::new(), Vec::new()];
    for p in &paths {
        let (t, f, mm) = read_back(p);
        for ci in 0..2 {
            truth[ci].push(t.iter().map(|g| g[ci].clone()).collect());
            foots[ci].push(f.iter().map(|g| g[ci].clone()).collect());
            foot_codes[ci].push(
                f.iter()
                    .zip(mm.iter())
                    .map(|(g, m)| {
                        let g = &g[ci];
                        json!({"rows": g["rows"], "has_stats": g["has_stats"], "has_nulls": g["has_nulls"], "nulls": g["nulls"],
                               "has_mm": g["has_mm"],
                               "min": if g["has_mm"] == 1 { ty.code_opt(m[ci][0]) } else { 0 },
                               "max": if g["has_mm"] == 1 { ty.code_opt(m[ci][1]) } else { 0 }})
                    })
                    .collect(),
            );
        }
    }
    let write_ok = (0..2).all(|ci| truth[ci] == cols[ci].0);
    // ---- the engine
    let dir2 = dir.clone();
    let st = catch(std::panic::AssertUnwindSafe(move || -> Result<(Value, Value, Value, Vec<Vec<Option<i64>>>, String), String> {
        let t = query_engine::storage::ParquetTable::try_new(&dir2).map_err(|e| format!("try_new: {e}"))?;
        let s1 = stats_json(ty, &t.statistics());
        let s2 = stats_json(ty, &t.statistics());
        let t2 = query_engine::ParquetTable::try_new(&dir2).map_err(|e| format!("try_new: {e}"))?;
        let s3 = stats_json(ty, &t2.statistics());
        let mut scan_cols: Vec<Vec<Option<i64>>> = vec![Vec::new(), Vec::new()];
        let mut scan_err = String::new();
        match t.scan(None) {
            Ok(bs) => {
                for b in &bs {
                    for ci in 0..2 {
                        match b.schema().index_of(NAMES[ci]) {
                            Ok(idx) => scan_cols[ci].extend(i64s(b.column(idx))),
                            Err(e) => scan_err = e.to_string(),
                        }
                    }
                }
            }
            Err(e) => scan_err = e.to_string(),
        }
        Ok((s1, s2, s3, scan_cols, scan_err))
    }));
    let mut rec = json!({"id": id, "ty": ty.name(), "writer": writer, "write_ok": if write_ok { 1 } else { 0 },
                         "nfiles": nf, "tags": case["tags"].clone()});
    match st {
        Err(p) => {
            rec["stats_panic"] = json!(1);
            rec["stats_err"] = json!(p.chars().take(200).collect::<String>());
            rec["obs"] = json!([]);
        }
        Ok(Err(e)) => {
            rec["stats_panic"] = json!(0);
            rec["stats_err"] = json!(e);
            rec["obs"] = json!([]);
        }
        Ok(Ok((s1, s2, s3, scan_cols, scan_err))) => {
            rec["stats_panic"] = json!(0);
            rec["stats_err"] = json!("");
            // every DISTINCT answer of statistics(): same provider twice, a fresh provider once
            let mut obs = vec![s1.clone()];
            for s in [s2, s3] {
                if !obs.contains(&s) {
                    obs.push(s);
                }
            }
            rec["obs"] = json!(obs);
            rec["total_byte_size"] = s1.get("total_byte_size").cloned().unwrap_or(json!(0));
            rec["file_bytes"] = json!(paths.iter().map(|p| std::fs::metadata(p).map(|m| m.len()).unwrap_or(0)).sum::<u64>());
            let extra: Vec<String> = s1
                .get("cols")
                .and_then(|c| c.as_object())
                .map(|m| m.keys().filter(|k| !NAMES.contains(&k.as_str())).cloned().collect())
                .unwrap_or_default();
            rec["extra_cols"] = json!(extra);
            // engine scan vs independent truth, as multisets per column
            let mut eq = scan_err.is_empty();
            for ci in 0..2 {
                let mut a: Vec<Option<i64>> = truth[ci].iter().flatten().flatten().copied().collect();
                let mut b = scan_cols[ci].clone();
                a.sort();
                b.sort();
                eq &= a == b;
            }
            rec["scan_eq"] = json!(if eq { 1 } else { 0 });
            rec["scan_err"] = json!(scan_err);
        }
    }
    let mut cj = Vec::new();
    for ci in 0..2 {
        let files_code: Vec<Vec<Vec<i64>>> = truth[ci].iter().map(|f| f.iter().map(|g| codes(ty, g)).collect()).collect();
        cj.push(json!({"name": NAMES[ci], "flags": cols[ci].1, "truth": truth[ci], "truth_code": files_code,
                       "foot": foots[ci], "foot_code": foot_codes[ci]}));
    }
    rec["cols"] = json!(cj);
    // ---- statements (a panic is data).  A statement that panics or is refused is run again on a CONTROL copy of
    // the same rows written WITHOUT any statistics: only an outcome the statistics cause is this property's business.
    let stmts = [
        ("q1", "SELECT COUNT(*), COUNT(c), MIN(c), MAX(c) FROM t"),
        ("q2", "SELECT c, COUNT(*) FROM t GROUP BY c"),
        ("q3", "SELECT COUNT(*) FROM t x JOIN t y ON x.c = y.c AND x.d = y.d"),
    ];
    let mut ctl_dir: Option<PathBuf> = None;
    for (q, sql) in stmts {
        let mut a = run_sql(rt, &dir, sql, 0);
        if a["ok"] != 1 {
            if ctl_dir.is_none() {
                let cd = root.join(format!("c{id}_{}_ctl", ty.name()));
                std::fs::create_dir_all(&cd).unwrap();
                for fi in 0..nf {
                    write_serialized(&cd.join(format!("f{}.parquet", fi + 1)), ty, [&cols[0].0[fi], &cols[1].0[fi]], [0, 0]);
                }
                ctl_dir = Some(cd);
            }
            a["ctl"] = run_sql(rt, ctl_dir.as_ref().unwrap(), sql, 0);
        }
        rec[q] = a;
    }
    if let Some(cd) = ctl_dir {
        let _ = std::fs::remove_dir_all(&cd);
    }
    let _ = std::fs::remove_dir_all(&dir);
    rec
}

/// qev pqstats-replay <cases.ndjson> <out.ndjson> <workdir> [threads]
pub fn replay(a: &[String]) -> i32 {
    quiet_panics();
    if a.len() < 3 {
        eprintln!("usage: qev pqstats-replay <cases.ndjson> <out.ndjson> <workdir> [threads]");
        return 2;
    }
    let cases = Arc::new(read_ndjson(&a[0]));
    let root = PathBuf::from(&a[2]);
    std::fs::create_dir_all(&root).unwrap();
    let threads: usize = a.get(3).and_then(|s| s.parse().ok()).unwrap_or(4).max(1);
    let rt = Arc::new(tokio::runtime::Builder::new_multi_thread().worker_threads(2).enable_all().build().unwrap());
    // all tables of all threads live in ONE process under the same table name "t" and the same file names
    let hs: Vec<_> = (0..threads)
        .map(|t| {
            let cases = cases.clone();
            let root = root.clone();
            let rt = rt.clone();
            std::thread::spawn(move || {
                let mut out: Vec<(usize, Vec<Value>)> = Vec::new();
                let mut i = t;
                while i < cases.len() {
                    let c = &cases[i];
                    let recs: Vec<Value> = [Ty::I32, Ty::I64, Ty::Date].iter().map(|ty| one(&rt, c, *ty, &root)).collect();
                    out.push((i, recs));
                    i += threads;
                }
                out
            })
        })
        .collect();
    let mut all: Vec<(usize, Vec<Value>)> = Vec::new();
    for h in hs {
        match h.join() {
            Ok(v) => all.extend(v),
            Err(_) => {
                eprintln!("pqstats-replay: a harness thread died (harness bug, not data)");
                return 2;
            }
        }
    }
    all.sort_by_key(|(i, _)| *i);
    let mut out = Out::create(&a[1]);
    for (_, recs) in all {
        for r in recs {
            out.put(&r);
        }
    }
    out.finish();
    0
}
