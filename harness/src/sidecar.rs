//! C20 — IPC sidecars are invisible and safe to build concurrently (spec/Sidecar.tla).
//!
//! `sidecar-proc`   one ENGINE PROCESS under test.  It installs a sync callback
//!                  (`verif_hooks::install_sync`) and obeys line-JSON commands on stdin; everything it
//!                  reports goes to stdout as line-JSON.  Query threads are real OS threads:
//!                    api query  = the public `ipc_cache::ensure_sidecar(path)` and then
//!                                 `ipc_cache::read_row_group(dir, rg)` for every row group (or a plain
//!                                 Parquet read when ensure_sidecar returns None)
//!                    sql query  = ExecutionContext::register_parquet + the four statements of cache.rs
//!                  scheduled mode: at every sync point ("sidecar.check_fresh", ".lock", ".recheck_fresh",
//!                  ".mk_staging", ".write_rg", ".write_complete", ".remove_final", ".rename",
//!                  ".cleanup_staging", ".open_rg" — each immediately BEFORE the step) the calling thread
//!                  reports `park` and blocks until the orchestrator sends `go` for it.  Row groups are
//!                  written on rayon workers: a worker parks on behalf of the thread that holds the
//!                  build (RAYON_NUM_THREADS=1, so one at a time).
//!                  logging mode: nothing blocks; every sync point is logged (sequence, thread, point,
//!                  CLOCK_MONOTONIC ns) for SidecarTrace.tla.
//! `sidecar-orch`   the cross-process scheduler: spawns the processes of each TLC behaviour and releases
//!                  exactly the thread the behaviour names, step by step, on REAL files; after every step
//!                  the sidecar directory, the staging directories and (at the end) every query's rows are
//!                  recorded.  One spec action = the code between two sync points of one thread.
//! `sidecar-stress` un-scheduled: k builder/reader processes x threads start together on one file.
use crate::cache::{parquet_image, rows_json, STATEMENTS};
use crate::util::*;
use serde_json::{json, Value};
use std::cell::Cell;
use std::collections::HashMap;
use std::io::{BufRead, BufReader, Write};
use std::path::{Path, PathBuf};
use std::sync::atomic::{AtomicBool, AtomicI64, AtomicU64, Ordering};
use std::sync::mpsc;
use std::sync::{Arc, Condvar, Mutex};
use std::time::{Duration, Instant};

// ---------------------------------------------------------------------------------------------
// the process under test

struct Slot {
    permits: Mutex<u64>,
    cv: Condvar,
}

struct Proc {
    out: Mutex<std::io::Stdout>,
    slots: Mutex<HashMap<i64, Arc<Slot>>>,
    sched: AtomicBool,
    logging: AtomicBool,
    builder: AtomicI64,
    seq: AtomicU64,
    log: Mutex<Vec<Value>>,
}

thread_local! {
    static TID: Cell<i64> = const { Cell::new(0) };
    static KIND: Cell<i64> = const { Cell::new(0) };   // 1 api thread, 2 sql thread
}

fn mono_ns() -> i64 {
    let mut ts = libc::timespec { tv_sec: 0, tv_nsec: 0 };
    unsafe { libc::clock_gettime(libc::CLOCK_MONOTONIC, &mut ts) };
    ts.tv_sec as i64 * 1_000_000_000 + ts.tv_nsec as i64
}

impl Proc {
    fn say(&self, v: Value) {
        let mut o = self.out.lock().unwrap();
        writeln!(o, "{v}").unwrap();
        o.flush().unwrap();
    }
    fn slot(&self, tid: i64) -> Arc<Slot> {
        self.slots.lock().unwrap().entry(tid).or_insert_with(|| Arc::new(Slot { permits: Mutex::new(0), cv: Condvar::new() })).clone()
    }
    fn on_sync(&self, name: &str) {
        let own = TID.with(|t| t.get());
        let tid = if own != 0 { own } else { self.builder.load(Ordering::SeqCst) };
        if name == "sidecar.mk_staging" && own != 0 {
            self.builder.store(own, Ordering::SeqCst);
        }
        if self.logging.load(Ordering::SeqCst) {
            let n = self.seq.fetch_add(1, Ordering::SeqCst);
            let kind = KIND.with(|k| k.get());
            self.log.lock().unwrap().push(json!({"n": n, "t": tid, "w": if own == 0 { 1 } else { 0 }, "k": kind, "p": name, "ts": mono_ns()}));
        }
        if !self.sched.load(Ordering::SeqCst) || tid == 0 {
            return;
        }
        self.say(json!({"ev": "park", "tid": tid, "point": name}));
        let s = self.slot(tid);
        let mut g = s.permits.lock().unwrap();
        while *g == 0 {
            if !self.sched.load(Ordering::SeqCst) {
                return;
            }
            let (g2, _) = s.cv.wait_timeout(g, Duration::from_millis(200)).unwrap();
            g = g2;
        }
        *g -= 1;
    }
}

fn parquet_rows(path: &Path) -> Result<Vec<Value>, String> {
    let f = std::fs::File::open(path).map_err(|e| e.to_string())?;
    let r = parquet::arrow::arrow_reader::ParquetRecordBatchReaderBuilder::try_new(f).map_err(|e| e.to_string())?.build().map_err(|e| e.to_string())?;
    let batches: Result<Vec<_>, _> = r.collect();
    Ok(rows_json(&batches.map_err(|e| e.to_string())?))
}

/// ensure_sidecar + read every row group (the public API the scans use).
fn api_query(path: &Path, nrg: usize) -> Value {
    // the scans consult the sidecar only when `ipc_cache::enabled()` (QE_IPC_CACHE != 0)
    let ensured = || if query_engine::storage::ipc_cache::enabled() { query_engine::storage::ipc_cache::ensure_sidecar(path) } else { None };
    let r = catch(std::panic::AssertUnwindSafe(|| match ensured() {
        Some(dir) => {
            let mut all = Vec::new();
            for rg in 0..nrg {
                match query_engine::storage::ipc_cache::read_row_group(&dir, rg, None, None) {
                    Ok(b) => all.extend(b),
                    Err(e) => return json!({"out": "error", "rg": rg, "ts": mono_ns(), "err": e.to_string().chars().take(200).collect::<String>()}),
                }
            }
            // dictionary columns are an internal representation
            let plain: Vec<arrow::record_batch::RecordBatch> = all
                .into_iter()
                .map(|b| {
                    let cols: Vec<arrow::array::ArrayRef> = b
                        .columns()
                        .iter()
                        .map(|c| match c.data_type() {
                            arrow::datatypes::DataType::Dictionary(_, v) => arrow::compute::cast(c.as_ref(), v).unwrap(),
                            _ => c.clone(),
                        })
                        .collect();
                    let fields: Vec<arrow::datatypes::Field> =
                        b.schema().fields().iter().zip(cols.iter()).map(|(f, c)| arrow::datatypes::Field::new(f.name(), c.data_type().clone(), true)).collect();
                    arrow::record_batch::RecordBatch::try_new(Arc::new(arrow::datatypes::Schema::new(fields)), cols).unwrap()
                })
                .collect();
            json!({"out": "ok", "rows": rows_json(&plain)})
        }
        None => match parquet_rows(path) {
            Ok(rows) => json!({"out": "parquet", "rows": rows}),
            Err(e) => json!({"out": "error", "err": e}),
        },
    }));
    match r {
        Ok(v) => v,
        Err(p) => json!({"out": "panic", "err": p}),
    }
}

fn sql_query(rt: &tokio::runtime::Runtime, path: &Path) -> Value {
    let mut ctx = query_engine::execution::ExecutionContext::new();
    if let Err(e) = ctx.register_parquet("t", path) {
        return json!({"register_err": e.to_string()});
    }
    let mut answers = serde_json::Map::new();
    for (kind, sql) in STATEMENTS.iter() {
        let t0 = mono_ns();
        let mut r = crate::cache::run_stmt(rt, &ctx, sql);
        if r.get("rows").is_none() {
            r["t0"] = json!(t0);
            r["t1"] = json!(mono_ns());
        }
        answers.insert(kind.to_string(), r);
    }
    Value::Object(answers)
}

/// qev sidecar-proc
pub fn proc_main(_a: &[String]) -> i32 {
    quiet_panics();
    let me = Arc::new(Proc {
        out: Mutex::new(std::io::stdout()),
        slots: Mutex::new(HashMap::new()),
        sched: AtomicBool::new(false),
        logging: AtomicBool::new(false),
        builder: AtomicI64::new(0),
        seq: AtomicU64::new(0),
        log: Mutex::new(Vec::new()),
    });
    let cb = me.clone();
    query_engine::verif_hooks::install_sync(Some(Arc::new(move |name: &str| cb.on_sync(name))));
    let rt = Arc::new(tokio::runtime::Builder::new_multi_thread().worker_threads(2).enable_all().build().unwrap());
    me.say(json!({"ev": "hello", "pid": std::process::id(), "mode": std::env::var("QE_IPC_CACHE").unwrap_or_else(|_| "auto".into())}));
    let stdin = std::io::stdin();
    for line in stdin.lock().lines() {
        let line = match line {
            Ok(l) => l,
            Err(_) => break,
        };
        let c: Value = match serde_json::from_str(&line) {
            Ok(v) => v,
            Err(_) => continue,
        };
        match c["cmd"].as_str().unwrap_or("") {
            "reset" => {
                me.sched.store(c["sched"].as_bool().unwrap_or(true), Ordering::SeqCst);
                me.logging.store(c["logging"].as_bool().unwrap_or(false), Ordering::SeqCst);
                me.builder.store(0, Ordering::SeqCst);
                me.slots.lock().unwrap().clear();
                me.log.lock().unwrap().clear();
                me.seq.store(0, Ordering::SeqCst);
                me.say(json!({"ev": "reset_ok"}));
            }
            "free" => {
                // abandon the schedule: nothing parks any more, parked threads leave
                me.sched.store(false, Ordering::SeqCst);
                for s in me.slots.lock().unwrap().values() {
                    s.cv.notify_all();
                }
            }
            "go" => {
                let s = me.slot(c["tid"].as_i64().unwrap());
                *s.permits.lock().unwrap() += 1;
                s.cv.notify_all();
            }
            "build" => {
                // set-up helper: build the sidecar of `path` without scheduling (main thread has no id)
                let was = me.sched.swap(false, Ordering::SeqCst);
                let p = PathBuf::from(c["path"].as_str().unwrap());
                let ok = catch(std::panic::AssertUnwindSafe(|| query_engine::storage::ipc_cache::ensure_sidecar(&p).is_some())).unwrap_or(false);
                me.sched.store(was, Ordering::SeqCst);
                me.say(json!({"ev": "built", "ok": ok}));
            }
            "start" => {
                let tid = c["tid"].as_i64().unwrap();
                let path = PathBuf::from(c["path"].as_str().unwrap());
                let nrg = c["nrg"].as_u64().unwrap() as usize;
                let me2 = me.clone();
                std::thread::spawn(move || {
                    TID.with(|t| t.set(tid));
                    KIND.with(|k| k.set(1));
                    let mut r = api_query(&path, nrg);
                    r["ev"] = json!("done");
                    r["tid"] = json!(tid);
                    me2.say(r);
                });
            }
            "stress" => {
                // un-scheduled: `threads` threads, `iters` rounds each of (api query, sql statements)
                let path = PathBuf::from(c["path"].as_str().unwrap());
                let nrg = c["nrg"].as_u64().unwrap() as usize;
                let threads = c["threads"].as_i64().unwrap();
                let iters = c["iters"].as_i64().unwrap();
                let with_sql = c["sql"].as_bool().unwrap_or(true);
                let start_at = c["start_at"].as_i64().unwrap_or(0);
                let mut hs = Vec::new();
                for tid in 1..=threads {
                    let (path, rt) = (path.clone(), rt.clone());
                    hs.push(std::thread::spawn(move || {
                        TID.with(|t| t.set(tid));
                        while mono_ns() < start_at {
                            std::hint::spin_loop();
                        }
                        let mut res = Vec::new();
                        for it in 0..iters {
                            KIND.with(|k| k.set(1));
                            let a = api_query(&path, nrg);
                            res.push(json!({"t": tid, "it": it, "api": a}));
                            if with_sql {
                                KIND.with(|k| k.set(2));
                                let s = sql_query(&rt, &path);
                                res.push(json!({"t": tid, "it": it, "sql": s}));
                            }
                        }
                        res
                    }));
                }
                let mut answers = Vec::new();
                for h in hs {
                    answers.extend(h.join().unwrap_or_default());
                }
                let log = std::mem::take(&mut *me.log.lock().unwrap());
                me.say(json!({"ev": "stress_done", "answers": answers, "log": log}));
            }
            "quit" => break,
            _ => {}
        }
    }
    0
}

// ---------------------------------------------------------------------------------------------
// orchestrator side: children

struct Child {
    child: std::process::Child,
    stdin: std::process::ChildStdin,
    pid: u32,
}

impl Drop for Child {
    fn drop(&mut self) {
        let _ = writeln!(self.stdin, "{}", json!({"cmd": "quit"}));
        let _ = self.child.kill();
        let _ = self.child.wait();
    }
}

struct Fleet {
    /// messages received while waiting for somebody else
    backlog: Vec<(usize, Value)>,
    kids: Vec<Child>,
    rx: mpsc::Receiver<(usize, Value)>,
    tx: mpsc::Sender<(usize, Value)>,
    exe: PathBuf,
}

impl Fleet {
    fn new() -> Fleet {
        let (tx, rx) = mpsc::channel();
        Fleet { backlog: Vec::new(), kids: Vec::new(), rx, tx, exe: crate::cache::exe_path() }
    }
    /// spawn one process with QE_IPC_CACHE = mode ("0" | "1" | "auto"); returns its index
    fn spawn(&mut self, mode: &str, rayon: &str) -> usize {
        let mut cmd = std::process::Command::new(&self.exe);
        cmd.arg("sidecar-proc").env("RAYON_NUM_THREADS", rayon).env_remove("QE_IPC_CACHE").stdin(std::process::Stdio::piped()).stdout(std::process::Stdio::piped());
        if mode != "auto" {
            cmd.env("QE_IPC_CACHE", mode);
        }
        let mut child = cmd.spawn().expect("spawn sidecar-proc");
        let stdin = child.stdin.take().unwrap();
        let stdout = child.stdout.take().unwrap();
        let idx = self.kids.len();
        let tx = self.tx.clone();
        std::thread::spawn(move || {
            for line in BufReader::new(stdout).lines() {
                let line = match line {
                    Ok(l) => l,
                    Err(_) => break,
                };
                if let Ok(v) = serde_json::from_str::<Value>(&line) {
                    if tx.send((idx, v)).is_err() {
                        break;
                    }
                }
            }
            let _ = tx.send((idx, json!({"ev": "eof"})));
        });
        self.kids.push(Child { child, stdin, pid: 0 });
        // hello
        loop {
            let (i, v) = self.rx.recv_timeout(Duration::from_secs(120)).expect("child did not say hello");
            if i == idx && v["ev"] == "hello" {
                self.kids[idx].pid = v["pid"].as_u64().unwrap() as u32;
                break;
            }
        }
        idx
    }
    fn send(&mut self, idx: usize, v: Value) {
        let k = &mut self.kids[idx];
        writeln!(k.stdin, "{v}").expect("child stdin");
        k.stdin.flush().unwrap();
    }
    /// wait for the next message of child `idx` with the given "ev"
    fn expect(&mut self, idx: usize, ev: &str, secs: u64) -> Result<Value, String> {
        let dl = Instant::now() + Duration::from_secs(secs);
        if let Some(pos) = self.backlog.iter().position(|(i, v)| *i == idx && v["ev"] == ev) {
            return Ok(self.backlog.remove(pos).1);
        }
        loop {
            let left = dl.saturating_duration_since(Instant::now());
            match self.rx.recv_timeout(left) {
                Ok((i, v)) => {
                    if i == idx && v["ev"] == ev {
                        return Ok(v);
                    }
                    if v["ev"] == "eof" {
                        return Err(format!("child {i} died"));
                    }
                    if v["ev"] == "stress_done" || v["ev"] == "reset_ok" || v["ev"] == "built" {
                        self.backlog.push((i, v));
                    }
                }
                Err(_) => return Err(format!("timeout waiting for {ev} of child {idx}")),
            }
        }
    }
}

fn sidecar_dir(p: &Path) -> PathBuf {
    let mut name = p.file_name().unwrap().to_os_string();
    name.push(".qeipc");
    p.with_file_name(name)
}

fn stamp_of(p: &Path) -> String {
    use std::os::unix::fs::MetadataExt;
    let m = std::fs::metadata(p).unwrap();
    format!("v2:{}:{}", m.len(), m.mtime())
}

/// Projection of the sidecar directory to the spec's `final`: exists, complete (0 absent / 1 current stamp /
/// 2 other), 1-based indexes of the row-group files present.
fn final_state(p: &Path) -> Value {
    let d = sidecar_dir(p);
    if !d.is_dir() {
        return json!({"exists": 0, "complete": 0, "rgs": []});
    }
    let complete = match std::fs::read_to_string(d.join(".complete")) {
        Ok(s) => {
            if s == stamp_of(p) {
                1
            } else {
                2
            }
        }
        Err(_) => 0,
    };
    let mut rgs: Vec<i64> = Vec::new();
    if let Ok(rd) = std::fs::read_dir(&d) {
        for e in rd.flatten() {
            let n = e.file_name().to_string_lossy().to_string();
            if let Some(k) = n.strip_prefix("rg_").and_then(|s| s.strip_suffix(".arrow")).and_then(|s| s.parse::<i64>().ok()) {
                rgs.push(k + 1);
            }
        }
    }
    rgs.sort();
    json!({"exists": 1, "complete": complete, "rgs": rgs})
}

fn staging_exists(p: &Path, pid: u32) -> bool {
    sidecar_dir(p).with_extension(format!("{pid}.building")).is_dir()
}

fn rgs_of(v: &Value) -> Vec<Vec<i64>> {
    v.as_array().unwrap().iter().map(|g| g.as_array().unwrap().iter().map(|x| x.as_i64().unwrap()).collect()).collect()
}

fn point_of(action: &str) -> &'static str {
    match action {
        "CheckFresh" => "sidecar.check_fresh",
        "LockInProcess" => "sidecar.lock",
        "RecheckFresh" => "sidecar.recheck_fresh",
        "MkStaging" => "sidecar.mk_staging",
        "WriteRg" => "sidecar.write_rg",
        "WriteComplete" => "sidecar.write_complete",
        "RemoveFinal" => "sidecar.remove_final",
        "RenameStaging" => "sidecar.rename",
        "CleanupStaging" => "sidecar.cleanup_staging",
        "OpenRg" => "sidecar.open_rg",
        _ => "?",
    }
}

#[derive(Clone, Debug)]
enum TS {
    Running,
    Parked(String),
    Done(Value),
}

struct Replay<'a> {
    fleet: &'a mut Fleet,
    kid_of_proc: Vec<usize>,   // proc (1-based) -> fleet index
    st: HashMap<i64, TS>,
    per: i64,
}

impl<'a> Replay<'a> {
    fn kid(&self, tid: i64) -> usize {
        self.kid_of_proc[((tid - 1) / self.per) as usize]
    }
    /// pump messages until thread `tid` is parked or done
    fn settle(&mut self, tid: i64, secs: u64) -> Result<(), String> {
        let dl = Instant::now() + Duration::from_secs(secs);
        loop {
            if !matches!(self.st.get(&tid), Some(TS::Running)) {
                return Ok(());
            }
            let left = dl.saturating_duration_since(Instant::now());
            match self.fleet.rx.recv_timeout(left) {
                Ok((_, v)) => self.note(&v),
                Err(_) => return Err(format!("thread {tid} neither parked nor finished within {secs}s")),
            }
        }
    }
    fn note(&mut self, v: &Value) {
        match v["ev"].as_str().unwrap_or("") {
            "park" => {
                self.st.insert(v["tid"].as_i64().unwrap(), TS::Parked(v["point"].as_str().unwrap().to_string()));
            }
            "done" => {
                self.st.insert(v["tid"].as_i64().unwrap(), TS::Done(v.clone()));
            }
            _ => {}
        }
    }
}

/// One TLC behaviour on real files.
fn replay_one(fleet: &mut Fleet, pool: &mut HashMap<String, Vec<usize>>, case: &Value, dir: &Path) -> Value {
    let _ = std::fs::remove_dir_all(dir);
    std::fs::create_dir_all(dir).unwrap();
    let nprocs = case["nprocs"].as_i64().unwrap();
    let per = case["per"].as_i64().unwrap();
    let nrg = case["nrg"].as_u64().unwrap() as usize;
    let auto: Vec<i64> = case["auto"].as_array().unwrap().iter().map(|x| x.as_i64().unwrap()).collect();
    let dict = case["dict"].as_i64().unwrap_or(1) != 0;
    let path = dir.join("t.parquet");
    // processes: one per model process, by mode, from the pool (spawned on demand, reused between behaviours)
    let mut used: HashMap<String, usize> = HashMap::new();
    let mut kid_of_proc = Vec::new();
    for p in 1..=nprocs {
        let mode = if auto.contains(&p) { "auto" } else { "1" };
        let k = *used.get(mode).unwrap_or(&0);
        let have = pool.entry(mode.to_string()).or_default();
        if have.len() <= k {
            have.push(fleet.spawn(mode, "1"));
        }
        kid_of_proc.push(have[k]);
        used.insert(mode.to_string(), k + 1);
    }
    // one more build-mode process prepares the initial sidecar
    let setup = {
        let have = pool.entry("setup".to_string()).or_default();
        if have.is_empty() {
            have.push(fleet.spawn("1", "1"));
        }
        have[0]
    };
    let init = case["init"].as_i64().unwrap();
    let mut tool_error: Option<String> = None;
    if init == 2 {
        // an OLDER version (other rows, other length) gets a sidecar; then the file is replaced
        std::fs::write(&path, parquet_image(&rgs_of(&case["old_rgs"]), dict, 0)).unwrap();
        crate::cache::set_mtime(&path, crate::cache::BASE_SEC, 0);
        fleet.send(setup, json!({"cmd": "build", "path": path}));
        if fleet.expect(setup, "built", 120).map(|v| v["ok"] == true) != Ok(true) {
            tool_error = Some("could not prepare the stale sidecar".into());
        }
    }
    std::fs::write(&path, parquet_image(&rgs_of(&case["rgs"]), dict, if init == 2 { 7 } else { 0 })).unwrap();
    crate::cache::set_mtime(&path, crate::cache::BASE_SEC + 100, 0);
    if init == 1 {
        fleet.send(setup, json!({"cmd": "build", "path": path}));
        if fleet.expect(setup, "built", 120).map(|v| v["ok"] == true) != Ok(true) {
            tool_error = Some("could not prepare the fresh sidecar".into());
        }
    }
    let init_state = final_state(&path);
    let mut obs: Vec<Value> = Vec::new();
    let mut diverged: Option<Value> = None;
    let nthreads = nprocs * per;
    let mut rp = Replay { fleet, kid_of_proc: kid_of_proc.clone(), st: HashMap::new(), per };
    let kids: Vec<usize> = {
        let mut k = kid_of_proc.clone();
        k.dedup();
        k
    };
    for &k in &kids {
        rp.fleet.send(k, json!({"cmd": "reset", "sched": true, "logging": false}));
        if let Err(e) = rp.fleet.expect(k, "reset_ok", 60) {
            tool_error = Some(e);
        }
    }
    if tool_error.is_none() {
        for t in 1..=nthreads {
            rp.st.insert(t, TS::Running);
            let k = rp.kid(t);
            rp.fleet.send(k, json!({"cmd": "start", "tid": t, "path": path, "nrg": nrg}));
        }
        for t in 1..=nthreads {
            if let Err(e) = rp.settle(t, 60) {
                tool_error = Some(e);
            }
        }
    }
    if tool_error.is_none() {
        for (i, step) in case["steps"].as_array().unwrap().iter().enumerate() {
            let t = step["t"].as_i64().unwrap();
            let a = step["a"].as_str().unwrap();
            let cur = rp.st.get(&t).cloned().unwrap_or(TS::Running);
            if a == "ParquetRead" {
                // in the code this is the tail of the CheckFresh step of an auto-mode query
                match &cur {
                    TS::Done(v) if v["out"] == "parquet" => {
                        obs.push(json!({"i": i, "t": t, "a": a, "final": final_state(&path), "merged": 1}));
                        continue;
                    }
                    other => {
                        diverged = Some(json!({"step": i, "t": t, "a": a, "found": format!("{other:?}")}));
                        break;
                    }
                }
            }
            match &cur {
                TS::Parked(pt) if pt == point_of(a) => {}
                other => {
                    diverged = Some(json!({"step": i, "t": t, "a": a, "expected_point": point_of(a), "found": format!("{other:?}").chars().take(200).collect::<String>()}));
                    break;
                }
            }
            rp.st.insert(t, TS::Running);
            let k = rp.kid(t);
            rp.fleet.send(k, json!({"cmd": "go", "tid": t}));
            if let Err(e) = rp.settle(t, 60) {
                tool_error = Some(e);
                break;
            }
            let staging: Vec<i64> = (1..=nprocs).filter(|p| staging_exists(&path, rp.fleet.kids[kid_of_proc[(*p - 1) as usize]].pid)).collect();
            let now = match rp.st.get(&t) {
                Some(TS::Parked(p)) => json!(p),
                Some(TS::Done(v)) => json!(format!("done:{}", v["out"].as_str().unwrap_or("?"))),
                _ => json!("running"),
            };
            obs.push(json!({"i": i, "t": t, "a": a, "final": final_state(&path), "staging": staging, "now": now}));
        }
    }
    // let everything still parked run to its end
    let pending: Vec<i64> = (1..=nthreads).filter(|t| !matches!(rp.st.get(t), Some(TS::Done(_)))).collect();
    if !pending.is_empty() {
        for &k in &kids {
            rp.fleet.send(k, json!({"cmd": "free"}));
        }
        for &t in &pending {
            if let Err(e) = rp.settle_done(t, 60) {
                tool_error = Some(e);
            }
        }
        if diverged.is_none() && tool_error.is_none() {
            diverged = Some(json!({"step": -1, "left_running": pending}));
        }
    }
    let mut outs = serde_json::Map::new();
    for t in 1..=nthreads {
        if let Some(TS::Done(v)) = rp.st.get(&t) {
            outs.insert(t.to_string(), v.clone());
        }
    }
    let mut r = json!({"id": case["id"], "init_state": init_state, "obs": obs, "outs": outs, "final": final_state(&path)});
    if let Some(d) = diverged {
        r["diverged"] = d;
    }
    if let Some(e) = tool_error {
        r["tool_error"] = json!(e);
    }
    let leftovers: Vec<String> = std::fs::read_dir(dir).map(|d| d.flatten().map(|e| e.file_name().to_string_lossy().to_string()).filter(|n| n.ends_with(".building")).collect()).unwrap_or_default();
    r["staging_left"] = json!(leftovers);
    r
}

impl<'a> Replay<'a> {
    fn settle_done(&mut self, tid: i64, secs: u64) -> Result<(), String> {
        let dl = Instant::now() + Duration::from_secs(secs);
        loop {
            if matches!(self.st.get(&tid), Some(TS::Done(_))) {
                return Ok(());
            }
            let left = dl.saturating_duration_since(Instant::now());
            match self.fleet.rx.recv_timeout(left) {
                Ok((_, v)) => self.note(&v),
                Err(_) => return Err(format!("thread {tid} did not finish within {secs}s after being freed")),
            }
        }
    }
}

/// qev sidecar-orch <behaviours.ndjson> <out.ndjson> <workdir> [keep]
pub fn orch(a: &[String]) -> i32 {
    let cases = read_ndjson(&a[0]);
    let work = PathBuf::from(&a[2]);
    assert!(work.is_absolute(), "workdir must be absolute");
    let keep = a.get(3).map(|s| s == "keep").unwrap_or(false);
    let run = work.join(format!("orch-{}", std::process::id()));
    let _ = std::fs::remove_dir_all(&run);
    std::fs::create_dir_all(&run).unwrap();
    let mut fleet = Fleet::new();
    let mut pool: HashMap<String, Vec<usize>> = HashMap::new();
    let mut out = Out::create(&a[1]);
    let mut bad = 0;
    for (i, c) in cases.iter().enumerate() {
        let dir = run.join(format!("b{i:06}"));
        let r = replay_one(&mut fleet, &mut pool, c, &dir);
        if r.get("tool_error").is_some() {
            bad += 1;
            eprintln!("sidecar-orch: behaviour {i}: {}", r["tool_error"]);
            // the fleet may be wedged: start over with fresh processes
            fleet = Fleet::new();
            pool.clear();
        }
        out.put(&r);
        if !keep {
            let _ = std::fs::remove_dir_all(&dir);
        }
    }
    out.finish();
    drop(fleet);
    if !keep {
        let _ = std::fs::remove_dir_all(&run);
    }
    if bad > 0 {
        3
    } else {
        0
    }
}

/// qev sidecar-stress <configs.ndjson> <out.ndjson> <workdir>
/// config: {id, builders, readers, off, threads, iters, dict, rgs, sql, init}
pub fn stress(a: &[String]) -> i32 {
    let cases = read_ndjson(&a[0]);
    let work = PathBuf::from(&a[2]);
    assert!(work.is_absolute(), "workdir must be absolute");
    let run = work.join(format!("stress-{}", std::process::id()));
    let _ = std::fs::remove_dir_all(&run);
    std::fs::create_dir_all(&run).unwrap();
    let mut out = Out::create(&a[1]);
    let mut bad = 0;
    for (i, c) in cases.iter().enumerate() {
        let dir = run.join(format!("s{i:05}"));
        std::fs::create_dir_all(&dir).unwrap();
        let path = dir.join("t.parquet");
        let dict = c["dict"].as_i64().unwrap_or(1) != 0;
        let rgs = rgs_of(&c["rgs"]);
        std::fs::write(&path, parquet_image(&rgs, dict, 0)).unwrap();
        crate::cache::set_mtime(&path, crate::cache::BASE_SEC + 100, 0);
        let mut fleet = Fleet::new();
        let rayon = c["rayon"].as_str().unwrap_or("2").to_string();
        // the no-sidecar answer: a process with QE_IPC_CACHE=0
        let base = fleet.spawn("0", &rayon);
        let mut kids: Vec<(usize, &str)> = vec![(base, "0")];
        for _ in 0..c["builders"].as_i64().unwrap_or(0) {
            kids.push((fleet.spawn("1", &rayon), "1"));
        }
        for _ in 0..c["readers"].as_i64().unwrap_or(0) {
            kids.push((fleet.spawn("auto", &rayon), "auto"));
        }
        if c["init"].as_i64().unwrap_or(0) == 1 {
            let k = kids.iter().find(|(_, m)| *m == "1").map(|(k, _)| *k);
            if let Some(k) = k {
                fleet.send(k, json!({"cmd": "build", "path": path}));
                let _ = fleet.expect(k, "built", 120);
            }
        }
        let start_at = mono_ns() + 150_000_000;
        for (k, _) in &kids {
            fleet.send(*k, json!({"cmd": "reset", "sched": false, "logging": true}));
        }
        for (k, _) in &kids {
            let _ = fleet.expect(*k, "reset_ok", 60);
        }
        for (k, _) in &kids {
            fleet.send(*k, json!({"cmd": "stress", "path": path, "nrg": rgs.len(), "threads": c["threads"], "iters": c["iters"],
                                  "sql": c["sql"].as_bool().unwrap_or(true), "start_at": start_at}));
        }
        let mut procs = Vec::new();
        for (k, m) in &kids {
            match fleet.expect(*k, "stress_done", 600) {
                Ok(v) => procs.push(json!({"mode": m, "pid": fleet.kids[*k].pid, "answers": v["answers"], "log": v["log"]})),
                Err(e) => {
                    bad += 1;
                    procs.push(json!({"mode": m, "tool_error": e}));
                }
            }
        }
        out.put(&json!({"id": c["id"], "procs": procs, "final": final_state(&path)}));
        drop(fleet);
        let _ = std::fs::remove_dir_all(&dir);
    }
    out.finish();
    let _ = std::fs::remove_dir_all(&run);
    if bad > 0 {
        3
    } else {
        0
    }
}
