//! C33 — memory pool accounting under concurrency (spec/MemoryPool.tla).
//!
//! `pool-replay`: every TLC behaviour (a sequence of atomic-grain steps of 2..3 modelled
//! threads) is executed by real OS threads on the real `MemoryPool`.  The sync points in
//! /repo/src/execution/memory.rs (`pool.try.load`, `pool.try.cas`, `pool.alloc.add`,
//! `pool.resize.add`, `pool.resize.sub`, `pool.release.sub`) sit immediately before each
//! atomic access of `used`; a registered thread parks there and the scheduler releases
//! exactly the thread the behaviour names next, then waits until it parks again or ends its
//! operation.  One spec action = the code between two sync points of one thread, so the
//! interleaving TLC chose is the interleaving the real AtomicUsize sees.  After every step
//! `pool.used()`, the operation outcome and the owner's `size()`s are compared with the
//! spec state carried in the behaviour.
//!
//! `pool-stress`: unscheduled threads with barriers, recorded for MemoryPoolTrace.tla.
//!
//! Numbers: usize values travel as window representatives (v >= 0 itself, -k = usize::MAX-(k-1)).
use crate::util::*;
use query_engine::execution::{MemoryPool, MemoryReservation};
use rand::{Rng, SeedableRng};
use serde_json::{json, Value};
use std::cell::RefCell;
use std::sync::atomic::{AtomicUsize, Ordering};
use std::sync::{Arc, Barrier, Condvar, Mutex};
use std::time::{Duration, Instant};

const NULL: i64 = -1073741824;
const WINDOW: i64 = 1 << 30;

fn conc(rep: i64) -> usize {
    rep as usize // two's complement: -1 -> usize::MAX
}
fn abs_(v: usize) -> i64 {
    let s = v as i64;
    if s > -WINDOW && s < WINDOW {
        s
    } else {
        NULL
    }
}

// ---------------------------------------------------------------------------------------
// pool under test: the real one, or a toy mirror with a seeded bug (selftest only)

#[derive(Clone, Copy, PartialEq, Debug)]
enum Toy {
    Correct,
    Toctou,     // try_allocate = load; check; fetch_add
    NoStore,    // resize does the RMW but does not store the new size
    StoreFirst, // resize stores the new size before computing the difference
    DropOrig,   // drop releases the original, not the resized size
    SatSub,     // release uses a saturating subtraction
    Hoist,      // try_allocate checks the limit only before the CAS loop, not on retry
}

struct ToyPool {
    max: usize,
    used: AtomicUsize,
    bug: Toy,
}
struct ToyRes<'a> {
    pool: &'a ToyPool,
    size: usize,
    orig: usize,
}

fn sp(name: &str) {
    query_engine::verif_hooks::sync_point(name);
}

impl ToyPool {
    fn try_allocate(&self, size: usize) -> Option<ToyRes<'_>> {
        sp("pool.try.load");
        let mut current = self.used.load(Ordering::Relaxed);
        let mut first = true;
        loop {
            let new_usage = current.checked_add(size)?;
            if new_usage > self.max && (first || self.bug != Toy::Hoist) {
                return None;
            }
            first = false;
            sp("pool.try.cas");
            if self.bug == Toy::Toctou {
                self.used.fetch_add(size, Ordering::SeqCst);
                return Some(ToyRes { pool: self, size, orig: size });
            }
            match self.used.compare_exchange_weak(current, new_usage, Ordering::SeqCst, Ordering::Relaxed) {
                Ok(_) => return Some(ToyRes { pool: self, size, orig: size }),
                Err(actual) => current = actual,
            }
        }
    }
    fn allocate(&self, size: usize) -> ToyRes<'_> {
        sp("pool.alloc.add");
        self.used.fetch_add(size, Ordering::SeqCst);
        ToyRes { pool: self, size, orig: size }
    }
    fn release(&self, size: usize) {
        sp("pool.release.sub");
        if self.bug == Toy::SatSub {
            let _ = self.used.fetch_update(Ordering::SeqCst, Ordering::SeqCst, |u| Some(u.saturating_sub(size)));
        } else {
            self.used.fetch_sub(size, Ordering::SeqCst);
        }
    }
}
impl<'a> ToyRes<'a> {
    fn resize(&mut self, new_size: usize) {
        let grow = new_size > self.size;
        if self.pool.bug == Toy::StoreFirst {
            self.size = new_size; // the difference below is then computed from the new value: 0
        }
        if grow {
            let diff = new_size - self.size;
            sp("pool.resize.add");
            self.pool.used.fetch_add(diff, Ordering::SeqCst);
        } else {
            let diff = self.size - new_size;
            sp("pool.resize.sub");
            self.pool.used.fetch_sub(diff, Ordering::SeqCst);
        }
        if self.pool.bug != Toy::NoStore {
            self.size = new_size;
        }
    }
}
impl<'a> Drop for ToyRes<'a> {
    fn drop(&mut self) {
        let s = if self.pool.bug == Toy::DropOrig { self.orig } else { self.size };
        self.pool.release(s);
    }
}

enum AnyPool {
    Real(MemoryPool),
    Toy(ToyPool),
}
enum AnyRes<'a> {
    Real(MemoryReservation<'a>),
    Toy(ToyRes<'a>),
}
impl AnyPool {
    fn new(imp: &str, max: usize) -> AnyPool {
        let bug = match imp {
            "real" => return AnyPool::Real(MemoryPool::new(max)),
            "toy:correct" => Toy::Correct,
            "toy:toctou" => Toy::Toctou,
            "toy:nostore" => Toy::NoStore,
            "toy:storefirst" => Toy::StoreFirst,
            "toy:droporig" => Toy::DropOrig,
            "toy:satsub" => Toy::SatSub,
            "toy:hoist" => Toy::Hoist,
            other => panic!("unknown --impl {other}"),
        };
        AnyPool::Toy(ToyPool { max, used: AtomicUsize::new(0), bug })
    }
    fn try_allocate(&self, s: usize) -> Option<AnyRes<'_>> {
        match self {
            AnyPool::Real(p) => p.try_allocate(s).map(AnyRes::Real),
            AnyPool::Toy(p) => p.try_allocate(s).map(AnyRes::Toy),
        }
    }
    fn allocate(&self, s: usize) -> AnyRes<'_> {
        match self {
            AnyPool::Real(p) => AnyRes::Real(p.allocate(s)),
            AnyPool::Toy(p) => AnyRes::Toy(p.allocate(s)),
        }
    }
    fn used(&self) -> usize {
        match self {
            AnyPool::Real(p) => p.used(),
            AnyPool::Toy(p) => p.used.load(Ordering::Relaxed),
        }
    }
}
impl<'a> AnyRes<'a> {
    fn size(&self) -> usize {
        match self {
            AnyRes::Real(r) => r.size(),
            AnyRes::Toy(r) => r.size,
        }
    }
    fn resize(&mut self, n: usize) {
        match self {
            AnyRes::Real(r) => r.resize(n),
            AnyRes::Toy(r) => r.resize(n),
        }
    }
}

// ---------------------------------------------------------------------------------------
// operations and the spec's action codes

const A_LOAD: i64 = 1;
const A_CAS: i64 = 2;
const A_ALLOC: i64 = 4;
const A_GROW: i64 = 5;
const A_SHRINK: i64 = 6;
const A_DROP: i64 = 7;

fn point_of(a: i64) -> &'static str {
    match a {
        A_LOAD => "pool.try.load",
        A_CAS => "pool.try.cas",
        A_ALLOC => "pool.alloc.add",
        A_GROW => "pool.resize.add",
        A_SHRINK => "pool.resize.sub",
        A_DROP => "pool.release.sub",
        _ => "?",
    }
}

#[derive(Clone, Debug)]
enum Op {
    Try(i64),
    Alloc(i64),
    Resize(usize, i64), // slot (0-based), new size
    Drop(usize),
}

/// Is `points` a sequence of sync points the operation may legally pass (by the binding
/// contract between memory.rs and MemoryPool.tla)?  Anything else = a hook was removed or
/// the code was restructured: binding lost.
fn legal_points(op: &Op, points: &[String], some: Option<bool>) -> bool {
    match op {
        Op::Try(_) => {
            if points.is_empty() || points[0] != "pool.try.load" {
                return false;
            }
            if !points[1..].iter().all(|p| p == "pool.try.cas") {
                return false;
            }
            // Some(..) needs at least one CAS
            !(some == Some(true) && points.len() < 2)
        }
        Op::Alloc(_) => points.len() == 1 && points[0] == "pool.alloc.add",
        Op::Resize(..) => points.len() == 1 && (points[0] == "pool.resize.add" || points[0] == "pool.resize.sub"),
        Op::Drop(_) => points.len() == 1 && points[0] == "pool.release.sub",
    }
}

// ---------------------------------------------------------------------------------------
// the scheduler

#[derive(Clone, PartialEq, Debug)]
enum TState {
    Running,
    Parked(String),
    Go,
    Finished,
}

#[derive(Clone, Debug)]
struct OpReport {
    idx: usize,
    some: Option<bool>, // try_allocate: Some(true)=Some, Some(false)=None
    sizes: Vec<usize>,
    points: Vec<String>,
    panic: Option<String>,
    skipped: bool,
}

struct Inner {
    st: Vec<TState>,
    free_run: bool,
    abort: bool,
    reports: Vec<Vec<OpReport>>,
    points: Vec<Vec<String>>,
}
struct Sched {
    m: Mutex<Inner>,
    cv: Condvar,
}

thread_local! {
    static CURRENT: RefCell<Option<(usize, Arc<Sched>)>> = const { RefCell::new(None) };
}

fn on_sync(name: &str) {
    let cur = CURRENT.with(|c| c.borrow().clone());
    if let Some((tid, s)) = cur {
        s.park(tid, name);
    }
}

fn install() {
    query_engine::verif_hooks::install_sync(Some(Arc::new(on_sync)));
}

const STEP_TIMEOUT: Duration = Duration::from_secs(120);

impl Sched {
    fn new(n: usize) -> Arc<Sched> {
        Arc::new(Sched {
            m: Mutex::new(Inner {
                st: vec![TState::Running; n],
                free_run: false,
                abort: false,
                reports: vec![Vec::new(); n],
                points: vec![Vec::new(); n],
            }),
            cv: Condvar::new(),
        })
    }
    fn park(&self, tid: usize, name: &str) {
        let mut g = self.m.lock().unwrap();
        if g.free_run {
            return;
        }
        g.points[tid].push(name.to_string());
        g.st[tid] = TState::Parked(name.to_string());
        self.cv.notify_all();
        while g.st[tid] != TState::Go && !g.free_run {
            g = self.cv.wait(g).unwrap();
        }
        g.st[tid] = TState::Running;
    }
    fn op_done(&self, tid: usize, mut r: OpReport) {
        let mut g = self.m.lock().unwrap();
        r.points = std::mem::take(&mut g.points[tid]);
        g.reports[tid].push(r);
    }
    fn aborted(&self) -> bool {
        self.m.lock().unwrap().abort
    }
    fn finished(&self, tid: usize) {
        let mut g = self.m.lock().unwrap();
        g.st[tid] = TState::Finished;
        self.cv.notify_all();
        while !g.free_run {
            g = self.cv.wait(g).unwrap();
        }
    }
    /// wait until every thread is parked or finished
    fn settle(&self) -> Result<(), String> {
        let dl = Instant::now() + STEP_TIMEOUT;
        let mut g = self.m.lock().unwrap();
        loop {
            if g.st.iter().all(|s| matches!(s, TState::Parked(_) | TState::Finished)) {
                return Ok(());
            }
            let now = Instant::now();
            if now >= dl {
                return Err(format!("threads did not settle: {:?}", g.st));
            }
            g = self.cv.wait_timeout(g, dl - now).unwrap().0;
        }
    }
    /// release thread t from its sync point; returns (point it was parked at, reports it
    /// produced, where it is now)
    fn step(&self, t: usize) -> Result<(String, Vec<OpReport>, TState), String> {
        let dl = Instant::now() + STEP_TIMEOUT;
        let mut g = self.m.lock().unwrap();
        let at = match &g.st[t] {
            TState::Parked(n) => n.clone(),
            other => return Err(format!("thread {} not parked: {:?}", t + 1, other)),
        };
        let before = g.reports[t].len();
        g.st[t] = TState::Go;
        self.cv.notify_all();
        loop {
            if matches!(g.st[t], TState::Parked(_) | TState::Finished) {
                break;
            }
            let now = Instant::now();
            if now >= dl {
                return Err(format!("thread {} stuck after {}", t + 1, at));
            }
            g = self.cv.wait_timeout(g, dl - now).unwrap().0;
        }
        Ok((at, g.reports[t][before..].to_vec(), g.st[t].clone()))
    }
    fn state(&self, t: usize) -> (TState, usize) {
        let g = self.m.lock().unwrap();
        (g.st[t].clone(), g.points[t].len())
    }
    fn teardown(&self) {
        let mut g = self.m.lock().unwrap();
        g.abort = true;
        g.free_run = true;
        self.cv.notify_all();
    }
}

fn worker(tid: usize, pool: Arc<AnyPool>, prog: Vec<Op>, sched: Arc<Sched>) {
    CURRENT.with(|c| *c.borrow_mut() = Some((tid, sched.clone())));
    let p: &AnyPool = &pool;
    let mut held: Vec<AnyRes<'_>> = Vec::new();
    for (i, op) in prog.iter().enumerate() {
        if sched.aborted() {
            break;
        }
        let mut some = None;
        let mut skipped = false;
        let r = std::panic::catch_unwind(std::panic::AssertUnwindSafe(|| match op {
            Op::Try(s) => match p.try_allocate(conc(*s)) {
                Some(r) => {
                    held.push(r);
                    some = Some(true);
                }
                None => some = Some(false),
            },
            Op::Alloc(s) => held.push(p.allocate(conc(*s))),
            Op::Resize(k, n) => {
                if *k < held.len() {
                    held[*k].resize(conc(*n))
                } else {
                    skipped = true
                }
            }
            Op::Drop(k) => {
                if *k < held.len() {
                    drop(held.remove(*k))
                } else {
                    skipped = true
                }
            }
        }));
        let panic = r.err().map(|e| {
            e.downcast_ref::<&str>().map(|s| s.to_string()).or_else(|| e.downcast_ref::<String>().cloned()).unwrap_or_else(|| "panic".into())
        });
        let sizes = held.iter().map(|r| r.size()).collect();
        sched.op_done(tid, OpReport { idx: i, some, sizes, points: vec![], panic, skipped });
    }
    sched.finished(tid);
    // free-run from here on: remaining reservations are released without parking
    CURRENT.with(|c| *c.borrow_mut() = None);
    drop(held);
}

// ---------------------------------------------------------------------------------------
// replay of one behaviour

struct Step {
    t: usize,
    a: i64,
    x: i64,
    y: i64,
    ok: i64,
    u: i64,
}

fn parse_steps(c: &Value) -> Vec<Step> {
    c["steps"]
        .as_array()
        .expect("steps")
        .iter()
        .map(|s| {
            let g = |i: usize| s[i].as_i64().expect("int in step");
            Step { t: g(0) as usize - 1, a: g(1), x: g(2), y: g(3), ok: g(4), u: g(5) }
        })
        .collect()
}

fn programs(nt: usize, steps: &[Step]) -> Result<Vec<Vec<Op>>, String> {
    let mut pr = vec![Vec::new(); nt];
    for s in steps {
        if s.t >= nt {
            return Err("thread id out of range".into());
        }
        match s.a {
            A_LOAD => pr[s.t].push(Op::Try(s.x)),
            A_CAS | 3 => {}
            A_ALLOC => pr[s.t].push(Op::Alloc(s.x)),
            A_GROW | A_SHRINK => pr[s.t].push(Op::Resize(s.x as usize - 1, s.y)),
            A_DROP => pr[s.t].push(Op::Drop(s.x as usize - 1)),
            other => return Err(format!("unknown action {other}")),
        }
    }
    Ok(pr)
}

/// the property's own predicates on OBSERVED values (reps).  Returns a description of the
/// first broken clause.
fn contract(u: i64, live: &[Vec<i64>], max: i64, grant: bool, idle: bool) -> Option<String> {
    if u == NULL || live.iter().flatten().any(|&s| s == NULL) {
        return Some(format!("used()/size() left the representable window: used={u} live={live:?}"));
    }
    let sum: i64 = live.iter().flatten().sum();
    let ntop = live.iter().flatten().filter(|&&s| s < 0).count();
    if u != sum {
        let ult = if (u >= 0) == (sum >= 0) { u < sum } else { u >= 0 };
        let kind = if ntop == 0 && u < 0 {
            "wrapped below zero (underflow): far above"
        } else if ult {
            "below (lost add)"
        } else {
            "above (leak / lost release)"
        };
        return Some(format!("used()={u} but the live reservations sum to {sum} (mod 2^64): usage is {kind} the sum"));
    }
    let fits = ntop == 0 || (ntop == 1 && sum < 0);
    if fits && ((u < 0) != (ntop == 1)) {
        return Some(format!("used()={u} wrapped although the true sum of live sizes fits"));
    }
    if grant {
        let ule = if (u >= 0) == (max >= 0) { u <= max } else { u >= 0 };
        if !ule {
            return Some(format!("try_allocate granted a reservation with used()={u} > limit {max}"));
        }
    }
    if idle && live.iter().all(|l| l.is_empty()) && u != 0 {
        return Some(format!("all reservations dropped but used()={u}"));
    }
    None
}

struct Outcome {
    status: &'static str, // ok | diverged | binding_lost | error
    at: i64,
    why: String,
    contract: Option<String>,
    trace: Vec<Value>,
    spurious: u64,
    post: u64, // releases made after a divergence (continuation)
}

fn replay_one(imp: &str, case: &Value) -> Outcome {
    let max = case["max"].as_i64().expect("max");
    let nt = case["nt"].as_u64().expect("nt") as usize;
    let steps = parse_steps(case);
    let mut out = Outcome { status: "ok", at: -1, why: String::new(), contract: None, trace: Vec::new(), spurious: 0, post: 0 };
    let progs = match programs(nt, &steps) {
        Ok(p) => p,
        Err(e) => {
            out.status = "error";
            out.why = e;
            return out;
        }
    };
    let pool = Arc::new(AnyPool::new(imp, conc(max)));
    let sched = Sched::new(nt);
    let mut handles = Vec::new();
    for t in 0..nt {
        let (p, pr, s) = (pool.clone(), progs[t].clone(), sched.clone());
        handles.push(std::thread::spawn(move || worker(t, p, pr, s)));
    }
    out.trace.push(json!({"ev": "begin", "max": max, "nt": nt, "mode": 1}));
    let mut live: Vec<Vec<i64>> = vec![Vec::new(); nt]; // observed size()s (last report)
    let mut exp: Vec<Vec<i64>> = vec![Vec::new(); nt]; // the spec's reservation lists
    let mut opi = vec![0usize; nt]; // index of the operation each thread is in
    let obs_rec = |u: i64, live: &Vec<Vec<i64>>, grant: bool, idle: bool| json!({"ev": "obs", "u": u, "live": live, "max": max, "grant": grant as i64, "idle": idle as i64});
    let idle_now = |sched: &Sched| (0..nt).all(|t| match sched.state(t) {
        (TState::Finished, _) => true,
        (TState::Parked(_), np) => np == 1,
        _ => false,
    });

    let fail = |out: &mut Outcome, status: &'static str, at: usize, why: String| {
        out.status = status;
        out.at = at as i64;
        out.why = why;
    };

    'run: {
        if let Err(e) = sched.settle() {
            fail(&mut out, "error", 0, e);
            break 'run;
        }
        for (i, s) in steps.iter().enumerate() {
            if s.a == 3 {
                // a spurious weak-CAS failure cannot be forced on real hardware; replay
                // behaviours are generated without it
                fail(&mut out, "error", i, "behaviour contains a spurious CAS failure".into());
                break 'run;
            }
            // where is the thread?
            match sched.state(s.t).0 {
                TState::Parked(ref n) if n == point_of(s.a) => {}
                TState::Parked(n) => {
                    // a resize may legitimately choose the other RMW only if the code's comparison differs
                    fail(&mut out, "binding_lost", i, format!("thread {} is parked at {} but the spec action needs {}", s.t + 1, n, point_of(s.a)));
                    break 'run;
                }
                other => {
                    fail(&mut out, "binding_lost", i, format!("thread {} is {:?} but the spec action needs sync point {}", s.t + 1, other, point_of(s.a)));
                    break 'run;
                }
            }
            let mut tries = 0;
            let (reports, now) = loop {
                let used_before = pool.used();
                let (_at, reports, now) = match sched.step(s.t) {
                    Ok(x) => x,
                    Err(e) => {
                        fail(&mut out, "error", i, e);
                        break 'run;
                    }
                };
                // weak CAS: a spurious failure leaves the thread at the CAS again with `used`
                // untouched although the spec's CAS succeeds (used = cur): explained by the
                // spec's TryCasSpurious; release it again
                if s.a == A_CAS && s.ok == 1 && reports.is_empty() && now == TState::Parked("pool.try.cas".into()) && pool.used() == used_before && tries < 1000 {
                    tries += 1;
                    out.spurious += 1;
                    out.trace.push(json!({"ev": "step", "t": s.t + 1, "a": A_CAS, "x": 0, "y": 0, "ok": 2, "u": abs_(pool.used()), "r": live[s.t]}));
                    continue;
                }
                break (reports, now);
            };
            let u = abs_(pool.used());
            // the spec's expectation for the owner's list
            match s.a {
                A_CAS if s.ok == 1 => {
                    if let Op::Try(sz) = progs[s.t][opi[s.t]] {
                        exp[s.t].push(sz)
                    }
                }
                A_ALLOC => exp[s.t].push(s.x),
                A_GROW | A_SHRINK => {
                    let k = s.x as usize - 1;
                    if k < exp[s.t].len() {
                        exp[s.t][k] = s.y
                    }
                }
                A_DROP => {
                    let k = s.x as usize - 1;
                    if k < exp[s.t].len() {
                        exp[s.t].remove(k);
                    }
                }
                _ => {}
            }
            if reports.len() > 1 {
                fail(&mut out, "binding_lost", i, format!("thread {} completed {} operations in one step (a sync point is missing)", s.t + 1, reports.len()));
                break 'run;
            }
            let mut obs_ok = 2;
            let mut grant = false;
            let mut mism: Vec<String> = Vec::new();
            if let Some(r) = reports.first() {
                let op = &progs[s.t][r.idx];
                live[s.t] = r.sizes.iter().map(|&v| abs_(v)).collect();
                if let Some(p) = &r.panic {
                    mism.push(format!("operation panicked: {p}"));
                } else if r.skipped {
                    mism.push("operation addressed a reservation that does not exist".into());
                } else if !legal_points(op, &r.points, r.some) {
                    fail(&mut out, "binding_lost", i, format!("operation {:?} of thread {} passed sync points {:?}", op, s.t + 1, r.points));
                    break 'run;
                }
                obs_ok = match r.some {
                    Some(false) => 0,
                    _ => 1,
                };
                grant = r.some == Some(true);
                opi[s.t] = r.idx + 1;
            }
            out.trace.push(json!({"ev": "step", "t": s.t + 1, "a": s.a, "x": s.x, "y": s.y, "ok": obs_ok, "u": u, "r": live[s.t]}));
            let idle = idle_now(&sched);
            if let Some(c) = contract(u, &live, max, grant, idle) {
                out.contract.get_or_insert(format!("after step {} ({}): {}", i + 1, point_of(s.a), c));
            }
            if obs_ok != s.ok {
                let nm = |k: i64| match k {
                    0 => "None",
                    1 => "Some/done",
                    _ => "still in flight",
                };
                mism.push(format!("outcome {} but the spec says {}", nm(obs_ok), nm(s.ok)));
            }
            if u != s.u {
                mism.push(format!("used()={} but the spec state has used={}", u, s.u));
            }
            if obs_ok != 2 && live[s.t] != exp[s.t] {
                mism.push(format!("size()s {:?} but the spec has {:?}", live[s.t], exp[s.t]));
            }
            if !mism.is_empty() || out.contract.is_some() {
                out.trace.push(obs_rec(u, &live, grant, idle));
                let why = if mism.is_empty() { out.contract.clone().unwrap() } else { mism.join("; ") };
                fail(&mut out, "diverged", i, format!("thread {} at {}: {}", s.t + 1, point_of(s.a), why));
                break 'run;
            }
            let _ = now;
        }
    }
    // After a divergence the spec can no longer say what comes next, but the property still
    // can: keep driving the REAL threads, still one sync point at a time (so used() is read
    // while everybody else is parked), until every program has ended, and evaluate the
    // property's own predicates on everything observed.  Order: the diverged thread until its
    // operation ends, then the rest of the behaviour's schedule as far as it applies, then
    // any parked thread.  A breach found here is a contract breach of the real code under a
    // real schedule (the prefix of the behaviour + this continuation).
    if out.status == "diverged" && out.contract.is_none() {
        let first = out.at.max(0) as usize;
        let stick = steps.get(first).map(|s| s.t);
        let mut pref: std::collections::VecDeque<usize> = steps.iter().skip(first + 1).map(|s| s.t).collect();
        let mut budget = 4000;
        let mut k = 0;
        loop {
            let parked = |t: usize| matches!(sched.state(t).0, TState::Parked(_));
            let mut pick = stick.filter(|&d| parked(d) && sched.state(d).1 > 1);
            while pick.is_none() {
                match pref.pop_front() {
                    Some(t) if parked(t) => pick = Some(t),
                    Some(_) => {}
                    None => break,
                }
            }
            let t = match pick.or_else(|| (0..nt).find(|&t| parked(t))) {
                Some(t) => t,
                None => break, // every thread has finished its program
            };
            budget -= 1;
            if budget == 0 {
                out.status = "error";
                out.why = "continuation after a divergence did not terminate".into();
                break;
            }
            let (at, reports, _now) = match sched.step(t) {
                Ok(x) => x,
                Err(e) => {
                    out.status = "error";
                    out.why = e;
                    break;
                }
            };
            k += 1;
            let u = abs_(pool.used());
            let mut grant = false;
            for r in &reports {
                live[t] = r.sizes.iter().map(|&v| abs_(v)).collect();
                if r.some == Some(true) {
                    grant = true;
                }
            }
            let idle = idle_now(&sched);
            out.trace.push(obs_rec(u, &live, grant, idle));
            if let Some(c) = contract(u, &live, max, grant, idle) {
                out.contract = Some(format!(
                    "continuing the real threads after the divergence at step {}, {} more release(s), thread {} released from {}: {}",
                    first + 1, k, t + 1, at, c
                ));
                break;
            }
        }
        out.post = k;
    }
    // teardown: everything left runs free and is dropped; the pool must return to zero
    sched.teardown();
    let mut joined_ok = true;
    for h in handles {
        if h.join().is_err() {
            joined_ok = false;
        }
    }
    let u = abs_(pool.used());
    let empty: Vec<Vec<i64>> = vec![Vec::new(); nt];
    out.trace.push(obs_rec(u, &empty, false, true));
    if out.status == "ok" || (out.status == "diverged" && out.contract.is_none()) {
        if !joined_ok {
            out.status = "error";
            out.why = "worker thread panicked outside an operation".into();
        } else if let Some(c) = contract(u, &empty, max, false, true) {
            if out.status == "ok" {
                out.at = steps.len() as i64;
            }
            out.status = "diverged";
            out.contract = Some(format!("after all threads ended and dropped their reservations: {c}"));
            if out.why.is_empty() {
                out.why = out.contract.clone().unwrap();
            }
        }
    }
    out
}

/// pool-replay <in.ndjson> <out.ndjson> [--impl real|toy:<bug>] [--trace all|fail] [--lanes N]
pub fn replay(a: &[String]) -> i32 {
    quiet_panics();
    let mut imp = "real".to_string();
    let mut trace_all = false;
    let mut lanes = 4usize;
    let mut i = 2;
    while i < a.len() {
        match a[i].as_str() {
            "--impl" => {
                imp = a[i + 1].clone();
                i += 1
            }
            "--trace" => {
                trace_all = a[i + 1] == "all";
                i += 1
            }
            "--lanes" => {
                lanes = a[i + 1].parse().unwrap();
                i += 1
            }
            other => {
                eprintln!("unknown option {other}");
                return 2;
            }
        }
        i += 1;
    }
    let cases = read_ndjson(&a[0]);
    install();
    let n = cases.len();
    let lanes = lanes.max(1).min(n.max(1));
    let next = AtomicUsize::new(0);
    let results: Vec<Mutex<Option<Value>>> = (0..n).map(|_| Mutex::new(None)).collect();
    std::thread::scope(|sc| {
        for _ in 0..lanes {
            sc.spawn(|| loop {
                let k = next.fetch_add(1, Ordering::SeqCst);
                if k >= n {
                    break;
                }
                let o = replay_one(&imp, &cases[k]);
                let mut v = json!({"i": k, "status": o.status, "spurious": o.spurious});
                if o.status != "ok" {
                    v["at"] = json!(o.at);
                    v["why"] = json!(o.why);
                    v["continued"] = json!(o.post);
                }
                if let Some(c) = &o.contract {
                    v["contract"] = json!(c);
                }
                if trace_all || o.status != "ok" {
                    v["trace"] = json!(o.trace);
                }
                *results[k].lock().unwrap() = Some(v);
            });
        }
    });
    query_engine::verif_hooks::install_sync(None);
    let mut out = Out::create(&a[1]);
    for r in results {
        out.put(&r.into_inner().unwrap().unwrap());
    }
    out.finish();
    0
}

// ---------------------------------------------------------------------------------------
// unscheduled stress with barriers

/// pool-stress <seed> <threads> <rounds> <ops> <mode: tryonly|mixed|wrap> <max rep> <out.ndjson> [--impl X]
pub fn stress(a: &[String]) -> i32 {
    quiet_panics();
    let seed: u64 = a[0].parse().unwrap();
    let nt: usize = a[1].parse().unwrap();
    let rounds: usize = a[2].parse().unwrap();
    let ops: usize = a[3].parse().unwrap();
    let mode = a[4].clone();
    let max: i64 = a[5].parse().unwrap();
    let imp = if a.len() > 8 && a[7] == "--impl" { a[8].clone() } else { "real".to_string() };
    let tryonly = mode == "tryonly";
    let pool = Arc::new(AnyPool::new(&imp, conc(max)));
    let bar = Arc::new(Barrier::new(nt + 1));
    // per thread: (events of the round, live sizes at the barrier)
    let slots: Arc<Vec<Mutex<(Vec<Value>, Vec<i64>)>>> = Arc::new((0..nt).map(|_| Mutex::new((Vec::new(), Vec::new()))).collect());
    let mut out = Out::create(&a[6]);
    out.put(&json!({"ev": "begin", "max": max, "nt": nt, "mode": 2}));
    let mut handles = Vec::new();
    for t in 0..nt {
        let (pool, bar, slots, mode) = (pool.clone(), bar.clone(), slots.clone(), mode.clone());
        handles.push(std::thread::spawn(move || {
            let mut rng = rand::rngs::StdRng::seed_from_u64(seed.wrapping_mul(1000003).wrapping_add(t as u64));
            let p: &AnyPool = &pool;
            let mut held: Vec<AnyRes<'_>> = Vec::new();
            let hi = if max >= 0 { (max / 2).max(2) } else { 4 };
            for round in 0..=rounds {
                let mut evs = Vec::new();
                let last = round == rounds;
                let n = if last { held.len() } else { ops };
                for _ in 0..n {
                    let size = |rng: &mut rand::rngs::StdRng| -> i64 {
                        if mode == "wrap" && rng.gen_range(0..6) == 0 {
                            -rng.gen_range(1..3)
                        } else {
                            rng.gen_range(0..=hi)
                        }
                    };
                    let c = if last { 9 } else { rng.gen_range(0..10) };
                    let (k, x, y, ok);
                    if c >= 7 && !held.is_empty() {
                        let s = rng.gen_range(0..held.len());
                        drop(held.remove(s));
                        (k, x, y, ok) = (A_DROP, s as i64 + 1, 0, 1);
                    } else if c >= 5 && !held.is_empty() {
                        let s = rng.gen_range(0..held.len());
                        let cur = abs_(held[s].size());
                        let n = if tryonly { if cur > 0 { rng.gen_range(0..=cur) } else { 0 } } else { size(&mut rng) };
                        held[s].resize(conc(n));
                        (k, x, y, ok) = (if (conc(n)) > conc(cur) { A_GROW } else { A_SHRINK }, s as i64 + 1, n, 1);
                    } else if !tryonly && c >= 3 {
                        let s = size(&mut rng);
                        held.push(p.allocate(conc(s)));
                        (k, x, y, ok) = (A_ALLOC, s, 0, 1);
                    } else {
                        let s = size(&mut rng);
                        match p.try_allocate(conc(s)) {
                            Some(r) => {
                                held.push(r);
                                (k, x, y, ok) = (A_LOAD, s, 0, 1)
                            }
                            None => (k, x, y, ok) = (A_LOAD, s, 0, 0),
                        }
                    }
                    let o = abs_(p.used());
                    evs.push(json!({"ev": "sop", "t": t + 1, "k": k, "x": x, "y": y, "ok": ok, "o": o, "tryonly": tryonly as i64}));
                }
                {
                    let mut g = slots[t].lock().unwrap();
                    g.0 = evs;
                    g.1 = held.iter().map(|r| abs_(r.size())).collect();
                }
                bar.wait(); // quiescent: main reads
                bar.wait(); // main done
            }
        }));
    }
    for _ in 0..=rounds {
        bar.wait();
        let u = abs_(pool.used());
        let mut live = Vec::new();
        for t in 0..nt {
            let g = slots[t].lock().unwrap();
            for e in &g.0 {
                out.put(e);
            }
            live.push(g.1.clone());
        }
        out.put(&json!({"ev": "barrier", "u": u, "live": live}));
        bar.wait();
    }
    for h in handles {
        h.join().unwrap();
    }
    out.finish();
    0
}
