//! C16 — peer HTTP responses are framed or rejected.
//!
//! `http-replay`: a scripted TCP server on loopback sockets writes exactly the bytes TLC
//! emitted for a stream (optionally in several segments), then closes or stalls; the REAL
//! `query_engine::distributed::http_client::{get, post_json, post_text, request}` runs
//! against it.  Records outcome class, status, headers, body, error kind and elapsed time.
//!
//! `http-record`: random exchanges (mostly a well-behaved server, some truncated/stalled),
//! recorded with the abstract observation HttpFramingTrace.tla judges.
use crate::util::*;
use query_engine::distributed::http_client;
use rand::{Rng, SeedableRng};
use serde_json::{json, Value};
use std::sync::atomic::{AtomicUsize, Ordering};
use std::sync::{Arc, Mutex};
use std::time::{Duration, Instant};
use tokio::io::{AsyncReadExt, AsyncWriteExt};
use tokio::net::TcpListener;

const NULL: i64 = -1073741824;

#[derive(Clone)]
struct Script {
    bytes: Vec<u8>,
    /// segment end offsets (strictly increasing, last == bytes.len() unless bytes is empty)
    segs: Vec<usize>,
    seg_delay_ms: u64,
    stall: bool,
    api: u8,
    timeout: Duration,
}

struct Outcome {
    res: &'static str, // ok | err | panic | hang
    status: i64,
    headers: Vec<(String, String)>,
    body: Vec<u8>,
    kind: String,
    msg: String,
    ms: u128,
    req_ok: bool,
}

/// Read one complete HTTP request (head + Content-Length body) so that closing the socket
/// afterwards sends FIN, not RST.  Returns false if the request never completed.
async fn read_request(s: &mut tokio::net::TcpStream) -> bool {
    let mut buf = Vec::with_capacity(512);
    let mut tmp = [0u8; 4096];
    loop {
        if let Some(p) = buf.windows(4).position(|w| w == b"\r\n\r\n") {
            let head = String::from_utf8_lossy(&buf[..p]).to_ascii_lowercase();
            let cl = head
                .lines()
                .find_map(|l| l.strip_prefix("content-length:").map(|v| v.trim().parse::<usize>().unwrap_or(0)))
                .unwrap_or(0);
            if buf.len() >= p + 4 + cl {
                return true;
            }
        }
        match tokio::time::timeout(Duration::from_secs(20), s.read(&mut tmp)).await {
            Ok(Ok(0)) | Ok(Err(_)) | Err(_) => return false,
            Ok(Ok(n)) => buf.extend_from_slice(&tmp[..n]),
        }
    }
}

async fn call_client(addr: String, api: u8, timeout: Duration) -> std::io::Result<http_client::HttpResponse> {
    match api % 4 {
        0 => http_client::get(&addr, "/healthz", timeout).await,
        1 => http_client::post_json(&addr, "/fragment", b"{\"q\":1}", timeout).await,
        2 => http_client::post_text(&addr, "/sql", "select 1", timeout).await,
        _ => http_client::request(&addr, "PUT", "/x", Some("application/octet-stream"), Some(&[0u8, 13, 10, 13, 10, 255]), timeout).await,
    }
}

/// One exchange on `listener`: the client runs as its own task (a panic is data), the
/// server side follows the script.  `hang_after`: give up waiting for the client.
async fn exchange(listener: &TcpListener, addr: &str, sc: &Script, hang_after: Duration) -> Outcome {
    let t0 = Instant::now();
    let client = tokio::spawn(call_client(addr.to_string(), sc.api, sc.timeout));
    let mut req_ok = false;
    // server side
    let mut held = None;
    match tokio::time::timeout(Duration::from_secs(20), listener.accept()).await {
        Ok(Ok((mut s, _))) => {
            s.set_nodelay(true).ok();
            req_ok = read_request(&mut s).await;
            let mut from = 0usize;
            for (i, &to) in sc.segs.iter().enumerate() {
                if i > 0 && sc.seg_delay_ms > 0 {
                    tokio::time::sleep(Duration::from_millis(sc.seg_delay_ms)).await;
                }
                if s.write_all(&sc.bytes[from..to]).await.is_err() {
                    break;
                }
                let _ = s.flush().await;
                from = to;
            }
            if sc.stall {
                held = Some(s); // neither more bytes nor a close until the client is done
            } else {
                let _ = s.shutdown().await;
                drop(s);
            }
        }
        _ => {}
    }
    let mut client = client;
    let r = tokio::time::timeout(hang_after, &mut client).await;
    let ms = t0.elapsed().as_millis();
    drop(held);
    let mut o = Outcome { res: "err", status: 0, headers: vec![], body: vec![], kind: String::new(), msg: String::new(), ms, req_ok };
    match r {
        Err(_) => {
            client.abort();
            o.res = "hang";
        }
        Ok(Err(je)) => {
            o.res = if je.is_panic() { "panic" } else { "hang" };
            o.msg = format!("{je}");
        }
        Ok(Ok(Ok(resp))) => {
            o.res = "ok";
            o.status = resp.status as i64;
            o.headers = resp.headers;
            o.body = resp.body;
        }
        Ok(Ok(Err(e))) => {
            o.kind = format!("{:?}", e.kind());
            o.msg = e.to_string().chars().take(100).collect();
        }
    }
    o
}

fn outcome_json(o: &Outcome) -> Value {
    // hdrs: names lower-cased / values trimmed for comparison (the property does not pin the spelling
    // the client returns); raw_hdrs: exactly what HttpResponse.headers held
    json!({"r": {"k": o.res, "status": o.status,
                 "hdrs": o.headers.iter().map(|(k, v)| json!([k.trim().to_ascii_lowercase(), v.trim()])).collect::<Vec<_>>(),
                 "body": o.body},
           "raw_hdrs": o.headers.iter().map(|(k, v)| json!([k, v])).collect::<Vec<_>>(),
           "kind": o.kind, "msg": o.msg, "ms": o.ms as u64, "req_ok": o.req_ok})
}

fn runtime() -> tokio::runtime::Runtime {
    tokio::runtime::Builder::new_multi_thread().worker_threads(8).enable_all().build().unwrap()
}

/// Run all scripts with `conc` workers (one listener each); results in input order.
fn run_scripts(scripts: Vec<Script>, conc: usize, hang_factor: u32) -> Vec<Outcome> {
    let n = scripts.len();
    let scripts = Arc::new(scripts);
    let next = Arc::new(AtomicUsize::new(0));
    let results: Arc<Mutex<Vec<Option<Outcome>>>> = Arc::new(Mutex::new((0..n).map(|_| None).collect()));
    let rt = runtime();
    rt.block_on(async {
        let mut hs = Vec::new();
        for _ in 0..conc.max(1).min(n.max(1)) {
            let (scripts, next, results) = (scripts.clone(), next.clone(), results.clone());
            hs.push(tokio::spawn(async move {
                let listener = TcpListener::bind("127.0.0.1:0").await.expect("bind loopback listener");
                let addr = format!("127.0.0.1:{}", listener.local_addr().unwrap().port());
                loop {
                    let i = next.fetch_add(1, Ordering::SeqCst);
                    if i >= scripts.len() {
                        break;
                    }
                    let sc = &scripts[i];
                    let hang_after = sc.timeout * hang_factor + Duration::from_millis(1500);
                    let o = exchange(&listener, &addr, sc, hang_after).await;
                    results.lock().unwrap()[i] = Some(o);
                }
            }));
        }
        for h in hs {
            h.await.expect("worker task");
        }
    });
    let mut g = results.lock().unwrap();
    g.drain(..).map(|o| o.expect("every case ran")).collect()
}

fn segs_for(len: usize, nseg: usize, rng: &mut rand::rngs::StdRng, must: &[usize]) -> Vec<usize> {
    if len == 0 {
        return vec![];
    }
    let mut cuts: Vec<usize> = must.iter().copied().filter(|&c| c > 0 && c < len).collect();
    while cuts.len() + 1 < nseg && len > 1 {
        cuts.push(rng.gen_range(1..len));
    }
    cuts.push(len);
    cuts.sort();
    cuts.dedup();
    cuts
}

/// http-replay <in> <out> <seed> <conc> <stall_timeout_ms> <close_timeout_ms> [hang_factor=5]
/// in: {"id","bytes":[..],"end":"close"|"stall", optional "nseg","api"}
pub fn http_replay(a: &[String]) -> i32 {
    quiet_panics();
    let cases = read_ndjson(&a[0]);
    let seed: u64 = a[2].parse().unwrap();
    let conc: usize = a[3].parse().unwrap();
    let t_stall = Duration::from_millis(a[4].parse().unwrap());
    let t_close = Duration::from_millis(a[5].parse().unwrap());
    let mut rng = rand::rngs::StdRng::seed_from_u64(seed);
    let mut scripts = Vec::with_capacity(cases.len());
    for (i, c) in cases.iter().enumerate() {
        let bytes: Vec<u8> = c["bytes"].as_array().unwrap().iter().map(|x| x.as_u64().unwrap() as u8).collect();
        let stall = c["end"].as_str().unwrap() == "stall";
        // segmentation: given, or drawn from the seed: 1 segment (60%), 2 (25%), 3 (15%)
        let nseg = c.get("nseg").and_then(|v| v.as_u64()).map(|v| v as usize).unwrap_or_else(|| {
            let r = rng.gen_range(0..100);
            if r < 60 { 1 } else if r < 85 { 2 } else { 3 }
        });
        let segs = segs_for(bytes.len(), nseg, &mut rng, &[]);
        let api = c.get("api").and_then(|v| v.as_u64()).map(|v| v as u8).unwrap_or((i % 4) as u8);
        scripts.push(Script { bytes, segs, seg_delay_ms: if nseg > 1 { rng.gen_range(1..4) } else { 0 }, stall, api,
                              timeout: if stall { t_stall } else { t_close } });
    }
    let metas: Vec<(Vec<usize>, u8, u128)> = scripts.iter().map(|s| (s.segs.clone(), s.api, s.timeout.as_millis())).collect();
    let hang_factor: u32 = a.get(6).map(|v| v.parse().unwrap()).unwrap_or(5);
    let outs = run_scripts(scripts, conc, hang_factor);
    let mut out = Out::create(&a[1]);
    for ((c, o), m) in cases.iter().zip(outs.iter()).zip(metas.iter()) {
        let mut r = outcome_json(o);
        r["id"] = c["id"].clone();
        r["segs"] = json!(m.0);
        r["api"] = json!(m.1);
        r["timeout_ms"] = json!(m.2 as u64);
        out.put(&r);
    }
    out.finish();
    0
}

/// http-record <seed> <n> <out> <stall_timeout_ms> <close_timeout_ms> <max_body> <conc>
/// Random exchanges; each record carries the abstract observation (what the server sent) and
/// what the real client returned.  Header names are lower-cased / values trimmed here
/// (that normalisation is the documented meaning of HttpResponse.headers).
pub fn http_record(a: &[String]) -> i32 {
    quiet_panics();
    let seed: u64 = a[0].parse().unwrap();
    let n: usize = a[1].parse().unwrap();
    let t_stall = Duration::from_millis(a[3].parse().unwrap());
    let t_close = Duration::from_millis(a[4].parse().unwrap());
    let max_body: usize = a[5].parse().unwrap();
    let conc: usize = a[6].parse().unwrap();
    let mut rng = rand::rngs::StdRng::seed_from_u64(seed ^ 0xC16);
    let statuses: [(u16, &str); 8] = [(200, "OK"), (201, "Created"), (204, "No Content"), (400, "Bad Request"),
                                      (404, "Not Found"), (500, "Internal Server Error"), (503, "Service Unavailable"), (299, "")];
    let names = ["X-QE-Rows", "x-qe-elapsed-ms", "Content-Type", "X-QE-Node", "Server", "DATE", "x-trace", "Cache-Control"];
    let values = ["42", "0", "application/vnd.apache.arrow.stream", "node-1:8080", "qe/0.1", "a:b:c", "", "no-store, max-age=0",
                  "HTTP/1.1 200 OK", "1.5e3"];
    let mut scripts = Vec::new();
    let mut obs = Vec::new();
    let mut stalls = 0usize;
    for i in 0..n {
        let (code, reason) = statuses[rng.gen_range(0..statuses.len())];
        let mut head = format!("HTTP/1.1 {code} {reason}\r\n");
        let mut hdrs: Vec<(String, String)> = Vec::new();
        // body
        let blen = match rng.gen_range(0..10) {
            0 => 0,
            1..=4 => rng.gen_range(0..40),
            5..=7 => rng.gen_range(0..600.min(max_body + 1)),
            _ => rng.gen_range(0..=max_body),
        };
        let mode = rng.gen_range(0..4);
        let mut body: Vec<u8> = (0..blen)
            .map(|_| match mode {
                0 => b"abcxyz 0123\r\n:"[rng.gen_range(0..14)],
                1 => [13u8, 10][rng.gen_range(0..2)],
                _ => rng.gen::<u8>(),
            })
            .collect();
        if blen >= 8 && rng.gen_bool(0.5) {
            let p = rng.gen_range(0..blen - 4);
            body[p..p + 4].copy_from_slice(b"\r\n\r\n");
        }
        if blen >= 40 && rng.gen_bool(0.3) {
            let inner: &[u8] = b"HTTP/1.1 500 X\r\nContent-Length: 0\r\n\r\n";
            let p = rng.gen_range(0..blen - inner.len());
            body[p..p + inner.len()].copy_from_slice(inner);
        }
        // Content-Length: exact (55%), absent (20%), larger than the body (15%), smaller (10%)
        let clm = rng.gen_range(0..100);
        let cl: Option<usize> = if clm < 55 { Some(blen) } else if clm < 75 { None }
            else if clm < 90 { Some(blen + rng.gen_range(1..50)) } else { Some(blen.saturating_sub(rng.gen_range(1..5))) };
        let nh = rng.gen_range(0..6);
        let clpos = rng.gen_range(0..=nh);
        for j in 0..=nh {
            if j == clpos {
                if let Some(c) = cl {
                    let nm = ["Content-Length", "content-length", "CONTENT-LENGTH", "Content-length"][rng.gen_range(0..4)];
                    let sp = [" ", "", "  "][rng.gen_range(0..3)];
                    head.push_str(&format!("{nm}:{sp}{c}\r\n"));
                    hdrs.push(("content-length".into(), c.to_string()));
                }
            }
            if j < nh {
                let nm = names[rng.gen_range(0..names.len())];
                let v = values[rng.gen_range(0..values.len())];
                let (l, r) = ([" ", "", "\t", "  "][rng.gen_range(0..4)], ["", " ", "  "][rng.gen_range(0..3)]);
                head.push_str(&format!("{nm}:{l}{v}{r}\r\n"));
                hdrs.push((nm.to_ascii_lowercase(), v.trim().to_string()));
            }
        }
        head.push_str("\r\n");
        let hlen = head.len();
        let mut full = head.into_bytes();
        full.extend_from_slice(&body);
        // truncation: none (65%), inside the body (25%), inside the header block (10%)
        let t = rng.gen_range(0..100);
        let cut = if t < 65 { full.len() } else if t < 90 && blen > 0 { hlen + rng.gen_range(0..blen) } else { rng.gen_range(0..hlen) };
        let stall = rng.gen_range(0..100) < 6 && stalls < 40;
        if stall {
            stalls += 1;
        }
        full.truncate(cut);
        let hc = cut >= hlen;
        let sent: Vec<u8> = if hc { full[hlen..].to_vec() } else { vec![] };
        let nseg = [1, 1, 2, 3, 4][rng.gen_range(0..5)];
        // when the header block is complete, sometimes split exactly inside the terminator
        let must: Vec<usize> = if hc && rng.gen_bool(0.3) { vec![hlen - rng.gen_range(1..4)] } else { vec![] };
        let segs = segs_for(full.len(), nseg, &mut rng, &must);
        obs.push(json!({"ev": "x", "i": i,
                        "o": {"hc": hc, "status": code,
                              "hdrs": hdrs.iter().map(|(k, v)| json!([k, v])).collect::<Vec<_>>(),
                              "clnums": cl.map(|c| vec![c]).unwrap_or_default(), "clbad": false, "allwf": true,
                              "body": sent, "end": if stall { "stall" } else { "close" },
                              "alt": NULL, "althdrs": [], "altclnums": [], "altclbad": false},
                        "full_len": hlen + blen, "cut": cut}));
        scripts.push(Script { bytes: full, segs, seg_delay_ms: if nseg > 1 { rng.gen_range(0..3) } else { 0 }, stall,
                              api: (i % 4) as u8, timeout: if stall { t_stall } else { t_close } });
    }
    let outs = run_scripts(scripts, conc, 5);
    let mut out = Out::create(&a[2]);
    for (mut ob, o) in obs.into_iter().zip(outs.iter()) {
        let r = outcome_json(o);
        for k in ["r", "kind", "ms", "req_ok"] {
            ob[k] = r[k].clone();
        }
        out.put(&ob);
    }
    out.finish();
    0
}
