//! distplan — X02 "DistPlan" (sub-model of C09): the distribution PLANNER.
//!
//!   qev distplan-run <cases.ndjson> <out.ndjson> [workdir]
//!
//! For every case the statement is handed to the REAL planner entry points
//! (`plan_distributed`, and `plan_gather` on a NotImplemented refusal — exactly the decision
//! `execute_any_distributed` takes) over small Parquet tables, and the decision is recorded:
//! strategy (merge shape), elected table, fragment SQL, merge SQL.  With `"exec": true` the
//! statement is also run single-node and end to end through `execute_any_distributed` with the
//! in-process fragment transport for each requested cluster size, together with the actual row
//! placement (which rows of the sharded table each participant owns, obtained from the
//! coordinator's own `splits_of` / `assign_lpt` / `shard_context`).
//!
//! case:   {"id", "tables":[{"name","cols":[[name,type]],"rows":[[int]],"files":k,"rg":n}], "sql",
//!          "out_types":[..], "nodes":[2,3], "exec":bool, "place":"t"}
//! output: {"id", "plan": {"k":"plan","shape","table","partial_sql","final_sql","output_names"}
//!                       | {"k":"refuse","msg","gather":{"k":"gather","tables":[..]} | {"k":"err",..}}
//!                       | {"k":"err","cls","msg"} | {"k":"panic","msg"},
//!          "single": outcome, "dist":[{"n","out":outcome,"shape","table","partial_sql","final_sql","placement":[[row..]..]}]}
use crate::sqlrun::{empty_ctx, err_class, rows_of, write_parquet, InProc, TableData};
use crate::util::*;
use query_engine::distributed::coordinator::{execute_any_distributed, shard_context, splits_of, Participant};
use query_engine::distributed::{assign_lpt, plan_distributed, plan_gather};
use query_engine::execution::ExecutionContext;
use query_engine::QueryError;
use serde_json::{json, Value};
use std::sync::Arc;

struct Db {
    ctx: ExecutionContext,
    paths: Vec<(String, std::path::PathBuf)>,
    _tmp: tempfile::TempDir,
}

fn build(tables: &[(TableData, usize, usize)], workdir: &str) -> Result<Db, String> {
    let cfg = json!({});
    let mut ctx = empty_ctx(&cfg, workdir);
    let d = tempfile::Builder::new().prefix("dp").tempdir_in(workdir).map_err(|e| e.to_string())?;
    let mut paths = Vec::new();
    for (t, files, rg) in tables {
        let tdir = write_parquet(t, d.path(), *files, *rg);
        ctx.register_parquet(t.name.clone(), &tdir).map_err(|e| format!("register_parquet: {e}"))?;
        paths.push((t.name.clone(), tdir));
    }
    Ok(Db { ctx, paths, _tmp: d })
}

fn peer_of(db: &Db, workdir: &str) -> Result<ExecutionContext, String> {
    let mut peer = empty_ctx(&json!({}), workdir);
    for (name, p) in &db.paths {
        peer.register_parquet(name.clone(), p).map_err(|e| format!("register_parquet(peer): {e}"))?;
    }
    Ok(peer)
}

fn err_json(e: &QueryError) -> Value {
    json!({"k": "err", "cls": err_class(e), "msg": format!("{e}").chars().take(400).collect::<String>()})
}

fn panic_msg(p: Box<dyn std::any::Any + Send>) -> String {
    if let Some(s) = p.downcast_ref::<&str>() {
        s.to_string()
    } else if let Some(s) = p.downcast_ref::<String>() {
        s.clone()
    } else {
        "panic".into()
    }
}

/// The planner's decision for `sql`, taken the way `execute_any_distributed` takes it.
fn decide(ctx: &ExecutionContext, sql: &str) -> Value {
    let r = std::panic::catch_unwind(std::panic::AssertUnwindSafe(|| match plan_distributed(ctx, sql) {
        Ok(p) => json!({"k": "plan", "shape": format!("{:?}", p.shape), "table": p.table, "partial_sql": p.partial_sql,
                         "final_sql": p.final_sql, "output_names": p.output_names}),
        Err(QueryError::NotImplemented(msg)) => {
            let g = match plan_gather(ctx, sql) {
                Ok(g) => json!({"k": "gather", "sql": g.sql,
                                "tables": g.tables.iter().map(|t| json!({"name": t.name, "columns": t.columns, "gather_sql": t.gather_sql})).collect::<Vec<_>>()}),
                Err(e) => err_json(&e),
            };
            json!({"k": "refuse", "msg": msg.chars().take(300).collect::<String>(), "gather": g})
        }
        Err(e) => err_json(&e),
    }));
    match r {
        Ok(v) => v,
        Err(p) => json!({"k": "panic", "msg": panic_msg(p)}),
    }
}

fn outcome<T>(res: std::thread::Result<Result<query_engine::Result<T>, tokio::time::error::Elapsed>>, f: impl FnOnce(T) -> Value) -> Value {
    match res {
        Err(p) => json!({"k": "panic", "msg": panic_msg(p)}),
        Ok(Err(_)) => json!({"k": "hang"}),
        Ok(Ok(Err(e))) => err_json(&e),
        Ok(Ok(Ok(v))) => f(v),
    }
}

fn rows_json(batches: &[arrow::record_batch::RecordBatch], units: &[String]) -> Value {
    // no declared units (exploration): DOUBLE columns are read at the AVG scale, everything else as integers
    let auto: Vec<String>;
    let units = if units.is_empty() && !batches.is_empty() {
        auto = batches[0].schema().fields().iter().map(|f| if *f.data_type() == arrow::datatypes::DataType::Float64 { "avg_int".to_string() } else { "int".to_string() }).collect();
        &auto[..]
    } else {
        units
    };
    match rows_of(batches, units) {
        Ok(rows) => json!({"k": "rows", "rows": rows}),
        Err(m) => json!({"k": "rows", "rows": [[-999_000_009i64]], "note": m}),
    }
}

/// Which rows of `table` every participant of an n-node cluster owns (the coordinator's own
/// enumeration, assignment and shard constructor).
async fn placement(ctx: &ExecutionContext, table: &str, n: usize, units: &[String]) -> query_engine::Result<Value> {
    let set = splits_of(ctx, table, n)?;
    let asg = assign_lpt(&set, n);
    let mut out = Vec::new();
    for i in 0..n {
        if asg.node_splits[i] == 0 {
            out.push(json!({"idle": true, "rows": []}));
            continue;
        }
        let (sctx, _) = shard_context(ctx, table, &set, &asg, i)?;
        let r = sctx.sql(&format!("SELECT * FROM {table}")).await?;
        let rows = rows_of(&r.batches, units).map_err(QueryError::Execution)?;
        out.push(json!({"idle": false, "rows": rows}));
    }
    Ok(Value::Array(out))
}

pub fn run(a: &[String]) -> i32 {
    quiet_panics();
    let cases = read_ndjson(&a[0]);
    let mut out = Out::create(&a[1]);
    let workdir = a.get(2).cloned().unwrap_or_else(|| "/verif/work".to_string());
    std::fs::create_dir_all(&workdir).ok();
    let rt = tokio::runtime::Builder::new_multi_thread().worker_threads(4).enable_all().build().unwrap();
    let secs = std::time::Duration::from_secs(60);
    // consecutive cases over the same tables share one set of Parquet files
    let mut cached: Option<(String, Db)> = None;
    for c in cases {
        let tables: Vec<(TableData, usize, usize)> = c["tables"]
            .as_array()
            .unwrap()
            .iter()
            .map(|t| (TableData::from_json(t), t["files"].as_u64().unwrap_or(1) as usize, t["rg"].as_u64().unwrap_or(1) as usize))
            .collect();
        let sql = c["sql"].as_str().unwrap().to_string();
        let units: Vec<String> = c["out_types"].as_array().map(|a| a.iter().map(|v| v.as_str().unwrap().to_string()).collect()).unwrap_or_default();
        let tkey = c["tables"].to_string();
        if cached.as_ref().map(|(k, _)| *k != tkey).unwrap_or(true) {
            cached = None;
            match build(&tables, &workdir) {
                Ok(d) => cached = Some((tkey.clone(), d)),
                Err(e) => {
                    out.put(&json!({"id": c["id"], "plan": {"k": "err", "cls": "Setup", "msg": e}}));
                    continue;
                }
            }
        }
        let db = &cached.as_ref().unwrap().1;
        let plan = decide(&db.ctx, &sql);
        let mut rec = json!({"id": c["id"], "plan": plan});
        if c["exec"].as_bool().unwrap_or(false) {
            let ctxref = &db.ctx;
            let single = std::panic::catch_unwind(std::panic::AssertUnwindSafe(|| rt.block_on(async { tokio::time::timeout(secs, ctxref.sql(&sql)).await })));
            rec["single"] = outcome(single, |r| rows_json(&r.batches, &units));
            let mut dist = Vec::new();
            for n in c["nodes"].as_array().cloned().unwrap_or_default() {
                let n = n.as_u64().unwrap_or(2) as usize;
                let peer = match peer_of(db, &workdir) {
                    Ok(p) => p,
                    Err(e) => {
                        dist.push(json!({"n": n, "out": {"k": "err", "cls": "Setup", "msg": e}}));
                        continue;
                    }
                };
                let parts: Vec<Participant> =
                    (0..n).map(|i| Participant { node_id: i as u64 + 1, address: format!("127.0.0.1:{}", 17800 + i), is_self: i == 0 }).collect();
                let tr = InProc { peer: Arc::new(peer) };
                let res = std::panic::catch_unwind(std::panic::AssertUnwindSafe(|| {
                    rt.block_on(async { tokio::time::timeout(secs, execute_any_distributed(ctxref, &sql, &parts, &tr)).await })
                }));
                let mut info = json!({"n": n});
                let o = outcome(res, |r| {
                    let d = &r.distribution;
                    info["shape"] = json!(format!("{:?}", d.shape));
                    info["table"] = json!(d.table);
                    info["partial_sql"] = json!(d.partial_sql);
                    info["final_sql"] = json!(d.final_sql);
                    info["nodes"] = json!(d.nodes.iter().map(|c| json!([c.shard_index, c.assigned_splits, c.result_rows])).collect::<Vec<_>>());
                    rows_json(&r.result.batches, &units)
                });
                info["out"] = o;
                // row placement of the table named by the case (default: the planner's elected table)
                let place = c["place"].as_str().map(|s| s.to_string()).or_else(|| rec["plan"]["table"].as_str().map(|s| s.to_string()));
                if let Some(tn) = place {
                    if let Some((td, _, _)) = tables.iter().find(|(t, _, _)| t.name == tn) {
                        let tunits = td.types.clone();
                        let pres = std::panic::catch_unwind(std::panic::AssertUnwindSafe(|| {
                            rt.block_on(async { tokio::time::timeout(secs, placement(ctxref, &tn, n, &tunits)).await })
                        }));
                        info["placement"] = outcome(pres, |v| json!({"k": "ok", "table": tn, "shards": v}));
                    }
                }
                dist.push(info);
            }
            rec["dist"] = Value::Array(dist);
        }
        out.put(&rec);
    }
    out.finish();
    0
}
