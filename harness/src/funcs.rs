//! funcs — generic "typed tables in, typed cells out" SQL runner used by C36 (scalar functions).
//!
//!   qev funcs-run <cases.ndjson> <out.ndjson>
//!
//! case:   {"id", "tables":[{"name","cols":[[name,type]],"rows":[[cell]]}], "sqls":[sql,...]}
//!         type ∈ int | i32 | dbl | str | date | bool | ts
//!         cell: null | int (int,i32) | float (dbl) | [code points] (str) | days since 1970-01-01 (date)
//!               | 0/1 (bool) | microseconds since epoch (ts)
//! output: {"id", "outs":[ {"k":"rows","types":[arrow type],"rows":[[cell]]} | {"k":"err","cls","msg"}
//!                         | {"k":"panic","msg"} | {"k":"hang"} ]}
//!         result cell: null | {"i":n} | {"d":x|"nan"|"inf"|"-inf"} | {"s":[code points]} | {"date":days}
//!                      | {"b":0|1} | {"ts":micros} | {"bin":[bytes]} | {"o":"<type>"}
//! The runner knows nothing about functions: the statement text is rendered by the driver from the
//! template and argument values TLC emitted (spec/Funcs.tla).
use crate::util::*;
use arrow::array::*;
use arrow::datatypes::{DataType, Field, Schema, SchemaRef, TimeUnit};
use arrow::record_batch::RecordBatch;
use query_engine::execution::ExecutionContext;
use serde_json::{json, Value};
use std::sync::Arc;

pub fn arrow_type(t: &str) -> DataType {
    match t {
        "int" => DataType::Int64,
        "i32" => DataType::Int32,
        "dbl" => DataType::Float64,
        "str" => DataType::Utf8,
        "date" => DataType::Date32,
        "bool" => DataType::Boolean,
        "ts" => DataType::Timestamp(TimeUnit::Microsecond, None),
        _ => panic!("type {t}"),
    }
}

fn cps_to_string(v: &Value) -> String {
    v.as_array().unwrap().iter().map(|c| char::from_u32(c.as_u64().unwrap() as u32).unwrap()).collect()
}

pub fn build_column(t: &str, vals: &[&Value]) -> ArrayRef {
    match t {
        "int" => Arc::new(Int64Array::from(vals.iter().map(|v| v.as_i64()).collect::<Vec<_>>())),
        "i32" => Arc::new(Int32Array::from(vals.iter().map(|v| v.as_i64().map(|x| x as i32)).collect::<Vec<_>>())),
        "dbl" => Arc::new(Float64Array::from(vals.iter().map(|v| v.as_f64()).collect::<Vec<_>>())),
        "str" => Arc::new(StringArray::from(
            vals.iter().map(|v| if v.is_null() { None } else { Some(cps_to_string(v)) }).collect::<Vec<_>>(),
        )),
        "date" => Arc::new(Date32Array::from(vals.iter().map(|v| v.as_i64().map(|x| x as i32)).collect::<Vec<_>>())),
        "bool" => Arc::new(BooleanArray::from(
            vals.iter().map(|v| if v.is_null() { None } else { Some(v.as_i64().unwrap_or(0) != 0 || v.as_bool() == Some(true)) }).collect::<Vec<_>>(),
        )),
        "ts" => Arc::new(TimestampMicrosecondArray::from(vals.iter().map(|v| v.as_i64()).collect::<Vec<_>>())),
        _ => panic!("type {t}"),
    }
}

pub fn build_table(t: &Value) -> (String, SchemaRef, RecordBatch) {
    let cols = t["cols"].as_array().unwrap();
    let fields: Vec<Field> =
        cols.iter().map(|c| Field::new(c[0].as_str().unwrap(), arrow_type(c[1].as_str().unwrap()), true)).collect();
    let schema = Arc::new(Schema::new(fields));
    let rows = t["rows"].as_array().unwrap();
    let arrays: Vec<ArrayRef> = (0..cols.len())
        .map(|j| {
            let vals: Vec<&Value> = rows.iter().map(|r| &r[j]).collect();
            build_column(cols[j][1].as_str().unwrap(), &vals)
        })
        .collect();
    let batch = if cols.is_empty() {
        RecordBatch::new_empty(schema.clone())
    } else {
        RecordBatch::try_new(schema.clone(), arrays).unwrap()
    };
    (t["name"].as_str().unwrap().to_string(), schema, batch)
}

fn str_cell(s: &str) -> Value {
    json!({"s": s.chars().map(|c| c as u32).collect::<Vec<u32>>()})
}

fn f_cell(x: f64) -> Value {
    if x.is_nan() {
        json!({"d": "nan"})
    } else if x.is_infinite() {
        json!({"d": if x > 0.0 { "inf" } else { "-inf" }})
    } else {
        json!({"d": x})
    }
}

/// Generic typed projection of one result cell.
pub fn cell(col: &ArrayRef, i: usize) -> Value {
    use arrow::datatypes::*;
    let col = if let DataType::Dictionary(_, v) = col.data_type() {
        match arrow::compute::cast(col, v) {
            Ok(c) => c,
            Err(_) => return json!({"o": format!("{}", col.data_type())}),
        }
    } else {
        col.clone()
    };
    if col.is_null(i) || matches!(col.data_type(), DataType::Null) {
        return Value::Null;
    }
    macro_rules! int {
        ($t:ty) => {
            if let Some(a) = col.as_any().downcast_ref::<PrimitiveArray<$t>>() {
                return json!({"i": a.value(i) as i64});
            }
        };
    }
    int!(Int8Type);
    int!(Int16Type);
    int!(Int32Type);
    int!(Int64Type);
    int!(UInt8Type);
    int!(UInt16Type);
    int!(UInt32Type);
    if let Some(a) = col.as_any().downcast_ref::<PrimitiveArray<UInt64Type>>() {
        let v = a.value(i);
        return if v <= i64::MAX as u64 { json!({"i": v as i64}) } else { json!({"o": format!("u64:{v}")}) };
    }
    if let Some(a) = col.as_any().downcast_ref::<Float64Array>() {
        return f_cell(a.value(i));
    }
    if let Some(a) = col.as_any().downcast_ref::<Float32Array>() {
        return f_cell(a.value(i) as f64);
    }
    if let Some(a) = col.as_any().downcast_ref::<StringArray>() {
        return str_cell(a.value(i));
    }
    if let Some(a) = col.as_any().downcast_ref::<LargeStringArray>() {
        return str_cell(a.value(i));
    }
    if let Some(a) = col.as_any().downcast_ref::<StringViewArray>() {
        return str_cell(a.value(i));
    }
    if let Some(a) = col.as_any().downcast_ref::<BooleanArray>() {
        return json!({"b": if a.value(i) { 1 } else { 0 }});
    }
    if let Some(a) = col.as_any().downcast_ref::<Date32Array>() {
        return json!({"date": a.value(i)});
    }
    if let Some(a) = col.as_any().downcast_ref::<Date64Array>() {
        return json!({"date": a.value(i).div_euclid(86_400_000)});
    }
    if let Some(a) = col.as_any().downcast_ref::<TimestampMicrosecondArray>() {
        return json!({"ts": a.value(i)});
    }
    if let Some(a) = col.as_any().downcast_ref::<TimestampMillisecondArray>() {
        return json!({"ts": a.value(i) * 1000});
    }
    if let Some(a) = col.as_any().downcast_ref::<TimestampSecondArray>() {
        return json!({"ts": a.value(i) * 1_000_000});
    }
    if let Some(a) = col.as_any().downcast_ref::<TimestampNanosecondArray>() {
        return json!({"ts": a.value(i).div_euclid(1000)});
    }
    if let Some(a) = col.as_any().downcast_ref::<BinaryArray>() {
        return json!({"bin": a.value(i).to_vec()});
    }
    if let Some(a) = col.as_any().downcast_ref::<Decimal128Array>() {
        return f_cell(a.value(i) as f64 / 10f64.powi(a.scale() as i32));
    }
    json!({"o": format!("{}", col.data_type())})
}

pub fn run_sql(rt: &tokio::runtime::Runtime, ctx: &ExecutionContext, sql: &str, secs: u64) -> Value {
    let sql2 = sql.to_string();
    let res = std::panic::catch_unwind(std::panic::AssertUnwindSafe(|| {
        rt.block_on(async { tokio::time::timeout(std::time::Duration::from_secs(secs), ctx.sql(&sql2)).await })
    }));
    match res {
        Err(p) => {
            let msg = if let Some(s) = p.downcast_ref::<&str>() {
                s.to_string()
            } else if let Some(s) = p.downcast_ref::<String>() {
                s.clone()
            } else {
                "panic".into()
            };
            json!({"k": "panic", "msg": msg})
        }
        Ok(Err(_)) => json!({"k": "hang"}),
        Ok(Ok(Err(e))) => {
            json!({"k": "err", "cls": crate::sqlrun::err_class(&e), "msg": format!("{e}").chars().take(240).collect::<String>()})
        }
        Ok(Ok(Ok(r))) => {
            let types: Vec<String> = r.schema.fields().iter().map(|f| format!("{}", f.data_type())).collect();
            let mut rows = Vec::new();
            for b in &r.batches {
                for i in 0..b.num_rows() {
                    rows.push(Value::Array((0..b.num_columns()).map(|j| cell(b.column(j), i)).collect()));
                }
            }
            json!({"k": "rows", "types": types, "rows": rows})
        }
    }
}

pub fn funcs_run(a: &[String]) -> i32 {
    quiet_panics();
    let cases = read_ndjson(&a[0]);
    let mut out = Out::create(&a[1]);
    let rt = tokio::runtime::Builder::new_multi_thread().worker_threads(2).enable_all().build().unwrap();
    for c in cases {
        let mut ctx = ExecutionContext::new();
        for t in c["tables"].as_array().cloned().unwrap_or_default() {
            let (name, schema, batch) = build_table(&t);
            ctx.register_table(name, schema, vec![batch]);
        }
        let outs: Vec<Value> =
            c["sqls"].as_array().unwrap().iter().map(|s| run_sql(&rt, &ctx, s.as_str().unwrap(), 30)).collect();
        out.put(&json!({"id": c["id"], "outs": outs}));
    }
    out.finish();
    0
}
