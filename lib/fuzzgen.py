#!/usr/bin/env python3
"""One-time generator of the FROZEN C29 statement list (corpus/fuzz/*.ndjson.gz) and of the list of
inputs on which the unchanged tree panics / aborts / hangs (findings/fuzz/C29.json).

    python3 lib/fuzzgen.py gen      # TLC (exhaustive depth-2, depth-1, -simulate) + corpus mutants -> work/C29/gen/candidates
    python3 lib/fuzzgen.py freeze   # run every candidate on the unchanged tree, drop slow statements, write corpus + findings

The check (checks/c29.py) never draws fresh statements: it re-runs the exhaustive TLC explorations
(deterministic as sets), executes statements of the frozen list, and treats every bad outcome on an
input that is not listed by exact text hash as a violation."""
import collections
import json
import os
import random
import sys

ROOT = os.path.dirname(os.path.dirname(os.path.abspath(__file__)))
sys.path.insert(0, os.path.join(ROOT, "lib"))
import vlib          # noqa
import fuzzlib as F  # noqa

GEN = os.path.join(ROOT, "work", "C29", "gen")
SLOW_MS = 1000
MAX_HANGS = 24
# classes whose panic is not a function of the input alone: matched by panic site (see checks/c29.py site_class)
NONDET = {"panic:hash_join-index-out-of-bounds-the-len-is-n-but-the-index-i": {
    "site": "hash_join.rs", "msg_prefix": "index out of bounds",
    "why": "the same input panics in ~85% of runs (run-time hash-table layout / partition timing); matched by panic site, not only by input hash"}}


def tlc_statements(cfg, seeds_path, simulate=None, depth=None, seed=None):
    res = vlib.run_tlc("SqlFuzz", cfg, workers=1 if simulate else 6, timeout=7200, heap="8g",
                       env={"C29_SEEDS": seeds_path}, simulate=simulate, depth=depth, seed=seed, tag="C29gen")
    vlib.tlc_must_pass(res, cfg)
    return sorted({F.untok(c["toks"]) for c in res.cases})


def gen():
    os.makedirs(GEN, exist_ok=True)
    seeds = F.all_seeds()
    sp = os.path.join(GEN, "seeds.ndjson")
    vlib.write_ndjson(sp, seeds)
    out = collections.OrderedDict()

    def add(text, src, tables=None):
        h = F.shash(text if tables is None else text + json.dumps(tables, sort_keys=True))
        if h not in out:
            r = {"h": h, "sql": text, "src": src}
            if tables is not None:
                r["tables"] = tables
            out[h] = r

    for s in seeds:
        add(F.untok(s["toks"]), "seed")
    for t in tlc_statements("SqlFuzz_thorough.cfg", sp):
        add(t, "tlc-d2")
    vlib.log(f"after d2: {len(out)}")
    for t in tlc_statements("SqlFuzz_d1.cfg", sp):
        add(t, "tlc-d1")
    vlib.log(f"after d1: {len(out)}")
    for t in tlc_statements("SqlFuzz_sim.cfg", sp, simulate=6000, depth=10, seed=29):
        add(t, "tlc-sim")
    vlib.log(f"after sim: {len(out)}")
    # frozen SQL corpus: originals (with their own tables) + token mutants (Python twin of Mutate)
    rng = random.Random(2929)
    cdir = os.path.join(ROOT, "corpus")
    for fn in sorted(os.listdir(cdir)):
        if not fn.endswith(".ndjson.gz"):
            continue
        cases = F.read_gz(os.path.join(cdir, fn))
        step = max(1, len(cases) // 160)
        for c in cases[::step][:160]:
            add(c["sql"], "corpus:" + fn[:-10], c["tables"])
            toks = F.T(c["sql"])
            for _ in range(3):
                m = toks
                for _ in range(rng.randrange(1, 4)):
                    m = F.mutate(m, rng)
                add(F.untok(m), "corpus-mut:" + fn[:-10], c["tables"])
    vlib.log(f"after corpus: {len(out)}")
    F.write_gz(os.path.join(GEN, "candidates.ndjson.gz"), list(out.values()))
    print(f"{len(out)} candidate statements")


def freeze():
    cands = F.read_gz(os.path.join(GEN, "candidates.ndjson.gz"))
    ctx = vlib.Ctx("C29", "freeze", 1, "exploration")
    res = F.run_all(ctx, cands, deadline=20, procs=6, tag="freeze")
    classes = {}
    keep = []
    dropped = collections.Counter()
    hangs = 0
    for c in cands:
        recs = res.get(c["h"], [])
        if not recs:
            dropped["norecord"] += 1
            continue
        bad = [r for r in recs if r["k"] not in ("ok", "err")]
        if any(r.get("ms", 0) > SLOW_MS for r in recs) and not bad:
            dropped["slow"] += 1          # timing-sensitive: could turn into a deadline miss on a loaded box
            continue
        if bad:
            r = bad[0]
            cls = F.panic_class(r)
            if r["k"] == "hang":
                if hangs >= MAX_HANGS and c["src"] != "seed":
                    dropped["hang-extra"] += 1
                    continue
                hangs += 1
            e = classes.setdefault(cls, {"inputs": [], "example": None, "ms": {}})
            e["inputs"].append(c["h"])
            e["ms"][c["h"]] = max(r2.get("ms", 20000 if r2["k"] == "hang" else 0) for r2 in recs)
            if e["example"] is None or (c["src"] == "seed" and e["example"].get("src") != "seed"):
                e["example"] = {"sql": c["sql"][:400], "schema": r.get("s"), "outcome": r["k"], "msg": r.get("msg", r.get("stderr", ""))[:200],
                                "loc": r.get("loc", ""), "src": c["src"]}
        keep.append(c)
    bysrc = collections.defaultdict(list)
    for c in keep:
        bysrc[c["src"].split(":")[0]].append(c)
    os.makedirs(F.CORPUS, exist_ok=True)
    for fn in os.listdir(F.CORPUS):
        os.remove(os.path.join(F.CORPUS, fn))
    for src, cs in bysrc.items():
        F.write_gz(os.path.join(F.CORPUS, f"{src}.ndjson.gz"), cs)
    F.write_gz(os.path.join(F.CORPUS, "seeds.ndjson.gz"), F.all_seeds())
    kept = {c["h"] for c in keep}
    F.write_hashes(keep, [c["h"] for c in cands if c["h"] not in kept])
    os.makedirs(os.path.dirname(F.FINDINGS), exist_ok=True)
    json.dump({"comment": "C29: inputs (hash of the macro-form statement text) on which the UNCHANGED tree panics, aborts or hangs, "
                          "grouped by class; generated by lib/fuzzgen.py freeze; ms = run time observed at freeze time (used only to "
                          "pick cheap representatives for the quick tier)",
               "nondeterministic_classes": NONDET, "classes": dict(sorted(classes.items()))},
              open(F.FINDINGS, "w"), indent=1, ensure_ascii=False)
    print(f"kept {len(keep)} of {len(cands)}; dropped {dict(dropped)}")
    for k, v in sorted(classes.items()):
        print(f"{k}: {len(v['inputs'])} inputs, e.g. {v['example']['sql'][:120]!r} [{v['example']['msg'][:80]}]")


if __name__ == "__main__":
    {"gen": gen, "freeze": freeze}[sys.argv[1]]()
