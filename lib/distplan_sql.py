"""X02 DistPlan: SQL text <-> SqlSem AST for the planner sub-model (python3 stdlib only).

  render(q, f)        SqlSem statement AST (emitted by TLC as Stmt(f)) + syntactic hints -> SQL text, out units
  parse(sql)          SQL text (ours, or the planner's partial_sql / final_sql) -> syntactic tree
  bind_statement(..)  syntactic tree -> SqlSem AST (index-resolved), output names, output units
  features_of(tree)   feature record extracted from the syntactic tree alone (independent of TLC's record)
  final_spec(..)      the planner's merge query -> DistPlan.tla `final` record

Tables: t(k, v) sharded fact, d(k2, w) replicated dimension; qe_dist_partial = the collected partial rows.
"""
import re

NULL = -1073741824
U = 8
U64MAX = 18446744073709551615
CATALOG = {"t": ["k", "v"], "d": ["k2", "w"]}
AGGS = {"COUNT", "SUM", "MIN", "MAX", "AVG"}


class Unsupported(Exception):
    pass


# ---------------------------------------------------------------------------------------------
# rendering  (AST -> SQL)

def _lim_sql(n):
    return str(U64MAX) if n == U - 1 else str(n)


class Renderer:
    def __init__(self, f):
        self.f = f

    # ---- FROM
    def from_(self, fr):
        """-> (sql, cols) with cols = [(qualifier, name)]"""
        k = fr["k"]
        if k == "table":
            n = fr["name"]
            return n, [(n, c) for c in CATALOG[n]]
        if k == "cte":
            return fr["name"], [(fr["name"], "k"), (fr["name"], "v")]
        if k == "sub":
            inner, names, _ = self.select(fr["q"], None, [])
            return f"({inner}) x", [("x", n) for n in names]
        if k == "join":
            l, r = fr["l"], fr["r"]
            if l["k"] == "table" and r["k"] == "table" and l["name"] == r["name"]:
                n = l["name"]
                ls, lc = f"{n} a", [("a", c) for c in CATALOG[n]]
                rs, rc = f"{n} b", [("b", c) for c in CATALOG[n]]
            else:
                ls, lc = self.from_(l)
                rs, rc = self.from_(r)
            cols = lc + rc
            kw = {"inner": "JOIN", "cross": "CROSS JOIN", "left": "LEFT JOIN", "right": "RIGHT JOIN", "full": "FULL JOIN"}[fr["kind"]]
            if fr["kind"] == "cross":
                return f"{ls} {kw} {rs}", cols
            return f"{ls} {kw} {rs} ON {self.expr(fr['on'], cols, [], qualify=True)}", cols
        raise Unsupported(f"from {k}")

    def colname(self, cols, i, qualify=False):
        q, n = cols[i - 1]
        amb = sum(1 for (_, m) in cols if m == n) > 1
        return f"{q}.{n}" if (qualify or amb) else n

    # ---- expressions over a row whose columns are `cols`; outer = stack of enclosing rows' cols (nearest first)
    def expr(self, e, cols, outer, qualify=False, top=True):
        k = e["k"]
        if k == "col":
            if e["d"] == 0:
                return self.colname(cols, e["i"], qualify)
            return self.colname(outer[e["d"] - 1], e["i"], True)
        if k == "lit":
            return "NULL" if e["v"] == NULL else str(e["v"])
        if k in ("cmp", "arith"):
            a = self.expr(e["a"], cols, outer, qualify, False)
            b = self.expr(e["b"], cols, outer, qualify, False)
            s = f"{a} {e['op']} {b}"
            return s if top else f"({s})"
        if k in ("and", "or"):
            a = self.expr(e["a"], cols, outer, qualify, False)
            b = self.expr(e["b"], cols, outer, qualify, False)
            s = f"{a} {k.upper()} {b}"
            return s if top else f"({s})"
        if k == "scalar":
            inner, _, _ = self.select(e["q"], None, [cols] + outer)
            return f"({inner})"
        if k == "insub":
            inner, _, _ = self.select(e["q"], None, [cols] + outer)
            return f"{self.expr(e['a'], cols, outer, qualify, False)} {'NOT ' if e['neg'] else ''}IN ({inner})"
        if k == "exists":
            inner, _, _ = self.select(e["q"], None, [cols] + outer)
            return f"{'NOT ' if e['neg'] else ''}EXISTS ({inner})"
        raise Unsupported(f"expr {k}")

    def agg(self, a, cols, outer):
        fn = a["f"]
        if fn == "count*":
            return "COUNT(*)"
        return f"{fn.upper()}({'DISTINCT ' if a['distinct'] else ''}{self.expr(a['a'], cols, outer)})"

    # expression over the group row (keys ++ aggregates)
    def gexpr(self, e, g, cols, outer, top=True):
        nk = len(g["keys"])
        k = e["k"]
        if k == "col":
            if e["i"] <= nk:
                return self.expr(g["keys"][e["i"] - 1], cols, outer, top=False)
            return self.agg(g["aggs"][e["i"] - nk - 1], cols, outer)
        if k == "lit":
            return str(e["v"])
        if k in ("cmp", "arith"):
            s = f"{self.gexpr(e['a'], g, cols, outer, False)} {e['op']} {self.gexpr(e['b'], g, cols, outer, False)}"
            return s if top else f"({s})"
        raise Unsupported(f"gexpr {k}")

    # ---- SELECT.  hints = feature record for the statement itself, None for nested selects
    def select(self, q, hints, outer):
        """-> (sql, output names, output units)"""
        f = hints
        fr_sql, cols = self.from_(q["from"])
        where = q["where"]
        parts = []
        names, units = [], []
        items = []
        g = q["group"]
        grouped = g["on"] == 1
        nk = len(g["keys"]) if grouped else 0
        order_sql = []
        if not grouped:
            wins = q.get("wins", [])
            for j, e in enumerate(q["proj"]):
                if e["k"] == "col" and e["d"] == 0 and e["i"] > len(cols):
                    w = wins[e["i"] - len(cols) - 1]
                    part = ", ".join(self.expr(p, cols, outer) for p in w["part"])
                    items.append(f"{w['f'].upper()}({self.expr(w['a'], cols, outer)}) OVER (PARTITION BY {part}) AS w{j + 1}")
                    names.append(f"w{j + 1}")
                    units.append("int")
                    continue
                qual = bool(f) and f["selform"] == "qual"
                s = self.expr(e, cols, outer, qualify=qual)
                nat = cols[e["i"] - 1][1] if e["k"] == "col" and e["d"] == 0 else None
                if f and f["selform"] == "alias":
                    items.append(f"{s} AS c{j + 1}")
                    names.append(f"c{j + 1}")
                elif nat is None:
                    items.append(f"{s} AS c{j + 1}")
                    names.append(f"c{j + 1}")
                else:
                    items.append(s)
                    names.append(nat)
                units.append("int")
            if f and f["selform"] == "star":
                items = ["*"]
            for o in q["order"]:
                e = o["e"]
                if q["distinct"] == 1:
                    s = names[e["i"] - 1]                      # output row
                else:
                    j = next((j for j, p in enumerate(q["proj"]) if p == e), None)
                    form = f["ordform"] if f else "name"
                    if form == "ord" and j is not None:
                        s = str(j + 1)
                    elif form == "qual":
                        s = self.expr(e, cols, outer, qualify=True)
                    elif form == "name" and j is not None:
                        s = names[j]
                    else:
                        s = self.expr(e, cols, outer)
                order_sql.append(s + (" DESC" if o["desc"] else "") + (" NULLS FIRST" if o["nf"] else ""))
        else:
            na_sel = len(q["proj"]) - nk
            gform = f["grpform"] if f else "col"
            for j, e in enumerate(q["proj"]):
                s = self.gexpr(e, g, cols, outer)
                if j < nk:
                    if gform == "alias":
                        items.append(f"{s} AS g{j + 1}")
                        names.append(f"g{j + 1}")
                    elif gform == "shadow":
                        items.append(f"{s} AS k")
                        names.append("k")
                    else:
                        items.append(s)
                        names.append(cols[g["keys"][j]["i"] - 1][1] if g["keys"][j]["k"] == "col" else f"g{j + 1}")
                    units.append("int")
                else:
                    alias = f"a{j - nk + 1}" if f else ("v" if j == 1 else f"a{j + 1}")
                    items.append(f"{s} AS {alias}")
                    names.append(alias)
                    units.append("avg_int" if self._is_avg(e, g, nk) else "int")
            for o in q["order"]:
                e = o["e"]
                j = next((j for j, p in enumerate(q["proj"]) if p == e), None)
                form = f["ordform"] if f else "name"
                if form == "ord" and j is not None:
                    s = str(j + 1)
                elif form == "name" and j is not None:
                    s = names[j]
                else:
                    s = self.gexpr(e, g, cols, outer)
                order_sql.append(s + (" DESC" if o["desc"] else "") + (" NULLS FIRST" if o["nf"] else ""))
        sql = "SELECT " + ("DISTINCT " if q["distinct"] == 1 else "") + ", ".join(items) + " FROM " + fr_sql
        if not (where["k"] == "lit" and where["v"] == 1):
            sql += " WHERE " + self.expr(where, cols, outer)
        if grouped and nk > 0:
            gform = f["grpform"] if f else "col"
            ks = []
            for j in range(nk):
                if gform == "ord":
                    ks.append(str(j + 1))
                elif gform == "alias":
                    ks.append(f"g{j + 1}")
                elif gform == "shadow":
                    ks.append("k")
                else:
                    ks.append(self.expr(g["keys"][j], cols, outer))
            sql += " GROUP BY " + ", ".join(ks)
        if grouped and not (g["having"]["k"] == "lit" and g["having"]["v"] == 1):
            if f and f["hav"] == "alias":
                h = g["having"]
                sql += f" HAVING {names[nk]} {h['op']} {h['b']['v']}"
            else:
                sql += " HAVING " + self.gexpr(g["having"], g, cols, outer)
        sql += self.tail(order_sql, q["limit"], q["offset"])
        return sql, names, units

    @staticmethod
    def _is_avg(e, g, nk):
        return e["k"] == "col" and e["i"] > nk and g["aggs"][e["i"] - nk - 1]["f"] == "avg"

    @staticmethod
    def tail(order_sql, limit, offset):
        s = ""
        if order_sql:
            s += " ORDER BY " + ", ".join(order_sql)
        if limit >= 0:
            s += " LIMIT " + _lim_sql(limit)
        if offset > 0:
            s += f" OFFSET {offset}"
        return s

    def statement(self, q):
        f = self.f
        k = q["k"]
        if k == "select":
            return self.select(q, f, [])
        if k == "with":
            c = q["ctes"][0]
            inner, _, _ = self.select(c["q"], None, [])
            body, names, units = self.select(q["body"], f, [])
            return f"WITH {c['name']} AS ({inner}) {body}", names, units
        if k == "setop":
            l, names, units = self.select(q["l"], f, [])
            r, _, _ = self.select(q["r"], None, [])
            order_sql = [names[o["e"]["i"] - 1] + (" DESC" if o["desc"] else "") for o in q["order"]]
            return f"{l} UNION ALL {r}" + self.tail(order_sql, q["limit"], q["offset"]), names, units
        raise Unsupported(f"statement {k}")


def render(q, f):
    return Renderer(f).statement(q)


# ---------------------------------------------------------------------------------------------
# parsing  (SQL text -> syntactic tree)

_TOK = re.compile(r'\s*(?:(\d+)|"((?:[^"]|"")*)"|([A-Za-z_][A-Za-z_0-9]*)|(<>|<=|>=|!=|[-+*/=<>(),.;]))')
KEYWORDS = {"SELECT", "DISTINCT", "FROM", "WHERE", "GROUP", "BY", "HAVING", "ORDER", "LIMIT", "OFFSET", "AS", "ON", "JOIN", "INNER", "LEFT",
            "RIGHT", "FULL", "OUTER", "CROSS", "AND", "OR", "NOT", "IN", "EXISTS", "IS", "NULL", "DESC", "ASC", "NULLS", "FIRST", "LAST",
            "UNION", "ALL", "WITH", "OVER", "PARTITION", "CAST", "CASE", "WHEN", "THEN", "ELSE", "END"}


def tokenize(s):
    out = []
    pos = 0
    s = s.strip()
    while pos < len(s):
        m = _TOK.match(s, pos)
        if not m:
            raise Unsupported(f"cannot tokenize at {s[pos:pos + 20]!r}")
        pos = m.end()
        if m.group(1) is not None:
            out.append(("num", int(m.group(1))))
        elif m.group(2) is not None:
            out.append(("qid", m.group(2)))
        elif m.group(3) is not None:
            w = m.group(3)
            out.append(("kw", w.upper()) if w.upper() in KEYWORDS else ("id", w))
        else:
            out.append(("op", m.group(4)))
    return out


class Parser:
    def __init__(self, sql):
        self.t = tokenize(sql)
        self.i = 0

    def peek(self, k=0):
        return self.t[self.i + k] if self.i + k < len(self.t) else ("eof", None)

    def at(self, kind, val=None):
        t = self.peek()
        return t[0] == kind and (val is None or t[1] == val)

    def kw(self, *ws):
        return self.peek()[0] == "kw" and self.peek()[1] in ws

    def eat(self, kind, val=None):
        if not self.at(kind, val):
            raise Unsupported(f"expected {kind} {val}, got {self.peek()} at token {self.i}")
        t = self.peek()
        self.i += 1
        return t[1]

    def opt(self, kind, val=None):
        if self.at(kind, val):
            self.i += 1
            return True
        return False

    # statement := [WITH name AS (select)] select [UNION ALL select] [ORDER BY ..] [LIMIT n] [OFFSET n]
    def statement(self):
        st = {"with": None}
        if self.opt("kw", "WITH"):
            name = self.eat("id")
            self.eat("kw", "AS")
            self.eat("op", "(")
            inner = self.query()
            self.eat("op", ")")
            st["with"] = (name, inner)
        q = self.query()
        st["q"] = q
        self.opt("op", ";")
        if not self.at("eof"):
            raise Unsupported(f"trailing tokens {self.t[self.i:self.i + 4]}")
        return st

    def query(self):
        l = self.select_core()
        if self.kw("UNION"):
            self.i += 1
            allf = self.opt("kw", "ALL")
            r = self.select_core()
            q = {"k": "union", "all": allf, "l": l, "r": r}
        else:
            q = l
        q["order"] = []
        q["limit"] = None
        q["offset"] = None
        if self.kw("ORDER"):
            self.i += 1
            self.eat("kw", "BY")
            while True:
                e = self.expr()
                desc = False
                nf = None
                if self.opt("kw", "DESC"):
                    desc = True
                else:
                    self.opt("kw", "ASC")
                if self.opt("kw", "NULLS"):
                    nf = self.kw("FIRST")
                    self.i += 1
                q["order"].append((e, desc, nf))
                if not self.opt("op", ","):
                    break
        if self.opt("kw", "LIMIT"):
            q["limit"] = self.eat("num")
        if self.opt("kw", "OFFSET"):
            q["offset"] = self.eat("num")
        return q

    def select_core(self):
        self.eat("kw", "SELECT")
        s = {"k": "select", "distinct": self.opt("kw", "DISTINCT"), "items": [], "where": None, "group": [], "having": None}
        while True:
            if self.at("op", "*"):
                self.i += 1
                s["items"].append((("star",), None))
            else:
                e = self.expr()
                alias = None
                if self.opt("kw", "AS"):
                    alias = self.ident()
                elif self.at("id"):
                    alias = self.eat("id")
                s["items"].append((e, alias))
            if not self.opt("op", ","):
                break
        self.eat("kw", "FROM")
        s["from"] = self.from_tree()
        if self.opt("kw", "WHERE"):
            s["where"] = self.expr()
        if self.kw("GROUP"):
            self.i += 1
            self.eat("kw", "BY")
            while True:
                s["group"].append(self.expr())
                if not self.opt("op", ","):
                    break
        if self.opt("kw", "HAVING"):
            s["having"] = self.expr()
        return s

    def ident(self):
        if self.at("qid"):
            return self.eat("qid")
        return self.eat("id")

    def from_factor(self):
        if self.opt("op", "("):
            q = self.query()
            self.eat("op", ")")
            self.opt("kw", "AS")
            alias = self.eat("id")
            return {"k": "sub", "q": q, "alias": alias}
        name = self.ident()
        alias = None
        if self.opt("kw", "AS"):
            alias = self.eat("id")
        elif self.at("id"):
            alias = self.eat("id")
        return {"k": "table", "name": name, "alias": alias}

    def from_tree(self):
        l = self.from_factor()
        while True:
            kind = None
            if self.opt("op", ","):
                kind = "cross"
                r = self.from_factor()
                l = {"k": "join", "kind": "cross", "l": l, "r": r, "on": None}
                continue
            if self.kw("JOIN", "INNER"):
                self.opt("kw", "INNER")
                kind = "inner"
            elif self.kw("LEFT", "RIGHT", "FULL"):
                kind = self.eat("kw").lower()
                self.opt("kw", "OUTER")
            elif self.kw("CROSS"):
                self.i += 1
                kind = "cross"
            else:
                return l
            self.eat("kw", "JOIN")
            r = self.from_factor()
            on = None
            if kind != "cross":
                self.eat("kw", "ON")
                on = self.expr()
            l = {"k": "join", "kind": kind, "l": l, "r": r, "on": on}

    # expressions (precedence climbing)
    def expr(self):
        return self.or_()

    def or_(self):
        a = self.and_()
        while self.opt("kw", "OR"):
            a = ("bin", "OR", a, self.and_())
        return a

    def and_(self):
        a = self.not_()
        while self.opt("kw", "AND"):
            a = ("bin", "AND", a, self.not_())
        return a

    def not_(self):
        if self.kw("NOT") and not (self.peek(1) == ("kw", "EXISTS")):
            self.i += 1
            return ("not", self.not_())
        return self.cmp()

    def cmp(self):
        a = self.add()
        while True:
            if self.at("op") and self.peek()[1] in ("=", "<>", "!=", "<", "<=", ">", ">="):
                op = self.eat("op")
                a = ("bin", "<>" if op == "!=" else op, a, self.add())
            elif self.kw("IS"):
                self.i += 1
                neg = self.opt("kw", "NOT")
                self.eat("kw", "NULL")
                a = ("isnull", a, neg)
            elif self.kw("IN") or (self.kw("NOT") and self.peek(1) == ("kw", "IN")):
                neg = self.opt("kw", "NOT")
                self.eat("kw", "IN")
                self.eat("op", "(")
                if not self.kw("SELECT"):
                    raise Unsupported("IN list")
                q = self.query()
                self.eat("op", ")")
                a = ("in", a, q, neg)
            else:
                return a

    def add(self):
        a = self.mul()
        while self.at("op") and self.peek()[1] in ("+", "-"):
            op = self.eat("op")
            a = ("bin", op, a, self.mul())
        return a

    def mul(self):
        a = self.unary()
        while self.at("op") and self.peek()[1] in ("*", "/"):
            op = self.eat("op")
            a = ("bin", op, a, self.unary())
        return a

    def unary(self):
        if self.opt("op", "-"):
            return ("neg", self.unary())
        return self.primary()

    def primary(self):
        t = self.peek()
        if t[0] == "num":
            self.i += 1
            return ("num", t[1])
        if t == ("kw", "NULL"):
            self.i += 1
            return ("null",)
        if t == ("kw", "CAST"):
            self.i += 1
            self.eat("op", "(")
            e = self.expr()
            self.eat("kw", "AS")
            ty = self.eat("id")
            self.eat("op", ")")
            return ("cast", e, ty.upper())
        if t == ("kw", "EXISTS") or (t == ("kw", "NOT") and self.peek(1) == ("kw", "EXISTS")):
            neg = self.opt("kw", "NOT")
            self.eat("kw", "EXISTS")
            self.eat("op", "(")
            q = self.query()
            self.eat("op", ")")
            return ("exists", q, neg)
        if t == ("op", "("):
            self.i += 1
            if self.kw("SELECT"):
                q = self.query()
                self.eat("op", ")")
                return ("subq", q)
            e = self.expr()
            self.eat("op", ")")
            return ("paren", e)
        if t[0] == "qid":
            self.i += 1
            return ("col", None, t[1], True)
        if t[0] == "id":
            self.i += 1
            name = t[1]
            if self.at("op", "("):
                self.i += 1
                distinct = self.opt("kw", "DISTINCT")
                if self.opt("op", "*"):
                    args = "*"
                else:
                    args = []
                    if not self.at("op", ")"):
                        while True:
                            args.append(self.expr())
                            if not self.opt("op", ","):
                                break
                self.eat("op", ")")
                fn = ("func", name.upper(), distinct, args)
                if self.opt("kw", "OVER"):
                    self.eat("op", "(")
                    part = []
                    if self.opt("kw", "PARTITION"):
                        self.eat("kw", "BY")
                        while True:
                            part.append(self.expr())
                            if not self.opt("op", ","):
                                break
                    self.eat("op", ")")
                    return ("window", fn, part)
                return fn
            if self.opt("op", "."):
                col = self.ident()
                return ("col", name, col, False)
            return ("col", None, name, False)
        raise Unsupported(f"unexpected token {t}")


def parse(sql):
    return Parser(sql).statement()


# ---------------------------------------------------------------------------------------------
# binding  (syntactic tree -> SqlSem AST)

def Col(i, d=0):
    return {"k": "col", "d": d, "i": i}


def Lit(v):
    return {"k": "lit", "v": v}


TRUEX = Lit(1)
NOGROUP = {"on": 0}


def strip(e):
    while e[0] == "paren":
        e = e[1]
    return e


def has_agg(e):
    e = strip(e)
    if e[0] == "func" and e[1] in AGGS:
        return True
    if e[0] == "window":
        return False
    if e[0] in ("bin",):
        return has_agg(e[2]) or has_agg(e[3])
    if e[0] in ("not", "neg", "cast", "isnull"):
        return has_agg(e[1])
    return False


class Binder:
    def __init__(self, catalog, ctes=None):
        self.catalog = dict(catalog)
        self.ctes = dict(ctes or {})

    def from_(self, fr, outer):
        """-> (ast, cols) cols = [(qual, name)]"""
        if fr["k"] == "table":
            n = fr["name"]
            q = fr["alias"] or n
            if n in self.ctes:
                return {"k": "cte", "name": n}, [(q, c) for c in self.ctes[n]]
            if n not in self.catalog:
                raise Unsupported(f"unknown table {n}")
            return {"k": "table", "name": n}, [(q, c) for c in self.catalog[n]]
        if fr["k"] == "sub":
            ast, names, _ = self.query(fr["q"], outer)
            return {"k": "sub", "q": ast}, [(fr["alias"], n) for n in names]
        l, lc = self.from_(fr["l"], outer)
        r, rc = self.from_(fr["r"], outer)
        cols = lc + rc
        on = TRUEX if fr["on"] is None else self.expr(fr["on"], cols, outer)
        return {"k": "join", "kind": fr["kind"], "l": l, "r": r, "ln": len(lc), "rn": len(rc), "on": on}, cols

    @staticmethod
    def lookup(cols, qual, name):
        hits = [i for i, (q, n) in enumerate(cols) if n == name and (qual is None or q == qual)]
        if len(hits) == 1:
            return hits[0] + 1
        if len(hits) > 1:
            raise Unsupported(f"ambiguous column {qual}.{name}")
        return 0

    def colref(self, e, cols, outer):
        i = self.lookup(cols, e[1], e[2])
        if i:
            return Col(i)
        for d, oc in enumerate(outer):
            i = self.lookup(oc, e[1], e[2])
            if i:
                return Col(i, d + 1)
        raise Unsupported(f"unknown column {e[1]}.{e[2]}")

    def expr(self, e, cols, outer):
        e = strip(e)
        k = e[0]
        if k == "col":
            return self.colref(e, cols, outer)
        if k == "num":
            return Lit(e[1])
        if k == "null":
            return Lit(NULL)
        if k == "neg":
            a = strip(e[1])
            if a[0] == "num":
                return Lit(-a[1])
            return {"k": "neg", "a": self.expr(a, cols, outer)}
        if k == "not":
            return {"k": "not", "a": self.expr(e[1], cols, outer)}
        if k == "isnull":
            return {"k": "isnull", "a": self.expr(e[1], cols, outer), "neg": 1 if e[2] else 0}
        if k == "cast":
            return self.expr(e[1], cols, outer)           # CAST(.. AS DOUBLE/BIGINT) is the identity on model integers
        if k == "bin":
            op = e[1]
            a = self.expr(e[2], cols, outer)
            b = self.expr(e[3], cols, outer)
            if op in ("AND", "OR"):
                return {"k": op.lower(), "a": a, "b": b}
            if op in ("+", "-", "*"):
                return {"k": "arith", "op": op, "a": a, "b": b}
            if op == "/":
                raise Unsupported("division")
            return {"k": "cmp", "op": op, "a": a, "b": b}
        if k == "subq":
            q, _, _ = self.query(e[1], [cols] + outer)
            return {"k": "scalar", "q": q}
        if k == "in":
            q, _, _ = self.query(e[2], [cols] + outer)
            return {"k": "insub", "a": self.expr(e[1], cols, outer), "neg": 1 if e[3] else 0, "q": q}
        if k == "exists":
            q, _, _ = self.query(e[1], [cols] + outer)
            return {"k": "exists", "neg": 1 if e[2] else 0, "q": q}
        raise Unsupported(f"expression {k}")

    def agg(self, e, cols, outer):
        fn, distinct, args = e[1], e[2], e[3]
        if args == "*":
            if fn != "COUNT":
                raise Unsupported(f"{fn}(*)")
            return {"f": "count*", "a": Col(1), "distinct": 0}
        if len(args) != 1:
            raise Unsupported("aggregate arity")
        return {"f": fn.lower(), "a": self.expr(args[0], cols, outer), "distinct": 1 if distinct else 0}

    def query(self, q, outer):
        """-> (ast, names, units)"""
        if q["k"] == "union":
            l, names, units = self.select(q["l"], outer, [], None, None)
            r, _, _ = self.select(q["r"], outer, [], None, None)
            order = []
            for (e, desc, nf) in q["order"]:
                e = strip(e)
                if e[0] == "num":
                    i = e[1]
                elif e[0] == "col" and e[2] in names:
                    i = names.index(e[2]) + 1
                else:
                    raise Unsupported("ORDER BY of a set operation")
                order.append({"e": Col(i), "desc": 1 if desc else 0, "nf": 1 if nf else 0})
            return ({"k": "setop", "op": "union", "all": 1 if q["all"] else 0, "l": l, "r": r, "order": order,
                     "limit": _lim_model(q["limit"]), "offset": q["offset"] or 0}, names, units)
        return self.select(q, outer, q["order"], q["limit"], q["offset"])

    def select(self, s, outer, order, limit, offset):
        fr, cols = self.from_(s["from"], outer)
        where = TRUEX if s["where"] is None else self.expr(s["where"], cols, outer)
        grouped = bool(s["group"]) or s["having"] is not None or any(it[0][0] != "star" and has_agg(it[0]) for it in s["items"])
        names, units = [], []
        wins = []
        if not grouped:
            proj = []
            for (e, alias) in s["items"]:
                if e[0] == "star":
                    for i, (_, n) in enumerate(cols):
                        proj.append(Col(i + 1))
                        names.append(n)
                        units.append("int")
                    continue
                e0 = strip(e)
                if e0[0] == "window":
                    fn = e0[1]
                    wins.append({"f": fn[1].lower(), "a": self.expr(fn[3][0], cols, outer), "k": 0, "dflt": Lit(NULL),
                                 "part": [self.expr(p, cols, outer) for p in e0[2]], "ord": [], "frame": {"mode": "default"}})
                    proj.append(Col(len(cols) + len(wins)))
                    names.append(alias or "?")
                    units.append("int")
                    continue
                b = self.expr(e, cols, outer)
                proj.append(b)
                names.append(alias or (e0[2] if e0[0] == "col" else "?"))
                units.append("int")
            ob = []
            for (e, desc, nf) in order:
                e = strip(e)
                if s["distinct"]:
                    j = e[1] - 1 if e[0] == "num" else names.index(e[2])
                    b = Col(j + 1)
                elif e[0] == "num":
                    b = proj[e[1] - 1]
                elif e[0] == "col" and e[1] is None and e[2] in names:
                    # an unqualified name that is an output name means the output column (the engine's resolution, probed)
                    b = proj[names.index(e[2])]
                else:
                    b = self.expr(e, cols, outer)
                ob.append({"e": b, "desc": 1 if desc else 0, "nf": 1 if nf else 0})
            ast = {"k": "select", "from": fr, "where": where, "group": dict(NOGROUP), "proj": proj, "distinct": 1 if s["distinct"] else 0,
                   "order": ob, "limit": _lim_model(limit), "offset": offset or 0}
            if wins:
                ast["wins"] = wins
            return ast, names, units
        # ---- grouped
        aliases = {alias: e for (e, alias) in s["items"] if alias}
        keys = []
        for gx in s["group"]:
            gx = strip(gx)
            if gx[0] == "num":
                gx = strip(s["items"][gx[1] - 1][0])
            elif gx[0] == "col" and gx[1] is None and self.lookup(cols, None, gx[2]) == 0 and gx[2] in aliases:
                gx = strip(aliases[gx[2]])            # an alias that is NOT a column of the FROM row
            keys.append(self.expr(gx, cols, outer))
        aggs = []
        nk = len(keys)

        def gx_(e, dedupe=False):
            e = strip(e)
            if e[0] == "func" and e[1] in AGGS:
                a = self.agg(e, cols, outer)
                if dedupe and a in aggs:
                    return Col(nk + aggs.index(a) + 1)
                aggs.append(a)
                return Col(nk + len(aggs))
            if e[0] in ("num",):
                return Lit(e[1])
            if e[0] == "cast":
                return gx_(e[1], dedupe)
            if not has_agg(e):
                b = self.expr(e, cols, outer)
                if b in keys:
                    return Col(keys.index(b) + 1)
            if e[0] == "bin":
                op = e[1]
                a, b = gx_(e[2], dedupe), gx_(e[3], dedupe)
                if op in ("+", "-", "*"):
                    return {"k": "arith", "op": op, "a": a, "b": b}
                if op in ("AND", "OR"):
                    return {"k": op.lower(), "a": a, "b": b}
                if op == "/":
                    raise Unsupported("division")
                return {"k": "cmp", "op": op, "a": a, "b": b}
            raise Unsupported(f"group-level expression {e}")

        proj = []
        for (e, alias) in s["items"]:
            if e[0] == "star":
                raise Unsupported("* in a grouped select")
            b = gx_(e)
            proj.append(b)
            e0 = strip(e)
            names.append(alias or (e0[2] if e0[0] == "col" else "?"))
            units.append("avg_int" if (b["k"] == "col" and b["i"] > nk and aggs[b["i"] - nk - 1]["f"] == "avg") else "int")
        if s["having"] is None:
            having = TRUEX
        else:
            h = strip(s["having"])
            # HAVING <output alias> <op> n
            if h[0] == "bin" and strip(h[2])[0] == "col" and strip(h[2])[2] in names and self.lookup(cols, None, strip(h[2])[2]) == 0:
                having = {"k": "cmp", "op": h[1], "a": proj[names.index(strip(h[2])[2])], "b": gx_(h[3])}
            else:
                having = gx_(h)
        ob = []
        for (e, desc, nf) in order:
            e = strip(e)
            if e[0] == "num":
                b = proj[e[1] - 1]
            elif e[0] == "col" and e[1] is None and e[2] in names:
                b = proj[names.index(e[2])]
            else:
                b = gx_(e, dedupe=True)
            ob.append({"e": b, "desc": 1 if desc else 0, "nf": 1 if nf else 0})
        ast = {"k": "select", "from": fr, "where": where,
               "group": {"on": 1, "keys": keys, "aggs": aggs, "having": having, "sets": []},
               "proj": proj, "distinct": 1 if s["distinct"] else 0, "order": ob, "limit": _lim_model(limit), "offset": offset or 0}
        return ast, names, units


def _lim_model(n):
    if n is None:
        return -1
    if n == U64MAX:
        return U - 1
    if n >= U - 1:
        raise Unsupported(f"LIMIT {n} outside the modelled range")
    return n


def bind_statement(st, catalog=None):
    cat = dict(CATALOG if catalog is None else catalog)
    if st["with"]:
        name, inner = st["with"]
        b0 = Binder(cat)
        iq, inames, _ = b0.query(inner, [])
        b = Binder(cat, {name: inames})
        body, names, units = b.query(st["q"], [])
        return {"k": "with", "ctes": [{"name": name, "q": iq}], "body": body}, names, units
    return Binder(cat).query(st["q"], [])


# ---------------------------------------------------------------------------------------------
# the planner's merge query -> DistPlan.tla `final` record

def partial_schema(part_tree):
    """output names and units of the fragment query (syntactic)"""
    names, units = [], []
    q = part_tree["q"]
    if q["k"] != "select":
        raise Unsupported("fragment is not a plain select")
    for (e, alias) in q["items"]:
        if e[0] == "star":
            raise Unsupported("star fragment")
        e0 = strip(e)
        names.append(alias or (e0[2] if e0[0] == "col" else "?"))
        units.append("avg" if (e0[0] == "func" and e0[1] == "AVG") else "int")
    return names, units


def final_spec(final_sql, pnames, punits):
    """final record over the partial row (columns pnames): [gon, keys, aggs, divs, having, proj, order, limit, offset]"""
    st = parse(final_sql)
    q = st["q"]
    if st["with"] or q["k"] != "select" or q["distinct"]:
        raise Unsupported("merge query form")
    fr = q["from"]
    if fr["k"] != "table" or fr["name"] != "qe_dist_partial":
        raise Unsupported("merge query does not read qe_dist_partial")
    cols = [("p", n) for n in pnames]

    def pcol(e):
        e = strip(e)
        if e[0] != "col":
            raise Unsupported(f"merge aggregate over a non-column {e}")
        i = Binder.lookup(cols, None, e[2])
        if not i:
            raise Unsupported(f"merge query names a column the fragment does not carry: {e[2]}")
        return i

    grouped = bool(q["group"]) or q["having"] is not None or any(has_agg(e) for (e, _) in q["items"]) or any(has_agg(o[0]) for o in q["order"])
    if not grouped:
        proj, names = [], []
        for (e, alias) in q["items"]:
            proj.append(Col(pcol(e)))
            names.append(alias or strip(e)[2])
        order = []
        for (e, desc, nf) in q["order"]:
            e = strip(e)
            if e[0] == "num":
                b = proj[e[1] - 1]
            elif e[0] == "col" and e[2] in names:
                b = proj[names.index(e[2])]
            else:
                b = Col(pcol(e))
            order.append({"e": b, "desc": 1 if desc else 0, "nf": 1 if nf else 0})
        return {"gon": 0, "keys": [], "aggs": [], "divs": [], "having": TRUEX, "proj": proj, "order": order,
                "limit": _lim_model(q["limit"]), "offset": q["offset"] or 0}
    keys = [pcol(g) for g in q["group"]]
    nk = len(keys)
    aggs, divs = [], []

    def magg(fn, i):
        a = {"f": fn, "i": i}
        if a not in aggs:
            aggs.append(a)
        return aggs.index(a) + 1

    def one_agg(e):
        e = strip(e)
        if e[0] == "cast":
            return one_agg(e[1])
        if e[0] == "func" and e[1] in AGGS and e[1] != "AVG" and not e[2]:
            if e[3] == "*":
                raise Unsupported("COUNT(*) in a merge query")
            return magg(e[1].lower(), pcol(e[3][0]))
        return None

    DIV = "div"

    def gx(e):
        e = strip(e)
        if e[0] == "num":
            return Lit(e[1])
        if e[0] == "col":
            i = pcol(e)
            if i in keys:
                return Col(keys.index(i) + 1)
            raise Unsupported(f"merge query reads ungrouped column {e[2]}")
        if e[0] == "cast":
            return gx(e[1])
        if e[0] == "func" and e[1] == "AVG" and not e[2]:
            i = pcol(e[3][0])
            n, d = magg("sum", i), magg("count", i)
            divs.append({"n": n, "d": d, "raw": 1 if punits[i - 1] == "avg" else 0})
            return {"k": DIV, "j": len(divs)}
        if e[0] == "func" and e[1] in AGGS:
            j = one_agg(e)
            if j is None:
                raise Unsupported(f"merge aggregate {e}")
            return {"k": "magg", "j": j}
        if e[0] == "bin" and e[1] == "/":
            n, d = one_agg(e[2]), one_agg(e[3])
            if n is None or d is None or strip(e[2])[0] != "cast":
                raise Unsupported("division in a merge query that is not CAST(agg)/CAST(agg)")
            divs.append({"n": n, "d": d, "raw": 0})
            return {"k": DIV, "j": len(divs)}
        if e[0] == "bin":
            op = e[1]
            a, b = gx(e[2]), gx(e[3])
            if op in ("+", "-", "*"):
                return {"k": "arith", "op": op, "a": a, "b": b}
            if op in ("AND", "OR"):
                return {"k": op.lower(), "a": a, "b": b}
            return {"k": "cmp", "op": op, "a": a, "b": b}
        if e[0] == "not":
            return {"k": "not", "a": gx(e[1])}
        raise Unsupported(f"merge expression {e}")

    items = [(gx(e), alias) for (e, alias) in q["items"]]
    names = [alias or "?" for (_, alias) in items]
    having = TRUEX if q["having"] is None else gx(q["having"])
    order = []
    for (e, desc, nf) in q["order"]:
        e = strip(e)
        if e[0] == "num":
            b = items[e[1] - 1][0]
        elif e[0] == "col" and e[3] and e[2] in names:
            b = items[names.index(e[2])][0]
        else:
            b = gx(e)
        order.append({"e": b, "desc": 1 if desc else 0, "nf": 1 if nf else 0})
    na = len(aggs)

    def fix(e):
        if e["k"] == "magg":
            return Col(nk + e["j"])
        if e["k"] == DIV:
            return Col(nk + na + e["j"])
        out = dict(e)
        for fld in ("a", "b"):
            if fld in out and isinstance(out[fld], dict):
                out[fld] = fix(out[fld])
        return out

    return {"gon": 1, "keys": keys, "aggs": aggs,
            "divs": [{"n": nk + d["n"], "d": nk + d["d"], "raw": d["raw"]} for d in divs],
            "having": fix(having), "proj": [fix(e) for (e, _) in items],
            "order": [{"e": fix(o["e"]), "desc": o["desc"], "nf": o["nf"]} for o in order],
            "limit": _lim_model(q["limit"]), "offset": q["offset"] or 0}


def bind_fragment(partial_sql):
    """the fragment query as a SqlSem AST whose output row is the partial row; plus its output names / units"""
    st = parse(partial_sql)
    if st["with"]:
        raise Unsupported("WITH in a fragment")
    ast, names, _ = Binder(CATALOG).query(st["q"], [])
    q = st["q"]
    if q["k"] == "select":
        try:
            pn, pu = partial_schema(st)
        except Unsupported:
            pn, pu = names, ["int"] * len(names)
    else:
        pn, pu = names, ["int"] * len(names)
    return ast, pn, pu


# ---------------------------------------------------------------------------------------------
# features from the statement text alone

def _tables(fr, out):
    if fr["k"] == "table":
        out.append(fr["name"])
    elif fr["k"] == "join":
        _tables(fr["l"], out)
        _tables(fr["r"], out)


def _walk(e, fn):
    e = strip(e)
    fn(e)
    if e[0] == "bin":
        _walk(e[2], fn)
        _walk(e[3], fn)
    elif e[0] in ("not", "neg", "cast", "isnull"):
        _walk(e[1], fn)
    elif e[0] == "in":
        _walk(e[1], fn)


def features_of(sql):
    """the DistPlan feature record of a statement, from its own text"""
    st = parse(sql)
    f = {"fam": "plain", "src": "t", "sub": "none", "wrap": "none", "wh": 0, "proj": "kv", "selform": "name", "grp": 0, "grpform": "col",
         "aggs": [], "hav": "none", "selx": "plain", "ord": "none", "ordform": "name", "desc": 0, "lim": -1, "off": 0}
    q = st["q"]
    if st["with"]:
        f["wrap"] = "cte"
    s = q
    if q["k"] == "union":
        f["wrap"] = "union"
        s = q["l"]
    if s["distinct"]:
        f["wrap"] = "distinct"
    if any(it[0][0] != "star" and strip(it[0])[0] == "window" for it in s["items"]):
        f["wrap"] = "window"
    f["lim"] = _lim_model(q["limit"])
    f["off"] = q["offset"] or 0
    # ---- source shape
    fr = s["from"]
    if fr["k"] == "join":
        ts = []
        _tables(fr, ts)
        if ts == ["t", "t"]:
            f["src"] = "self"
        elif ts == ["t", "d"]:
            f["src"] = {"inner": "tjd", "cross": "txd", "left": "tld", "right": "trd", "full": "tfd"}[fr["kind"]]
        elif ts == ["d", "t"] and fr["kind"] == "left":
            f["src"] = "dlt"
        else:
            raise Unsupported(f"join shape {ts} {fr['kind']}")
    elif fr["k"] == "sub":
        i = fr["q"]
        if i["k"] != "select":
            raise Unsupported("derived set operation")
        if i["group"] or any(has_agg(e) for (e, _) in i["items"]):
            f["src"] = "dera"
        elif i["limit"] is not None:
            f["src"] = "derl"
        elif i["distinct"]:
            f["src"] = "derd"
        elif i["where"] is not None:
            f["src"] = "derw"
        else:
            f["src"] = "der"
    # ---- WHERE: optional `v >= 1` AND optional subquery predicate
    conj = []

    def split(e):
        e = strip(e)
        if e[0] == "bin" and e[1] == "AND":
            split(e[2])
            split(e[3])
        else:
            conj.append(e)
    if s["where"] is not None:
        split(s["where"])
    for c in conj:
        subs = []
        _walk(c, lambda x: subs.append(x) if x[0] in ("subq", "in", "exists") else None)
        if not subs:
            f["wh"] = 1
            continue
        x = subs[0]
        inner = x[1] if x[0] in ("subq", "exists") else x[2]
        ts = []
        _tables(inner["from"], ts)
        on_t = ts == ["t"]
        f["sub"] = {"subq": "st" if on_t else "sd", "in": "int" if on_t else "ind", "exists": "ext" if on_t else "exd"}[x[0]]
    # ---- select list / grouping
    grouped = bool(s["group"]) or s["having"] is not None or any(it[0][0] != "star" and has_agg(it[0]) for it in s["items"])
    items = s["items"]
    if not grouped:
        plain = [it for it in items if it[0][0] == "star" or strip(it[0])[0] != "window"]
        if plain[0][0][0] == "star":
            f["selform"] = "star"
            outn = ["k", "v"]
            srcn = ["k", "v"]
        else:
            srcn = [strip(e)[2] for (e, _) in plain]
            outn = [a or strip(e)[2] for (e, a) in plain]
            if any(a for (_, a) in plain):
                f["selform"] = "alias"
            elif any(strip(e)[1] is not None for (e, _) in plain) and f["src"] in ("t", "der", "derw", "dera", "derl", "derd"):
                f["selform"] = "qual"
        f["proj"] = "v" if srcn == ["v"] else "kv"
        keys = []
        for (e, desc, nf) in q["order"]:
            e = strip(e)
            form = "name"
            if e[0] == "num":
                nm, form = srcn[e[1] - 1], "ord"
            elif e[0] == "col":
                nm = srcn[outn.index(e[2])] if e[2] in outn and e[1] is None else e[2]
                if e[1] is not None and f["src"] in ("t",):
                    form = "qual"
                if nm not in srcn:
                    form = "hidden"
            elif e[0] == "bin" and strip(e[2])[0] == "col":
                nm, form = strip(e[2])[2], "expr"
            else:
                raise Unsupported("ORDER BY form")
            keys.append(nm)
            f["ordform"] = form
            f["desc"] = 1 if desc else 0
        f["ord"] = "".join(keys) if keys else "none"
    else:
        f["fam"] = "agg"
        f["grp"] = 1 if s["group"] else 0
        nk = f["grp"]
        if nk:
            g = strip(s["group"][0])
            first, alias = strip(items[0][0]), items[0][1]
            if g[0] == "num":
                f["grpform"] = "ord"
            elif alias and g[0] == "col" and g[2] == alias:
                f["grpform"] = "shadow" if first[0] != "col" else "alias"
        aggs = []

        def collect(e):
            if e[0] == "func" and e[1] in AGGS:
                fn = "count*" if e[3] == "*" else e[1].lower()
                arg = "v" if e[3] == "*" else strip(e[3][0])[2]
                aggs.append({"fn": fn, "dist": 1 if e[2] else 0, "arg": arg})
        for (e, _) in items[nk:]:
            _walk(e, collect)
        f["aggs"] = aggs
        first_agg = strip(items[nk][0])
        if first_agg[0] == "bin" and first_agg[1] == "+":
            f["selx"] = "sumpair" if has_agg(first_agg[3]) else "plus1"
        if s["having"] is not None:
            h = strip(s["having"])
            l = strip(h[2])
            if l[0] == "func" and l[1] == "COUNT" and l[3] == "*":
                f["hav"] = "cnt"
            elif l[0] == "func" and l[1] == "SUM":
                f["hav"] = "sum"
            elif l[0] == "col" and l[2] == "k":
                f["hav"] = "key"
            elif l[0] == "col":
                f["hav"] = "alias"
            else:
                raise Unsupported("HAVING form")
        for (e, desc, nf) in q["order"]:
            e = strip(e)
            f["desc"] = 1 if desc else 0
            outn = [a or (strip(x)[2] if strip(x)[0] == "col" else "?") for (x, a) in items]
            if e[0] == "num":
                f["ordform"] = "ord"
                f["ord"] = "k" if (nk and e[1] == 1) else "a1"
            elif e[0] == "col" and e[2] in outn:
                j = outn.index(e[2])
                isk = bool(nk and j == 0)
                f["ord"] = "k" if isk else "a1"
                # `ORDER BY k` where k is the group column itself is the EXPRESSION form of the key and its output name at once
                f["ordform"] = "name"
            else:
                f["ord"] = "a1" if has_agg(e) else "k"
                f["ordform"] = "expr"
    return f
