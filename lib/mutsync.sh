#!/bin/bash
# dev-time: bring the scratch mutation environment (/tmp/mut) in line with /repo HEAD and the COMMITTED harness sources
set -e
git -C /tmp/mut/repo checkout -q -- . ; git -C /tmp/mut/repo clean -fdq
git -C /tmp/mut/repo checkout -q --detach $(git -C /repo rev-parse HEAD)
rm -rf /tmp/mut/harness/src.new && mkdir -p /tmp/mut/harness/src.new
git -C /verif archive HEAD harness/src harness/Cargo.toml | tar -x -C /tmp/mut/harness/src.new
rsync -a --delete /tmp/mut/harness/src.new/harness/src/ /tmp/mut/harness/src/
sed 's#"/repo#"/tmp/mut/repo#' /tmp/mut/harness/src.new/harness/Cargo.toml > /tmp/mut/harness/Cargo.toml
sed -i 's#"/repo/src/cli/output.rs"#"/tmp/mut/repo/src/cli/output.rs"#' /tmp/mut/harness/src/output.rs
rm -rf /tmp/mut/harness/src.new
cp /verif/harness/Cargo.lock /tmp/mut/harness/Cargo.lock
echo "synced to $(git -C /tmp/mut/repo rev-parse --short HEAD)"
