#!/usr/bin/env python3
"""Regenerates /verif/MANIFEST.json from lib/checks_meta.py (single source of truth)."""
import json, os, sys
ROOT = os.path.dirname(os.path.dirname(os.path.abspath(__file__)))
sys.path.insert(0, os.path.join(ROOT, "lib"))
import checks_meta as M

props = [json.loads(l) for l in open(os.path.join(ROOT, "properties.jsonl"))]
ids = [p["id"] for p in props]
checks = []
for pid in ids:
    m = M.CHECKS.get(pid)
    if not m or not os.path.exists(os.path.join(ROOT, "checks", pid.lower() + ".py")):
        continue
    checks.append({
        "property_id": pid,
        "quick_cmd": f"./check {pid} --tier quick",
        "thorough_cmd": f"./check {pid} --tier thorough",
        "evidence_file": f"/verif/evidence/{pid}.json",
        "replay_cmd_template": f"./check {pid} --replay {{path}}",
        "engine": m.get("engine", "tlc+qev"),
        "level_claimed": {"category": m["level"], "text": m["text"], "design_ref": m.get("design_ref", f"DESIGN.md §4 {pid}")},
        "level_note": m["note"],
        "technique": m["technique"],
    })
claimed = {c["property_id"] for c in checks}
na = [{"property_id": pid, "reason": M.NOT_APPLICABLE.get(pid, "check not built yet in this round (planned in DESIGN.md §4); not claimed")}
      for pid in ids if pid not in claimed]
man = {
    "version": 1,
    "setup_cmd": "cd /verif/harness && cp -n /repo/Cargo.lock Cargo.lock; CARGO_NET_OFFLINE=true cargo build --offline --bins 2>&1 | tail -3 && cd /verif/spec && for f in *.tla; do tla-sany $f >/dev/null 2>&1 || { echo SANY-FAIL $f; exit 1; }; done",
    "hooks": {
        "guard": "--cfg qe_verif",
        "enable": "harness/.cargo/config.toml sets rustflags = [\"--cfg\",\"qe_verif\"]; the harness crate depends on /repo by path, so every check rebuilds /repo's working tree with hooks on",
        "baseline_off_cmd": "cd /repo && cargo nextest run --workspace --no-fail-fast --tool-config-file pb:/w/lib/nextest.toml --profile pb --test-threads 8 --offline",
        "source_commits": M.HOOK_COMMITS,
        "add_only": True,
    },
    "engines": [
        {"name": "tlc+qev", "path": "/verif/check", "serves_properties": sorted(claimed),
         "kind_free_text": "TLA+ specifications under spec/ model-checked with TLC; cases/behaviours emitted by TLC are replayed on the real code by the Rust harness (harness/, links /repo with --cfg qe_verif); traces recorded from the real code are validated against trace specs by TLC"},
    ],
    "checks": checks,
    "not_applicable": na,
    "notes": "Driver: ./check <ID> --tier quick|thorough; exit 0 ok (KNOWN-FINDING lines allowed), 1 VIOLATION + replay file, 2 tool error. known_findings.jsonl is read-only at run time.",
}
json.dump(man, open(os.path.join(ROOT, "MANIFEST.json"), "w"), indent=1)
print(f"{len(checks)} checks claimed, {len(na)} not claimed")
