#!/usr/bin/env python3
"""experiment: unexplained-rejection rate per option set.  usage: sqlexp.py <name> <n> <seed> '<json opts>'"""
import sys, json, collections, os
sys.path.insert(0, os.path.dirname(__file__))
import sqlgen, vlib, sqlloop
name, n, seed, opts = sys.argv[1], int(sys.argv[2]), int(sys.argv[3]), json.loads(sys.argv[4])
ctx = vlib.Ctx("SQLDEV", "quick", seed, "model_checking")
g = sqlgen.Gen(seed, opts)
cases = [g.case(f"c{i}") for i in range(n)]
cfgs = json.loads(sys.argv[5]) if len(sys.argv) > 5 else [{"name": "mem1", "layout": "mem", "batches": 1}]
outs = sqlloop.run_cases(ctx, cases, cfgs, name)
c = collections.Counter()
for o in outs:
    for x in o['outs']:
        c[x['k']] += 1
rej = sqlloop.judge(ctx, cases, outs, name)
dc = collections.Counter()
for r in rej:
    dc[(r['out']['k'], json.dumps(r['devs']))] += 1
print(name, dict(c), "rejects:", {f"{k[0]}{k[1]}": v for k, v in dc.most_common()})
json.dump(rej, open(f'{ctx.work}/{name}/rej.json', 'w'))
