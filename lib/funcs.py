"""C36 driver side: render the cases TLC emitted from spec/Funcs.tla as SQL (literal arguments, column
arguments, first-argument-column), run them on the real engine (qev funcs-run) and compare the single
result cell with the documented value.  python3 stdlib only."""
import datetime
import json
import os
import threading

import vlib

# concretization of the order-only boundary tokens of Funcs.tla
TOK = {1000001: 2**31 - 1, 1000002: 2**31, 1000003: 2**63 - 1,
       -1000001: -(2**31 - 1), -1000002: -(2**31), -1000003: -(2**63 - 1), -1000004: -(2**63)}
SQLTYPE = {"int": "BIGINT", "str": "VARCHAR", "date": "DATE", "dbl": "DOUBLE", "bool": "BOOLEAN", "ts": "TIMESTAMP"}
EPOCH = datetime.date(1970, 1, 1)


def conc(i):
    return TOK.get(i, i)


def s_of(cps):
    return "".join(chr(c) for c in cps)


def lit(v):
    """SQL literal text of a model value."""
    t = v["t"]
    if v["n"] == 1:
        return f"CAST(NULL AS {SQLTYPE[t]})"
    if t == "int":
        x = conc(v["i"])
        if x == -(2**63):
            return "(-9223372036854775807 - 1)"
        return str(x) if x >= 0 else f"({x})"
    if t == "str":
        return "'" + s_of(v["s"]).replace("'", "''") + "'"
    if t == "date":
        return "DATE '" + (EPOCH + datetime.timedelta(days=v["i"])).isoformat() + "'"
    if t == "dbl":
        x = v["i"] / 2.0
        return f"{x:.1f}" if x >= 0 else f"({x:.1f})"
    if t == "bool":
        return "TRUE" if v["i"] == 1 else "FALSE"
    raise vlib.ToolError(f"no literal for type {t}")


def cellval(v):
    """table cell (funcs-run input format) of a model value."""
    if v["n"] == 1:
        return None
    t = v["t"]
    if t == "int":
        return conc(v["i"])
    if t == "str":
        return list(v["s"])
    if t == "date":
        return v["i"]
    if t == "dbl":
        return v["i"] / 2.0
    if t == "bool":
        return v["i"]
    raise vlib.ToolError(f"no cell for type {t}")


def subst(tmpl, reps):
    out = tmpl
    for k in range(len(reps), 0, -1):
        out = out.replace(f"${k}", reps[k - 1])
    return out


def features(case):
    f = set()
    for v in case["args"]:
        if v["n"] == 1:
            f.add("null")
        elif v["t"] == "int":
            if v["i"] in TOK:
                f.add("big")
            elif v["i"] < 0:
                f.add("neg")
            elif v["i"] == 0:
                f.add("zero")
        elif v["t"] == "str":
            if not v["s"]:
                f.add("empty")
            if any(c > 127 for c in v["s"]):
                f.add("nonascii")
        elif v["t"] == "dbl" and v["i"] < 0:
            f.add("neg")
    ds = [v for v in case["args"] if v["t"] == "date" and v["n"] == 0]
    if len(ds) == 2 and case["f"] == "DATE_DIFF":
        a, b = (EPOCH + datetime.timedelta(days=ds[0]["i"])), (EPOCH + datetime.timedelta(days=ds[1]["i"]))
        lo, hi = (a, b) if a <= b else (b, a)
        if b < a:
            f.add("backward")
        if hi.day < lo.day:
            f.add("partialmonth")       # the last month between the two dates is incomplete
        if (hi.month, hi.day) < (lo.month, lo.day):
            f.add("partialyear")
    a = case["args"]
    if case["f"] == "SPLIT_PART" and all(v["n"] == 0 for v in a) and a[1]["s"]:
        if a[2]["i"] > len(s_of(a[0]["s"]).split(s_of(a[1]["s"]))):
            f.add("beyond")             # index larger than the number of fields
    if case["f"] == "TRANSLATE" and all(v["n"] == 0 for v in a):
        frm = list(a[1]["s"])
        if any(c in frm and frm.index(c) >= len(a[2]["s"]) for c in a[0]["s"]):
            f.add("drops")              # a source character maps beyond the end of the 'to' string
    return "+".join(sorted(f)) or "plain"


def key_of(case, path):
    """signature of a case for the known-findings list: statement template, evaluation path, argument class"""
    return f"{case['tmpl']} | {path} | {features(case)}"


def matches(exp, cell):
    """does the engine's cell equal the documented value (type-tolerant, value-strict)?"""
    if exp["n"] == 1:
        return cell is None
    if cell is None:
        return False
    t = exp["t"]
    if t == "int":
        want = conc(exp["i"])
        if "i" in cell:
            return cell["i"] == want
        if "d" in cell and isinstance(cell["d"], (int, float)):
            return float(cell["d"]) == float(want) and abs(want) < 2**53
        if "b" in cell:
            return cell["b"] == want
        return False
    if t == "dbl":
        want = exp["i"] / 2.0
        if "d" in cell and isinstance(cell["d"], (int, float)):
            return float(cell["d"]) == want
        if "i" in cell:
            return float(cell["i"]) == want
        return False
    if t == "str":
        return cell.get("s") == list(exp["s"])
    if t == "date":
        if "date" in cell:
            return cell["date"] == exp["i"]
        if "ts" in cell:
            return cell["ts"] == exp["i"] * 86400 * 1000000
        return False
    if t == "bool":
        if "b" in cell:
            return cell["b"] == exp["i"]
        if "i" in cell:
            return cell["i"] == exp["i"]
        return False
    return False


def show(v):
    if v is None:
        return "NULL"
    if isinstance(v, dict) and "t" in v:
        if v["n"] == 1:
            return "NULL"
        if v["t"] == "str":
            return repr(s_of(v["s"]))
        if v["t"] == "int":
            return str(conc(v["i"]))
        if v["t"] == "dbl":
            return str(v["i"] / 2.0)
        if v["t"] == "date":
            return (EPOCH + datetime.timedelta(days=v["i"])).isoformat()
        return str(v["i"])
    if isinstance(v, dict):
        if "s" in v:
            return repr(s_of(v["s"]))
        if "date" in v:
            try:
                return (EPOCH + datetime.timedelta(days=v["date"])).isoformat()
            except Exception:
                return f"date({v['date']})"
        return json.dumps(v)
    return str(v)


class Runner:
    """Batches statements into funcs-run invocations (several processes in parallel)."""

    def __init__(self, ctx, procs=4):
        self.ctx = ctx
        self.procs = procs
        self.n = 0
        self.queries = 0

    def run(self, jobs, tag):
        """jobs: list of {"tables":[..], "sqls":[..]} -> list of outs lists (same order)."""
        if not jobs:
            return []
        for k, j in enumerate(jobs):
            j["id"] = k
        self.n += 1
        shards = [jobs[i::self.procs] for i in range(self.procs)]
        res = {}
        errs = []

        def work(si, shard):
            if not shard:
                return
            inp = os.path.join(self.ctx.work, f"{tag}-{self.n}-{si}.in.ndjson")
            outp = os.path.join(self.ctx.work, f"{tag}-{self.n}-{si}.out.ndjson")
            vlib.write_ndjson(inp, shard)
            try:
                vlib.qev(["funcs-run", inp, outp], timeout=3000)
                for o in vlib.read_ndjson(outp):
                    res[o["id"]] = o["outs"]
            except Exception as e:   # noqa
                errs.append(e)

        ths = [threading.Thread(target=work, args=(i, s)) for i, s in enumerate(shards)]
        for t in ths:
            t.start()
        for t in ths:
            t.join()
        if errs:
            raise vlib.ToolError(f"funcs-run failed: {errs[0]}")
        self.queries += sum(len(j["sqls"]) for j in jobs)
        return [res[k] for k in range(len(jobs))]


def _outcome_of_rows(out, ncell):
    """engine output of a literal SELECT -> list of per-expression outcomes"""
    if out["k"] != "rows":
        return None
    if len(out["rows"]) != 1 or len(out["rows"][0]) != ncell:
        return [{"k": "shape", "msg": f"{len(out['rows'])} rows x {len(out['rows'][0]) if out['rows'] else 0} cols"}] * ncell
    return [{"k": "val", "cell": c} for c in out["rows"][0]]


def run_literal(runner, cases, pack=40):
    """all-literal path: SELECT e1 AS x1, ... (no FROM); failing packs are split down to single expressions."""
    exprs = [subst(c["tmpl"], [lit(a) for a in c["args"]]) for c in cases]
    result = [None] * len(cases)
    groups = [list(range(i, min(i + pack, len(cases)))) for i in range(0, len(cases), pack)]
    rnd = 0
    while groups:
        rnd += 1
        jobs = [{"tables": [], "sqls": ["SELECT " + ", ".join(f"{exprs[i]} AS x{n}" for n, i in enumerate(g))]} for g in groups]
        outs = runner.run(jobs, f"lit{rnd}")
        nxt = []
        for g, o in zip(groups, outs):
            o = o[0]
            r = _outcome_of_rows(o, len(g))
            if r is not None:
                for i, x in zip(g, r):
                    result[i] = dict(x, sql="SELECT " + exprs[i])
            elif len(g) == 1:
                result[g[0]] = {"k": o["k"], "msg": o.get("msg", ""), "cls": o.get("cls", ""), "sql": "SELECT " + exprs[g[0]]}
            else:
                h = max(1, len(g) // 4)
                nxt += [g[i:i + h] for i in range(0, len(g), h)]
        groups = nxt
    return result


def _table_for(cases, idxs, ncol_args, types):
    cols = [["rid", "int"]] + [[f"c{k + 1}", types[k]] for k in range(ncol_args)]
    rows = [[n] + [cellval(cases[i]["args"][k]) for k in range(ncol_args)] for n, i in enumerate(idxs)]
    return {"name": "t", "cols": cols, "rows": rows}


def run_columns(runner, cases, mode, maxrows=64):
    """mode 'col': every argument is a column of a table holding one row per case;
    mode 'mix': the first argument is a column, the others are literals.
    Cases are grouped by statement text; a failing group is bisected down to single rows."""
    result = [None] * len(cases)
    bykey = {}
    for i, c in enumerate(cases):
        types = [a["t"] for a in c["args"]]
        if mode == "col":
            reps = [f"c{k + 1}" for k in range(len(types))]
            ncol = len(types)
        else:
            if len(types) < 2:
                continue
            reps = ["c1"] + [lit(a) for a in c["args"][1:]]
            ncol = 1
        sql = "SELECT rid, " + subst(c["tmpl"], reps) + " AS x FROM t"
        bykey.setdefault((sql, tuple(types[:ncol])), []).append(i)
    groups = []
    for (sql, types), idxs in bykey.items():
        for j in range(0, len(idxs), maxrows):
            groups.append((sql, types, idxs[j:j + maxrows]))
    rnd = 0
    while groups:
        rnd += 1
        jobs = [{"tables": [_table_for(cases, idxs, len(types), types)], "sqls": [sql]} for sql, types, idxs in groups]
        outs = runner.run(jobs, f"{mode}{rnd}")
        nxt = []
        for (sql, types, idxs), o, job in zip(groups, outs, jobs):
            o = o[0]
            if o["k"] == "rows":
                got = {}
                okshape = True
                for r in o["rows"]:
                    if len(r) != 2 or r[0] is None or "i" not in r[0]:
                        okshape = False
                        break
                    got[r[0]["i"]] = r[1]
                if not okshape or len(got) != len(idxs) or len(o["rows"]) != len(idxs):
                    for i in idxs:
                        result[i] = {"k": "shape", "msg": f"{len(o['rows'])} rows for {len(idxs)} input rows", "sql": sql,
                                     "table": job["tables"][0]}
                else:
                    for n, i in enumerate(idxs):
                        result[i] = {"k": "val", "cell": got[n], "sql": sql, "table": job["tables"][0], "row": n}
            elif len(idxs) == 1:
                result[idxs[0]] = {"k": o["k"], "msg": o.get("msg", ""), "cls": o.get("cls", ""), "sql": sql,
                                   "table": job["tables"][0], "row": 0}
            else:
                h = max(1, len(idxs) // 4)
                nxt += [(sql, types, idxs[j:j + h]) for j in range(0, len(idxs), h)]
        groups = nxt
    return result


def judge(case, res):
    """-> ('ok'|'err'|'panic'|'skip'|'wrong', detail)"""
    if res is None:
        return "skip", ""
    if res["k"] == "val":
        if matches(case["exp"], res["cell"]):
            return "ok", ""
        return "wrong", f"{res['sql']} with args ({', '.join(show(a) for a in case['args'])}) returned {show(res['cell'])}, documented value {show(case['exp'])}"
    if res["k"] == "err":
        return "err", res.get("cls", "") + ": " + res.get("msg", "")[:100]
    if res["k"] == "panic":
        return "panic", res.get("msg", "")[:160]
    if res["k"] == "hang":
        return "hang", ""
    return "wrong", f"{res['sql']}: result shape {res.get('msg')}"
