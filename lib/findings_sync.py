#!/usr/bin/env python3
"""dev-time: regenerate the SQL-related lines of known_findings.jsonl from findings/sql/*.json
(specific failing inputs of the unchanged tree, learned with VERIF_LEARN=1 and reviewed)."""
import json, os, sys, glob
ROOT = os.path.dirname(os.path.dirname(os.path.abspath(__file__)))
DESC = {
 "dev:StrictBool": "AND/OR (also the OR-fold of IN-lists and the AND of BETWEEN) are NULL-strict instead of Kleene three-valued (e.g. `a = 1 OR b = 1` is NULL, not TRUE, for (NULL, 1); `a IN (1, NULL)` is NULL for a = 1). Explained by SqlSem only under deviation StrictBool. Root: filter.rs boolean::and/or, compiled_expr.rs is strict by design; repair touches the compiled-predicate validity model, not small.",
 "dev:InSubSkipsNull": "x [NOT] IN (subquery) skips NULLs of the subquery result and treats a NULL probe as FALSE, so NOT IN over a set containing NULL keeps rows (subquery.rs evaluate_in_subquery / anti-join decorrelation). Explained only under deviation InSubSkipsNull.",
 "dev:SetOpJoin": "INTERSECT/EXCEPT are planned as semi/anti joins on all columns: rows containing NULL never match and the ALL forms ignore multiplicity. Explained only under deviation SetOpJoin.",
 "dev:DistinctKeepsNulls": "DISTINCT / UNION (distinct) do not merge rows that contain a NULL (the dedup aggregate treats NULL keys as distinct). Explained only under deviation DistinctKeepsNulls.",
 "dev:NullKeyGroupDropped": "GROUP BY loses the group whose key is NULL on some aggregation paths. Explained only under deviation NullKeyGroupDropped.",
 "dev:MinMaxEmptySentinel": "MIN/MAX over an empty or all-NULL input returns the accumulator sentinel (i64::MAX / i64::MIN, reported as an unrepresentable value) instead of NULL. Explained only under deviation MinMaxEmptySentinel.",
 "wrong:cell-values": "wrong cell values on the listed inputs (e.g. SUM over a derived-table column returns NULL, MAX over strings returns NULL, NULL group key merged into another group, COUNT(DISTINCT) off) — specific inputs listed in the inputs file",
 "wrong:row-count": "wrong number of rows on the listed inputs (e.g. join above an outer join, NULL-key groups) — specific inputs listed in the inputs file",
 "wrong:unrepresentable-value": "MIN/MAX over an empty or all-NULL input returns a sentinel (i64::MAX/MIN) instead of NULL on the listed inputs",
 "panic:index-out-of-bounds": "hash join probe panics (index out of bounds in VectorizedHashTable::probe_batch) when the build key is Int64 in direct-address mode and the probe key has another integer width — listed inputs",
 "panic:arithmetic-overflow": "arithmetic overflow panic on the listed inputs",
 "panic:other": "panic on the listed inputs",
 "error-where-answer-required": "error on the listed inputs where the property demands an answer",
 "error-on-one-configuration-only": "the statement answers under one configuration (layout / batching / thread count) but errors under another on the listed inputs (e.g. 'Arrow error: column types must match schema types' on multi-batch or Parquet inputs)",
 "distributed-error-where-single-node-answers": "the forced-distributed run fails (not a refusal) where the single node answers, on the listed inputs (e.g. gather path: 'Table not found' / 'Column not found' when re-binding over the gathered tables; 'no shard returned a schema')",
 "rewritten-plan-fails-to-execute": "the plan produced by the listed rule list fails to lower/execute although the unoptimized plan executes, on the listed inputs",
 "optimizer-error": "an optimizer rule returns an internal error on a valid statement, on the listed inputs",
 "schema-changed": "the rewritten plan's output column names/types differ from the bound plan's, on the listed inputs",
 "schema-mismatch": "the schema the result reports differs from the schema of returned batches on the listed inputs (dominant class: UNION [ALL] batches produced by the right branch keep the right branch's column names while the reported schema uses the left branch's)",
 "shard-scan-error": "a shard context fails on a statement the whole table answers, on the listed inputs",
 "shard-exposes-whole-files": "a shard provider returns parquet_files() (whole-file fast paths would see every row) on the listed inputs",
 "gathered-statement-does-not-bind": "on the gather path, re-running the statement over the gathered tables fails to bind/plan (Table/Column not found, unresolved alias, type error) where the single node answers, on the listed inputs",
 "cross-product-or-lost-input": "JoinReorder produced a cross join / lost an input or predicate on the listed inputs",
 "sig:null-key-vs-minus-one": "NONDETERMINISTIC: the hash-aggregation paths encode a NULL integer group key as -1; with multi-batch / parallel partial-state merges the NULL group is sometimes folded into the -1 group (and DISTINCT likewise), so the same statement over the same data returns different rows from run to run. Recognised by input signature: a grouped or DISTINCT statement over data where an integer/date column holds both NULL and -1 (any configuration).",
 "hang": "statement did not finish within the deadline on the listed inputs",
}
DEVS = ["StrictBool", "InSubSkipsNull", "SetOpJoin", "DistinctKeepsNulls", "NullKeyGroupDropped"]
# properties whose seeded tier may meet the spec-level deviations (clean-grammar statements with NULLs)
SEEDED = json.load(open(os.path.join(ROOT, "findings", "sql_seeded_devs.json"))) if os.path.exists(os.path.join(ROOT, "findings", "sql_seeded_devs.json")) else {}
path = os.path.join(ROOT, "known_findings.jsonl")
keep = [l for l in open(path) if l.strip() and not json.loads(l).get("auto_sql")] if os.path.exists(path) else []
lines = []
for f in sorted(glob.glob(os.path.join(ROOT, "findings", "sql", "*.json"))):
    pid = os.path.basename(f)[:-5]
    d = json.load(open(f))
    labs = {}
    for fam, x in d.items():
        for h, cf in x.items():
            for cfg, lab in cf.items():
                for part in ([f"dev:{p}" for p in lab[4:].split("+")] if lab.startswith("dev:") else [lab]):
                    labs[part] = labs.get(part, 0) + 1
    for dv in SEEDED.get(pid, []):
        labs.setdefault("dev:" + dv, 0)
    labs.setdefault("sig:null-key-vs-minus-one", 0)
    for lab, n in sorted(labs.items()):
        lines.append(json.dumps({"property": pid, "id": f"{pid}/{lab}", "status": "open", "auto_sql": True,
                                 "signature": f"{n} specific corpus inputs (case hash, configuration) in findings/sql/{pid}.json" +
                                              ("; in the VERIF_SEED tier: outcome explained by SqlSem.tla under exactly this named deviation" if lab.startswith("dev:") else ""),
                                 "description": DESC.get(lab, lab)}))
with open(path, "w") as out:
    for l in keep:
        out.write(l if l.endswith("\n") else l + "\n")
    for l in lines:
        out.write(l + "\n")
print(len(keep), "kept,", len(lines), "sql lines")
