"""Generic runner for the SQL-semantics properties.

Two tiers of cases, both judged by TLC (spec/SqlTrace.tla over spec/SqlSem.tla):

* corpus tier — frozen, committed case files under corpus/<family>.ndjson.gz (a
  fixed sample of the generator's broad grammar).  Genuine defects of the unchanged
  tree are listed per specific input (case hash, configuration) in findings/sql/<PID>.json;
  a listed (case, cfg) prints under its finding id, anything else rejected is a VIOLATION.
* seeded tier — fresh cases drawn from VERIF_SEED out of a restricted grammar on which
  the unchanged engine only shows the named spec-level deviations (known findings
  expressed as deviation operators in SqlSem.tla); a reject is a known finding only when
  one listed deviation set explains it.
"""
import gzip
import hashlib
import json
import os

import sqlgen
import sqlloop
import vlib

CORPUS = os.path.join(vlib.ROOT, "corpus")
FIND = os.path.join(vlib.ROOT, "findings", "sql")
BADMARK = -999000000


def case_hash(c):
    blob = json.dumps({"sql": c["sql"], "tables": c["tables"]}, sort_keys=True)
    return hashlib.sha1(blob.encode()).hexdigest()[:16]


def load_corpus(family, limit=None):
    path = os.path.join(CORPUS, family + ".ndjson.gz")
    out = []
    with gzip.open(path, "rt") as f:
        for line in f:
            out.append(json.loads(line))
            if limit and len(out) >= limit:
                break
    return out


def save_corpus(family, cases):
    os.makedirs(CORPUS, exist_ok=True)
    with gzip.open(os.path.join(CORPUS, family + ".ndjson.gz"), "wt") as f:
        for c in cases:
            f.write(json.dumps(c, separators=(",", ":")) + "\n")


def label_of(rej):
    """coarse class label of a rejected outcome"""
    devs = rej["devs"]
    out = rej["out"]
    if devs:
        return "dev:" + "+".join(sorted(devs[0]))
    if out["k"] == "panic":
        msg = out.get("msg", "")
        if "index out of bounds" in msg:
            return "panic:index-out-of-bounds"
        if "overflow" in msg:
            return "panic:arithmetic-overflow"
        return "panic:other"
    if out["k"] == "hang":
        return "hang"
    if out["k"] == "err":
        return "error-where-answer-required"
    rows = out.get("rows", [])
    if any(v <= BADMARK + 10 and v >= BADMARK - 10 for r in rows for v in r):
        return "wrong:unrepresentable-value"
    if len(rows) != len(rej["want"]):
        return "wrong:row-count"
    return "wrong:cell-values"


def fids_of(pid, label):
    if label.startswith("dev:"):
        return [f"{pid}/dev:{d}" for d in label[4:].split("+")]
    return [f"{pid}/{label}"]


def _has_group(m):
    if isinstance(m, dict):
        if m.get("k") == "select" and m.get("group", {}).get("on") == 1 and m["group"].get("keys"):
            return True
        if m.get("k") == "select" and m.get("distinct") == 1:
            return True
        return any(_has_group(v) for v in m.values())
    if isinstance(m, list):
        return any(_has_group(v) for v in m)
    return False


def signature_class(case):
    """Defects of the unchanged tree that show NONDETERMINISTICALLY (so they cannot be pinned per input) are
    recognised by a narrow signature of the INPUT instead.  Currently one: a grouped/DISTINCT statement over data in
    which some integer column holds both NULL and -1 — the hash-aggregation paths encode a NULL key as -1 and, depending
    on how partial states of a multi-batch input are merged, fold the NULL group into the -1 group or not."""
    if not _has_group(case.get("q")):
        return None
    for t in case["tables"]:
        for j, (_, ty) in enumerate(t["cols"]):
            if ty in ("int", "i32", "date"):
                col = [r[j] for r in t["rows"]]
                if vlib.NULL in col and -1 in col:
                    return "sig:null-key-vs-minus-one"
    return None


def load_known(pid):
    path = os.path.join(FIND, pid + ".json")
    if os.path.exists(path):
        return json.load(open(path))
    return {}


def is_nontrivial(out):
    return out["k"] == "rows" and len(out["rows"]) >= 1


def run_family(ctx, family, cases, cfgs, known, *, tier_name, env=None, allowed_devs=None, corpus=True, cross=None, envname=""):
    """runs cases under cfgs, judges with TLC, classifies rejects.  known: {hash: {cfg: label}}
    cross(cases, outs, cfgs) -> [(case, cfg_index, label, why)]: extra cross-configuration rules of a property."""
    if envname:
        cfgs = [dict(c, name=f"{c['name']}@{envname}") for c in cfgs]
    outs = sqlloop.run_cases(ctx, cases, cfgs, f"{tier_name}-{family}{('-' + envname) if envname else ''}", env=env)
    rej = sqlloop.judge(ctx, cases, outs, f"{tier_name}-{family}{('-' + envname) if envname else ''}")
    if cross:
        for (c, ci, lab, why) in cross(cases, outs, cfgs):
            o = next(o for o in outs if o["id"] == c["id"])
            rej.append({"case": c, "cfg": ci, "out": o["outs"][ci], "devs": [], "want": [], "meta": o["meta"][ci], "label": lab, "why": why})
    nrows = nerr = 0
    nontriv = ctx.cov.setdefault("_nontrivial_hashes", set())
    byid = {c["id"]: c for c in cases}
    for o in outs:
        for x in o["outs"]:
            ctx.add("evaluations")
            if x["k"] == "rows":
                nrows += 1
            elif x["k"] == "err":
                nerr += 1
        if any(is_nontrivial(x) for x in o["outs"]):
            nontriv.add(case_hash(byid[o["id"]]))
    if corpus and os.environ.get("VERIF_LEARN") and ctx.tier == "thorough" and not envname:
        ctx.cov.setdefault("_learn_fams", []).append(family)
        ctx.cov.setdefault("_learned", {})
    fam = ctx.cov.setdefault("families", {})
    fam[f"{tier_name}:{family}"] = {"cases": len(cases), "configs": [c["name"] for c in cfgs], "answers": nrows, "errors": nerr,
                                    "rejected_outcomes": len(rej)}
    for r in rej:
        c = r["case"]
        h = case_hash(c)
        cfgname = cfgs[r["cfg"]]["name"]
        lab = r.get("label") or label_of(r)
        fid = f"{ctx.pid}/{lab}"
        replay = {"kind": "sql", "family": family, "case": c, "cfg": cfgs[r["cfg"]], "env": env or {}, "label": lab,
                  "got": r["out"], "want_example": r["want"]}
        sig = signature_class(c)
        if sig and ctx.is_known(f"{ctx.pid}/{sig}") and not lab.startswith("panic") and lab != "hang":
            ctx.known(f"{ctx.pid}/{sig}", {"sql": c["sql"][:200], "cfg": cfgname, "hash": h})
            continue
        listed = known.get(family, {}).get(h, {}).get(cfgname)
        if os.environ.get("VERIF_LEARN"):
            listed = None                      # dev-time learning re-derives the whole list
        if corpus and listed is not None and all(ctx.is_known(f) for f in fids_of(ctx.pid, listed)):
            for f in fids_of(ctx.pid, listed):
                ctx.known(f, {"sql": c["sql"][:200], "cfg": cfgname, "hash": h})
            continue
        if (not corpus) and lab.startswith("dev:") and all(ctx.is_known(f) for f in fids_of(ctx.pid, lab)):
            for f in fids_of(ctx.pid, lab):
                ctx.known(f, {"sql": c["sql"][:200], "cfg": cfgname})
            continue
        if corpus and os.environ.get("VERIF_LEARN"):
            # dev-time only: record the unchanged tree's failing inputs (reviewed, then committed)
            ctx.cov.setdefault("_learned", {}).setdefault(family, {}).setdefault(h, {})[cfgname] = lab
            continue
        ctx.violation(replay, f"[{family}/{cfgname}] {lab}: engine outcome not allowed by SqlSem for: {c['sql'][:300]}")
    # vacuity floor: the engine must actually answer most statements
    total = nrows + nerr
    if total and nrows / total < 0.5:
        raise vlib.ToolError(f"coverage collapse in {family}: only {nrows}/{total} outcomes are answers")
    for c in cases[:2]:
        ctx.sample({"sql": c["sql"], "tables": c["tables"]})
    return rej


def finish_cov(ctx, rule):
    learned = ctx.cov.pop("_learned", None)
    if not os.environ.get("VERIF_LEARN"):
        ctx.cov.pop("_learn_fams", None)
    if learned is not None and os.environ.get("VERIF_LEARN"):
        os.makedirs(FIND, exist_ok=True)
        path = os.path.join(FIND, ctx.pid + ".json")
        cur = json.load(open(path)) if os.path.exists(path) else {}
        for fam in ctx.cov.pop("_learn_fams", []):
            if os.environ.get("VERIF_LEARN") != "merge":
                cur[fam] = {}                   # a re-learned family replaces its old list (merge mode: accumulates)
        for fam, d in learned.items():
            cur.setdefault(fam, {}).update(d)
        json.dump(cur, open(path, "w"), indent=0, sort_keys=True)
        labs = {}
        for fam, d in cur.items():
            for h, cf in d.items():
                for cfg, lab in cf.items():
                    labs[lab] = labs.get(lab, 0) + 1
        vlib.log(f"[learn] {ctx.pid}: {labs}")
    s = ctx.cov.pop("_nontrivial_hashes", set())
    ctx.set("distinct_nontrivial", len(s))
    ctx.set("rule", rule + " Non-trivial = distinct (statement, database) whose engine outcome is an answer with >=1 row.")


def replay_sql(ctx, obj):
    c = obj["case"]["case"]
    cfg = obj["case"]["cfg"]
    env = obj["case"].get("env") or None
    outs = sqlloop.run_cases(ctx, [c], [cfg], "replay", env=env)
    rej = sqlloop.judge(ctx, [c], outs, "replay")
    ctx.add("evaluations")
    ctx.set("distinct_nontrivial", 1)
    ctx.sample({"sql": c["sql"], "out": outs[0]["outs"][0]})
    for r in rej:
        ctx.violation(obj["case"], f"replayed: {label_of(r)}")
