"""Common SQL loop: cases -> sqlrun (real engine, per configuration) -> SqlTrace.tla judgement."""
import json, os
import vlib, sqlgen


def run_cases(ctx, cases, cfgs, name, env=None, timeout=1800):
    d = os.path.join(ctx.work, name)
    os.makedirs(d, exist_ok=True)
    vlib.write_ndjson(f"{d}/cases.ndjson", cases)
    json.dump(cfgs, open(f"{d}/cfgs.json", "w"))
    vlib.qev(["sqlrun", f"{d}/cases.ndjson", f"{d}/cfgs.json", f"{d}/out.ndjson", d], env=env, timeout=timeout)
    outs = vlib.read_ndjson(f"{d}/out.ndjson")
    return outs


def judge(ctx, cases, outs, name, timeout=1800):
    """returns list of rejects: {case, cfg_index, out, devs, want}"""
    d = os.path.join(ctx.work, name)
    byid = {c["id"]: c for c in cases}
    recs = []
    fan = {}        # case id -> list (per distinct outcome) of configuration indexes sharing it
    for o in outs:
        c = byid[o["id"]]
        oo, groups, seen = [], [], {}
        for i, x in enumerate(o["outs"]):
            y = {"k": x["k"], "rows": x.get("rows", [])}
            key = json.dumps(y, sort_keys=True)
            if key in seen:
                groups[seen[key]].append(i)
            else:
                seen[key] = len(oo)
                oo.append(y)
                groups.append([i])
        fan[o["id"]] = groups
        recs.append(sqlgen.trace_record(c, oo))
    tr = f"{d}/trace.ndjson"
    prints = []
    pending = recs
    import re
    for attempt in range(8):
        vlib.write_ndjson(tr, pending)
        res = vlib.run_tlc("SqlTrace", "SqlTrace.cfg", workers=1, env={"TRACE": tr}, deque=True, timeout=timeout,
                           tag=f"{ctx.pid}-{name}", heap="6g")
        ctx.tlc_stats(res, f"SqlTrace validation of {len(pending)} cases ({name})")
        prints += res.prints
        if any(k == "ACCEPT" for k, _ in res.prints) and not res.error:
            break
        # a TLC evaluation error (e.g. 32-bit overflow inside one record) is a tool limit, not a verdict:
        # drop exactly that record (counted as unjudged) and validate the rest
        ls = re.findall(r"^l = (\d+)$", res.out, re.M)
        if not res.error or not ls:
            vlib.log(res.out[-3000:])
            raise vlib.ToolError(f"SqlTrace did not consume the whole trace ({name}): {str(res.error)[:300]}")
        bad = int(ls[-1])
        ctx.add("records_unjudged_tlc_limit")
        ctx.notes.append(f"unjudged record {pending[bad - 1]['id']}: {res.error[:120]}")
        pending = pending[bad:]
        if not pending:
            break
    else:
        raise vlib.ToolError(f"too many TLC evaluation errors in {name}")
    ctx.add("traces_validated_against_impl", 1)
    ctx.add("trace_events_validated", sum(len(o["outs"]) for o in outs))
    outmap = {o["id"]: o for o in outs}
    rej = []
    for k, r in prints:
        if k != "REJECT":
            continue
        o = outmap[r["id"]]
        for ci in fan[r["id"]][r["out"] - 1]:
            rej.append({"case": byid[r["id"]], "cfg": ci, "out": o["outs"][ci], "devs": r["devs"],
                        "want": r["want"], "meta": o["meta"][ci]})
    return rej
