#!/usr/bin/env python3
"""dev-time: (re)build frozen corpus files.  usage: mkcorpus.py <family>..."""
import sys, os
sys.path.insert(0, os.path.dirname(__file__))
import sqlgen, sqlfam, sqlcheck
for fam in sys.argv[1:]:
    f = sqlfam.FAMILIES[fam]
    g = getattr(sqlgen, f.get("gen", "Gen"))(f["seed"], f["opts"])
    cases = [g.case(f"{fam}-{i}") for i in range(f["n"])]
    sqlcheck.save_corpus(fam, cases)
    print(fam, len(cases))
