"""SQL case generator: builds, for each case, the SQL text AND the index-resolved,
integer-coded model AST that spec/SqlSem.tla evaluates.  Python stdlib only.

Model values: ints, NULL = -1073741824.  Types are labels:
  int (BIGINT), i32 (INTEGER), dbl (DOUBLE, model unit 1/2), str (dictionary code),
  date (days after 2024-01-01), bool (0/1).
"""
import random

NULL = -1073741824
DICT = ["", "a", "ab", "abc", "b", "ba", "c", "ca"]          # byte order == code order
DICT_CODES = [[ord(ch) for ch in s] for s in DICT]
TYPES = ["int", "i32", "dbl", "str", "date", "bool"]
NUMERIC = ("int", "i32", "dbl")


def lit_sql(t, v):
    if v is None:
        return "NULL"
    if t in ("int", "i32"):
        return str(v) if v >= 0 else f"({v})"
    if t == "dbl":
        x = v * 0.5
        s = repr(x)
        return s if x >= 0 else f"({s})"
    if t == "str":
        return "'" + DICT[v] + "'"
    if t == "date":
        import datetime
        d = datetime.date(2024, 1, 1) + datetime.timedelta(days=v)
        return f"DATE '{d.isoformat()}'"
    if t == "bool":
        return "TRUE" if v else "FALSE"
    raise ValueError(t)


def mv(v):
    return NULL if v is None else v


class E:
    """expression: sql text, model AST, type"""
    __slots__ = ("sql", "m", "t")

    def __init__(self, sql, m, t):
        self.sql, self.m, self.t = sql, m, t


def Lit(t, v):
    return E(lit_sql(t, v), {"k": "lit", "v": mv(v)}, t)


TRUE_M = {"k": "lit", "v": 1}


class Col:
    def __init__(self, qual, name, t, base=False, nullable=True):
        self.qual, self.name, self.t, self.base, self.nullable = qual, name, t, base, nullable

    def sql(self):
        return f"{self.qual}.{self.name}" if self.qual else self.name


class Scope:
    """row layout visible to expressions; outer = enclosing query's scope (correlation)"""

    def __init__(self, cols, outer=None):
        self.cols = cols
        self.outer = outer

    def ref(self, depth, idx):
        s = self
        for _ in range(depth):
            s = s.outer
        c = s.cols[idx]
        return E(c.sql(), {"k": "col", "d": depth, "i": idx + 1}, c.t)


class Table:
    def __init__(self, name, cols, rows, nonnull=()):
        self.name, self.cols, self.rows = name, cols, rows   # cols: [(name, type)], rows: [[v|None]]
        self.nonnull = set(nonnull)                         # columns generated without NULLs


class Gen:
    def __init__(self, seed, opts=None):
        self.rng = random.Random(seed)
        self.n = 0
        self.o = {
            "max_rows": 4, "tables": 2, "cols": 3, "null_p": 0.25,
            "types": ["int", "int", "i32", "dbl", "str", "date", "bool"],
            "joins": True, "join_kinds": ["inner", "left", "right", "full", "cross"],
            "group": True, "distinct": True, "order": True, "setops": True, "subq": True,
            "cte": True, "derived": True, "case": True, "like": True, "inlist": True, "between": True,
            "boolops": True, "arith": True, "avg": True, "countd": True, "having": True,
            "max_depth": 2, "scalar_sub": True, "corr": True, "nulls_first": True,
            "limit": True, "dom": 3, "values": False, "grouping_sets": False, "mixed_width_keys": False, "outer_chains": False, "nonnull_col_p": 0.3,
            "group_keys_nonnull": False, "distinct_nonnull": False,
            "setop_p": 0.15, "order_p": 0.6, "cte_p": 0.15, "group_p": 0.35, "const_atoms": True, "notin_sub": True, "limit_p": 0.6, "offset_p": 0.5, "min_order_keys": 1, "where_p": 0.7, "distinct_order_keys": False, "alias_p": 1.0,
        }
        if opts:
            self.o.update(opts)

    def fresh(self, p):
        self.n += 1
        return f"{p}{self.n}"

    # ----------------------------------------------------------------- data --
    def value(self, t, nullable=True):
        r = self.rng
        if nullable and r.random() < self.o["null_p"]:
            return None
        d = self.o["dom"]
        if t in ("int", "i32"):
            return r.randint(0, d - 1) if r.random() < 0.9 else r.choice([-1, 7, 100])
        if t == "dbl":
            return r.randint(0, d)            # units of 1/2
        if t == "str":
            return r.randint(0, min(d + 2, len(DICT) - 1))
        if t == "date":
            return r.randint(0, d - 1) * (1 if r.random() < 0.8 else 31)
        if t == "bool":
            return r.randint(0, 1)

    def table(self, name, idx, ncols=None, nrows=None, types=None):
        r = self.rng
        ncols = ncols or r.randint(2, self.o["cols"])
        types = types or [r.choice(self.o["types"]) for _ in range(ncols)]
        if "int" not in types and "i32" not in types:
            types[0] = "int"
        cols = [(f"{'abcdefgh'[j]}{idx}", types[j]) for j in range(ncols)]
        nrows = r.randint(0, self.o["max_rows"]) if nrows is None else nrows
        nonnull = [n for (n, _) in cols if r.random() < self.o["nonnull_col_p"]]
        rows = [[self.value(t, nullable=(n not in nonnull)) for (n, t) in cols] for _ in range(nrows)]
        # encourage duplicates
        if rows and r.random() < 0.4:
            rows.append(list(r.choice(rows)))
            rows = rows[: max(self.o["max_rows"], 1)] if len(rows) > self.o["max_rows"] else rows
        return Table(name, cols, rows, nonnull)

    def db(self):
        nt = self.rng.randint(1, self.o["tables"])
        return [self.table(f"t{i}", i) for i in range(nt)]

    # ---------------------------------------------------------- expressions --
    def pick_col(self, scope, types=None, allow_outer=True, base_only=False, nonnull=False):
        """returns E for a random visible column of one of `types` (or None)"""
        cands = []
        s, d = scope, 0
        while s is not None:
            for i, c in enumerate(s.cols):
                if base_only and not c.base:
                    continue
                if nonnull and c.nullable:
                    continue
                if types is None or c.t in types:
                    cands.append((d, i))
            if not allow_outer or not self.o["corr"]:
                break
            s, d = s.outer, d + 1
        if not cands:
            return None
        # prefer the local scope
        local = [c for c in cands if c[0] == 0]
        d, i = self.rng.choice(local) if local and self.rng.random() < 0.8 else self.rng.choice(cands)
        return scope.ref(d, i)

    def lit_for(self, t):
        r = self.rng
        d = self.o["dom"]
        if t in ("int", "i32"):
            return Lit(t, r.randint(0, d - 1))
        if t == "dbl":
            return Lit(t, r.randint(0, d))
        if t == "str":
            return Lit(t, r.randint(0, min(d + 2, len(DICT) - 1)))
        if t == "date":
            return Lit(t, r.randint(0, d - 1))
        if t == "bool":
            return Lit(t, r.randint(0, 1))

    def cmp_type(self, a, b):
        """types comparable in SQL and order-compatible in the model (same unit)"""
        if a == b:
            return True
        return {a, b} <= {"int", "i32"}

    def scalar(self, scope, t, depth):
        """scalar expression of type t (same model unit)"""
        r = self.rng
        choices = ["col", "col", "col", "lit"]
        if depth > 0:
            if self.o["arith"] and t in ("int", "i32"):
                choices += ["arith"]
            if self.o["case"]:
                choices += ["case", "coalesce", "nullif"]
            if self.o["subq"] and self.o["scalar_sub"] and t in ("int",) and depth > 1:
                choices += ["scalar"]
        k = r.choice(choices)
        if k == "col":
            types = ("int", "i32") if (t in ("int", "i32") and self.o["mixed_width_keys"]) else (t,)
            e = self.pick_col(scope, types)
            if e is not None:
                return e
            return self.lit_for(t)
        if k == "lit":
            return self.lit_for(t)
        if k == "arith":
            a, b = self.scalar(scope, t, depth - 1), self.scalar(scope, t, depth - 1)
            op = r.choice(["+", "-", "*"])
            return E(f"({a.sql} {op} {b.sql})", {"k": "arith", "op": op, "a": a.m, "b": b.m}, "int" if "int" in (a.t, b.t) else t)
        if k == "case":
            c = self.pred(scope, depth - 1)
            a, b = self.scalar(scope, t, depth - 1), self.scalar(scope, t, depth - 1)
            if r.random() < 0.3:
                return E(f"(CASE WHEN {c.sql} THEN {a.sql} END)",
                         {"k": "case", "whens": [[c.m, a.m]], "els": {"k": "lit", "v": NULL}}, a.t)
            return E(f"(CASE WHEN {c.sql} THEN {a.sql} ELSE {b.sql} END)",
                     {"k": "case", "whens": [[c.m, a.m]], "els": b.m}, a.t if a.t == b.t else ("int" if t in ("int", "i32") else t))
        if k == "coalesce":
            a, b = self.scalar(scope, t, depth - 1), self.scalar(scope, t, depth - 1)
            return E(f"COALESCE({a.sql}, {b.sql})", {"k": "coalesce", "args": [a.m, b.m]},
                     a.t if a.t == b.t else ("int" if t in ("int", "i32") else t))
        if k == "nullif":
            a, b = self.scalar(scope, t, depth - 1), self.scalar(scope, t, depth - 1)
            return E(f"NULLIF({a.sql}, {b.sql})", {"k": "nullif", "a": a.m, "b": b.m}, a.t)
        if k == "scalar":
            q = self.scalar_subquery(scope)
            if q is None:
                return self.lit_for(t)
            return E(f"({q.sql})", {"k": "scalar", "q": q.m}, "int")

    def atom(self, scope, depth):
        if self.o["const_atoms"]:
            return self._atom(scope, depth)
        for _ in range(6):
            e = self._atom(scope, depth)
            if has_col(e.m):
                return e
        a = self.pick_col(scope, None, allow_outer=False)
        if a is None:
            return self._atom(scope, depth)
        return E(f"({a.sql} IS NOT NULL)", {"k": "isnull", "a": a.m, "neg": 1}, "bool")

    def _atom(self, scope, depth):
        r = self.rng
        kinds = ["cmp", "cmp", "cmp", "isnull"]
        if self.o["inlist"]:
            kinds.append("in")
        if self.o["between"]:
            kinds.append("between")
        if self.o["like"]:
            kinds.append("like")
        kinds.append("boolcol")
        if self.o["subq"] and depth > 0:
            kinds += ["exists", "insub"]
        k = r.choice(kinds)
        t = r.choice(["int", "int", "int", "dbl", "str", "date"])
        if k == "boolcol":
            e = self.pick_col(scope, ("bool",))
            if e is not None:
                return e
            k = "cmp"
        if k == "cmp":
            a = self.scalar(scope, t, depth - 1 if depth > 0 else 0)
            b = self.scalar(scope, t, 0) if r.random() < 0.7 else self.lit_for(t)
            if not self.cmp_type(a.t, b.t):
                b = self.lit_for(a.t)
            op = r.choice(["=", "<>", "<", "<=", ">", ">="])
            return E(f"({a.sql} {op} {b.sql})", {"k": "cmp", "op": op, "a": a.m, "b": b.m}, "bool")
        if k == "isnull":
            a = self.pick_col(scope) or self.lit_for("int")
            neg = r.randint(0, 1)
            return E(f"({a.sql} IS {'NOT ' if neg else ''}NULL)", {"k": "isnull", "a": a.m, "neg": neg}, "bool")
        if k == "in":
            a = self.scalar(scope, t, 0)
            items = [self.lit_for(a.t) for _ in range(r.randint(1, 3))]
            if r.random() < 0.3:
                items.append(E("NULL", {"k": "lit", "v": NULL}, a.t))
                r.shuffle(items)
            neg = 1 if r.random() < 0.35 else 0
            return E(f"({a.sql} {'NOT ' if neg else ''}IN ({', '.join(i.sql for i in items)}))",
                     {"k": "in", "a": a.m, "list": [i.m for i in items], "neg": neg}, "bool")
        if k == "between":
            a = self.scalar(scope, t, 0)
            lo, hi = self.lit_for(a.t), self.lit_for(a.t)
            if r.random() < 0.3:
                x = self.pick_col(scope, (a.t,), allow_outer=False)
                if x is not None:
                    hi = x
            neg = 1 if r.random() < 0.3 else 0
            return E(f"({a.sql} {'NOT ' if neg else ''}BETWEEN {lo.sql} AND {hi.sql})",
                     {"k": "between", "a": a.m, "lo": lo.m, "hi": hi.m, "neg": neg}, "bool")
        if k == "like":
            a = self.pick_col(scope, ("str",))
            if a is None:
                return self.atom(scope, 0) if not self.o["like"] else self._nolike_atom(scope, depth)
            pat = "".join(r.choice("abc%_") for _ in range(r.randint(1, 3)))
            neg = 1 if r.random() < 0.25 else 0
            pm = [-1 if ch == "%" else -2 if ch == "_" else ord(ch) for ch in pat]
            return E(f"({a.sql} {'NOT ' if neg else ''}LIKE '{pat}')", {"k": "like", "a": a.m, "pat": pm, "neg": neg}, "bool")
        if k == "exists":
            q = self.subquery(scope, ncols=None)
            if q is None:
                return self._nolike_atom(scope, 0)
            neg = 1 if r.random() < 0.4 else 0
            return E(f"({'NOT ' if neg else ''}EXISTS ({q.sql}))", {"k": "exists", "q": q.m, "neg": neg}, "bool")
        if k == "insub":
            a = self.pick_col(scope, ("int",), allow_outer=False) or Lit("int", self.rng.randint(0, 2))
            q = self.subquery(scope, ncols=1, coltype="int")
            if q is None:
                return self._nolike_atom(scope, 0)
            neg = 1 if (r.random() < 0.4 and self.o["notin_sub"]) else 0
            return E(f"({a.sql} {'NOT ' if neg else ''}IN ({q.sql}))", {"k": "insub", "a": a.m, "q": q.m, "neg": neg}, "bool")

    def _nolike_atom(self, scope, depth):
        save = self.o["like"], self.o["subq"]
        self.o["like"], self.o["subq"] = False, False
        try:
            return self.atom(scope, depth)
        finally:
            self.o["like"], self.o["subq"] = save

    def pred(self, scope, depth):
        r = self.rng
        if depth <= 0 or not self.o["boolops"] or r.random() < 0.35:
            return self.atom(scope, depth)
        k = r.choice(["and", "or", "not"])
        if k == "not":
            a = self.pred(scope, depth - 1)
            return E(f"(NOT {a.sql})", {"k": "not", "a": a.m}, "bool")
        a, b = self.pred(scope, depth - 1), self.pred(scope, depth - 1)
        if k == "or" and not self.o["const_atoms"]:
            # the engine factors common conjuncts out of ORs; keep the restricted grammar away from
            # `X OR (X AND Y)` shapes, whose NULL behaviour then differs from the uniform StrictBool deviation
            for _ in range(5):
                if not (conjuncts(a.m) & conjuncts(b.m)):
                    break
                b = self.pred(scope, depth - 1)
            if conjuncts(a.m) & conjuncts(b.m):
                return a
        return E(f"({a.sql} {k.upper()} {b.sql})", {"k": k, "a": a.m, "b": b.m}, "bool")

    # --------------------------------------------------------------- FROM ----
    def from_item(self, tables, outer, depth):
        """returns (sql, model, cols[Col])"""
        r = self.rng
        if self.ctes_in_scope and r.random() < 0.5:
            name, qcols = r.choice(self.ctes_in_scope)
            al = self.fresh("x")
            return (f"{name} AS {al}", {"k": "cte", "name": name}, [Col(al, n, t) for (n, t) in qcols])
        if self.o["derived"] and depth > 0 and r.random() < 0.2:
            q = self.query(tables, None, depth - 1, nested=True)
            al = self.fresh("d")
            return (f"({q.sql}) AS {al}", {"k": "sub", "q": q.m}, [Col(al, n, t) for (n, t) in q.cols])
        t = r.choice(tables)
        if not self.o["joins"] and outer is None and r.random() >= self.o["alias_p"]:
            # bare table, bare column names: the planner's scan-direct fast paths only fire without a SubqueryAlias
            return (t.name, {"k": "table", "name": t.name},
                    [Col(None, n, ty, base=True, nullable=(n not in t.nonnull)) for (n, ty) in t.cols])
        al = self.fresh("x")
        return (f"{t.name} AS {al}", {"k": "table", "name": t.name},
                [Col(al, n, ty, base=True, nullable=(n not in t.nonnull)) for (n, ty) in t.cols])

    def join_on(self, lcols, rcols, outer, depth):
        """ON predicate over the concatenated row: an equality when types allow, plus optional residual"""
        r = self.rng
        scope = Scope(lcols + rcols, outer)
        pairs = [(i, j) for i, a in enumerate(lcols) for j, b in enumerate(rcols)
                 if self.cmp_type(a.t, b.t) and a.t != "bool" and (a.t == b.t or self.o["mixed_width_keys"])]
        conj = []
        if pairs and r.random() < 0.85:
            for (i, j) in r.sample(pairs, 1 if r.random() < 0.8 else min(2, len(pairs))):
                a, b = scope.ref(0, i), scope.ref(0, len(lcols) + j)
                conj.append(E(f"({a.sql} = {b.sql})", {"k": "cmp", "op": "=", "a": a.m, "b": b.m}, "bool"))
        if not conj or r.random() < 0.35:
            save = self.o["subq"]
            self.o["subq"] = False
            try:
                conj.append(self.pred(Scope(lcols + rcols, None), 1 if r.random() < 0.3 else 0))
            finally:
                self.o["subq"] = save
        e = conj[0]
        for c in conj[1:]:
            e = E(f"({e.sql} AND {c.sql})", {"k": "and", "a": e.m, "b": c.m}, "bool")
        return e

    def from_tree(self, tables, outer, depth):
        r = self.rng
        sql, m, cols = self.from_item(tables, outer, depth)
        njoin = 0
        if self.o["joins"]:
            njoin = r.choice([0, 0, 1, 1, 2]) if self.o["max_depth"] >= 2 else r.choice([0, 1])
        for ji in range(njoin):
            if len(cols) > 8:
                break
            rsql, rm, rcols = self.from_item(tables, outer, 0)
            kinds = self.o["join_kinds"]
            if njoin > 1 and not self.o["outer_chains"]:
                # known engine defects: RIGHT/FULL above another join, and any join above an outer join
                kinds = [k for k in kinds if k not in ("right", "full") and (k != "left" or ji == njoin - 1)] or ["inner"]
            kind = r.choice(kinds)
            if kind == "cross":
                sql = f"{sql} CROSS JOIN {rsql}"
                m = {"k": "join", "kind": "cross", "l": m, "r": rm, "on": TRUE_M, "ln": len(cols), "rn": len(rcols)}
            else:
                on = self.join_on(cols, rcols, outer, depth)
                kw = {"inner": "INNER JOIN", "left": "LEFT JOIN", "right": "RIGHT JOIN", "full": "FULL OUTER JOIN"}[kind]
                sql = f"{sql} {kw} {rsql} ON {on.sql}"
                m = {"k": "join", "kind": kind, "l": m, "r": rm, "on": on.m, "ln": len(cols), "rn": len(rcols)}
            cols = cols + rcols
        return sql, m, cols

    # ------------------------------------------------------------- queries ---
    ctes_in_scope = ()

    def subquery(self, scope, ncols=None, coltype=None):
        """a (possibly correlated) subquery for EXISTS / IN"""
        if self.sub_budget <= 0:
            return None
        self.sub_budget -= 1
        return self.query(self.tables, scope, 0, nested=True, ncols=ncols, coltype=coltype, simple=True)

    def scalar_subquery(self, scope):
        """exactly-one-row scalar subquery: a global aggregate"""
        if self.sub_budget <= 0:
            return None
        self.sub_budget -= 1
        return self.query(self.tables, scope, 0, nested=True, scalar_agg=True, simple=True)

    def agg(self, scope):
        r = self.rng
        fs = ["count*", "count", "sum", "min", "max"]
        if self.o["avg"]:
            fs.append("avg")
        f = r.choice(fs)
        if f == "count*":
            return E("COUNT(*)", {"f": "count*", "a": TRUE_M, "distinct": 0}, "int")
        if f in ("sum", "avg"):
            a = self.pick_col(scope, ("int", "i32", "dbl"), allow_outer=False, base_only=(f == "avg")) or Lit("int", 1)
            if f == "sum" and self.o["arith"] and a.t in ("int", "i32") and r.random() < 0.2:
                a = self.scalar(scope, "int", 1)
        else:
            a = self.pick_col(scope, None if f == "count" else ("int", "i32", "dbl", "str", "date"), allow_outer=False) or Lit("int", 1)
        dist = 1 if (f == "count" and self.o["countd"] and r.random() < 0.3) else 0
        t = "int" if f == "count" else ("avg_" + ("dbl" if a.t == "dbl" else "int") if f == "avg" else
                                        ("int" if a.t == "i32" and f == "sum" else a.t))
        return E(f"{f.upper()}({'DISTINCT ' if dist else ''}{a.sql})", {"f": f, "a": a.m, "distinct": dist}, t)

    def query(self, tables, outer, depth, nested=False, ncols=None, coltype=None, scalar_agg=False, simple=False, top=False):
        """returns Q with sql, m, cols [(name,type)]"""
        r = self.rng
        o = self.o
        if top and o["setops"] and r.random() < o["setop_p"] and not simple:
            return self.setop_query(tables, outer, depth, top=top)
        fsql, fm, cols = self.from_tree(tables, outer, 0 if simple else depth)
        scope = Scope(cols, outer)
        where = None
        if r.random() < o["where_p"]:
            where = self.pred(scope, 0 if simple and r.random() < 0.5 else min(o["max_depth"], 2))
        grouped = scalar_agg or (o["group"] and not simple and coltype is None and r.random() < o["group_p"])
        group_m = {"on": 0}
        gsql = ""
        hsql = ""
        if grouped:
            nk = 0 if scalar_agg else r.choice([0, 1, 1, 1, 2])
            keys = []
            for _ in range(nk):
                e = self.pick_col(scope, ("int", "i32", "dbl", "str", "date"), allow_outer=False, nonnull=o["group_keys_nonnull"])
                if e is not None and all(e.sql != k.sql for k in keys):
                    keys.append(e)
            naggs = 1 if scalar_agg else r.randint(1, 3)
            aggs = [self.agg(scope) for _ in range(naggs)]
            if scalar_agg:
                aggs = [a if a.t in ("int",) else E("COUNT(*)", {"f": "count*", "a": TRUE_M, "distinct": 0}, "int") for a in aggs]
            gcols = [Col(None, k.sql, k.t) for k in keys] + [Col(None, a.sql, a.t) for a in aggs]
            gscope = Scope(gcols, outer)
            having_m = TRUE_M
            if keys and o["having"] and r.random() < 0.3:
                # HAVING over an aggregate or a key
                i = r.randrange(len(gcols))
                c = gscope.ref(0, i)
                if c.t in ("int", "i32", "dbl", "str", "date") and not c.t.startswith("avg"):
                    op = r.choice(["=", "<>", "<", ">=", ">"])
                    l = self.lit_for(c.t if c.t != "i32" else "int")
                    having_m = {"k": "cmp", "op": op, "a": c.m, "b": l.m}
                    hsql = f" HAVING ({c.sql} {op} {l.sql})"
            group_m = {"on": 1, "keys": [k.m for k in keys], "aggs": [a.m for a in aggs], "having": having_m, "sets": []}
            gsql = (" GROUP BY " + ", ".join(k.sql for k in keys)) if keys else ""
            pscope = gscope
            # projection: all keys and aggs, maybe permuted
            idxs = list(range(len(gcols)))
            if not scalar_agg and r.random() < 0.3:
                r.shuffle(idxs)
            if scalar_agg:
                idxs = [0]
            proj = [pscope.ref(0, i) for i in idxs]
        else:
            pscope = scope
            if ncols == 1:
                e = self.pick_col(scope, (coltype or "int",), allow_outer=False)
                if e is None or r.random() < 0.1:
                    e = self.lit_for(coltype or "int")
                proj = [e]
            else:
                n = r.randint(1, min(3, len(cols)))
                proj = []
                for _ in range(n):
                    if r.random() < 0.75 or simple:
                        e = self.pick_col(scope, None, allow_outer=False)
                    else:
                        t = r.choice(["int", "int", "dbl", "str", "date"])
                        e = self.scalar(scope, t, min(o["max_depth"], 2))
                        if r.random() < 0.15:
                            e = self.pred(scope, 1)
                    proj.append(e)
        distinct = 1 if (o["distinct"] and not grouped and not simple and r.random() < 0.2 and all(e.t != "bool" for e in proj)) else 0
        names = [self.fresh("k") for _ in proj]
        selsql = ", ".join(f"{e.sql} AS {n}" for e, n in zip(proj, names))
        outcols = [(n, e.t) for e, n in zip(proj, names)]
        # ORDER BY / LIMIT
        order_m, osql, limit, offset = [], "", -1, 0
        if o["order"] and (top or (nested and r.random() < 0.1)) and r.random() < (o["order_p"] if top else 1.0):
            oscope = Scope([Col(None, n, e.t) for e, n in zip(proj, names)], None) if distinct else None
            nkeys = max(r.choice([1, 1, 2, 3]), o["min_order_keys"])
            items = []
            for _ in range(nkeys * (3 if o["distinct_order_keys"] else 1)):
                if len(items) >= nkeys:
                    break
                if distinct or r.random() < 0.5:
                    i = r.randrange(len(proj))
                    # order by output alias: model expr = the projected expression evaluated on the order row
                    if distinct:
                        esql, em, et = names[i], {"k": "col", "d": 0, "i": i + 1}, proj[i].t
                    else:
                        esql, em, et = names[i], proj[i].m, proj[i].t
                else:
                    e = self.pick_col(pscope, None, allow_outer=False)
                    if e is None:
                        continue
                    esql, em, et = e.sql, e.m, e.t
                    if grouped:
                        hit = [n for pe, n in zip(proj, names) if pe.sql == e.sql]
                        if not hit:
                            continue
                        esql = hit[0]
                if et == "bool" or et.startswith("avg"):
                    continue
                if o["distinct_order_keys"] and any(json_eq(em, it[1]) for it in items):
                    continue
                desc = r.randint(0, 1)
                nf = None
                if o["nulls_first"] and r.random() < 0.5:
                    nf = r.randint(0, 1)
                items.append((esql, em, desc, nf))
            if items:
                osql = " ORDER BY " + ", ".join(
                    f"{s}{' DESC' if d else ''}{'' if nf is None else (' NULLS FIRST' if nf else ' NULLS LAST')}" for (s, m, d, nf) in items)
                order_m = [{"e": m, "desc": d, "nf": (nf if nf is not None else 0)} for (s, m, d, nf) in items]
            if o["limit"] and top and r.random() < o["limit_p"] and items:
                limit = r.randint(0, 5)
                osql += f" LIMIT {limit}"
                if r.random() < o["offset_p"]:
                    offset = r.randint(0, 4)
                    osql += f" OFFSET {offset}"
        sql = f"SELECT {'DISTINCT ' if distinct else ''}{selsql} FROM {fsql}"
        if where is not None:
            sql += f" WHERE {where.sql}"
        sql += gsql + hsql + osql
        m = {"k": "select", "from": fm, "where": where.m if where is not None else TRUE_M, "group": group_m,
             "proj": [e.m for e in proj], "distinct": distinct, "order": order_m, "limit": limit, "offset": offset}
        return Q(sql, m, outcols)

    def setop_query(self, tables, outer, depth, top=False):
        r = self.rng
        # both sides: same number and types of columns -> project typed columns
        n = r.randint(1, 2)
        types = [r.choice(["int", "int", "str", "date", "dbl"]) for _ in range(n)]
        sides = []
        for _ in range(2):
            fsql, fm, cols = self.from_tree(tables, outer, 0)
            scope = Scope(cols, outer)
            proj = [self.scalar(scope, t, 0) for t in types]
            # normalise i32 -> int for type compatibility across sides
            names = [self.fresh("k") for _ in proj]
            where = self.pred(scope, 1) if r.random() < 0.4 else None
            sql = f"SELECT {', '.join(f'{e.sql} AS {nm}' for e, nm in zip(proj, names))} FROM {fsql}" + (f" WHERE {where.sql}" if where else "")
            m = {"k": "select", "from": fm, "where": where.m if where else TRUE_M, "group": {"on": 0}, "proj": [e.m for e in proj],
                 "distinct": 0, "order": [], "limit": -1, "offset": 0}
            sides.append((sql, m, names, [e.t for e in proj]))
        op = r.choice(["union", "union", "intersect", "except"])
        all_ = r.randint(0, 1)
        kw = {"union": "UNION", "intersect": "INTERSECT", "except": "EXCEPT"}[op] + (" ALL" if all_ else "")
        names = sides[0][2]
        order_m, osql, limit, offset = [], "", -1, 0
        if top and self.o["order"] and r.random() < 0.5:
            i = r.randrange(n)
            desc = r.randint(0, 1)
            osql = f" ORDER BY {names[i]}{' DESC' if desc else ''}"
            order_m = [{"e": {"k": "col", "d": 0, "i": i + 1}, "desc": desc, "nf": 0}]
        sql = f"{sides[0][0]} {kw} {sides[1][0]}{osql}"
        m = {"k": "setop", "op": op, "all": all_, "l": sides[0][1], "r": sides[1][1], "order": order_m, "limit": limit, "offset": offset}
        return Q(sql, m, [(nm, "int" if t == "i32" else t) for nm, t in zip(names, sides[0][3])])

    def with_query(self, tables):
        """WITH c1 AS (...), c2 AS (...) SELECT ... referencing the CTEs"""
        r = self.rng
        nct = r.randint(1, 2)
        ctes = []
        save = self.ctes_in_scope
        self.ctes_in_scope = ()
        try:
            for _ in range(nct):
                q = self.query(tables, None, 1, nested=True)
                name = self.fresh("c")
                ctes.append((name, q))
                self.ctes_in_scope = tuple(self.ctes_in_scope) + ((name, q.cols),)
            body = self.query(tables, None, 1, top=True)
        finally:
            self.ctes_in_scope = save
        sql = "WITH " + ", ".join(f"{n} AS ({q.sql})" for n, q in ctes) + " " + body.sql
        m = {"k": "with", "ctes": [{"name": n, "q": q.m} for n, q in ctes], "body": body.m}
        return Q(sql, m, body.cols)

    # ---------------------------------------------------------------- cases ---
    def case(self, cid):
        r = self.rng
        self.tables = self.db()
        self.sub_budget = 2
        self.ctes_in_scope = ()
        if self.o["cte"] and r.random() < self.o["cte_p"]:
            q = self.with_query(self.tables)
        else:
            q = self.query(self.tables, None, self.o["max_depth"], top=True)
        return make_case(cid, self.tables, q)


def conjuncts(m):
    """set of (canonical json of) AND-conjuncts, looking through ORs as the engine's factoring does"""
    import json as _j
    out = set()

    def walk(x):
        if isinstance(x, dict) and x.get("k") in ("and", "or"):
            walk(x["a"]); walk(x["b"])
        else:
            out.add(_j.dumps(x, sort_keys=True))
    walk(m)
    return out


def json_eq(a, b):
    import json as _j
    return _j.dumps(a, sort_keys=True) == _j.dumps(b, sort_keys=True)


def has_col(m):
    """does the model expression reference a column (of any scope) or a subquery?"""
    if isinstance(m, dict):
        if m.get("k") in ("col", "exists", "insub", "scalar"):
            return True
        return any(has_col(v) for v in m.values())
    if isinstance(m, list):
        return any(has_col(v) for v in m)
    return False


class Q:
    def __init__(self, sql, m, cols):
        self.sql, self.m, self.cols = sql, m, cols


def make_case(cid, tables, q, errok=1, tags=None):
    return {
        "id": cid,
        "tables": [{"name": t.name, "cols": [[n, ty] for (n, ty) in t.cols], "rows": [[mv(v) for v in row] for row in t.rows]} for t in tables],
        "sql": q.sql,
        "q": q.m,
        "out_types": [t for (_, t) in q.cols],
        "errok": errok,
        "tags": tags or [],
    }


def trace_record(case, outs):
    """record judged by SqlTrace.tla"""
    return {"id": case["id"], "db": {t["name"]: {"rows": t["rows"]} for t in case["tables"]}, "dict": DICT_CODES,
            "q": case["q"], "errok": case["errok"], "outs": outs}


# ---------------------------------------------------------------------------------------------
# Optimizer trigger shapes (C03/C31): statements shaped like the patterns the statistics-driven
# and decorrelation rules look for, over a dimension table t0(k, d, s) and a fact table
# t1(fk, a, b, v).  `k` is unique in most databases and deliberately NOT unique (but with a value
# range >= row count) in some; a/b are small non-negative ints (sometimes negative / NULL).
class OptShapes(Gen):
    SHAPES = ["gkr", "gkr_semi", "eager", "eager2", "pgk", "pjk", "having_total", "semi_push", "flatten_exists",
              "derive_or", "reorder3", "reorder4", "push_outer", "push_outer2", "proj_prune", "not_in_corr", "scalar_corr"]

    def opt_db(self):
        r = self.rng
        n0 = r.randint(1, 4)
        uniq = r.random() < 0.7
        if uniq:
            ks = r.sample(range(0, 6), n0)
        else:
            ks = [r.choice([1, 1, 5, 2]) for _ in range(n0)]          # duplicates, range >= rows
        nullable_k = r.random() < 0.15
        t0 = Table("t0", [("k0", "int"), ("d0", "int"), ("s0", "str")],
                   [[(None if nullable_k and r.random() < 0.3 else k), r.choice([0, 1, 2, None]) if r.random() < 0.8 else 3, r.choice([1, 2, 4, None])] for k in ks],
                   nonnull=() if nullable_k else ("k0",))
        n1 = r.randint(0, 6)
        neg = r.random() < 0.15
        nul = r.random() < 0.3
        def ab():
            v = r.randint(0, 2)
            if neg and r.random() < 0.3:
                v = -1
            if nul and r.random() < 0.25:
                v = None
            return v
        t1 = Table("t1", [("f1", "int"), ("a1", "int"), ("b1", "int"), ("v1", "int")],
                   [[r.choice(ks + [7]) if r.random() < 0.9 else None, ab(), ab(), r.choice([0, 1, 2, 3, None])] for _ in range(n1)])
        return [t0, t1]

    def case(self, cid):
        r = self.rng
        self.tables = self.opt_db()
        t0, t1 = self.tables
        shape = r.choice(self.SHAPES)
        q = getattr(self, "shape_" + shape)(t0, t1)
        c = make_case(cid, self.tables, q, tags=[shape])
        return c

    # helpers -------------------------------------------------------------------------------
    def cols(self, t, al):
        return [Col(al, n, ty, base=True, nullable=(n not in t.nonnull)) for (n, ty) in t.cols]

    def sel(self, fsql, fm, proj, where=None, group=None, order=None, limit=-1, offset=0, distinct=0):
        names = [self.fresh("k") for _ in proj]
        sql = "SELECT " + ("DISTINCT " if distinct else "") + ", ".join(f"{e.sql} AS {n}" for e, n in zip(proj, names)) + " FROM " + fsql
        if where is not None:
            sql += " WHERE " + where.sql
        gm = {"on": 0}
        if group is not None:
            keys, aggs, having = group
            gm = {"on": 1, "keys": [k.m for k in keys], "aggs": [a.m for a in aggs], "having": having.m if having is not None else TRUE_M, "sets": []}
            if keys:
                sql += " GROUP BY " + ", ".join(k.sql for k in keys)
            if having is not None:
                sql += " HAVING " + having.sql
        om = []
        if order:
            sql += " ORDER BY " + ", ".join(f"{names[i]}{' DESC' if d else ''}" for (i, d) in order)
            om = [{"e": proj[i].m, "desc": d, "nf": 0} for (i, d) in order]
        if limit >= 0:
            sql += f" LIMIT {limit}"
        m = {"k": "select", "from": fm, "where": where.m if where is not None else TRUE_M, "group": gm, "proj": [e.m for e in proj],
             "distinct": distinct, "order": om, "limit": limit, "offset": offset}
        return Q(sql, m, [(n, e.t) for e, n in zip(proj, names)])

    def join2(self, t0, t1, kind="inner", on_extra=None, keys=(("k0", "f1"),)):
        a0, a1 = self.fresh("x"), self.fresh("x")
        c0, c1 = self.cols(t0, a0), self.cols(t1, a1)
        sc = Scope(c0 + c1)
        idx = {c.name: i for i, c in enumerate(c0 + c1)}
        conj = []
        for (l, rr) in keys:
            a, b = sc.ref(0, idx[l]), sc.ref(0, idx[rr])
            conj.append(E(f"({a.sql} = {b.sql})", {"k": "cmp", "op": "=", "a": a.m, "b": b.m}, "bool"))
        if on_extra:
            conj.append(on_extra(sc, idx))
        on = conj[0]
        for c in conj[1:]:
            on = E(f"({on.sql} AND {c.sql})", {"k": "and", "a": on.m, "b": c.m}, "bool")
        kw = {"inner": "INNER JOIN", "left": "LEFT JOIN", "right": "RIGHT JOIN", "full": "FULL OUTER JOIN"}[kind]
        fsql = f"{t0.name} AS {a0} {kw} {t1.name} AS {a1} ON {on.sql}"
        fm = {"k": "join", "kind": kind, "l": {"k": "table", "name": t0.name}, "r": {"k": "table", "name": t1.name}, "on": on.m,
              "ln": len(c0), "rn": len(c1)}
        return fsql, fm, sc, idx

    def agg_e(self, f, arg):
        if f == "count*":
            return E("COUNT(*)", {"f": "count*", "a": TRUE_M, "distinct": 0}, "int")
        return E(f"{f.upper()}({arg.sql})", {"f": f, "a": arg.m, "distinct": 0}, "int")

    def cmp(self, a, op, b):
        return E(f"({a.sql} {op} {b.sql})", {"k": "cmp", "op": op, "a": a.m, "b": b.m}, "bool")

    def gref(self, keys, aggs):
        cols = [Col(None, k.sql, k.t) for k in keys] + [Col(None, a.sql, a.t) for a in aggs]
        return Scope(cols)

    # shapes --------------------------------------------------------------------------------
    def shape_gkr(self, t0, t1):
        fsql, fm, sc, ix = self.join2(t0, t1)
        keys = [sc.ref(0, ix["k0"]), sc.ref(0, ix["d0"])] + ([sc.ref(0, ix["s0"])] if self.rng.random() < 0.6 else [])
        aggs = [self.agg_e("sum", sc.ref(0, ix["v1"])), self.agg_e("count*", None)]
        g = self.gref(keys, aggs)
        proj = [g.ref(0, i) for i in range(len(keys) + len(aggs))]
        return self.sel(fsql, fm, proj, group=(keys, aggs, None))

    def shape_gkr_semi(self, t0, t1):
        a0 = self.fresh("x")
        c0 = self.cols(t0, a0)
        sc = Scope(c0)
        a1 = self.fresh("x")
        sub_sc = Scope(self.cols(t1, a1), sc)
        f = sub_sc.ref(0, 0)
        sub = self.sel(f"t1 AS {a1}", {"k": "table", "name": "t1"}, [f], where=self.cmp(sub_sc.ref(0, 3), ">=", Lit("int", self.rng.randint(0, 2))))
        w = E(f"({sc.ref(0, 0).sql} IN ({sub.sql}))", {"k": "insub", "a": sc.ref(0, 0).m, "q": sub.m, "neg": 0}, "bool")
        keys = [sc.ref(0, 0), sc.ref(0, 1)]
        aggs = [self.agg_e("count*", None), self.agg_e("max", sc.ref(0, 1))]
        g = self.gref(keys, aggs)
        return self.sel(f"t0 AS {a0}", {"k": "table", "name": "t0"}, [g.ref(0, i) for i in range(4)], where=w, group=(keys, aggs, None))

    def shape_eager(self, t0, t1):
        fsql, fm, sc, ix = self.join2(t0, t1)
        d, v, a = sc.ref(0, ix["d0"]), sc.ref(0, ix["v1"]), sc.ref(0, ix["a1"])
        prod = E(f"({d.sql} * {v.sql})", {"k": "arith", "op": "*", "a": d.m, "b": v.m}, "int")
        arg = prod if self.rng.random() < 0.5 else E(f"({prod.sql} + {d.sql})", {"k": "arith", "op": "+", "a": prod.m, "b": d.m}, "int")
        keys = [sc.ref(0, ix["s0"])] if self.rng.random() < 0.7 else [sc.ref(0, ix["k0"])]
        aggs = [self.agg_e("sum", arg)] + ([self.agg_e("sum", v)] if self.rng.random() < 0.5 else [])
        g = self.gref(keys, aggs)
        return self.sel(fsql, fm, [g.ref(0, i) for i in range(len(keys) + len(aggs))], group=(keys, aggs, None))

    def shape_eager2(self, t0, t1):
        fsql, fm, sc, ix = self.join2(t0, t1, keys=(("k0", "a1"), ("d0", "b1")))
        d, v = sc.ref(0, ix["d0"]), sc.ref(0, ix["v1"])
        arg = E(f"({v.sql} * {d.sql})", {"k": "arith", "op": "*", "a": v.m, "b": d.m}, "int")
        keys = [sc.ref(0, ix["s0"])]
        aggs = [self.agg_e("sum", arg)]
        g = self.gref(keys, aggs)
        return self.sel(fsql, fm, [g.ref(0, 0), g.ref(0, 1)], group=(keys, aggs, None))

    def shape_pgk(self, t0, t1):
        a1 = self.fresh("x")
        sc = Scope(self.cols(t1, a1))
        keys = [sc.ref(0, 1), sc.ref(0, 2)]
        aggs = [self.agg_e("count*", None), self.agg_e("sum", sc.ref(0, 3))]
        g = self.gref(keys, aggs)
        return self.sel(f"t1 AS {a1}", {"k": "table", "name": "t1"}, [g.ref(0, i) for i in range(4)], group=(keys, aggs, None))

    def shape_pjk(self, t0, t1):
        fsql, fm, sc, ix = self.join2(t1, t1, keys=(("a1", "a1"), ("b1", "b1")))
        # self join: right side columns are at offset 4
        proj = [sc.ref(0, 0), sc.ref(0, 3), sc.ref(0, 4 + 3)]
        return self.sel(fsql, fm, proj)

    def join2(self, t0, t1, kind="inner", on_extra=None, keys=(("k0", "f1"),)):   # noqa: F811 (self-join aware)
        a0, a1 = self.fresh("x"), self.fresh("x")
        c0, c1 = self.cols(t0, a0), self.cols(t1, a1)
        sc = Scope(c0 + c1)
        idx = {}
        for i, c in enumerate(c0 + c1):
            idx.setdefault(c.name, i)
        ridx = {c.name: len(c0) + i for i, c in enumerate(c1)}
        conj = []
        for (l, rr) in keys:
            a, b = sc.ref(0, idx[l]), sc.ref(0, ridx[rr])
            conj.append(E(f"({a.sql} = {b.sql})", {"k": "cmp", "op": "=", "a": a.m, "b": b.m}, "bool"))
        if on_extra:
            conj.append(on_extra(sc, idx))
        on = conj[0]
        for c in conj[1:]:
            on = E(f"({on.sql} AND {c.sql})", {"k": "and", "a": on.m, "b": c.m}, "bool")
        kw = {"inner": "INNER JOIN", "left": "LEFT JOIN", "right": "RIGHT JOIN", "full": "FULL OUTER JOIN"}[kind]
        fsql = f"{t0.name} AS {a0} {kw} {t1.name} AS {a1} ON {on.sql}"
        fm = {"k": "join", "kind": kind, "l": {"k": "table", "name": t0.name}, "r": {"k": "table", "name": t1.name}, "on": on.m,
              "ln": len(c0), "rn": len(c1)}
        idx.update({k: v for k, v in ridx.items() if k not in idx})
        return fsql, fm, sc, idx

    def shape_having_total(self, t0, t1):
        a1 = self.fresh("x")
        sc = Scope(self.cols(t1, a1))
        keys = [sc.ref(0, 1)]
        aggs = [self.agg_e("sum", sc.ref(0, 3))]
        g = self.gref(keys, aggs)
        a2 = self.fresh("x")
        sc2 = Scope(self.cols(t1, a2))
        tot = self.agg_e("sum", sc2.ref(0, 3))
        g2 = self.gref([], [tot])
        sub = self.sel(f"t1 AS {a2}", {"k": "table", "name": "t1"}, [g2.ref(0, 0)], group=([], [tot], None))
        sube = E(f"({sub.sql})", {"k": "scalar", "q": sub.m}, "int")
        lhs = E(f"({g.ref(0, 1).sql} * 2)", {"k": "arith", "op": "*", "a": g.ref(0, 1).m, "b": {"k": "lit", "v": 2}}, "int")
        having = self.cmp(lhs, self.rng.choice([">", ">=", "<"]), sube)
        return self.sel(f"t1 AS {a1}", {"k": "table", "name": "t1"}, [g.ref(0, 0), g.ref(0, 1)], group=(keys, aggs, having))

    def shape_semi_push(self, t0, t1):
        fsql, fm, sc, ix = self.join2(t0, t1)
        a2 = self.fresh("x")
        sub_sc = Scope(self.cols(t1, a2), sc)
        sub = self.sel(f"t1 AS {a2}", {"k": "table", "name": "t1"}, [sub_sc.ref(0, 0)], where=self.cmp(sub_sc.ref(0, 3), ">", Lit("int", self.rng.randint(0, 2))))
        k = sc.ref(0, ix["k0"])
        neg = 1 if self.rng.random() < 0.3 else 0
        w = E(f"({k.sql} {'NOT ' if neg else ''}IN ({sub.sql}))", {"k": "insub", "a": k.m, "q": sub.m, "neg": neg}, "bool")
        return self.sel(fsql, fm, [k, sc.ref(0, ix["v1"])], where=w)

    def shape_flatten_exists(self, t0, t1):
        a0 = self.fresh("x")
        sc = Scope(self.cols(t0, a0))
        a1 = self.fresh("x")
        sub_sc = Scope(self.cols(t1, a1), sc)
        corr = self.cmp(sub_sc.ref(0, 0), "=", sub_sc.ref(1, 0))
        extra = self.cmp(sub_sc.ref(0, 3), self.rng.choice([">", "<=", "="]), Lit("int", self.rng.randint(0, 2)))
        w_in = E(f"({corr.sql} AND {extra.sql})", {"k": "and", "a": corr.m, "b": extra.m}, "bool")
        sub = self.sel(f"t1 AS {a1}", {"k": "table", "name": "t1"}, [sub_sc.ref(0, 1)], where=w_in)
        neg = 1 if self.rng.random() < 0.4 else 0
        w = E(f"({'NOT ' if neg else ''}EXISTS ({sub.sql}))", {"k": "exists", "q": sub.m, "neg": neg}, "bool")
        return self.sel(f"t0 AS {a0}", {"k": "table", "name": "t0"}, [sc.ref(0, 0), sc.ref(0, 2)], where=w)

    def shape_derive_or(self, t0, t1):
        fsql, fm, sc, ix = self.join2(t0, t1)
        s, a = sc.ref(0, ix["s0"]), sc.ref(0, ix["a1"])
        def br(sv, av):
            x, y = self.cmp(s, "=", Lit("str", sv)), self.cmp(a, "=", Lit("int", av))
            return E(f"({x.sql} AND {y.sql})", {"k": "and", "a": x.m, "b": y.m}, "bool")
        b1, b2 = br(1, self.rng.randint(0, 2)), br(self.rng.choice([2, 4]), self.rng.randint(0, 2))
        w = E(f"({b1.sql} OR {b2.sql})", {"k": "or", "a": b1.m, "b": b2.m}, "bool")
        return self.sel(fsql, fm, [sc.ref(0, ix["k0"]), s, a], where=w)

    def chain(self, tabs, extra_where=None):
        """inner join chain tabs[0] x tabs[1] x ... with equalities between consecutive tables (first int columns)"""
        als = [self.fresh("x") for _ in tabs]
        cols = []
        offs = []
        for t, al in zip(tabs, als):
            offs.append(len(cols))
            cols += self.cols(t, al)
        sc = Scope(cols)
        fsql = f"{tabs[0].name} AS {als[0]}"
        fm = {"k": "table", "name": tabs[0].name}
        ln = len(tabs[0].cols)
        for i in range(1, len(tabs)):
            li = offs[i - 1] + (0 if tabs[i - 1].name == "t0" else 0)
            ri = offs[i]
            a, b = sc.ref(0, li), sc.ref(0, ri)
            on = self.cmp(a, "=", b)
            fsql += f" INNER JOIN {tabs[i].name} AS {als[i]} ON {on.sql}"
            fm = {"k": "join", "kind": "inner", "l": fm, "r": {"k": "table", "name": tabs[i].name}, "on": on.m, "ln": ln, "rn": len(tabs[i].cols)}
            ln += len(tabs[i].cols)
        return fsql, fm, sc, offs

    def shape_reorder3(self, t0, t1):
        tabs = [self.rng.choice([t0, t1]) for _ in range(3)]
        fsql, fm, sc, offs = self.chain(tabs)
        proj = [sc.ref(0, offs[0]), sc.ref(0, offs[2] + 1)]
        w = self.cmp(sc.ref(0, offs[1] + 1), self.rng.choice([">=", "<", "<>"]), Lit("int", self.rng.randint(0, 2))) if self.rng.random() < 0.6 else None
        return self.sel(fsql, fm, proj, where=w)

    def shape_reorder4(self, t0, t1):
        tabs = [t1, t0, t1, t0] if self.rng.random() < 0.5 else [t0, t1, t1, t0]
        fsql, fm, sc, offs = self.chain(tabs)
        aggs = [self.agg_e("count*", None), self.agg_e("sum", sc.ref(0, offs[0] + 1))]
        g = self.gref([], aggs)
        return self.sel(fsql, fm, [g.ref(0, 0), g.ref(0, 1)], group=([], aggs, None))

    def shape_push_outer(self, t0, t1):
        kind = self.rng.choice(["left", "right", "full"])
        fsql, fm, sc, ix = self.join2(t0, t1, kind=kind)
        choices = [self.cmp(sc.ref(0, ix["v1"]), ">", Lit("int", 0)), self.cmp(sc.ref(0, ix["d0"]), ">=", Lit("int", 1)),
                   E(f"({sc.ref(0, ix['v1']).sql} IS NULL)", {"k": "isnull", "a": sc.ref(0, ix["v1"]).m, "neg": 0}, "bool"),
                   E(f"({sc.ref(0, ix['k0']).sql} IS NULL)", {"k": "isnull", "a": sc.ref(0, ix["k0"]).m, "neg": 0}, "bool")]
        w = self.rng.choice(choices)
        return self.sel(fsql, fm, [sc.ref(0, ix["k0"]), sc.ref(0, ix["f1"]), sc.ref(0, ix["v1"])], where=w)

    def shape_push_outer2(self, t0, t1):
        def extra(sc, ix):
            return self.cmp(sc.ref(0, ix["v1"]) if self.rng.random() < 0.5 else sc.ref(0, ix["d0"]), ">", Lit("int", self.rng.randint(0, 1)))
        fsql, fm, sc, ix = self.join2(t0, t1, kind=self.rng.choice(["left", "right", "full", "inner"]), on_extra=extra)
        return self.sel(fsql, fm, [sc.ref(0, ix["k0"]), sc.ref(0, ix["d0"]), sc.ref(0, ix["v1"])])

    def shape_proj_prune(self, t0, t1):
        fsql, fm, sc, ix = self.join2(t0, t1)
        keys = [sc.ref(0, ix["s0"])]
        aggs = [self.agg_e("count*", None), self.agg_e("max", sc.ref(0, ix["b1"]))]
        g = self.gref(keys, aggs)
        having = self.cmp(g.ref(0, 2), ">=", Lit("int", self.rng.randint(0, 2)))
        w = self.cmp(sc.ref(0, ix["a1"]), "<>", Lit("int", 1))
        return self.sel(fsql, fm, [g.ref(0, 0), g.ref(0, 1)], where=w, group=(keys, aggs, having), order=[(0, 0)])

    def shape_not_in_corr(self, t0, t1):
        a0 = self.fresh("x")
        sc = Scope(self.cols(t0, a0))
        a1 = self.fresh("x")
        sub_sc = Scope(self.cols(t1, a1), sc)
        sub = self.sel(f"t1 AS {a1}", {"k": "table", "name": "t1"}, [sub_sc.ref(0, 1)], where=self.cmp(sub_sc.ref(0, 0), "=", sub_sc.ref(1, 0)))
        d = sc.ref(0, 1)
        neg = self.rng.randint(0, 1)
        w = E(f"({d.sql} {'NOT ' if neg else ''}IN ({sub.sql}))", {"k": "insub", "a": d.m, "q": sub.m, "neg": neg}, "bool")
        return self.sel(f"t0 AS {a0}", {"k": "table", "name": "t0"}, [sc.ref(0, 0), d], where=w)

    def shape_scalar_corr(self, t0, t1):
        a0 = self.fresh("x")
        sc = Scope(self.cols(t0, a0))
        a1 = self.fresh("x")
        sub_sc = Scope(self.cols(t1, a1), sc)
        f = self.rng.choice(["sum", "max", "min", "count"])
        ag = self.agg_e(f, sub_sc.ref(0, 3))
        g2 = self.gref([], [ag])
        sub = self.sel(f"t1 AS {a1}", {"k": "table", "name": "t1"}, [g2.ref(0, 0)], where=self.cmp(sub_sc.ref(0, 0), "=", sub_sc.ref(1, 0)), group=([], [ag], None))
        sube = E(f"({sub.sql})", {"k": "scalar", "q": sub.m}, "int")
        if self.rng.random() < 0.5:
            return self.sel(f"t0 AS {a0}", {"k": "table", "name": "t0"}, [sc.ref(0, 0), sube])
        w = self.cmp(sc.ref(0, 1), self.rng.choice(["<", ">=", "="]), sube)
        return self.sel(f"t0 AS {a0}", {"k": "table", "name": "t0"}, [sc.ref(0, 0), sc.ref(0, 1)], where=w)


# ---------------------------------------------------------------------------------------------
# Join graphs (C32): n relations connected by equality predicates (chains, stars, cycles, random
# connected graphs, composite-key edges), written as comma joins + WHERE or as INNER JOIN ... ON.
class JoinGraphs(Gen):
    def case(self, cid):
        r = self.rng
        n = r.choice([2, 3, 3, 4, 4, 5, 5, 6, 7])
        kind = r.choice(["chain", "star", "cycle", "random", "composite"])
        edges = set()
        if kind == "chain" or n == 2:
            edges = {(i, i + 1) for i in range(n - 1)}
        elif kind == "star":
            edges = {(0, i) for i in range(1, n)}
        elif kind == "cycle":
            edges = {(i, (i + 1) % n) for i in range(n)}
            edges = {(min(a, b), max(a, b)) for a, b in edges if a != b}
        else:
            order = list(range(n))
            r.shuffle(order)
            for i in range(1, n):
                j = r.randrange(i)
                edges.add((min(order[i], order[j]), max(order[i], order[j])))
            for _ in range(r.randint(0, 2)):
                a, b = r.sample(range(n), 2)
                edges.add((min(a, b), max(a, b)))
        edges = sorted(edges)
        # tables: rI(aI, bI) small, sizes differ so the cost model has something to reorder
        tables = []
        for i in range(n):
            rows = [[r.randint(0, 2), r.randint(0, 2)] for _ in range(r.choice([1, 2, 3, 4]))]
            tables.append(Table(f"r{i}", [(f"a{i}", "int"), (f"b{i}", "int")], rows, nonnull=(f"a{i}", f"b{i}")))
        self.tables = tables
        perm = list(range(n))
        if r.random() < 0.7:
            r.shuffle(perm)            # textual FROM order differs from the graph's natural order
        als = {i: self.fresh("x") for i in range(n)}
        cols = []
        off = {}
        for i in perm:
            off[i] = len(cols)
            cols += [Col(als[i], f"a{i}", "int", base=True, nullable=False), Col(als[i], f"b{i}", "int", base=True, nullable=False)]
        sc = Scope(cols)
        preds = []
        for (a, b) in edges:
            ca = 0 if r.random() < 0.7 else 1
            cb = 0 if r.random() < 0.7 else 1
            x, y = sc.ref(0, off[a] + ca), sc.ref(0, off[b] + cb)
            preds.append(E(f"({x.sql} = {y.sql})", {"k": "cmp", "op": "=", "a": x.m, "b": y.m}, "bool"))
            if kind == "composite" and r.random() < 0.6:
                x2, y2 = sc.ref(0, off[a] + 1 - ca), sc.ref(0, off[b] + 1 - cb)
                preds.append(E(f"({x2.sql} = {y2.sql})", {"k": "cmp", "op": "=", "a": x2.m, "b": y2.m}, "bool"))
        extra = None
        if r.random() < 0.4:
            i = r.randrange(n)
            x = sc.ref(0, off[i] + 1)
            extra = E(f"({x.sql} >= {r.randint(0, 1)})", {"k": "cmp", "op": ">=", "a": x.m, "b": {"k": "lit", "v": 0}}, "bool")
            extra = E(extra.sql, {"k": "cmp", "op": ">=", "a": x.m, "b": {"k": "lit", "v": int(extra.sql.split(">= ")[1].rstrip(")"))}}, "bool")
        conj = preds + ([extra] if extra else [])
        r.shuffle(conj)
        w = conj[0]
        for c in conj[1:]:
            w = E(f"({w.sql} AND {c.sql})", {"k": "and", "a": w.m, "b": c.m}, "bool")
        fsql = ", ".join(f"r{i} AS {als[i]}" for i in perm)
        fm = {"k": "table", "name": f"r{perm[0]}"}
        ln = 2
        for i in perm[1:]:
            fm = {"k": "join", "kind": "cross", "l": fm, "r": {"k": "table", "name": f"r{i}"}, "on": TRUE_M, "ln": ln, "rn": 2}
            ln += 2
        cnt = E("COUNT(*)", {"f": "count*", "a": TRUE_M, "distinct": 0}, "int")
        sm = sc.ref(0, off[perm[0]] + 1)
        sme = E(f"SUM({sm.sql})", {"f": "sum", "a": sm.m, "distinct": 0}, "int")
        names = [self.fresh("k"), self.fresh("k")]
        sql = f"SELECT COUNT(*) AS {names[0]}, {sme.sql} AS {names[1]} FROM {fsql} WHERE {w.sql}"
        m = {"k": "select", "from": fm, "where": w.m, "group": {"on": 1, "keys": [], "aggs": [cnt.m, sme.m], "having": TRUE_M, "sets": []},
             "proj": [{"k": "col", "d": 0, "i": 1}, {"k": "col", "d": 0, "i": 2}], "distinct": 0, "order": [], "limit": -1, "offset": 0}
        c = make_case(cid, tables, Q(sql, m, [(names[0], "int"), (names[1], "int")]), tags=[kind, f"n{n}"])
        c["graph"] = {"rels": [als[i] for i in range(n)], "edges": [[als[a], als[b]] for (a, b) in edges]}
        return c


# ---------------------------------------------------------------------------------------------
# VALUES lists (C44) and GROUPING SETS / ROLLUP / CUBE (C27)
class ValuesGen(Gen):
    def vals(self, first_null_ok=False):
        r = self.rng
        ncols = r.randint(1, 3)
        nrows = r.randint(1, 4)
        types = [r.choice(["int", "int", "str", "dbl", "bool", "date"]) for _ in range(ncols)]
        if self.o.get("big_values"):
            # long lists around the batch-size boundaries of the lowering (exact multiples of 1024 included)
            nrows = r.choice([1023, 1024, 1024, 1025, 2047, 2048, 2048, 2049])
            ncols, types = 1, ["int"]
            rows = [[(i * 7 + 3) % 11] for i in range(nrows)]
            sql = "VALUES " + ", ".join(f"({row[0]})" for row in rows)
            return sql, [[mv(v) for v in row] for row in rows], types
        rows = []
        for i in range(nrows):
            row = []
            for t in types:
                v = self.value(t)
                if i == 0 and v is None and not first_null_ok:
                    v = self.value(t, nullable=False)
                row.append(v)
            rows.append(row)
        sql = "VALUES " + ", ".join("(" + ", ".join(lit_sql(t, v) for t, v in zip(types, row)) + ")" for row in rows)
        return sql, [[mv(v) for v in row] for row in rows], types

    def case(self, cid):
        r = self.rng
        self.tables = self.db()
        kind = r.choice(["bare", "bare", "from", "from_where", "join", "in"])
        if self.o.get("big_values"):
            kind = r.choice(["bare", "from"])
        vsql, vrows, types = self.vals(first_null_ok=(r.random() < 0.15))
        if kind == "bare":
            m = {"k": "values", "rows": vrows, "order": [], "limit": -1, "offset": 0}
            return make_case(cid, self.tables, Q(vsql, m, [(f"column{i}", t) for i, t in enumerate(types)]), tags=["bare"])
        al = self.fresh("v")
        vcols = [Col(al, f"column{i}", t) for i, t in enumerate(types)]
        fsql, fm = f"({vsql}) AS {al}", {"k": "values", "rows": vrows}
        if kind in ("from", "from_where"):
            sc = Scope(vcols)
            proj = [sc.ref(0, i) for i in range(len(vcols))]
            r.shuffle(proj)
            where = self.pred(sc, 1) if kind == "from_where" else None
            names = [self.fresh("k") for _ in proj]
            sql = "SELECT " + ", ".join(f"{e.sql} AS {n}" for e, n in zip(proj, names)) + f" FROM {fsql}" + (f" WHERE {where.sql}" if where else "")
            order_m = []
            if r.random() < 0.5 and proj[0].t != "bool":
                sql += f" ORDER BY {names[0]}"
                order_m = [{"e": proj[0].m, "desc": 0, "nf": 0}]
            m = {"k": "select", "from": fm, "where": where.m if where else TRUE_M, "group": {"on": 0}, "proj": [e.m for e in proj],
                 "distinct": 0, "order": order_m, "limit": -1, "offset": 0}
            return make_case(cid, self.tables, Q(sql, m, [(n, e.t) for e, n in zip(proj, names)]), tags=[kind])
        t = self.tables[0]
        a0 = self.fresh("x")
        tcols = [Col(a0, n, ty, base=True) for (n, ty) in t.cols]
        if kind == "join":
            sc = Scope(tcols + vcols)
            pairs = [(i, j) for i, a in enumerate(tcols) for j, b in enumerate(vcols) if a.t == b.t and a.t != "bool"]
            if not pairs:
                return self.case(cid)
            i, j = r.choice(pairs)
            a, b = sc.ref(0, i), sc.ref(0, len(tcols) + j)
            on = E(f"({a.sql} = {b.sql})", {"k": "cmp", "op": "=", "a": a.m, "b": b.m}, "bool")
            jk = r.choice(["inner", "left"])
            proj = [a, sc.ref(0, len(tcols) + (j + 1) % len(vcols))]
            names = [self.fresh("k") for _ in proj]
            sql = "SELECT " + ", ".join(f"{e.sql} AS {n}" for e, n in zip(proj, names)) + f" FROM {t.name} AS {a0} {'INNER' if jk == 'inner' else 'LEFT'} JOIN {fsql} ON {on.sql}"
            m = {"k": "select", "from": {"k": "join", "kind": jk, "l": {"k": "table", "name": t.name}, "r": fm, "on": on.m, "ln": len(tcols), "rn": len(vcols)},
                 "where": TRUE_M, "group": {"on": 0}, "proj": [e.m for e in proj], "distinct": 0, "order": [], "limit": -1, "offset": 0}
            return make_case(cid, self.tables, Q(sql, m, [(n, e.t) for e, n in zip(proj, names)]), tags=[kind])
        # IN (VALUES ...): single int column
        ints = [c for c in range(len(tcols)) if tcols[c].t == "int"]
        if not ints:
            return self.case(cid)
        sc = Scope(tcols)
        a = sc.ref(0, r.choice(ints))
        vals = [[r.randint(0, 2)] for _ in range(r.randint(1, 3))]
        vs = "VALUES " + ", ".join(f"({v[0]})" for v in vals)
        qm = {"k": "values", "rows": vals, "order": [], "limit": -1, "offset": 0}
        neg = 0
        w = E(f"({a.sql} IN ({vs}))", {"k": "insub", "a": a.m, "q": qm, "neg": neg}, "bool")
        names = [self.fresh("k")]
        sql = f"SELECT {a.sql} AS {names[0]} FROM {t.name} AS {a0} WHERE {w.sql}"
        m = {"k": "select", "from": {"k": "table", "name": t.name}, "where": w.m, "group": {"on": 0}, "proj": [a.m], "distinct": 0,
             "order": [], "limit": -1, "offset": 0}
        return make_case(cid, self.tables, Q(sql, m, [(names[0], "int")]), tags=[kind])


class GroupingSetsGen(Gen):
    def case(self, cid):
        import itertools
        r = self.rng
        self.tables = [self.table("t0", 0, ncols=r.randint(3, 4))]
        t = self.tables[0]
        a0 = self.fresh("x")
        cols = [Col(a0, n, ty, base=True) for (n, ty) in t.cols]
        sc = Scope(cols)
        keyable = [i for i, c in enumerate(cols) if c.t in ("int", "i32", "str", "date", "dbl")]
        nk = min(len(keyable), r.randint(1, 3))
        kidx = r.sample(keyable, nk)
        keys = [sc.ref(0, i) for i in kidx]
        form = r.choice(["rollup", "cube", "sets", "sets"])
        allk = list(range(1, nk + 1))
        if form == "rollup":
            sets = [allk[:i] for i in range(nk, -1, -1)]
            gsql = "ROLLUP(" + ", ".join(k.sql for k in keys) + ")"
        elif form == "cube":
            sets = [list(s) for n in range(nk, -1, -1) for s in itertools.combinations(allk, n)]
            gsql = "CUBE(" + ", ".join(k.sql for k in keys) + ")"
        else:
            pool = [list(s) for n in range(0, nk + 1) for s in itertools.combinations(allk, n)]
            sets = [r.choice(pool) for _ in range(r.randint(1, 3))]
            gsql = "GROUPING SETS (" + ", ".join("(" + ", ".join(keys[i - 1].sql for i in s) + ")" for s in sets) + ")"
        numeric = [i for i, c in enumerate(cols) if c.t in ("int", "i32", "dbl")]
        aggs = [E("COUNT(*)", {"f": "count*", "a": TRUE_M, "distinct": 0}, "int")]
        if numeric:
            a = sc.ref(0, r.choice(numeric))
            f = r.choice(["sum", "min", "max", "count"])
            aggs.append(E(f"{f.upper()}({a.sql})", {"f": f, "a": a.m, "distinct": 0}, "int" if f == "count" or a.t == "i32" and f == "sum" else a.t))
        # group row layout: keys ++ aggs ++ mask
        gcols = [Col(None, k.sql, k.t) for k in keys] + [Col(None, a.sql, a.t) for a in aggs]
        g = Scope(gcols)
        proj = [g.ref(0, i) for i in range(len(gcols))]
        if r.random() < 0.7:
            ks = r.sample(range(1, nk + 1), r.randint(1, nk))
            proj.append(E("GROUPING(" + ", ".join(keys[i - 1].sql for i in ks) + ")", {"k": "grouping", "keys": ks}, "int"))
        names = [self.fresh("k") for _ in proj]
        where = self.pred(sc, 0) if r.random() < 0.3 else None
        sql = "SELECT " + ", ".join(f"{e.sql} AS {n}" for e, n in zip(proj, names)) + f" FROM {t.name} AS {a0}" + \
              (f" WHERE {where.sql}" if where else "") + f" GROUP BY {gsql}"
        m = {"k": "select", "from": {"k": "table", "name": t.name}, "where": where.m if where else TRUE_M,
             "group": {"on": 1, "keys": [k.m for k in keys], "aggs": [a.m for a in aggs], "having": TRUE_M, "sets": sets if sets else [[]]},
             "proj": [e.m for e in proj], "distinct": 0, "order": [], "limit": -1, "offset": 0}
        return make_case(cid, self.tables, Q(sql, m, [(n, e.t) for e, n in zip(proj, names)]), tags=[form])


# ---------------------------------------------------------------------------------------------
# Window functions (C26)
class WindowGen(Gen):
    def case(self, cid):
        r = self.rng
        ncols = r.randint(2, 3)
        t = self.table("t0", 0, ncols=ncols, nrows=r.randint(0, 6),
                       types=[r.choice(["int", "int", "dbl", "str", "date"]) for _ in range(ncols)])
        # unique, non-null tiebreak column
        ids = list(range(len(t.rows)))
        r.shuffle(ids)
        t.cols.append(("u0", "int"))
        for row, u in zip(t.rows, ids):
            row.append(u)
        t.nonnull.add("u0")
        self.tables = [t]
        al = self.fresh("x")
        cols = [Col(al, n, ty, base=True, nullable=(n not in t.nonnull)) for (n, ty) in t.cols]
        sc = Scope(cols)
        ucol = sc.ref(0, len(cols) - 1)
        data = list(range(len(cols) - 1))
        nwin = r.randint(1, 2)
        wins, wsql, wtypes = [], [], []
        for _ in range(nwin):
            part = [sc.ref(0, i) for i in r.sample(data, r.choice([0, 1, 1]))]
            nord = r.choice([0, 1, 1, 2])
            oidx = r.sample(data, min(nord, len(data)))
            ords = []
            for i in oidx:
                desc = r.randint(0, 1)
                nf = r.choice([None, 0, 1])
                ords.append((sc.ref(0, i), desc, nf))
            numeric = [i for i in data if cols[i].t in ("int", "dbl")]
            fam = r.choice(["rank", "rank", "agg", "agg", "pos", "pos", "value"])
            if not ords and fam != "agg":
                fam = "agg"
            f, a_e, k, dflt, frame, total = None, None, 0, None, {"mode": "default"}, False
            fsql_frame = ""
            if fam == "rank":
                f = r.choice(["rank", "dense_rank", "percent_rank", "cume_dist"])
                call, rt = f"{f.upper()}()", ("avg_int" if f in ("percent_rank", "cume_dist") else "int")
            elif fam == "pos":
                f = r.choice(["row_number", "ntile", "lag", "lead"])
                total = True
                if f == "row_number":
                    call, rt = "ROW_NUMBER()", "int"
                elif f == "ntile":
                    k = r.randint(1, 4)
                    call, rt = f"NTILE({k})", "int"
                else:
                    a_e = sc.ref(0, r.choice(data))
                    k = r.randint(1, 2)
                    if r.random() < 0.4:
                        dflt = self.lit_for(a_e.t)
                        call = f"{f.upper()}({a_e.sql}, {k}, {dflt.sql})"
                    else:
                        call = f"{f.upper()}({a_e.sql}, {k})" if r.random() < 0.7 or k != 1 else f"{f.upper()}({a_e.sql})"
                    rt = a_e.t
            elif fam == "value":
                f = r.choice(["first_value", "last_value", "nth_value"])
                total = True
                a_e = sc.ref(0, r.choice(data))
                if f == "nth_value":
                    k = r.randint(1, 3)
                    call = f"NTH_VALUE({a_e.sql}, {k})"
                else:
                    call = f"{f.upper()}({a_e.sql})"
                rt = a_e.t
            else:
                f = r.choice(["count*", "count", "sum", "min", "max"])
                if f == "count*":
                    call, rt = "COUNT(*)", "int"
                else:
                    pool = numeric if f == "sum" else data
                    if not pool:
                        f, call, rt = "count*", "COUNT(*)", "int"
                    else:
                        a_e = sc.ref(0, r.choice(pool))
                        call, rt = f"{f.upper()}({a_e.sql})", ("int" if f == "count" else a_e.t)
            # frame
            if fam in ("agg", "value") and ords and r.random() < 0.6:
                if r.random() < 0.6:
                    total = True
                    lo = r.choice([("up", 0), ("p", 1), ("p", 2), ("cr", 0)])
                    hi = r.choice([("cr", 0), ("f", 1), ("f", 2), ("uf", 0)])
                    mode = "rows"
                else:
                    lo, hi = r.choice([(("up", 0), ("cr", 0)), (("cr", 0), ("uf", 0)), (("up", 0), ("uf", 0))])
                    mode = "range"
                def b(x):
                    return {"up": "UNBOUNDED PRECEDING", "p": f"{x[1]} PRECEDING", "cr": "CURRENT ROW", "f": f"{x[1]} FOLLOWING", "uf": "UNBOUNDED FOLLOWING"}[x[0]]
                fsql_frame = f" {mode.upper()} BETWEEN {b(lo)} AND {b(hi)}"
                frame = {"mode": mode, "lo": {"t": lo[0], "n": lo[1]}, "hi": {"t": hi[0], "n": hi[1]}}
            if total and ords is not None:
                ords = ords + [(ucol, 0, None)]
            over = []
            if part:
                over.append("PARTITION BY " + ", ".join(p.sql for p in part))
            if ords:
                over.append("ORDER BY " + ", ".join(
                    f"{e.sql}{' DESC' if d else ''}{'' if nf is None else (' NULLS FIRST' if nf else ' NULLS LAST')}" for (e, d, nf) in ords))
            wsql.append(f"{call} OVER ({' '.join(over)}{fsql_frame})")
            wtypes.append(rt)
            wins.append({"f": f, "a": a_e.m if a_e is not None else TRUE_M, "k": k, "dflt": dflt.m if dflt is not None else {"k": "lit", "v": NULL},
                         "part": [p.m for p in part], "ord": [{"e": e.m, "desc": d, "nf": (nf if nf is not None else 0)} for (e, d, nf) in ords],
                         "frame": frame})
        base = [sc.ref(0, len(cols) - 1)] + [sc.ref(0, i) for i in r.sample(data, r.randint(1, len(data)))]
        names = [self.fresh("k") for _ in range(len(base) + nwin)]
        items = [f"{e.sql} AS {n}" for e, n in zip(base, names)] + [f"{w} AS {n}" for w, n in zip(wsql, names[len(base):])]
        where = self.pred(sc, 0) if r.random() < 0.25 else None
        sql = "SELECT " + ", ".join(items) + f" FROM {t.name} AS {al}" + (f" WHERE {where.sql}" if where else "")
        proj = [e.m for e in base] + [{"k": "col", "d": 0, "i": len(cols) + j + 1} for j in range(nwin)]
        m = {"k": "select", "from": {"k": "table", "name": t.name}, "where": where.m if where else TRUE_M, "group": {"on": 0}, "wins": wins,
             "proj": proj, "distinct": 0, "order": [], "limit": -1, "offset": 0}
        return make_case(cid, self.tables, Q(sql, m, [(n, e.t) for e, n in zip(base, names)] + list(zip(names[len(base):], wtypes))),
                         tags=[w["f"] for w in wins])


# ---------------------------------------------------------------------------------------------
# Second generation of targeted shapes: skewed packed join keys, HAVING + top-N over group keys,
# non-equality correlated [NOT] EXISTS over duplicate outer rows, CTEs referenced from a subquery
# and from the main query, chained set operations with mixed quantifiers, wide integer group keys.
class Shapes2(OptShapes):
    SHAPES = ["pjk_skew", "having_topn", "topn_offset", "corr_exists_noneq", "corr_exists_or", "cte_multi", "cte_semi", "setop_chain", "agg_wide", "union_join_str", "samecols_semi", "limit_zero", "spill_join", "limit_unordered"]

    def case(self, cid):
        r = self.rng
        only = self.o.get("only_shapes")
        shape = r.choice(only or self.SHAPES)
        q, tables = getattr(self, "s2_" + shape)()
        self.tables = tables
        return make_case(cid, tables, q, tags=[shape])

    def tab(self, name, cols, rows, nonnull=()):
        return Table(name, cols, rows, nonnull)

    # --- C03: two-column integer join keys with skewed ranges (packing modulus must cover BOTH sides) -----------
    def s2_pjk_skew(self):
        r = self.rng
        big = r.choice([2, 3, 5, 9])
        nl, nr = r.randint(1, 4), r.randint(2, 6)
        L = [[r.randint(0, 3), r.choice([0, 1, big, big - 1, 2])] + [r.randint(0, 3)] for _ in range(nl)]
        R = [[r.randint(0, 3), r.randint(0, 1), r.randint(0, 3)] for _ in range(nr)]
        if r.random() < 0.5:
            L, R = R, L
        t0 = self.tab("t0", [("p0", "int"), ("q0", "int"), ("v0", "int")], L, ("p0", "q0", "v0"))
        t1 = self.tab("t1", [("p1", "int"), ("q1", "int"), ("v1", "int")], R, ("p1", "q1", "v1"))
        a0, a1 = self.fresh("x"), self.fresh("x")
        c0, c1 = self.cols(t0, a0), self.cols(t1, a1)
        sc = Scope(c0 + c1)
        on1, on2 = self.cmp(sc.ref(0, 0), "=", sc.ref(0, 3)), self.cmp(sc.ref(0, 1), "=", sc.ref(0, 4))
        on = E(f"({on1.sql} AND {on2.sql})", {"k": "and", "a": on1.m, "b": on2.m}, "bool")
        fsql = f"t0 AS {a0} INNER JOIN t1 AS {a1} ON {on.sql}"
        fm = {"k": "join", "kind": "inner", "l": {"k": "table", "name": "t0"}, "r": {"k": "table", "name": "t1"}, "on": on.m, "ln": 3, "rn": 3}
        proj = [sc.ref(0, 0), sc.ref(0, 1), sc.ref(0, 2), sc.ref(0, 5)]
        return self.sel(fsql, fm, proj), [t0, t1]

    # --- C09: GROUP BY + HAVING + ORDER BY group keys + LIMIT [OFFSET] ----------------------------------------------
    def _fact(self, n=None):
        r = self.rng
        n = r.randint(3, 9) if n is None else n
        rows = [[r.randint(0, 4), r.choice([0, 1, 2, 5, None]), r.randint(0, 2)] for _ in range(n)]
        return self.tab("t0", [("g0", "int"), ("v0", "int"), ("h0", "int")], rows, ("g0", "h0"))

    def tref(self, t):
        """(FROM text, Scope) for a single table: half the time unaliased with bare column names"""
        if self.rng.random() < 0.5:
            return t.name, Scope([Col(None, n, ty, base=True, nullable=(n not in t.nonnull)) for (n, ty) in t.cols])
        a = self.fresh("x")
        return f"{t.name} AS {a}", Scope(self.cols(t, a))

    def s2_having_topn(self):
        r = self.rng
        t0 = self._fact()
        a0, sc = self.tref(t0)
        keys = [sc.ref(0, 0)] + ([sc.ref(0, 2)] if r.random() < 0.4 else [])
        f = r.choice(["sum", "count", "max", "min"])
        aggs = [self.agg_e(f, sc.ref(0, 1)), self.agg_e("count*", None)]
        g = self.gref(keys, aggs)
        having = self.cmp(g.ref(0, len(keys) + r.randint(0, 1)), r.choice([">", ">=", "<", "<>"]), Lit("int", r.randint(0, 3)))
        proj = [g.ref(0, i) for i in range(len(keys) + 2)]
        order = [(i, r.randint(0, 1)) for i in range(len(keys))]
        q = self.sel(a0, {"k": "table", "name": "t0"}, proj, group=(keys, aggs, having if r.random() < 0.8 else None),
                     order=order, limit=r.randint(1, 3))
        if r.random() < 0.4:
            off = r.randint(1, 2)
            q.sql += f" OFFSET {off}"
            q.m["offset"] = off
        return q, [t0]

    def s2_topn_offset(self):
        r = self.rng
        t0 = self._fact(r.randint(4, 10))
        a0, sc = self.tref(t0)
        proj = [sc.ref(0, 0), sc.ref(0, 1), sc.ref(0, 2)]
        w = self.cmp(sc.ref(0, 2), r.choice([">=", "<>", "<"]), Lit("int", r.randint(0, 2))) if r.random() < 0.5 else None
        q = self.sel(a0, {"k": "table", "name": "t0"}, proj, where=w, order=[(0, r.randint(0, 1)), (1, r.randint(0, 1)), (2, 0)], limit=r.randint(0, 4))
        if r.random() < 0.7:
            off = r.randint(1, 5)
            q.sql += f" OFFSET {off}"
            q.m["offset"] = off
        return q, [t0]

    # --- C23: correlated [NOT] EXISTS that cannot become a plain equi semi/anti join, duplicate outer rows --------
    def _outer_inner(self):
        r = self.rng
        base = [[r.randint(0, 3), r.randint(0, 2)] for _ in range(r.randint(1, 3))]
        rows = base + [list(r.choice(base)) for _ in range(r.randint(1, 3))]          # duplicate outer rows
        r.shuffle(rows)
        t0 = self.tab("t0", [("a0", "int"), ("b0", "int")], rows, ("a0", "b0"))
        t1 = self.tab("t1", [("a1", "int"), ("b1", "int")], [[r.randint(0, 3), r.randint(0, 2)] for _ in range(r.randint(0, 4))], ("a1", "b1"))
        return t0, t1

    def _exists(self, sc, t1, corr_ops, neg):
        r = self.rng
        a1 = self.fresh("x")
        sub_sc = Scope(self.cols(t1, a1), sc)
        op = r.choice(corr_ops)
        corr = self.cmp(sub_sc.ref(0, 0), op, sub_sc.ref(1, 0))
        if r.random() < 0.5:
            extra = self.cmp(sub_sc.ref(0, 1), r.choice(["=", "<=", "<>"]), sub_sc.ref(1, 1) if r.random() < 0.5 else Lit("int", r.randint(0, 2)))
            corr = E(f"({corr.sql} AND {extra.sql})", {"k": "and", "a": corr.m, "b": extra.m}, "bool")
        sub = self.sel(f"t1 AS {a1}", {"k": "table", "name": "t1"}, [sub_sc.ref(0, 1)], where=corr)
        return E(f"({'NOT ' if neg else ''}EXISTS ({sub.sql}))", {"k": "exists", "q": sub.m, "neg": neg}, "bool")

    def s2_corr_exists_noneq(self):
        r = self.rng
        t0, t1 = self._outer_inner()
        a0 = self.fresh("x")
        sc = Scope(self.cols(t0, a0))
        w = self._exists(sc, t1, ["<", ">", "<>", "<=", ">="], r.randint(0, 1))
        return self.sel(f"t0 AS {a0}", {"k": "table", "name": "t0"}, [sc.ref(0, 0), sc.ref(0, 1)] if r.random() < 0.6 else [sc.ref(0, 0)], where=w), [t0, t1]

    def s2_corr_exists_or(self):
        r = self.rng
        t0, t1 = self._outer_inner()
        a0 = self.fresh("x")
        sc = Scope(self.cols(t0, a0))
        ex = self._exists(sc, t1, ["=", "=", "<", "<>"], r.randint(0, 1))
        other = self.cmp(sc.ref(0, 1), r.choice(["=", ">", "<>"]), Lit("int", r.randint(0, 2)))
        w = E(f"({ex.sql} OR {other.sql})", {"k": "or", "a": ex.m, "b": other.m}, "bool") if r.random() < 0.7 else \
            E(f"({other.sql} AND {ex.sql})", {"k": "and", "a": other.m, "b": ex.m}, "bool")
        return self.sel(f"t0 AS {a0}", {"k": "table", "name": "t0"}, [sc.ref(0, 0), sc.ref(0, 1)], where=w), [t0, t1]

    # --- C28: a CTE referenced from the main query AND from a subquery expression -----------------------------------
    def _cte(self, t0):
        a = self.fresh("x")
        sc = Scope(self.cols(t0, a))
        r = self.rng
        w = self.cmp(sc.ref(0, 1), r.choice([">=", "<>", "<"]), Lit("int", r.randint(0, 2))) if r.random() < 0.5 else None
        q = self.sel(f"t0 AS {a}", {"k": "table", "name": "t0"}, [sc.ref(0, 0), sc.ref(0, 1)], where=w)
        name = self.fresh("c")
        return name, q

    def _cte_ref(self, name, q, outer=None):
        al = self.fresh("x")
        return al, Scope([Col(al, n, t) for (n, t) in q.cols], outer)

    def s2_cte_multi(self):
        r = self.rng
        t0 = self.tab("t0", [("a0", "int"), ("b0", "int")], [[r.randint(0, 4), r.randint(0, 3)] for _ in range(r.randint(1, 5))], ("a0", "b0"))
        t1 = self.tab("t1", [("k1", "int")], [[r.randint(0, 4)] for _ in range(r.randint(0, 4))], ("k1",))
        name, cq = self._cte(t0)
        al, sc = self._cte_ref(name, cq)
        # reference 2: scalar aggregate over the CTE; reference 3 (sometimes): IN over t1 / over the CTE again
        al2, sc2 = self._cte_ref(name, cq, sc)
        ag = self.agg_e(r.choice(["max", "min", "sum", "count"]), sc2.ref(0, 1))
        g2 = self.gref([], [ag])
        sub = self.sel(f"{name} AS {al2}", {"k": "cte", "name": name}, [g2.ref(0, 0)], group=([], [ag], None))
        sube = E(f"({sub.sql})", {"k": "scalar", "q": sub.m}, "int")
        conj = [self.cmp(sc.ref(0, 1), r.choice(["<", "<=", "=", "<>"]), sube)]
        if r.random() < 0.7:
            a1 = self.fresh("x")
            s1 = Scope(self.cols(t1, a1), sc)
            insub = self.sel(f"t1 AS {a1}", {"k": "table", "name": "t1"}, [s1.ref(0, 0)])
            conj.append(E(f"({sc.ref(0, 0).sql} IN ({insub.sql}))", {"k": "insub", "a": sc.ref(0, 0).m, "q": insub.m, "neg": 0}, "bool"))
            r.shuffle(conj)
        w = conj[0]
        for c in conj[1:]:
            w = E(f"({w.sql} AND {c.sql})", {"k": "and", "a": w.m, "b": c.m}, "bool")
        body = self.sel(f"{name} AS {al}", {"k": "cte", "name": name}, [sc.ref(0, 0), sc.ref(0, 1)], where=w)
        sql = f"WITH {name} AS ({cq.sql}) {body.sql}"
        m = {"k": "with", "ctes": [{"name": name, "q": cq.m}], "body": body.m}
        return Q(sql, m, body.cols), [t0, t1]

    def s2_cte_semi(self):
        r = self.rng
        t0 = self.tab("t0", [("a0", "int"), ("b0", "int")], [[r.randint(0, 4), r.randint(0, 3)] for _ in range(r.randint(1, 5))], ("a0", "b0"))
        t1 = self.tab("t1", [("k1", "int")], [[r.randint(0, 4)] for _ in range(r.randint(0, 4))], ("k1",))
        name, cq = self._cte(t0)
        al, sc = self._cte_ref(name, cq)
        al2 = self.fresh("x")
        cols2 = [Col(al2, n, t) for (n, t) in cq.cols]
        both = Scope(sc.cols + cols2)
        on = self.cmp(both.ref(0, 0), r.choice(["=", "<=", "<>"]), both.ref(0, 2))
        a1 = self.fresh("x")
        s1 = Scope(self.cols(t1, a1), both)
        insub = self.sel(f"t1 AS {a1}", {"k": "table", "name": "t1"}, [s1.ref(0, 0)])
        neg = 1 if r.random() < 0.25 else 0
        w = E(f"({both.ref(0, 0).sql} {'NOT ' if neg else ''}IN ({insub.sql}))", {"k": "insub", "a": both.ref(0, 0).m, "q": insub.m, "neg": neg}, "bool")
        fsql = f"{name} AS {al} INNER JOIN {name} AS {al2} ON {on.sql}"
        fm = {"k": "join", "kind": "inner", "l": {"k": "cte", "name": name}, "r": {"k": "cte", "name": name}, "on": on.m, "ln": 2, "rn": 2}
        body = self.sel(fsql, fm, [both.ref(0, 0), both.ref(0, 1), both.ref(0, 3)], where=w)
        sql = f"WITH {name} AS ({cq.sql}) {body.sql}"
        return Q(sql, {"k": "with", "ctes": [{"name": name, "q": cq.m}], "body": body.m}, body.cols), [t0, t1]

    # --- C24: chained set operations with mixed quantifiers (non-NULL data: the engine is right there today) ----------
    def s2_setop_chain(self):
        r = self.rng
        tabs = [self.tab(f"t{i}", [(f"a{i}", "int")], [[r.randint(0, 3)] for _ in range(r.randint(0, 4))], (f"a{i}",)) for i in range(3)]
        def branch(t, i):
            a = self.fresh("x")
            sc = Scope(self.cols(t, a))
            w = self.cmp(sc.ref(0, 0), r.choice([">=", "<>", "<="]), Lit("int", r.randint(0, 3))) if r.random() < 0.3 else None
            return self.sel(f"{t.name} AS {a}", {"k": "table", "name": t.name}, [sc.ref(0, 0)], where=w)
        n = r.choice([3, 3, 4])
        qs = [branch(r.choice(tabs), i) for i in range(n)]
        ops = [(r.choice(["union", "union", "union", "intersect", "except"]), r.randint(0, 1)) for _ in range(n - 1)]
        # non-NULL data keeps INTERSECT/EXCEPT inside what the engine gets right only for the non-ALL forms
        ops = [(op, al if op == "union" else 0) for (op, al) in ops]
        kw = lambda op, al: {"union": "UNION", "intersect": "INTERSECT", "except": "EXCEPT"}[op] + (" ALL" if al else "")
        paren = r.random() < 0.3 and n >= 3
        if paren:
            # a OP1 (b OP2 c) [OP3 d]
            inner_m = {"k": "setop", "op": ops[1][0], "all": ops[1][1], "l": qs[1].m, "r": qs[2].m, "order": [], "limit": -1, "offset": 0}
            sql = f"{qs[0].sql} {kw(*ops[0])} ({qs[1].sql} {kw(*ops[1])} {qs[2].sql})"
            m = {"k": "setop", "op": ops[0][0], "all": ops[0][1], "l": qs[0].m, "r": inner_m, "order": [], "limit": -1, "offset": 0}
            rest = list(zip(qs[3:], ops[2:]))
        else:
            sql, m = qs[0].sql, qs[0].m
            rest = list(zip(qs[1:], ops))
        for (q, (op, al)) in rest:
            # INTERSECT binds tighter than UNION/EXCEPT in SQL: parenthesise the accumulated left side explicitly
            sql = f"({sql}) {kw(op, al)} {q.sql}" if ("UNION" in sql or "EXCEPT" in sql or "INTERSECT" in sql) and not sql.startswith("(") else f"{sql} {kw(op, al)} {q.sql}"
            m = {"k": "setop", "op": op, "all": al, "l": m, "r": q.m, "order": [], "limit": -1, "offset": 0}
        name = qs[0].cols[0][0]
        if r.random() < 0.5:
            sql += f" ORDER BY {name}"
            m["order"] = [{"e": {"k": "col", "d": 0, "i": 1}, "desc": 0, "nf": 0}]
            if r.random() < 0.5:
                lim = r.randint(1, 4)
                sql += f" LIMIT {lim}"
                m["limit"] = lim
        return Q(sql, m, [(name, "int")]), tabs

    # --- C31/C03: both join inputs have the SAME column names; a qualified IN / NOT IN key that belongs to either input -----
    # (rules that reason about unqualified names -- semi-join pushdown, predicate / projection pushdown -- must follow the qualifier)
    def s2_samecols_semi(self):
        r = self.rng
        mk = lambda n: [[r.randint(0, 3), r.randint(0, 3), r.randint(0, 2)] for _ in range(n)]
        t0 = self.tab("t0", [("id", "int"), ("ref", "int"), ("v", "int")], mk(r.randint(1, 5)), ("id", "ref", "v"))
        t1 = self.tab("t1", [("id", "int"), ("ref", "int"), ("v", "int")], mk(r.randint(1, 5)), ("id", "ref", "v"))
        t2 = self.tab("t2", [("id", "int"), ("v", "int")], [[r.randint(0, 3), r.randint(0, 2)] for _ in range(r.randint(0, 4))], ("id", "v"))
        a0, a1 = self.fresh("x"), self.fresh("x")
        both = Scope(self.cols(t0, a0) + self.cols(t1, a1))
        on = self.cmp(both.ref(0, r.choice([0, 1])), "=", both.ref(0, r.choice([3, 4])))
        a2 = self.fresh("x")
        s2 = Scope(self.cols(t2, a2), both)
        w2 = self.cmp(s2.ref(0, 1), r.choice(["<=", ">=", "<>"]), Lit("int", r.randint(0, 2))) if r.random() < 0.4 else None
        insub = self.sel(f"t2 AS {a2}", {"k": "table", "name": "t2"}, [s2.ref(0, 0)], where=w2)
        key = both.ref(0, r.choice([0, 3, 3, 1, 4, 2, 5]))          # a column of the left OR the right input, always qualified
        neg = 1 if r.random() < 0.25 else 0
        w = E(f"({key.sql} {'NOT ' if neg else ''}IN ({insub.sql}))", {"k": "insub", "a": key.m, "q": insub.m, "neg": neg}, "bool")
        if r.random() < 0.3:
            extra = self.cmp(both.ref(0, r.choice([2, 5])), r.choice(["<=", ">="]), Lit("int", r.randint(0, 2)))
            w = E(f"({w.sql} AND {extra.sql})", {"k": "and", "a": w.m, "b": extra.m}, "bool")
        fsql = f"t0 AS {a0} INNER JOIN t1 AS {a1} ON {on.sql}"
        fm = {"k": "join", "kind": "inner", "l": {"k": "table", "name": "t0"}, "r": {"k": "table", "name": "t1"}, "on": on.m, "ln": 3, "rn": 3}
        proj = [both.ref(0, i) for i in sorted(r.sample(range(6), r.randint(2, 4)))]
        return self.sel(fsql, fm, proj, where=w), [t0, t1, t2]

    # --- C08: joins whose build side has hundreds of distinct keys in several batches (every hash partition of the spill path gets
    # rows, and gets them from more than one build batch) ---------------------------------------------------------------------
    def s2_spill_join(self):
        r = self.rng
        n0, n1 = r.choice([130, 200, 260]), r.choice([130, 200, 260])
        ids0 = list(range(n0)); r.shuffle(ids0)
        ids1 = [i + r.choice([0, 0, 40]) for i in range(n1)]; r.shuffle(ids1)
        t0 = self.tab("t0", [("k0", "int"), ("p0", "int")], [[i, (i * 3) % 7] for i in ids0], ("k0", "p0"))
        t1 = self.tab("t1", [("k1", "int"), ("p1", "int")], [[i, (i * 5) % 11] for i in ids1], ("k1", "p1"))
        a0, a1 = self.fresh("x"), self.fresh("x")
        sc = Scope(self.cols(t0, a0) + self.cols(t1, a1))
        on = self.cmp(sc.ref(0, 0), "=", sc.ref(0, 2))
        kind = r.choice(["inner", "inner", "inner", "left"])
        fsql = f"t0 AS {a0} {kind.upper()} JOIN t1 AS {a1} ON {on.sql}"
        fm = {"k": "join", "kind": kind, "l": {"k": "table", "name": "t0"}, "r": {"k": "table", "name": "t1"}, "on": on.m, "ln": 2, "rn": 2}
        return self.sel(fsql, fm, [sc.ref(0, 0), sc.ref(0, 1), sc.ref(0, 3)]), [t0, t1]

    # --- C01/C25/C07: LIMIT n OFFSET m WITHOUT ORDER BY over inputs that arrive in several batches / partitions: which rows come
    # back is free, HOW MANY is not (min(n, max(0, rows - m))), and every returned row is a row of the input -------------------
    def s2_limit_unordered(self):
        r = self.rng
        n = r.randint(6, 14)
        t0 = self.tab("t0", [("a0", "int"), ("b0", "int")], [[i, r.randint(0, 3)] for i in range(n)], ("a0", "b0"))
        a0, sc = self.tref(t0)
        w = self.cmp(sc.ref(0, 1), r.choice(["<=", ">=", "<>"]), Lit("int", r.randint(0, 3))) if r.random() < 0.25 else None
        lim, off = r.randint(1, n + 2), r.randint(0, n)
        q = self.sel(a0, {"k": "table", "name": "t0"}, [sc.ref(0, 0), sc.ref(0, 1)], where=w, limit=lim)
        if off:
            q = Q(q.sql + f" OFFSET {off}", q.m, q.cols)
            q.m["offset"] = off
        return q, [t0]

    # --- C45: a table that is only read under a LIMIT 0 (set-operation branch or sub-query): it still has to be there to bind -
    def s2_limit_zero(self):
        r = self.rng
        t0 = self.tab("t0", [("a0", "int"), ("b0", "int")], [[r.randint(0, 3), r.randint(0, 3)] for _ in range(r.randint(1, 5))], ("a0", "b0"))
        t1 = self.tab("t1", [("a1", "int"), ("b1", "int")], [[r.randint(0, 3), r.randint(0, 3)] for _ in range(r.randint(1, 4))], ("a1", "b1"))
        x0, x1 = self.fresh("x"), self.fresh("x")
        s0, s1 = Scope(self.cols(t0, x0)), Scope(self.cols(t1, x1))
        lim = r.choice([0, 0, 0, 1])
        form = r.choice(["union_r", "union_l", "exists", "in"])
        if form in ("union_r", "union_l"):
            q0 = self.sel(f"t0 AS {x0}", {"k": "table", "name": "t0"}, [s0.ref(0, 0), s0.ref(0, 1)])
            q1 = self.sel(f"t1 AS {x1}", {"k": "table", "name": "t1"}, [s1.ref(0, 0), s1.ref(0, 1)], order=[(0, 0), (1, 0)], limit=lim)
            al = r.randint(0, 1)
            kw = "UNION ALL" if al else "UNION"
            l, rr = (q0, q1) if form == "union_r" else (q1, q0)
            lsql = f"({l.sql})" if l is q1 else l.sql
            rsql = f"({rr.sql})" if rr is q1 else rr.sql
            m = {"k": "setop", "op": "union", "all": al, "l": l.m, "r": rr.m, "order": [], "limit": -1, "offset": 0}
            return Q(f"{lsql} {kw} {rsql}", m, list(l.cols)), [t0, t1]
        s1o = Scope(self.cols(t1, x1), s0)
        sub = self.sel(f"t1 AS {x1}", {"k": "table", "name": "t1"}, [s1o.ref(0, 0)], order=[(0, 0)], limit=lim)
        neg = r.randint(0, 1)
        if form == "exists":
            w = E(f"({'NOT ' if neg else ''}EXISTS ({sub.sql}))", {"k": "exists", "q": sub.m, "neg": neg}, "bool")
        else:
            w = E(f"({s0.ref(0, 0).sql} {'NOT ' if neg else ''}IN ({sub.sql}))", {"k": "insub", "a": s0.ref(0, 0).m, "q": sub.m, "neg": neg}, "bool")
        return self.sel(f"t0 AS {x0}", {"k": "table", "name": "t0"}, [s0.ref(0, 0), s0.ref(0, 1)], where=w), [t0, t1]

    # --- C30: UNION ALL of a plain scan and a hash join that gathers VARCHAR / other columns from a small build side ----------
    # (a join gather may hand back dictionary-encoded columns: every batch of the result must still carry the reported types,
    #  whichever branch produced the first batch)
    def s2_union_join_str(self):
        r = self.rng
        t0 = self.tab("t0", [("k0", "int"), ("s0", "str"), ("d0", r.choice(["date", "int", "dbl"]))],
                      [[r.randint(0, 3), r.choice([None, 0, 1, 2, 3, 4]), r.choice([None, 0, 1, 2])] for _ in range(r.randint(1, 5))], ("k0",))
        t1 = self.tab("t1", [("k1", "int"), ("s1", "str"), ("d1", t0.cols[2][1])],
                      [[r.randint(0, 3), r.choice([None, 0, 1, 2, 5, 6]), r.choice([None, 0, 1, 3])] for _ in range(r.randint(1, 5))], ("k1",))

        def plain():
            t = r.choice([t0, t1])
            a = self.fresh("x")
            sc = Scope(self.cols(t, a))
            idx = [1] + ([2] if two else [])
            return self.sel(f"{t.name} AS {a}", {"k": "table", "name": t.name}, [sc.ref(0, i) for i in idx])

        def joined():
            a0, a1 = self.fresh("x"), self.fresh("x")
            sc = Scope(self.cols(t0, a0) + self.cols(t1, a1))
            on = self.cmp(sc.ref(0, 0), "=", sc.ref(0, 3))
            kind = r.choice(["inner", "inner", "left"])
            fsql = f"t0 AS {a0} {kind.upper()} JOIN t1 AS {a1} ON {on.sql}"
            fm = {"k": "join", "kind": kind, "l": {"k": "table", "name": "t0"}, "r": {"k": "table", "name": "t1"}, "on": on.m, "ln": 3, "rn": 3}
            side = r.choice([0, 3])
            idx = [side + 1] + ([side + 2] if two else [])
            return self.sel(fsql, fm, [sc.ref(0, i) for i in idx])
        two = r.random() < 0.5
        n = r.choice([2, 2, 3])
        kinds = [r.choice(["p", "j"]) for _ in range(n)]
        if "j" not in kinds:
            kinds[r.randrange(n)] = "j"
        qs = [plain() if k == "p" else joined() for k in kinds]
        sql, m = qs[0].sql, qs[0].m
        for q in qs[1:]:
            sql = f"{sql} UNION ALL {q.sql}"
            m = {"k": "setop", "op": "union", "all": 1, "l": m, "r": q.m, "order": [], "limit": -1, "offset": 0}
        return Q(sql, m, list(qs[0].cols)), [t0, t1]

    # --- C04/C21: integer group keys spanning more than the dense-path limit --------------------------------------------
    def s2_agg_wide(self):
        r = self.rng
        wide = r.choice([1048576, 1100001, 3000010, 5000000, 70000000])
        keys = [0, 1, 2, wide, wide - 1, wide // 2]
        rows = [[r.choice(keys), r.choice([0, 1, 2, 3, None]), r.randint(0, 2)] for _ in range(r.randint(2, 9))]
        if r.random() < 0.8:
            rows.append([wide, r.randint(0, 3), 1])
        t0 = self.tab("t0", [("g0", "int"), ("v0", "int"), ("h0", "int")], rows, ("g0", "h0"))
        a0, sc = self.tref(t0)
        keysx = [sc.ref(0, 0)]
        aggs = [self.agg_e("count*", None), self.agg_e(r.choice(["sum", "sum", "count", "min", "max"]), sc.ref(0, 1 if r.random() < 0.5 else 2))]
        if r.random() < 0.4:
            aggs.append(E(f"AVG({sc.ref(0, 2).sql})", {"f": "avg", "a": sc.ref(0, 2).m, "distinct": 0}, "avg_int"))
        g = self.gref(keysx, aggs)
        return self.sel(a0, {"k": "table", "name": "t0"}, [g.ref(0, i) for i in range(1 + len(aggs))], group=(keysx, aggs, None)), [t0]
