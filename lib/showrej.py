#!/usr/bin/env python3
import sys, json
N = -1073741824
rej = json.load(open(sys.argv[1]))
lim = int(sys.argv[2]) if len(sys.argv) > 2 else 10
def fmt(rows): return [[None if v == N else v for v in r] for r in rows]
n = 0
for r in rej:
    if r['devs'] and len(sys.argv) <= 3: continue
    c = r['case']
    n += 1
    if n > lim: break
    print("=" * 80); print(c['sql']); print("   cfg", r['cfg'], r['meta'].get('cfg'), "devs", r['devs'])
    for t in c['tables']: print("  ", t['name'], t['cols'], fmt(t['rows']))
    print("  got :", fmt(r['out']['rows']) if r['out']['k'] == 'rows' else r['out']); print("  want:", fmt(r['want']), c['out_types'])
