"""Shared machinery of C35 and C34 (spec/FrontDoor.tla, harness/src/node.rs).

(M)  TLC explores MCFrontDoor exhaustively (every order of LoadDone/LoadFail, Resolve, ProbeUp/ProbeDown, Tick,
     PeerDies - also while a request is pending -, Drain, and every request of the alphabet in every reachable
     node state), checking the contract clauses on the as-built decision table; every named design mutant must
     be rejected by a clause (kill matrix).
(R)  TLC emits one environment history per reachable node state and seeded random walks mixing environment
     steps and requests; requests of the spec's alphabet are attached to the state histories; `qev node-replay`
     steps every history through REAL in-process nodes (spawn(), real sockets, real Parquet files).
(V)  every observed step goes back to TLC (FrontDoorTrace.tla): strict = it is a step of the as-built model,
     contract = no clause of the property is violated.  Only a contract rejection is a VIOLATION.
"""
import json, os, random, copy
import vlib
from vlib import run_tlc, tlc_must_pass, qev, write_ndjson, read_ndjson, validate_trace, ToolError, log

NP = 2

# ---- statements: name -> (class, sql, ordered, tag) ------------------------------------------------------------
# class labels are the property's reading of "exactly-mergeable shape" (single-table scan with filters and
# projections, COUNT/SUM/MIN/MAX, GROUP BY, ORDER BY, LIMIT = scatter; DISTINCT / COUNT(DISTINCT) / UNION / CTE /
# window = gather-only; no base table = undistributable; non-SELECT = unsupported).
CATALOG = {
    "sc_count":      ("scatter", "SELECT COUNT(*) AS n FROM t", 1, "one"),
    "sc_count_f":    ("scatter", "SELECT COUNT(*) AS n, SUM(a) AS s, MIN(a) AS lo, MAX(a) AS hi FROM t WHERE a >= 5", 1, "one"),
    "sc_sum_group":  ("scatter", "SELECT g, COUNT(*) AS n, SUM(a) AS s, MIN(c) AS lo, MAX(c) AS hi FROM t GROUP BY g", 0, "many"),
    "sc_concat":     ("scatter", "SELECT a, g, b, c FROM t", 0, "many"),
    "sc_filter":     ("scatter", "SELECT a, b FROM t WHERE a >= 10 AND a < 31", 0, "many"),
    "sc_strings":    ("scatter", "SELECT b, c FROM t WHERE a < 24", 0, "many"),
    "sc_topn":       ("scatter", "SELECT a, b, c FROM t ORDER BY a LIMIT 7", 1, "many"),
    "sc_order_all":  ("scatter", "SELECT a, b, c, g FROM t ORDER BY a DESC", 1, "many"),
    "sc_bool":       ("scatter", "SELECT a, a > 20 AS big, c * 2 AS c2, b FROM t WHERE a <> 7", 0, "many"),
    "sc_empty":      ("scatter", "SELECT a, b, c FROM t WHERE a < 0", 0, "zero"),
    "big_0":         ("scatter", "SELECT k, v, s FROM big WHERE k < 0", 0, "zero"),
    "big_1":         ("scatter", "SELECT k, v, s FROM big WHERE k < 1", 0, "one"),
    "big_4096":      ("scatter", "SELECT k, v, s FROM big WHERE k < 4096", 0, "4096"),
    "big_4097":      ("scatter", "SELECT k, v, s FROM big WHERE k < 4097", 0, "4097"),
    "big_all":       ("scatter", "SELECT k, v, s FROM big", 0, "10000"),
    "big_all_ord":   ("scatter", "SELECT k, v, s FROM big ORDER BY k", 1, "10000"),
    "ga_distinct":   ("gather", "SELECT DISTINCT g FROM t", 0, "many"),
    "ga_cdistinct":  ("gather", "SELECT COUNT(DISTINCT g) AS n FROM t", 1, "one"),
    "ga_union":      ("gather", "SELECT a FROM t WHERE a < 3 UNION ALL SELECT a FROM t WHERE a > 44", 0, "many"),
    "ga_cte":        ("gather", "WITH x AS (SELECT a, g FROM t WHERE a < 20) SELECT g, COUNT(*) AS n FROM x GROUP BY g", 0, "many"),
    "ga_window":     ("gather", "SELECT a, ROW_NUMBER() OVER (ORDER BY a) AS r FROM t WHERE a < 5", 0, "many"),
    "ga_big":        ("gather", "SELECT DISTINCT k, s FROM big", 0, "10000"),
    "un_select1":    ("undist", "SELECT 1 AS one", 1, "one"),
    "un_expr":       ("undist", "SELECT 1 + 2 AS three, 'x' AS s", 1, "one"),
    "un_date":       ("undist", "SELECT DATE '2024-01-31' AS d, 7 AS n, 'it''s' AS q", 1, "one"),
    "ns_create":     ("unsup", "CREATE TABLE z (a INT)", 0, ""),
    "ns_explain":    ("unsup", "EXPLAIN SELECT a FROM t", 0, ""),
    "ns_insert":     ("unsup", "INSERT INTO t VALUES (1)", 0, ""),
    "iv_parse":      ("parse", "SELEC 1", 0, ""),
    "iv_parse2":     ("parse", "SELECT a FROM t WHERE", 0, ""),
    "nf_table":      ("notfound", "SELECT * FROM no_such_table", 0, ""),
    "nf_column":     ("notfound", "SELECT nope FROM t", 0, ""),
    "rt_div0":       ("rterr", "SELECT a / 0 AS q FROM t", 0, ""),
    "empty":         ("empty", "   ", 0, ""),
}
# what the engine itself must say about each class (checked once per run through `qev node-classify`)
EXPECT_CLASSIFY = {
    "scatter":  dict(local="ok", pd="ok"),
    "gather":   dict(local="ok", pd="unimpl", pg="ok"),
    "undist":   dict(local="ok", pd="unimpl", pg="unimpl"),
    "unsup":    dict(local="unimpl", pd="unimpl", pg="unimpl"),
    "parse":    dict(local="invalid"),
    "notfound": dict(local="notfound"),
    "rterr":    dict(local="internal", pd="ok"),
}
SIZE_TAG = {0: "zero", 1: "one", 4096: "4096", 4097: "4097", 10000: "10000"}

MODE_S = {"auto": ["", "auto"], "force": ["1", "true", "yes", "force"], "off": ["0", "false", "no", "local"], "bad": ["maybe", "on", "FORCE"]}
FMODE_S = {"auto": ["", "auto"], "force": ["force", "1", "true", "yes"], "off": ["off", "0", "false", "no", "local"], "bad": ["maybe"]}
FMT_S = {"arrow": ["", "arrow", "ipc"], "json": ["json"], "csv": ["csv"], "bad": ["jsonl", "xml"]}


def pick_stmt(rng, cls, n):
    tag = SIZE_TAG.get(n, "many") if cls == "scatter" else None
    names = [k for k, v in CATALOG.items() if v[0] == cls and (tag is None or v[3] == tag)]
    if not names:
        names = [k for k, v in CATALOG.items() if v[0] == cls]
    return rng.choice(sorted(names))


def concretize(rng, r, peers_in_view, sticky=None):
    """spec request [ep, mode, fmt, st{c,n}, tamper] -> harness step.  sticky: per-history dict so that one history keeps
    re-issuing the SAME statement text for a statement class (a node that remembers anything per statement text across
    membership / load changes is only visible when the text repeats)"""
    if sticky is None:
        name = pick_stmt(rng, r["st"]["c"], r["st"]["n"])
    else:
        key = (r["st"]["c"], r["st"]["n"])
        if key not in sticky:
            sticky[key] = pick_stmt(rng, r["st"]["c"], r["st"]["n"])
        name = sticky[key]
    cls, sql, ordered, _ = CATALOG[name]
    ep = r["ep"]
    step = {"a": "Req", "ep": ep, "mode": r["mode"], "fmt": r["fmt"], "cls": cls, "stmt": name, "sql": sql,
            "ordered": ordered, "tamper": r["tamper"], "dies": [],
            "mode_s": rng.choice(MODE_S[r["mode"]]), "fmode_s": rng.choice(FMODE_S[r["mode"]]),
            "fmt_s": rng.choice(FMT_S[r["fmt"]]), "swap": rng.randint(0, 1)}
    if ep == "both":
        step["fmt_s"] = rng.choice(FMT_S["arrow"])
    if ep in ("flight", "both"):
        step["cnt"] = 1
    elif ep == "sql":
        step["cnt"] = 1 if (peers_in_view or rng.random() < 0.15) else 0
    else:
        step["cnt"] = 0
    return step


# ---- TLC runs ------------------------------------------------------------------------------------------------------

def write_consts(ctx, name, **kw):
    c = dict(peers=NP, sizes=[0, 1], eps=["sql"], fmts=["arrow", "json", "csv", "bad"], mutant="none", emit="none", depth=14)
    c.update(kw)
    path = os.path.join(ctx.work, f"consts_{name}.json")
    with open(path, "w") as f:
        f.write(json.dumps(c) + "\n")
    return path


def model_check(ctx, label, workers=3, **kw):
    c = write_consts(ctx, "mc_" + kw.get("mutant", "none"), **kw)
    cfg = f"FrontDoor_{ctx.tier}.cfg"
    return run_tlc("MCFrontDoor", cfg, workers=workers, timeout=3000, env={"FD_CONSTS": c}, coverage=(ctx.tier == "thorough" and kw.get("mutant", "none") == "none"),
                   heap="4g", tag=f"{ctx.pid}-mc-{kw.get('mutant', 'none')}")


# the endpoint on which each design mutant shows (keeps the kill-matrix runs small)
MUTANT_EPS = {"auto_fallback": ["sql"], "force_local": ["sql"], "count_down_peers": ["sql"], "fragment_before_load": ["fragment"],
              "ready_ignores_drain": ["readyz"], "doget_mode_auto": ["both"], "no_version_check": ["flight"], "gfi_executes": ["both"],
              "trailer_last_slice": ["both"]}


def kill_matrix(ctx, mutants, sizes):
    out = {}
    for m in mutants:
        out[m] = model_check(ctx, m, workers=1, eps=MUTANT_EPS[m], sizes=sizes, fmts=["arrow"], mutant=m)
    return out


def emit_states(ctx, emit="states", **kw):
    c = write_consts(ctx, emit + str(kw.get("peers", NP)), emit=emit, **kw)
    return run_tlc("MCFrontDoor", "FrontDoor_states.cfg", workers=1, timeout=1500, env={"FD_CONSTS": c}, heap="2g", tag=f"{ctx.pid}-{emit}")


def emit_walks(ctx, num, depth, seed, **kw):
    c = write_consts(ctx, "walks", emit="walks", depth=depth, **kw)
    return run_tlc("MCFrontDoor", "FrontDoor_walks.cfg", workers=1, timeout=1500, env={"FD_CONSTS": c}, simulate=num, depth=4 * depth + 8,
                   seed=seed, heap="2g", tag=f"{ctx.pid}-walks")


def alphabet(eps, sizes):
    """the spec's Requests (same construction as FrontDoor.tla)"""
    stmts = [{"c": "scatter", "n": k} for k in sizes] + [{"c": x, "n": 5} for x in ("gather", "undist", "unsup", "parse", "notfound", "rterr", "empty")]
    small = {"c": "scatter", "n": 1 if 1 in sizes else sizes[0]}
    out = []
    R = lambda ep, m, f, s, t: {"ep": ep, "mode": m, "fmt": f, "st": s, "tamper": t}
    if "sql" in eps:
        out += [R("sql", m, f, s, "none") for m in MODE_S for f in FMT_S for s in stmts]
    if "fragment" in eps:
        out += [R("fragment", "off", "arrow", s, "none") for s in stmts if s["c"] in ("scatter", "parse")]
    if "readyz" in eps:
        out.append(R("readyz", "off", "arrow", small, "none"))
    if "healthz" in eps:
        out.append(R("healthz", "off", "arrow", small, "none"))
    if "both" in eps:
        out += [R("both", m, "arrow", s, "none") for m in MODE_S for s in stmts]
    if "flight" in eps:
        out += [R("flight", m, "arrow", s, t) for m in ("auto", "force", "off")
                for t in ("forged", "replay", "malformed", "notjson", "oversized", "v0", "v2", "nov", "badmode")
                for s in stmts if s["c"] in ("gather", "parse") or s == small]
    return out


def histories_from_states(ctx, cases, reqs, per_state, rng, dies_prob=0.5):
    """one history per TLC-emitted node state: its environment history, then requests of the alphabet:
    the cheap singletons (readyz, healthz), on a loaded node a core of (mode x mergeable / gather-only statement),
    and `per_state` more drawn from the whole alphabet"""
    hs = []
    singles = [r for r in reqs if r["ep"] in ("readyz", "healthz")]
    for case in cases:
        env = [dict(s) for s in case["h"]]
        st = case["s"]
        peers_in_view = any(v != "absent" for v in st["view"])
        draining = st["draining"]
        pool = [r for r in reqs if not (draining and r["ep"] in ("flight", "both")) and r["ep"] not in ("readyz", "healthz")]
        chosen = list(singles)
        if st["load"] == "loaded" and peers_in_view:
            for m in ("auto", "force", "off"):
                for c in ("scatter", "gather"):
                    cand = [r for r in pool if r["ep"] in ("sql", "both") and r["mode"] == m and r["st"]["c"] == c and r["fmt"] != "bad"]
                    if cand:
                        chosen.append(rng.choice(cand))
        chosen += rng.sample(pool, min(per_state, len(pool)))
        rng.shuffle(chosen)
        steps = env + [concretize(rng, r, peers_in_view) for r in chosen]
        # a peer dies while a request is pending (the decision was taken from the view, the fan-out meets the corpse)
        upalive = [i + 1 for i, v in enumerate(st["view"]) if v == "up" and st["alive"][i]]
        if upalive and st["load"] == "loaded" and rng.random() < dies_prob:
            cand = [r for r in pool if r["ep"] in ("sql", "both") and r["mode"] in ("auto", "force") and r["fmt"] != "bad"
                    and r["st"]["c"] in ("scatter", "gather")]
            if cand:
                s = concretize(rng, rng.choice(cand), True)
                s["dies"] = sorted(rng.sample(upalive, rng.randint(1, len(upalive))))
                s["cnt"] = 1
                steps.append(s)
                steps += [concretize(rng, r, True) for r in rng.sample(cand, min(2, len(cand)))]
        hs.append(steps)
    return hs


def flip_histories(cases, reqs, rng, n):
    """SAME statement text before and after the membership changes under it: on a loaded, resolved node with a peer up,
    an auto request for a distributable statement, then every up peer is probed down (the request re-issued verbatim after
    each), then the live ones are probed up again (re-issued again).  The decision must follow the view at each request."""
    hs = []
    ok = [c for c in cases if c["s"]["load"] == "loaded" and not c["s"]["draining"] and c["s"]["resolved"] and "up" in c["s"]["view"]]
    cand = [r for r in reqs if r["ep"] in ("sql", "both") and r["mode"] == "auto" and r["fmt"] != "bad" and r["st"]["c"] in ("scatter", "gather")
            and r.get("tamper", "none") == "none"]
    if not ok or not cand:
        return hs
    for case in rng.sample(ok, min(n, len(ok))):
        st = case["s"]
        x = concretize(rng, rng.choice(cand), True)
        x["cnt"] = 1 if x["ep"] == "sql" else x["cnt"]

        def again():
            return copy.deepcopy(x)
        steps = [dict(e) for e in case["h"]] + [again()]
        ups = [i + 1 for i, v in enumerate(st["view"]) if v == "up"]
        rng.shuffle(ups)
        for p_ in ups:
            steps += [{"a": "ProbeDown", "S": [], "p": p_}, again()]
        for p_ in ups:
            if st["alive"][p_ - 1]:
                steps += [{"a": "ProbeUp", "S": [], "p": p_}, again()]
        hs.append(steps)
    return hs


def histories_from_walks(cases, rng):
    """TLC walks: [env | Req r | PeerDies p (while pending) | Exec]*  ->  harness steps (PeerDies folded into dies)"""
    hs = []
    for case in cases:
        steps, view = [], {}
        pend = None
        sticky = {} if rng.random() < 0.75 else None
        draining = False
        again = None          # the first auto request on /sql (or flight) for a distributable class: re-issued verbatim after later environment steps
        for s in case["h"]:
            a = s["a"]
            if a == "Req":
                pend = concretize(rng, s["r"], True, sticky)
            elif a == "Exec":
                if pend is not None:
                    steps.append(pend)
                    if again is None and sticky is not None and pend["mode"] == "auto" and pend["ep"] in ("sql", "flight", "both") \
                            and pend["cls"] in ("scatter", "gather") and pend["fmt"] != "bad" and pend["tamper"] == "none":
                        again = pend
                pend = None
            elif a == "PeerDies" and pend is not None:
                pend["dies"].append(s["p"])
                pend["cnt"] = 1 if pend["ep"] == "sql" else pend["cnt"]
            else:
                steps.append(dict(s))
                if a == "Drain":
                    draining = True
                # (Flight stops with the shutdown signal: the spec never sends a flight / both request to a draining node)
                if again is not None and rng.random() < 0.6 and not (draining and again["ep"] in ("flight", "both")):
                    r2 = copy.deepcopy(again)
                    r2["dies"] = []
                    r2["cnt"] = 1 if r2["ep"] == "sql" else r2["cnt"]
                    steps.append(r2)
        hs.append(steps)
    return hs


# ---- replay on the real nodes ---------------------------------------------------------------------------------------

def replay(ctx, hists, tag, jobs=6, corrupt="", timeout=3000, peers=NP):
    inp = os.path.join(ctx.work, f"{tag}.in.ndjson")
    outp = os.path.join(ctx.work, f"{tag}.out.ndjson")
    write_ndjson(inp, [{"id": i, "steps": h} for i, h in enumerate(hists)])
    args = ["node-replay", inp, outp, os.path.join(ctx.work, "nodes"), str(jobs), corrupt, str(peers)]
    p = qev(args, timeout=timeout, check=False)
    if p.returncode != 0:
        # a crash of the harness process itself (seen once on the loaded shared box, not reproducible in 30 re-runs):
        # a tool problem, never a verdict; one more attempt with fewer concurrent histories, then exit 2
        log(f"[{ctx.pid}] qev node-replay exited {p.returncode}; stderr tail:\n{p.stderr[-3000:]}")
        ctx.add("harness_process_retries")
        import time
        time.sleep(3)
        args[4] = str(max(1, jobs // 2))
        qev(args, timeout=timeout)
    outs = read_ndjson(outp)
    return outs[:-1], outs[-1]["summary"]


def replay_with_retry(ctx, hists, tag, jobs=6, peers=NP):
    """a history the harness could not drive (timeout, socket error, view moved under a request) is re-run once
    on its own; if it fails again that is a tool error, never a verdict"""
    outs, summ = replay(ctx, hists, tag, jobs, peers=peers)
    bad = [o for o in outs if o.get("err") or any(s.get("obs", {}).get("stable", 1) == 0 for s in o["steps"])]
    if bad:
        ctx.add("histories_retried", len(bad))
        log(f"[{ctx.pid}] retrying {len(bad)} histories: {bad[0].get('err')}")
        again, _ = replay(ctx, [hists[o["id"]] for o in bad], tag + "_retry", jobs=1, peers=peers)
        for o, o2 in zip(bad, again):
            if o2.get("err") or any(s.get("obs", {}).get("stable", 1) == 0 for s in o2["steps"]):
                raise ToolError(f"history {o['id']} could not be driven twice: {o2.get('err') or 'view moved under a request'}")
            o2["id"] = o["id"]
            outs[o["id"]] = o2
    return outs, summ


# ---- observed history -> trace records ------------------------------------------------------------------------------

def _o(obs):
    return {"load": obs["load"], "resolved": obs["resolved"], "draining": obs["draining"], "view": obs["view"], "alive": obs["alive"]}


H0 = {"status": 0, "dist": -1, "reason": 0, "nr": "", "rows": -1, "body": -1, "body_ok": -1, "rows_eq": -1, "frags": 0, "exec": 0}
F0 = {"gfi": "skipped", "gexec": 0, "dg": "skipped", "dist": -1, "reason": 0, "rows": -1, "trows": -1, "trailers": 0, "tlast": 0,
      "maxslice": 0, "dexec": 0, "frags": 0, "rows_eq": -1}


def fix_folded(recs):
    """a request whose peers die while it is pending: the harness snapshots once (after the deaths);
    give each folded PeerDies line the intermediate alive vector"""
    out = []
    i = 0
    while i < len(recs):
        j = i
        while j < len(recs) and recs[j]["ev"] == "env" and recs[j]["a"] == "PeerDies" and recs[j].get("folded"):
            j += 1
        if j > i:
            final = recs[j]["o"] if j < len(recs) else recs[j - 1]["o"]
            dead_later = [r["p"] for r in recs[i:j]]
            for k, r in enumerate(recs[i:j]):
                o = copy.deepcopy(final)
                for p in dead_later[k + 1:]:
                    o["alive"][p - 1] = 1
                r2 = dict(r, o=o)
                r2.pop("folded", None)
                out.append(r2)
            i = j
        else:
            out.append(recs[i])
            i += 1
    return out


def trace_of(out):
    recs = [{"ev": "reset"}]
    for s in out["steps"]:
        obs = s.get("obs")
        if obs is None:
            break
        if s["a"] != "Req":
            recs.append({"ev": "env", "a": s["a"], "S": s.get("S", []), "p": s.get("p", 0), "o": _o(obs)})
            continue
        for p in s.get("dies", []):
            recs.append({"ev": "env", "a": "PeerDies", "S": [], "p": p, "o": _o(obs), "folded": 1})
        recs.append(None)   # placeholder, filled below
        recs[-1] = _req_record(s, obs)
    return fix_folded(recs)


def _req_record(s, obs):
    h, f, x = dict(H0), dict(F0), {"schema_eq": -1, "rows_eq": -1}
    refn = -1
    if "http" in obs:
        q = obs["http"]
        h.update(status=q["status"], dist=q.get("dist", -1), reason=q.get("reason", 0), nr=q.get("nr", ""),
                 rows=q.get("rows_hdr", -1), body=q.get("rows_body", -1), body_ok=q.get("body_ok", -1), rows_eq=q.get("rows_eq", -1),
                 frags=max(0, q.get("frags", 0)), exec=max(0, q.get("selfq", 0)))
        refn = q.get("ref_rows", -1)
    if "flight" in obs:
        q = obs["flight"]
        d = q.get("dg", {})
        f.update(gfi=q["gfi"], gexec=1 if (q.get("gfi_selfq", 0) > 0 or q.get("gfi_frags", 0) > 0) else 0,
                 dg=d.get("code", "skipped"), dist=d.get("dist", -1), reason=d.get("reason", 0), rows=q.get("rows_body", -1),
                 trows=d.get("trailer_rows", -1), trailers=d.get("trailers", 0), tlast=d.get("trailer_last", 0),
                 maxslice=d.get("max_slice", 0), dexec=max(0, q.get("dg_selfq", 0)), frags=max(0, q.get("dg_frags", 0)),
                 rows_eq=q.get("rows_eq", -1))
        if refn < 0:
            refn = q.get("ref_rows", -1)
    if "cross" in obs:
        x = {"schema_eq": obs["cross"]["schema_eq"], "rows_eq": obs["cross"]["rows_eq"]}
    return {"ev": "req", "o": _o(obs), "h": h, "f": f, "x": x,
            "r": {"ep": s["ep"], "mode": s["mode"], "fmt": s["fmt"], "c": s["cls"], "tamper": s["tamper"],
                  "counted": s.get("cnt", 0), "refn": refn}}


# ---- judging ----------------------------------------------------------------------------------------------------------

def _validate(ctx, events, tag, peers=NP):
    path = os.path.join(ctx.work, f"trace_{tag}.ndjson")
    write_ndjson(path, events)
    consts = write_consts(ctx, f"trace{peers}", peers=peers)
    return validate_trace("FrontDoorTrace", "FrontDoorTrace.cfg", path, timeout=3000, env={"FD_CONSTS": consts},
                          tag=f"{ctx.pid}-{tag}", heap="4g")


def judge(ctx, outs, hists, tag, what, budget=8, chunks=1, peers=NP):
    """Traces are validated by TLC in `chunks` parallel runs.  A line the contract rejects stops its run:
    VIOLATION, that history is taken out and the rest of the chunk re-validated.  Lines that are not steps of the
    as-built model are printed as DRIFT (fidelity, exit 0).  Returns the number of histories accepted."""
    from concurrent.futures import ThreadPoolExecutor
    traces = [trace_of(o) for o in outs]
    idxs = list(range(len(traces)))
    chunks = max(1, min(chunks, len(idxs)))
    parts = [idxs[k::chunks] for k in range(chunks)]
    results = {}

    def work(k, part):
        todo = [(i, traces[i]) for i in part]
        n_ok, rnd, drifts, viols, runs = 0, 0, {}, [], []
        while todo:
            events = [e for _, t in todo for e in t]
            ok, rej, res = _validate(ctx, events, f"{tag}-{k}-{rnd}", peers=peers)
            log(f"[{ctx.pid}] trace validation {tag}/{k}: {len(todo)} histories, {len(events)} events, {res.wall:.0f}s, "
                f"{'accepted' if ok else 'REJECTED ' + json.dumps(rej)[:300]}")
            runs.append((res, f"trace validation {tag}/{k}: {len(todo)} histories, {len(events)} events"))
            starts, n = [], 0
            for idx, t in todo:
                starts.append((n, idx, t))
                n += len(t)

            def locate(line):
                for n0, idx, t in starts:
                    if line <= n0 + len(t):
                        return idx, line - n0
                raise ToolError(f"trace validation {tag}: line {line} outside the trace")
            limit = len(events) if ok else rej["line"] - 1
            for kind, d in res.prints:
                if kind == "DRIFT" and d["line"] <= limit:
                    idx, at = locate(d["line"])
                    drifts.setdefault(idx, []).append((at, d))
            if ok:
                n_ok += len(todo)
                break
            idx, at = locate(rej["line"])
            viols.append((idx, at, rej))
            pos = [j for j, (i, _) in enumerate(todo) if i == idx][0]
            n_ok += pos
            todo = todo[pos + 1:]
            rnd += 1
            if rnd > budget:
                # enough rejected histories to report (each one is a VIOLATION with its own replay file); the rest of this
                # chunk stays unexamined and is counted as such -- never a tool error, which would hide the verdict
                log(f"[{ctx.pid}] trace validation {tag}/{k}: {budget + 1} histories rejected, {len(todo)} histories left unexamined")
                ctx.add("histories_unexamined_after_rejections", len(todo))
                break
        return n_ok, drifts, viols, runs

    with ThreadPoolExecutor(max_workers=chunks) as ex:
        futs = [ex.submit(work, k, part) for k, part in enumerate(parts)]
        outs_ = [f.result() for f in futs]
    n_ok = 0
    drift_lines = {}
    for n, drifts, viols, runs in outs_:
        n_ok += n
        drift_lines.update(drifts)
        for res, label in runs:
            ctx.tlc_stats(res, label)
        for idx, at, rej in viols:
            ev = traces[idx][at - 1]
            ctx.violation({"kind": "history", "what": what, "steps": hists[idx], "reject": dict(rej, at=at), "event": ev,
                           "observed": [s.get("obs") for s in outs[idx]["steps"]][-3:]},
                          f"{what}: the real node violated {sorted(rej.get('clauses', []))} at event {at} "
                          f"({json.dumps(ev.get('r'))} on {json.dumps(ev.get('o'))}: http {json.dumps(ev.get('h'))} flight {json.dumps(ev.get('f'))})")
    ctx.add("histories_matching_model_exactly", n_ok - len([i for i in drift_lines]))
    for idx, ds in sorted(drift_lines.items()):
        ctx.add("drift_histories")
        ctx.add("drift_events", len(ds))
        at, d = ds[0]
        if len(ctx.notes) < 12:
            ev = traces[idx][at - 1]
            ctx.notes.append(f"drift ({tag}): history {idx} event {at} satisfies the contract but is not a step of the as-built model: "
                             f"{json.dumps({k: ev[k] for k in ev if k in ('a', 'S', 'p', 'r', 'o', 'h', 'f')})[:700]} -- model: {json.dumps(d)[:500]}")
    return n_ok


def foreign_notes(ctx, outs):
    """a distributed answer that differs from the single-node answer is C09's finding, not ours: counted, not judged"""
    n = 0
    for o in outs:
        for s in o["steps"]:
            obs = s.get("obs") or {}
            for door in ("http", "flight"):
                q = obs.get(door) or {}
                dist = q.get("dist", q.get("dg", {}).get("dist", -1))
                if dist == 1 and q.get("rows_eq") == 0:
                    n += 1
                    if n <= 3:
                        ctx.notes.append(f"foreign (C09): distributed answer differs from the single-node answer for {s['stmt']!r}: {q.get('detail', '')[:200]}")
    if n:
        ctx.add("foreign_findings", n)


def check_catalog(ctx):
    """the engine's own verdicts on the catalogue must be the ones the class labels assume"""
    inp = os.path.join(ctx.work, "stmts.json")
    outp = os.path.join(ctx.work, "stmts.out.json")
    json.dump([{"name": k, "sql": v[1]} for k, v in CATALOG.items() if v[0] != "empty"], open(inp, "w"))
    qev(["node-classify", inp, outp, os.path.join(ctx.work, "classify")], timeout=600)
    res = {r["name"]: r for r in json.load(open(outp))}
    for name, (cls, sql, _, tag) in CATALOG.items():
        if cls == "empty":
            continue
        r, e = res[name], EXPECT_CLASSIFY[cls]
        got = dict(local=r["local"], pd=r["plan_distributed"].split(":")[0], pg=r["plan_gather"].split(":")[0])
        for k, v in e.items():
            if got[k] != v:
                raise ToolError(f"catalogue: statement {name} ({cls}) is classified {got} by the engine, the label assumes {e}: {r['msg']}")
        if cls == "scatter" and tag in SIZE_TAG.values():
            want = {v: k for k, v in SIZE_TAG.items()}[tag]
            if r["rows"] != want:
                raise ToolError(f"catalogue: statement {name} returns {r['rows']} rows, expected {want}")
    return res


# ---- the common run ----------------------------------------------------------------------------------------------------

def state_key(o):
    return (o["load"], o["resolved"], o["draining"], tuple(o["view"]), tuple(o["alive"]))


def tally(ctx, outs, seen, tags):
    """evaluations, distinct non-trivial cases and the shape tags the vacuity guards need"""
    for out in outs:
        for s in out["steps"]:
            obs = s.get("obs")
            if obs is None:
                continue
            ctx.add("evaluations")
            if s["a"] != "Req":
                tags["env:" + s["a"]] = tags.get("env:" + s["a"], 0) + 1
                continue
            key = vlib.chash([state_key(obs), s["ep"], s["mode"], s["fmt"], s["stmt"], s["tamper"], s.get("dies", [])])
            peers = any(v != "absent" for v in obs["view"])
            nontrivial = (obs["load"] != "loaded") or peers or s["tamper"] != "none" or bool(s.get("dies"))
            if nontrivial and s["ep"] in ("sql", "fragment", "flight", "both"):
                seen.add(key)
            def t(name):
                tags[name] = tags.get(name, 0) + 1
            h = obs.get("http")
            f = obs.get("flight")
            if h is not None and s["ep"] in ("sql", "both"):
                if h["status"] == 503:
                    t("sql_refused_" + h.get("nr", ""))
                if h["status"] == 200:
                    t(f"answer_{s['mode']}_{'distributed' if h['dist'] == 1 else 'local'}")
                    if h.get("rows_eq") == 1:
                        t("decoded_" + s["fmt"])
                    if h["dist"] == 1 and h.get("frags", 0) > 0:
                        t("fragments_seen_on_peers")
                    if s["cls"] == "gather" and h["dist"] == 1:
                        t("gather_distributed")
                if s.get("dies") and h["status"] != 200:
                    t("failure_after_decision_is_an_error")
                dead_up = [i for i, v in enumerate(obs["view"]) if v == "up" and obs["alive"][i] == 0]
                if dead_up and s["mode"] == "auto" and s["cls"] == "scatter" and h["status"] != 200:
                    t("auto_meets_dead_peer")
            if h is not None and s["ep"] == "fragment":
                t("fragment_" + ("answered" if h["status"] == 200 else "refused_" + h.get("nr", "") if h["status"] == 503 else "error"))
            if h is not None and s["ep"] == "readyz":
                t("readyz_" + str(h["status"]) + ("_draining" if obs["draining"] else ""))
            if f is not None:
                d = f.get("dg", {})
                if d.get("code") == "ok":
                    t("flight_answer")
                    if f.get("rows_body", 0) > 4096:
                        t("flight_more_than_4096_rows")
                    if f.get("rows_body") == 0:
                        t("flight_empty_result")
                    if d.get("dist") == 1:
                        t("flight_distributed")
                if s["tamper"] in ("malformed", "notjson", "oversized", "v0", "v2", "nov", "badmode") and d.get("code") not in ("ok", "skipped"):
                    t("ticket_refused_" + s["tamper"])
                if f.get("gfi") not in ("ok", "skipped") or d.get("code") not in ("ok", "skipped"):
                    t("flight_error")


def run_family(ctx, P):
    """P: dict(eps, sizes_mc, sizes_emit, mutants, per_state, walks, walk_depth, jobs, what, required_tags, npeers_mc)"""
    from concurrent.futures import ThreadPoolExecutor
    check_catalog(ctx)
    rng = random.Random(ctx.seed * 7919 + 17)
    ex = ThreadPoolExecutor(max_workers=4)
    # (M) exhaustive + kill matrix, in the background
    f_mc = ex.submit(model_check, ctx, "as built", eps=P["eps"], sizes=P["sizes_mc"], peers=P.get("npeers_mc", NP))
    f_mut = ex.submit(kill_matrix, ctx, P["mutants"], P["sizes_mut"])
    # (R) emission
    f_s = ex.submit(emit_states, ctx, eps=P["eps"], sizes=P["sizes_emit"])
    res_w = emit_walks(ctx, P["walks"], P["walk_depth"], ctx.seed, eps=P["eps"], sizes=P["sizes_emit"])
    f_n = ex.submit(emit_states, ctx, emit="states_notick", eps=P["eps"], sizes=P["sizes_emit"])
    res_s = f_s.result()
    tlc_must_pass(res_s, "state emission")
    ctx.tlc_stats(res_s, "emission: one environment history per reachable node state")
    tlc_must_pass(res_w, "walk emission")
    ctx.tlc_stats(res_w, f"emission: {P['walks']} random walks of >= {P['walk_depth']} steps")
    if len(res_s.cases) < 300 or len(res_w.cases) < P["walks"] // 2:
        raise ToolError(f"emission: {len(res_s.cases)} node states, {len(res_w.cases)} walks")
    reqs = alphabet(P["eps"], P["sizes_emit"])
    res_n = f_n.result()
    tlc_must_pass(res_n, "state emission without discovery passes")
    ctx.tlc_stats(res_n, "emission: one environment history per reachable node state, single probes only (no Tick)")
    probing = [c for c in res_n.cases if any(st["a"] in ("ProbeUp", "ProbeDown") for st in c["h"])]
    probing = rng.sample(probing, min(P["probing"], len(probing)))
    hs = (histories_from_states(ctx, res_s.cases, reqs, P["per_state"], rng) + histories_from_walks(res_w.cases, rng)
          + histories_from_states(ctx, probing, reqs, P["per_state"], rng)
          + flip_histories(res_s.cases, reqs, rng, P.get("flips", 40)))
    ctx.set("emitted", {"node_states": len(res_s.cases), "walks": len(res_w.cases), "request_alphabet": len(reqs),
                        "node_states_by_single_probes_replayed": len(probing)})
    # (R) replay on real nodes, (V) judged by TLC
    outs, summ = replay_with_retry(ctx, hs, "replay", jobs=P["jobs"])
    log(f"[{ctx.pid}] replayed {summ['histories']} histories, {summ['requests']} requests in {summ['wall_s']:.0f}s")
    seen, tags = set(), {}
    tally(ctx, outs, seen, tags)
    n_ok = judge(ctx, outs, hs, "replay", P["what"], chunks=P.get("chunks", 3))
    foreign_notes(ctx, outs)
    ctx.add("histories_replayed", len(outs))
    ctx.add("traces_validated_against_impl", n_ok)
    ctx.set("shapes_exercised", dict(sorted(tags.items())))
    for s in (outs[len(outs) // 3]["steps"][-1], outs[-1]["steps"][-1]):
        ctx.sample({k: s[k] for k in s if k not in ("sql",)}, cap=4)
    # thorough: a second family on clusters of 3 peers (a sample of the 3-peer node states)
    if P.get("states3"):
        res3 = emit_states(ctx, eps=P["eps"], sizes=P["sizes_emit"], peers=3)
        tlc_must_pass(res3, "state emission (3 peers)")
        ctx.tlc_stats(res3, "emission: one environment history per reachable node state, 3 peers")
        cases3 = rng.sample(res3.cases, min(P["states3"], len(res3.cases)))
        hs3 = histories_from_states(ctx, cases3, reqs, P["per_state3"], rng)
        outs3, summ3 = replay_with_retry(ctx, hs3, "replay3", jobs=P["jobs"], peers=3)
        log(f"[{ctx.pid}] replayed {summ3['histories']} histories on 3-peer clusters, {summ3['requests']} requests in {summ3['wall_s']:.0f}s")
        tally(ctx, outs3, seen, tags)
        n3 = judge(ctx, outs3, hs3, "replay3", P["what"], chunks=P.get("chunks", 3), peers=3)
        foreign_notes(ctx, outs3)
        ctx.add("histories_replayed", len(outs3))
        ctx.add("traces_validated_against_impl", n3)
        ctx.set("shapes_exercised", dict(sorted(tags.items())))
        ctx.cov["emitted"]["node_states_3_peers"] = len(res3.cases)
        ctx.cov["emitted"]["node_states_3_peers_replayed"] = len(cases3)
    # (M) results
    res = f_mc.result()
    log(f"[{ctx.pid}] (M) exhaustive: {res.distinct} distinct / {res.generated} generated, depth {res.depth}, {res.wall:.0f}s")
    tlc_must_pass(res, "FrontDoor (as built)")
    ctx.tlc_stats(res, "(M) FrontDoor as built: Contract, DoorsSameClass, SlicesBounded, NotReadySaysWhy, TypeOK in every state")
    if res.distinct < 20000:
        raise ToolError(f"(M): only {res.distinct} states")
    if ctx.tier == "thorough":
        import re
        cov = {}
        for m in re.finditer(r"^<(\w+) line \d+, col \d+ to line \d+, col \d+ of module FrontDoor(?: \([\d ]+\))?>: (\d+):(\d+)", res.out, re.M):
            cov[m.group(1)] = cov.get(m.group(1), 0) + int(m.group(3))
        ctx.set("tlc_action_coverage", cov)
        # EnvAct = every environment step, EnvNext = Resolve/Tick/Probe*/PeerDies, Next = Decide(r), then Execute and Ack
        for act in ("EnvAct", "EnvNext", "Next", "Execute", "Ack"):
            if cov.get(act, 0) <= 0:
                raise ToolError(f"(M): action {act} never taken (coverage {cov})")
    kills = {}
    for m, r in f_mut.result().items():
        if r.error:
            raise ToolError(f"mutant {m}: TLC error {r.error[:300]}")
        clauses = sorted({c for k, d in r.prints if k == "VIOLATED" for c in d["clauses"]})
        if r.violated != "Contract" or not clauses:
            raise ToolError(f"kill matrix: the design mutant {m} is not rejected by the contract ({r.violated})")
        kills[m] = clauses
        ctx.tlc_stats(r, f"(M) design mutant {m}: rejected by {clauses}")
    ctx.set("design_mutants_rejected_by", kills)
    ex.shutdown()
    for t in P["required_tags"]:
        if tags.get(t, 0) == 0:
            raise ToolError(f"vacuity: no replayed request exercised '{t}' (seen: {sorted(tags)})")
    ctx.set("distinct_nontrivial", len(seen))
    ctx.set("exhaustive", True)
    return outs, tags


def replay_case(ctx, obj, what):
    c = obj["case"]
    hs = [c["steps"]]
    outs, summ = replay_with_retry(ctx, hs, "replay_one", jobs=1)
    seen, tags = set(), {}
    tally(ctx, outs, seen, tags)
    judge(ctx, outs, hs, "replay_one", what)
    ctx.set("distinct_nontrivial", max(1, len(seen)))
    ctx.sample({"steps": [s["a"] for s in c["steps"]], "last": {k: v for k, v in c["steps"][-1].items() if k != "sql"}})
