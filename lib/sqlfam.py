"""Statement families (generator option presets) for the SQL properties."""
OFF = {"group": False, "distinct": False, "setops": False, "subq": False, "cte": False, "derived": False}

# broad grammar (corpus tier)
FAMILIES = {
    "general": dict(seed=101, n=3000, opts={}),
    "bool": dict(seed=102, n=2500, opts={**OFF, "joins": False, "max_depth": 3, "null_p": 0.35, "like": True, "tables": 1, "max_rows": 6,
                                         "types": ["int", "int", "dbl", "str", "bool", "date"], "order": False}),
    "agg": dict(seed=103, n=3000, opts={**OFF, "group": True, "having": True, "null_p": 0.3, "join_kinds": ["inner", "left"], "boolops": False}),
    "join": dict(seed=104, n=3000, opts={**OFF, "boolops": False, "null_p": 0.3, "dom": 2}),
    "joinx": dict(seed=114, n=1500, opts={**OFF, "boolops": False, "null_p": 0.3, "dom": 2, "mixed_width_keys": True, "outer_chains": True}),
    "subq": dict(seed=105, n=2500, opts={**OFF, "subq": True, "joins": False, "boolops": True, "max_depth": 2, "null_p": 0.3, "dom": 2}),
    "setop": dict(seed=106, n=2000, opts={**OFF, "setops": True, "joins": False, "null_p": 0.35, "dom": 2, "setop_p": 1.0}),
    "order": dict(seed=107, n=2500, opts={**OFF, "joins": False, "boolops": False, "order_p": 1.0, "max_rows": 6, "null_p": 0.3, "dom": 3}),
    "csingle": dict(seed=109, n=3000, opts={**OFF, "joins": False, "const_atoms": False}),
    "cjoins": dict(seed=110, n=3000, opts={**OFF, "boolops": False, "const_atoms": False}),
    "scan": dict(seed=111, n=1500, opts={**OFF, "joins": False, "order": False, "max_rows": 8, "tables": 1, "const_atoms": False, "max_depth": 1}),
    "big": dict(seed=112, n=1200, opts={**OFF, "group": True, "max_rows": 14, "tables": 2, "cols": 3, "const_atoms": False, "boolops": False,
                                        "join_kinds": ["inner", "left"], "order_p": 0.8, "avg": False}),
    "optshapes": dict(seed=113, n=3000, gen="OptShapes", opts={}),
    "joingraph": dict(seed=115, n=2000, gen="JoinGraphs", opts={}),
    "valuesbig": dict(seed=139, n=10, gen="ValuesGen", opts={"tables": 1, "boolops": False, "like": False, "subq": False, "big_values": True}),
    "values": dict(seed=116, n=1500, gen="ValuesGen", opts={"tables": 1, "boolops": False, "like": False, "subq": False}),
    "gsets": dict(seed=117, n=2000, gen="GroupingSetsGen", opts={"null_p": 0.3, "boolops": False, "like": False, "subq": False, "dom": 2}),
    "window": dict(seed=118, n=3000, gen="WindowGen", opts={"null_p": 0.25, "boolops": False, "like": False, "subq": False, "dom": 3}),
    "topk": dict(seed=119, n=2500, opts={**OFF, "joins": False, "boolops": False, "order_p": 1.0, "max_rows": 9, "tables": 1, "null_p": 0.2, "dom": 2,
                                         "types": ["int", "int", "dbl", "str", "date"], "limit_p": 0.9, "offset_p": 0.35, "min_order_keys": 2, "const_atoms": False, "where_p": 0.25, "distinct_order_keys": True, "cols": 3}),
    "optshapes2": dict(seed=120, n=1500, gen="Shapes2", opts={"only_shapes": ["pjk_skew"]}),
    "distshapes": dict(seed=121, n=1500, gen="Shapes2", opts={"only_shapes": ["having_topn", "topn_offset", "agg_wide"]}),
    "subq2": dict(seed=122, n=1500, gen="Shapes2", opts={"only_shapes": ["corr_exists_noneq", "corr_exists_or"]}),
    "cte2": dict(seed=123, n=1500, gen="Shapes2", opts={"only_shapes": ["cte_multi", "cte_semi"]}),
    "samecols": dict(seed=133, n=800, gen="Shapes2", opts={"only_shapes": ["samecols_semi"]}),
    "limit0": dict(seed=137, n=500, gen="Shapes2", opts={"only_shapes": ["limit_zero"]}),
    "spilljoin": dict(seed=141, n=16, gen="Shapes2", opts={"only_shapes": ["spill_join"]}),
    "limoff": dict(seed=143, n=600, gen="Shapes2", opts={"only_shapes": ["limit_unordered"]}),
    "unionjoin": dict(seed=131, n=600, gen="Shapes2", opts={"only_shapes": ["union_join_str"]}),
    "setop3": dict(seed=124, n=1500, gen="Shapes2", opts={"only_shapes": ["setop_chain"]}),
    "aggwide": dict(seed=125, n=1000, gen="Shapes2", opts={"only_shapes": ["agg_wide"]}),
    "noalias": dict(seed=126, n=2500, opts={**OFF, "joins": False, "group": True, "group_p": 0.5, "having": True, "alias_p": 0.0, "tables": 1, "max_rows": 8,
                                            "const_atoms": False, "order_p": 0.5, "nonnull_col_p": 0.5}),
    "cte": dict(seed=108, n=2000, opts={**OFF, "cte": True, "derived": True, "cte_p": 1.0, "boolops": False, "group": True}),
}

# restricted grammar for the seeded tier: on the unchanged tree only spec-level deviations occur here
CLEAN = {
    "single": {**OFF, "joins": False, "const_atoms": False, "notin_sub": False},
    "joins": {**OFF, "boolops": False, "const_atoms": False, "notin_sub": False},
}
