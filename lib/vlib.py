"""Shared driver library for /verif checks (python3 stdlib only).

Exit codes of ./check:  0 = property held on everything explored (KNOWN-FINDING
lines allowed), 1 = VIOLATION line printed + replay file, 2 = tool error.
"""
import hashlib
import json
import os
import re
import shutil
import subprocess
import sys
import time

ROOT = os.path.dirname(os.path.dirname(os.path.abspath(__file__)))
SPEC = os.path.join(ROOT, "spec")
HARNESS = os.environ.get("VERIF_HARNESS_DIR") or os.path.join(ROOT, "harness")   # override: dev-time mutation testing on a scratch copy
WORK = os.environ.get("VERIF_WORK_DIR") or os.path.join(ROOT, "work")
EVID = os.environ.get("VERIF_EVID_DIR") or os.path.join(ROOT, "evidence")
if os.environ.get("VERIF_LEARN") and not os.environ.get("VERIF_EVID_DIR"):
    EVID = os.path.join(WORK, "evidence_learn")        # dev-time learning never overwrites committed evidence
REPLAYS = os.environ.get("VERIF_REPLAYS_DIR") or os.path.join(ROOT, "replays")
QEV = os.path.join(HARNESS, "target", "debug", "qev")
NULL = -1073741824


class ToolError(Exception):
    pass


def log(*a):
    print(*a, file=sys.stderr, flush=True)


def workdir(pid):
    d = os.path.join(WORK, pid)
    os.makedirs(d, exist_ok=True)
    return d


# --------------------------------------------------------------------------
# build

def build_harness():
    """Incremental cargo build of the harness (path dep on /repo, hooks on)."""
    t0 = time.time()
    env = dict(os.environ)
    env["CARGO_NET_OFFLINE"] = "true"
    lock = os.path.join(HARNESS, "Cargo.lock")
    if not os.path.exists(lock):
        shutil.copy("/repo/Cargo.lock", lock)
    p = subprocess.run(
        ["cargo", "build", "--offline", "--bins"],
        cwd=HARNESS, env=env, stdout=subprocess.PIPE, stderr=subprocess.STDOUT, text=True,
    )
    if p.returncode != 0:
        log(p.stdout[-6000:])
        raise ToolError("harness build failed (engine or harness does not compile)")
    log(f"[build] ok in {time.time()-t0:.1f}s")
    return QEV


def qev(args, *, stdin=None, timeout=600, env=None, check=True, cwd=None):
    e = dict(os.environ)
    e.setdefault("RUST_BACKTRACE", "0")
    if env:
        e.update(env)
    try:
        p = subprocess.run([QEV] + list(args), input=stdin, stdout=subprocess.PIPE,
                           stderr=subprocess.PIPE, text=True, timeout=timeout, env=e, cwd=cwd)
    except subprocess.TimeoutExpired:
        raise ToolError(f"qev {args[:2]} timed out after {timeout}s")
    if check and p.returncode != 0:
        log(p.stderr[-4000:])
        raise ToolError(f"qev {args[:2]} exited {p.returncode}")
    return p


# --------------------------------------------------------------------------
# TLC

class TlcResult:
    def __init__(self):
        self.out = ""
        self.generated = 0
        self.distinct = 0
        self.depth = 0
        self.cases = []
        self.prints = []
        self.violated = None      # name of violated invariant / property
        self.error = None         # TLC evaluation error text
        self.ok = False
        self.coverage = {}
        self.wall = 0.0
        self.cmd = ""
        self.cex = []             # counterexample states (text)


_CASE = re.compile(r'^<<"([A-Z_]+)", (".*")>>$')


def _parse_tlc(out, res):
    for line in out.splitlines():
        m = _CASE.match(line)
        if m:
            try:
                rec = json.loads(json.loads(m.group(2)))
            except Exception:
                continue
            if m.group(1) == "CASE":
                res.cases.append(rec)
            else:
                res.prints.append((m.group(1), rec))
            continue
        m = re.match(r"^(\d+) states generated, (\d+) distinct states found", line)
        if m:
            res.generated = int(m.group(1))
            res.distinct = int(m.group(2))
        m = re.match(r"^The depth of the complete state graph search is (\d+)", line)
        if m:
            res.depth = int(m.group(1))
        m = re.match(r"^Error: Invariant (\S+) is violated", line)
        if m:
            res.violated = m.group(1)
        m = re.match(r"^Error: Action property (\S+) is violated", line)
        if m:
            res.violated = m.group(1)
        m = re.match(r"^Error: Temporal properties were violated", line)
        if m:
            res.violated = "temporal"
        if "Error: Deadlock reached" in line:
            res.violated = "deadlock"
        m = re.match(r"^<(\w+) line \d+, col \d+ to line \d+, col \d+ of module (\w+)>: (\d+):(\d+)", line)
        if m:
            res.coverage[m.group(1)] = res.coverage.get(m.group(1), 0) + int(m.group(4))
    if "Model checking completed. No error has been found." in out or \
            re.search(r"Finished in .*", out) and res.violated is None and "Error:" not in out:
        res.ok = True
    if "Error:" in out and res.violated is None:
        i = out.index("Error:")
        res.error = out[i:i + 1500]
        res.ok = False
    if res.violated:
        res.ok = False
        i = out.find("Error:")
        res.cex = out[i:i + 6000]


def run_tlc(module, cfg, *, spec_dir=SPEC, workers=4, timeout=900, env=None, simulate=None,
            depth=None, coverage=False, heap="4g", deque=False, tag=None, seed=None,
            extra=None, postfail_ok=False):
    """Run TLC on spec_dir/module.tla with spec_dir/cfg.  Returns TlcResult."""
    tag = tag or module
    meta = os.path.join(WORK, "tlc", f"{tag}-{os.getpid()}-{int(time.time()*1000)%100000}")
    os.makedirs(meta, exist_ok=True)
    jopts = "-Xss1g"
    if deque:
        jopts += " -Dtlc2.tool.queue.IStateQueue=StateDeque"
    e = dict(os.environ)
    e["JAVA_TOOL_OPTIONS"] = jopts
    if env:
        e.update({k: str(v) for k, v in env.items()})
    cmd = ["java", f"-Xmx{heap}", "-XX:+UseParallelGC", "-cp", "/opt/veriftools/tla/tla2tools.jar:/opt/veriftools/tla/CommunityModules-deps.jar",
           "tlc2.TLC"]
    # prefer the wrapper on PATH (it has the right classpath)
    cmd = ["tlc"]
    cmd += ["-workers", str(workers), "-metadir", meta, "-noGenerateSpecTE", "-config", cfg]
    if coverage:
        cmd += ["-coverage", "1"]
    if simulate is not None:
        cmd += ["-simulate", f"num={simulate}"]
        if depth:
            cmd += ["-depth", str(depth)]
        if seed is not None:
            cmd += ["-seed", str(seed)]
    if extra:
        cmd += extra
    cmd += [module + ".tla"]
    res = TlcResult()
    res.cmd = " ".join(cmd)
    t0 = time.time()
    try:
        p = subprocess.run(cmd, cwd=spec_dir, env=e, stdout=subprocess.PIPE, stderr=subprocess.STDOUT,
                           text=True, timeout=timeout)
        res.out = p.stdout
    except subprocess.TimeoutExpired as ex:
        shutil.rmtree(meta, ignore_errors=True)
        raise ToolError(f"TLC {module}/{cfg} timed out after {timeout}s")
    finally:
        shutil.rmtree(meta, ignore_errors=True)
    res.wall = time.time() - t0
    _parse_tlc(res.out, res)
    if simulate is not None and res.violated is None and res.error is None:
        res.ok = True
    return res


def tlc_must_pass(res, what):
    """(M) runs: a violated invariant on the *model* is a tool/design error unless the caller handles it."""
    if res.error:
        log(res.out[-5000:])
        raise ToolError(f"TLC error in {what}: {res.error[:400]}")
    if res.violated:
        log(res.out[-5000:])
        raise ToolError(f"model {what} violates {res.violated} (spec-level counterexample)")
    if not res.ok:
        log(res.out[-3000:])
        raise ToolError(f"TLC did not complete for {what}")


def validate_trace(module, cfg, trace_path, *, spec_dir=SPEC, timeout=900, heap="4g", env=None, tag=None):
    """Trace validation: the trace spec reads IOEnv.TRACE; acceptance is decided by
    its POSTCONDITION, which prints <<"REJECT", json>> with the first unmatched line.
    Returns (accepted: bool, reject_info or None, TlcResult)."""
    e = {"TRACE": trace_path}
    if env:
        e.update(env)
    res = run_tlc(module, cfg, spec_dir=spec_dir, workers=1, timeout=timeout, env=e, deque=True,
                  heap=heap, tag=tag or module)
    rej = [r for (k, r) in res.prints if k == "REJECT"]
    acc = [r for (k, r) in res.prints if k == "ACCEPT"]
    if rej:
        return False, rej[0], res
    if acc and res.error is None or (res.ok and not rej):
        return True, None, res
    log(res.out[-5000:])
    raise ToolError(f"trace validation {module} neither accepted nor rejected: {str(res.error)[:400]}")


# --------------------------------------------------------------------------
# evidence / findings / violations

class Ctx:
    def __init__(self, pid, tier, seed, level):
        self.pid = pid
        self.tier = tier
        self.seed = seed
        self.level = level
        self.t0 = time.time()
        self.cov = {"samples": []}
        self.assumptions = []
        self.violations = []
        self.known_hits = {}
        self.notes = []
        self.findings = load_findings(pid)
        self.work = workdir(f"{pid}/{tier}-{seed}")

    # coverage counters
    def add(self, key, n=1):
        self.cov[key] = self.cov.get(key, 0) + n

    def set(self, key, v):
        self.cov[key] = v

    def sample(self, s, cap=6):
        if len(self.cov["samples"]) < cap:
            self.cov["samples"].append(s)

    def tlc_stats(self, res, label=None):
        self.add("states", res.distinct)
        self.add("transitions", res.generated)
        self.cov.setdefault("tlc_runs", []).append(
            {"what": label or "", "distinct": res.distinct, "generated": res.generated,
             "depth": res.depth, "wall_s": round(res.wall, 1), "cmd": res.cmd})
        if res.coverage:
            self.cov.setdefault("tlc_action_coverage", {}).update(res.coverage)

    def known(self, fid, what):
        """Report a listed known finding (printed once per id)."""
        if fid not in self.known_hits:
            self.known_hits[fid] = {"count": 0, "example": what}
        self.known_hits[fid]["count"] += 1

    def is_known(self, fid):
        return any(f.get("id") == fid and f.get("status") == "open" for f in self.findings)

    def violation(self, case, why):
        self.violations.append({"why": why, "case": case})

    def finish(self):
        wall = time.time() - self.t0
        cov = self.cov
        cov["known_findings_matched"] = self.known_hits
        if self.notes:
            cov["notes"] = self.notes
        ev = {
            "property_id": self.pid, "tier": self.tier, "seed": self.seed, "level": self.level,
            "coverage": cov, "assumptions": self.assumptions, "wall_s": round(wall, 2),
            "violations": len(self.violations),
        }
        evid = EVID if not self.pid.startswith("X") else os.path.join(WORK, "evidence_extra")   # X.. = stand-alone runs of sub-models; evidence/ holds listed properties only
        os.makedirs(evid, exist_ok=True)
        with open(os.path.join(evid, f"{self.pid}.json"), "w") as f:
            json.dump(ev, f, indent=1, sort_keys=True, default=str)
        for fid, h in sorted(self.known_hits.items()):
            print(f"KNOWN-FINDING: property={self.pid} {fid} x{h['count']} e.g. {json.dumps(h['example'], default=str)[:300]}")
        if self.violations:
            d = os.path.join(REPLAYS, self.pid)
            os.makedirs(d, exist_ok=True)
            seen = set()
            for v in self.violations[:20]:
                blob = json.dumps(v, sort_keys=True, default=str)
                h = hashlib.sha1(blob.encode()).hexdigest()[:12]
                if h in seen:
                    continue
                seen.add(h)
                path = os.path.join(d, f"{h}.json")
                with open(path, "w") as f:
                    json.dump({"property": self.pid, "tier": self.tier, "seed": self.seed, **v}, f, indent=1, default=str)
                print(f"VIOLATION property={self.pid} replay={path}")
                log(f"  why: {v['why'][:500]}")
            return 1
        return 0


def load_findings(pid=None):
    path = os.path.join(ROOT, "known_findings.jsonl")
    out = []
    if os.path.exists(path):
        for line in open(path):
            line = line.strip()
            if not line or line.startswith("#"):
                continue
            try:
                o = json.loads(line)
            except Exception:
                continue
            if pid is None or o.get("property") == pid or pid in o.get("also", []):
                out.append(o)
    return out


def write_ndjson(path, recs):
    with open(path, "w") as f:
        for r in recs:
            f.write(json.dumps(r, separators=(",", ":")) + "\n")


def read_ndjson(path):
    out = []
    with open(path) as f:
        for line in f:
            line = line.strip()
            if line:
                out.append(json.loads(line))
    return out


def chash(obj):
    return hashlib.sha1(json.dumps(obj, sort_keys=True, default=str).encode()).hexdigest()[:16]


def validate_records(ctx, module, cfg, recs, *, name="trace", max_rejects=4, timeout=900, env=None, heap="4g"):
    """Trace-validate a list of records; on rejection drop the rejected line and go on
    (so one rejection does not leave the rest unexamined).  Returns rejected records."""
    rejected = []
    recs = list(recs)
    n_validated = 0
    for rnd in range(max_rejects + 1):
        if not recs:
            break
        path = os.path.join(ctx.work, f"{name}.ndjson")
        write_ndjson(path, recs)
        ok, rej, res = validate_trace(module, cfg, path, timeout=timeout, env=env, tag=f"{ctx.pid}-{name}", heap=heap)
        ctx.tlc_stats(res, f"trace validation {module} ({len(recs)} records)")
        if ok:
            n_validated += len(recs)
            break
        i = rej["line"] - 1
        rejected.append(recs[i])
        n_validated += i
        recs = recs[i + 1:]
    ctx.add("traces_validated_against_impl", 1)
    ctx.add("trace_events_validated", n_validated)
    return rejected
