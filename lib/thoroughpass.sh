#!/bin/bash
# dev-time: run thorough tiers against /repo without touching the committed quick evidence; results in work/thoroughpass.log
cd /verif
export VERIF_EVID_DIR=/verif/work/evidence_thorough VERIF_REPLAYS_DIR=/verif/work/replays_thorough
mkdir -p $VERIF_EVID_DIR $VERIF_REPLAYS_DIR
lane() { for id in "$@"; do /usr/bin/time -f "%e" -o work/tp_$id.time ./check $id --tier thorough --no-build > work/tp_$id.log 2>&1; echo "$id exit=$? viol=$(grep -c '^VIOLATION' work/tp_$id.log) t=$(tail -1 work/tp_$id.time)" >> work/thoroughpass.log; done; }
lane "$@"
