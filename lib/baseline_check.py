#!/usr/bin/env python3
"""Compare the last nextest junit of /repo with BASELINE.json stable_pass. usage: baseline_check.py [junit.xml]"""
import json, sys, xml.etree.ElementTree as ET
b = json.load(open('/root/.vp/BASELINE.json'))
path = sys.argv[1] if len(sys.argv) > 1 else '/repo/target/nextest/pb/junit.xml'
root = ET.parse(path).getroot()
passed, failed = set(), set()
for ts in root.iter('testsuite'):
    for tc in ts.iter('testcase'):
        name = f"{tc.get('classname')}::{tc.get('name')}"
        bad = any(ch.tag in ('failure', 'error') for ch in tc)
        (failed if bad else passed).add(name)
stable = set(b['stable_pass'])
missing = sorted(stable - passed)
print(f"passed={len(passed)} failed={len(failed)} stable={len(stable)} stable_not_passing={len(missing)}")
for m in missing[:40]:
    print("  NOT PASSING:", m)
sys.exit(1 if missing else 0)
