"""Per-property manifest metadata."""
HOOK_COMMITS = ["5f5be67"]
NOT_APPLICABLE = {}
CHECKS = {
 "C41": dict(level="model_checking",
   technique="TLC reference state machine (RFC 7230 chunked decoder, one action per byte) enumerating all inputs in bound; spec->impl replay of every verdict",
   text="TLC explores the reference decoder over every encoding of every small body (all chunk compositions, extensions, hex case), every single-byte corruption of those encodings, and every byte string up to length 5/6 over a framing alphabet, checks the round-trip law on the model, and every (input, verdict) pair is replayed on the real decoder; exhaustive inside the bounds, so an accepted malformed frame, a rejected valid one, a wrong body or a panic within them cannot hide.",
   note="Trusted: TLC, the reference machine's reading of RFC 7230; whitespace next to size tokens and irregular trailers are deliberately left lenient; sizes >= 2^31 are abstract tokens (TLC ints are 32-bit)."),
 "C42": dict(level="model_checking",
   technique="TLC enumeration of all cpulists in bound with spec-rendered text, replayed on the real parser; trace validation of recorded calls against CpuList.tla",
   text="TLC enumerates every list of up to 2/3 parts (singletons, forward/reversed/overlapping ranges, junk tokens, whitespace, trailing newline) over a small id universe, renders the concrete text itself and states the denoted set; the real parser must return exactly that sorted set. Random larger lists and all small (work,pool) pairs incl. usize::MAX are recorded from the real code (hook + Topology::from_sysfs) and validated by TLC against the contract.",
   note="Trusted: TLC, the Rust renderer of random structured lists. Ids above ~300 and pathological ranges like 0-4000000000 are not explored."),
}
