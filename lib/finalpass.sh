#!/bin/bash
# dev-time: run every registered quick check against /repo in 3 lanes; results in work/finalpass.log
cd /verif
(cd harness && cargo build --offline --bins 2>&1 | tail -1)
rm -f work/finalpass.log
lane() { for id in "$@"; do /usr/bin/time -f "%e" -o work/fp_$id.time ./check $id --tier quick --no-build > work/fp_$id.log 2>&1; echo "$id exit=$? viol=$(grep -c '^VIOLATION' work/fp_$id.log) known=$(grep -c '^KNOWN-FINDING' work/fp_$id.log) t=$(cat work/fp_$id.time | tail -1)" >> work/finalpass.log; done; }
lane C07 C30 C45 C40 C36 C12 C15 C23 C26 C16 C20 C39 C06 C03 C37 &
lane C17 C01 C35 C43 C29 C11 C27 C28 C41 C33 C24 C13 C05 C18 C04 &
lane C14 C19 C21 C22 C31 C38 C34 C25 C32 C44 C09 C42 C10 C08 C02 &
wait
echo DONE >> work/finalpass.log
