#!/bin/bash
# dev-time: run checks against a seeded change on a scratch copy (never touches /repo)
# usage: lib/muttest.sh <patch.diff> <tier> <ID>...
P=$(realpath "$1"); TIER=$2; shift 2
cd /tmp/mut/repo && git checkout -q -- . && git clean -fdq && git apply "$P" || { echo "patch does not apply"; exit 2; }
export VERIF_HARNESS_DIR=/tmp/mut/harness VERIF_WORK_DIR=/tmp/mut/work VERIF_EVID_DIR=/tmp/mut/evidence VERIF_REPLAYS_DIR=/tmp/mut/replays
mkdir -p /tmp/mut/work /tmp/mut/evidence /tmp/mut/replays
cd /verif
for id in "$@"; do
  /usr/bin/time -f "%es" ./check $id --tier $TIER > /tmp/mut/last_$id.log 2>&1
  echo "$id exit=$? $(grep -c '^VIOLATION' /tmp/mut/last_$id.log) violations $(tail -1 /tmp/mut/last_$id.log)"
done
cd /tmp/mut/repo && git checkout -q -- . && git clean -fdq
