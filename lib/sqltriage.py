#!/usr/bin/env python3
"""debug helper: show rejected cases of a sql work dir: sqltriage.py <dir> [only-unexplained]"""
import sys, json, subprocess, os, re
sys.path.insert(0, os.path.dirname(__file__))
import vlib
d = sys.argv[1]
cases = {c['id']: c for c in vlib.read_ndjson(f'{d}/cases.ndjson')}
outs = {o['id']: o for o in vlib.read_ndjson(f'{d}/out.ndjson')}
res = vlib.run_tlc("SqlTrace", "SqlTrace.cfg", workers=1, env={"TRACE": os.path.abspath(f'{d}/trace.ndjson')}, deque=True)
N = vlib.NULL
def fmt(rows): return [[None if v == N else v for v in r] for r in rows]
for k, r in res.prints:
    if k != "REJECT": continue
    if len(sys.argv) > 2 and r['devs']: continue
    c = cases[r['id']]; o = outs[r['id']]['outs'][r['out'] - 1]
    print("=" * 100)
    print(r['id'], "devs:", r['devs'])
    print(c['sql'])
    for t in c['tables']:
        print("  ", t['name'], t['cols'], fmt(t['rows']))
    print("  got :", fmt(o.get('rows', [])) if o['k'] == 'rows' else o)
    print("  want:", fmt(r['want']), c['out_types'])
if res.error: print(res.out[-3000:])
