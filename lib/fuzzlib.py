"""C29 driver side: schemas, seed statements, macro expansion, token mutation (the Python twin of
SqlFuzz.tla's Mutate, used only to FREEZE mutants of the frozen SQL corpus), the supervisor that runs
statements through `qev fuzz-worker` child processes, and corpus I/O.  python3 stdlib only."""
import gzip
import hashlib
import json
import os
import random
import re
import resource
import signal
import subprocess
import threading
import time

import vlib

CORPUS = os.path.join(vlib.ROOT, "corpus", "fuzz")
FINDINGS = os.path.join(vlib.ROOT, "findings", "fuzz", "C29.json")
KEYWORDS = ["SELECT", "FROM", "WHERE", "(", ")", ",", "NULL", "*", "AND", "1", "BY", "''"]
STACK = 8 * 1024 * 1024
ADDRESS_SPACE = 12 * 1024 * 1024 * 1024


# --------------------------------------------------------------------------
# the three registered schemas (same table names, different column types / sizes)

def schemas():
    def cp(s):
        return [ord(c) for c in s]
    a_t1 = {"name": "t1", "cols": [["a", "int"], ["b", "i32"], ["s", "str"], ["d", "date"], ["f", "dbl"], ["g", "bool"]],
            "rows": [[1, 1, cp("a"), 19723, 0.5, 1], [2, 2, cp("ab"), 19754, 1.5, 0], [2, None, None, None, None, None],
                     [None, 3, cp(""), 19782, -2.0, 1], [7, 1, cp("a"), 11016, 10.0, None], [-1, 0, cp("é B"), 0, 0.0, 0]]}
    a_t2 = {"name": "t2", "cols": [["a", "int"], ["b", "i32"], ["s", "str"]],
            "rows": [[1, 1, cp("a")], [2, None, cp("b")], [None, 2, None], [3, 7, cp("ab")]]}
    a_t3 = {"name": "t3", "cols": [["k", "int"], ["v", "int"]], "rows": []}
    b_t1 = {"name": "t1", "cols": [["a", "i32"], ["b", "int"], ["s", "str"], ["d", "str"], ["f", "int"], ["g", "int"]],
            "rows": [[1, 1, cp("1"), cp("2024-01-01"), 1, 1], [2, 2, cp("x"), cp("x"), 0, 0], [None, None, None, None, None, None]]}
    b_t2 = {"name": "t2", "cols": [["a", "str"], ["b", "dbl"], ["s", "int"]],
            "rows": [[cp("1"), 1.0, 1], [cp("a"), None, 2], [None, 2.5, None]]}
    b_t3 = {"name": "t3", "cols": [["k", "date"], ["v", "bool"]], "rows": [[19723, 1], [None, None]]}
    rows = []
    for i in range(1100):
        rows.append([None if i % 97 == 13 else i, i % 7, None if i % 50 == 3 else cp("s" + str(i % 5)), 19000 + i % 400,
                     (i % 11) / 2.0, i % 2])
    c_t1 = {"name": "t1", "cols": a_t1["cols"], "rows": rows}
    c_t2 = {"name": "t2", "cols": a_t2["cols"], "rows": [[i * 50, i % 7, cp("s" + str(i % 5))] for i in range(20)]}
    c_t3 = {"name": "t3", "cols": [["k", "int"], ["v", "int"]], "rows": [[1, 10], [2, 20], [None, None]]}
    return {"A": [a_t1, a_t2, a_t3], "B": [b_t1, b_t2, b_t3], "C": [c_t1, c_t2, c_t3]}


# --------------------------------------------------------------------------
# seeds

def T(s):
    """split a statement into tokens: quoted strings and <REP:..> macros stay whole"""
    return re.findall(r"\S*<REP:\d+:[^>]*>\S*|'(?:[^']|'')*'|[A-Za-z_][A-Za-z_0-9.]*|\d+(?:\.\d+)?|<>|<=|>=|\|\||--|/\*|\*/|::|[^\sA-Za-z_0-9]", s)


WELL_TYPED = [
    # short ones first: the exhaustive depth-2 exploration takes the first seeds
    "SELECT a FROM t1 WHERE b > 1",
    "SELECT s , COUNT(*) FROM t1 GROUP BY s",
    "SELECT t1.a FROM t1 JOIN t2 ON t1.a = t2.b",
    "SELECT a FROM t1 ORDER BY a LIMIT 3",
    "SELECT a FROM t1 WHERE a IN ( SELECT a FROM t2 )",
    "SELECT UPPER ( s ) , a + 1 FROM t1",
    "SELECT a FROM t1 UNION SELECT a FROM t2",
    "SELECT MAX ( a ) FROM t1 HAVING MAX ( a ) > 1",
    "SELECT a , ROW_NUMBER ( ) OVER ( PARTITION BY s ORDER BY a ) FROM t1",
    "WITH c AS ( SELECT a FROM t1 ) SELECT * FROM c",
    "SELECT CASE WHEN a > 1 THEN s ELSE 'x' END FROM t1",
    "SELECT a FROM t1 WHERE EXISTS ( SELECT 1 FROM t2 WHERE t2.a = t1.a )",
    "SELECT DISTINCT s FROM t1 EXCEPT SELECT s FROM t2",
    "SELECT d , DATE_ADD ( 'month' , 1 , d ) FROM t1 WHERE d < DATE '2024-01-01'",
    # longer ones: simulation and depth-1 only
    "SELECT s , COUNT(*) , SUM ( a ) FROM t1 GROUP BY s HAVING COUNT(*) > 1 ORDER BY 2 DESC",
    "SELECT t1.a , t2.s FROM t1 LEFT JOIN t2 ON t1.a = t2.a AND t2.b IS NOT NULL WHERE t1.s LIKE 'a%'",
    "SELECT * FROM t1 , t2 WHERE t1.s = t2.s AND t1.f BETWEEN 0 AND 10",
    "SELECT ( SELECT MAX ( a ) FROM t2 ) , a FROM t1 ORDER BY 2 DESC NULLS FIRST OFFSET 1",
    "SELECT a FROM t1 WHERE s LIKE 'a%' OR NOT g",
    "SELECT a , SUM ( f ) FROM t1 GROUP BY ROLLUP ( a , s )",
    "SELECT a , SUM ( a ) OVER ( ORDER BY a ROWS BETWEEN 1 PRECEDING AND CURRENT ROW ) FROM t1",
    "SELECT a , LAG ( a , 1 ) OVER w , RANK ( ) OVER w FROM t1 WINDOW w AS ( PARTITION BY b ORDER BY a DESC )",
    "WITH c AS ( SELECT a , s FROM t1 ) , e AS ( SELECT a FROM c WHERE a > 1 ) SELECT c.s , e.a FROM c JOIN e ON c.a = e.a",
    "SELECT a FROM t1 WHERE a > ALL ( SELECT a FROM t2 ) OR a = ANY ( SELECT b FROM t2 )",
    "SELECT a FROM t1 WHERE a NOT IN ( 1 , 2 , NULL ) AND s IS NOT NULL",
    "SELECT COALESCE ( s , 'n' ) , NULLIF ( a , 2 ) , CAST ( a AS VARCHAR ) , CAST ( s AS BIGINT ) FROM t1",
    "SELECT a FROM t1 INTERSECT ALL SELECT a FROM t2 ORDER BY 1",
    "SELECT t1.a FROM t1 FULL OUTER JOIN t2 ON t1.s = t2.s RIGHT JOIN t3 ON t3.k = t1.a",
    "SELECT COUNT ( DISTINCT s ) , AVG ( f ) , MIN ( d ) , STDDEV ( f ) , BOOL_OR ( g ) FROM t1",
    "SELECT x.a FROM ( SELECT a , b FROM t1 WHERE b IS NOT NULL ) AS x WHERE x.b < 3",
    "SELECT a FROM t1 WHERE a IN ( SELECT b FROM t2 )",
    "SELECT t1.a FROM t1 CROSS JOIN t2 WHERE t1.b = t2.a",
    "SELECT EXTRACT ( YEAR FROM d ) , SUBSTRING ( s FROM 1 FOR 2 ) , POSITION ( 'a' IN s ) , TRIM ( s ) FROM t1",
    "VALUES ( 1 , 'a' ) , ( 2 , 'b' )",
    "SELECT 1",
    "SELECT a FROM t1 GROUP BY GROUPING SETS ( ( a ) , ( ) )",
    "SELECT a , s FROM t1 GROUP BY CUBE ( a , s ) ORDER BY a NULLS LAST , s",
    "SELECT a FROM t1 t JOIN t1 u USING ( a ) NATURAL JOIN t2",
    "SELECT s || 'x' , a % 2 , - a , a / 2 , a * f FROM t1 WHERE NOT ( a < 1 AND a > 0 )",
    "SELECT a FROM t1 WHERE d BETWEEN DATE '2020-01-01' AND d + INTERVAL '1' MONTH",
    "SELECT NTILE ( 2 ) OVER ( ORDER BY a ) , FIRST_VALUE ( s ) OVER ( PARTITION BY b ORDER BY a RANGE BETWEEN UNBOUNDED PRECEDING AND UNBOUNDED FOLLOWING ) FROM t1",
]

ILL_TYPED = [
    # unknown names
    "SELECT x FROM nosuch", "SELECT nocol FROM t1", "SELECT NOFUNC ( a ) FROM t1", "SELECT t9.a FROM t1", "SELECT a FROM t1 AS q WHERE t1.a = 1",
    "SELECT a FROM t1 JOIN t2 ON a = 1", "SELECT * FROM t1 JOIN t2 USING ( nocol )", "SELECT a FROM t1 ORDER BY nocol", "SELECT a FROM t1 GROUP BY nocol",
    # type mismatches
    "SELECT a + s FROM t1", "SELECT s > 1 FROM t1", "SELECT d + 'x' FROM t1", "SELECT UPPER ( a ) FROM t1", "SELECT SUM ( s ) FROM t1",
    "SELECT a FROM t1 WHERE s", "SELECT a FROM t1 WHERE a", "SELECT NOT a FROM t1", "SELECT - s FROM t1", "SELECT a FROM t1 WHERE d = 1",
    "SELECT CASE WHEN a THEN 1 ELSE 's' END FROM t1", "SELECT COALESCE ( a , s , d ) FROM t1", "SELECT a FROM t1 UNION SELECT s FROM t2",
    "SELECT a FROM t1 UNION SELECT a , b FROM t2", "SELECT a IN ( 'x' , 1 , DATE '2020-01-01' ) FROM t1", "SELECT a LIKE 1 FROM t1",
    "SELECT SUBSTRING ( a , 's' ) FROM t1", "SELECT DATE_ADD ( 1 , 'day' , s ) FROM t1", "SELECT a FROM t1 WHERE g > 1", "SELECT g + g FROM t1",
    "SELECT a BETWEEN 's' AND d FROM t1", "SELECT CAST ( s AS DATE ) , CAST ( d AS BOOLEAN ) , CAST ( g AS DATE ) , CAST ( f AS DATE ) FROM t1",
    "SELECT CAST ( 'abc' AS BIGINT ) , CAST ( 1e300 AS BIGINT ) , CAST ( '' AS DOUBLE ) , CAST ( a AS NOSUCHTYPE ) FROM t1",
    # aggregates / windows in the wrong place
    "SELECT a FROM t1 WHERE SUM ( a ) > 1", "SELECT s FROM t1 GROUP BY ROW_NUMBER ( ) OVER ( ORDER BY a )", "SELECT SUM ( SUM ( a ) ) FROM t1",
    "SELECT a , SUM ( b ) FROM t1", "SELECT a FROM t1 GROUP BY s", "SELECT SUM ( a ) OVER ( ORDER BY SUM ( a ) OVER ( ) ) FROM t1",
    "SELECT a FROM t1 JOIN t2 ON SUM ( t1.a ) = 1", "SELECT a FROM t1 WHERE ROW_NUMBER ( ) OVER ( ) = 1", "SELECT a FROM t1 HAVING a > 1",
    "SELECT COUNT ( * ) OVER ( PARTITION BY COUNT ( * ) ) FROM t1", "SELECT a FROM t1 ORDER BY SUM ( a )", "SELECT MAX ( a ) FROM t1 GROUP BY MAX ( a )",
    "SELECT a FROM t1 GROUP BY 99", "SELECT a FROM t1 ORDER BY 99", "SELECT a FROM t1 ORDER BY 0", "SELECT a FROM t1 GROUP BY 0", "SELECT a FROM t1 ORDER BY - 1",
    "SELECT NTILE ( 0 ) OVER ( ORDER BY a ) , LAG ( a , - 1 ) OVER ( ORDER BY a ) , NTH_VALUE ( a , 0 ) OVER ( ORDER BY a ) FROM t1",
    "SELECT SUM ( a ) OVER ( ORDER BY a ROWS BETWEEN 99999999999 PRECEDING AND 1 PRECEDING ) FROM t1",
    "SELECT SUM ( a ) OVER ( ORDER BY s RANGE BETWEEN 1 PRECEDING AND CURRENT ROW ) FROM t1",
    "SELECT SUM ( a ) OVER ( ROWS BETWEEN CURRENT ROW AND 1 PRECEDING ) FROM t1", "SELECT LAG ( a , 9223372036854775807 ) OVER ( ORDER BY a ) FROM t1",
    # unsupported syntax
    "CREATE TABLE x ( a INT )", "INSERT INTO t1 VALUES ( 1 )", "UPDATE t1 SET a = 1", "DELETE FROM t1", "DROP TABLE t1", "ALTER TABLE t1 ADD COLUMN z INT",
    "SELECT * FROM t1 , LATERAL ( SELECT t1.a ) x", "SELECT a FROM t1 QUALIFY ROW_NUMBER ( ) OVER ( ORDER BY a ) = 1", "SELECT a FROM t1 MINUS SELECT a FROM t2",
    "SELECT a FROM t1 FETCH FIRST 2 ROWS ONLY", "EXPLAIN SELECT 1", "SHOW TABLES", "SET x = 1", "SELECT * FROM t1 TABLESAMPLE ( 10 )", "SELECT a FROM t1 FOR UPDATE",
    "WITH RECURSIVE r AS ( SELECT 1 AS n UNION ALL SELECT n + 1 FROM r WHERE n < 5 ) SELECT * FROM r", "SELECT * FROM t1 PIVOT ( SUM ( a ) FOR s IN ( 'a' , 'b' ) )",
    "SELECT a FROM t1 ; SELECT a FROM t2", "SELECT TOP 3 a FROM t1", "SELECT a FROM t1 LIMIT 1 , 2", "SELECT * EXCLUDE ( a ) FROM t1", "SELECT a FROM t1 AS OF 1",
    "MERGE INTO t1 USING t2 ON t1.a = t2.a WHEN MATCHED THEN DELETE", "SELECT ARRAY [ 1 , 2 ] , MAP ( ) , ROW ( 1 , 2 ) , INTERVAL '1' DAY", "TABLE t1",
    "SELECT a FROM t1 WHERE a = ?", "SELECT a FROM t1 WHERE a = $1", "SELECT a :: VARCHAR FROM t1", "SELECT a [ 1 ] , s [ 0 ] FROM t1", "SELECT t1.* , t1.a.b FROM t1",
    "SELECT a FROM ( t1 )", "SELECT a FROM t1 NATURAL JOIN t1", "SELECT * FROM UNNEST ( ARRAY [ 1 ] )", "SELECT a FROM t1 WINDOW w AS ( ORDER BY a )",
    "SELECT a FROM t1 GROUP BY ALL", "SELECT DISTINCT ON ( a ) a FROM t1", "SELECT COUNT ( * ) FILTER ( WHERE a > 1 ) FROM t1", "SELECT LISTAGG ( s , ',' ) WITHIN GROUP ( ORDER BY a ) FROM t1",
    "", ";", "SELECT", "SELECT FROM", "SELECT * FROM", "( ( (", ") ) )", "SELECT 'unterminated", "SELECT \"a\" , `a` , [a] FROM t1", "SELECT a FROM t1 -- c", "SELECT /* c */ 1 /* unterminated",
    # empty / degenerate relations
    "SELECT * FROM t3", "SELECT SUM ( k ) , MAX ( v ) , COUNT ( * ) FROM t3", "SELECT k FROM t3 GROUP BY k", "SELECT * FROM t1 JOIN t3 ON t1.a = t3.k", "SELECT * FROM t1 LIMIT 0",
    "SELECT a FROM t1 LIMIT - 1", "SELECT a FROM t1 OFFSET - 1", "SELECT a FROM t1 LIMIT 18446744073709551615", "SELECT a FROM t1 LIMIT 99999999999999999999999999", "SELECT a FROM t1 OFFSET 9223372036854775807",
    "SELECT a FROM t1 LIMIT NULL", "SELECT a FROM t1 LIMIT 'x'", "SELECT a FROM t1 LIMIT 1 + 1", "SELECT a FROM t1 LIMIT a",
    "SELECT ( SELECT a FROM t2 ) FROM t1", "SELECT ( SELECT a , b FROM t2 LIMIT 1 ) FROM t1", "SELECT a FROM t1 WHERE a = ( SELECT a FROM t3 )",
    "SELECT a FROM t1 WHERE ( a , b ) IN ( SELECT a , b FROM t2 )", "SELECT a FROM t1 WHERE EXISTS ( SELECT t1.a FROM t2 GROUP BY t1.a )",
    "SELECT a FROM t1 x WHERE a = ( SELECT MAX ( a ) FROM t1 y WHERE y.b = x.b AND y.a = ( SELECT MIN ( a ) FROM t2 z WHERE z.a = y.a AND z.b = x.b ) )",
    "WITH c AS ( SELECT a FROM c ) SELECT * FROM c", "WITH c AS ( SELECT 1 ) , c AS ( SELECT 2 ) SELECT * FROM c", "WITH t1 AS ( SELECT s FROM t1 ) SELECT * FROM t1",
    # arithmetic and function edge values
    "SELECT 9223372036854775807 + 1", "SELECT ( - 9223372036854775807 - 1 ) / - 1", "SELECT ( - 9223372036854775807 - 1 ) % - 1", "SELECT 1 / 0 , 1 % 0 , 1.0 / 0 , 0.0 / 0",
    "SELECT a / 0 , a % 0 , a / ( a - a ) FROM t1", "SELECT b / 0 , b * 2147483647 , - b , ABS ( b ) FROM t1", "SELECT ABS ( - 9223372036854775807 - 1 ) , - ( - 9223372036854775807 - 1 )",
    "SELECT 9223372036854775807 * 9223372036854775807 , 9223372036854775807 - ( - 9223372036854775807 )", "SELECT SUM ( a * 9223372036854775807 ) FROM t1", "SELECT AVG ( a * 4611686018427387904 ) FROM t1",
    "SELECT MOD ( a , 0 ) , MOD ( - 9223372036854775807 - 1 , - 1 ) FROM t1", "SELECT POWER ( 10 , 400 ) , SQRT ( - 1 ) , LN ( 0 ) , LOG ( 0 , 0 ) , EXP ( 1000 )", "SELECT ROUND ( 1.5 , 400 ) , ROUND ( 1.5 , - 400 ) , ROUND ( f , a ) FROM t1",
    "SELECT CHR ( - 1 ) , CHR ( 1114112 ) , CHR ( 55296 ) , CHR ( 9223372036854775807 )", "SELECT FROM_BASE ( 'ff' , 0 )", "SELECT FROM_BASE ( 'ff' , 99 )", "SELECT FROM_BASE ( 'ff' , CAST ( NULL AS BIGINT ) )",
    "SELECT TO_BASE ( 255 , 1 )", "SELECT TO_BASE ( 255 , 99 )", "SELECT TO_BASE ( - 9223372036854775807 - 1 , 2 )", "SELECT FROM_BASE ( '' , 16 ) , FROM_BASE ( 'zz' , 10 ) , FROM_BASE ( 'ffffffffffffffffffff' , 16 )",
    "SELECT LPAD ( 'a' , - 1 , 'x' )", "SELECT RPAD ( 'a' , - 1 , 'x' )", "SELECT LPAD ( 'a' , 9223372036854775807 , 'x' )", "SELECT LPAD ( 'a' , 5 , '' ) , RPAD ( 'a' , 5 , '' )", "SELECT LPAD ( s , a , s ) , RPAD ( s , a , s ) FROM t1",
    "SELECT REPEAT ( 'ab' , - 1 ) , REPEAT ( '' , 1000000000 )", "SELECT REPEAT ( 'abcdefgh' , 1000000000000 )", "SELECT REPEAT ( s , a ) , LEFT ( s , a ) , RIGHT ( s , a ) FROM t1",
    "SELECT LEFT ( 'abc' , - 1 ) , RIGHT ( 'abc' , - 1 ) , LEFT ( 'abc' , 9223372036854775807 )", "SELECT SUBSTRING ( 'abc' , - 9223372036854775807 - 1 ) , SUBSTRING ( 'abc' , 9223372036854775807 , 9223372036854775807 ) , SUBSTRING ( 'abc' , 2 , - 1 )",
    "SELECT SUBSTRING ( s , a , a ) , SUBSTRING ( s , - a ) FROM t1", "SELECT SPLIT_PART ( 'a,b' , '' , 1 ) , SPLIT_PART ( 'a,b' , ',' , 0 ) , SPLIT_PART ( 'a,b' , ',' , - 1 ) , SPLIT_PART ( s , s , a ) FROM t1",
    "SELECT SPLIT ( 'abc' , '' ) , SPLIT ( '' , '' ) , REPLACE ( 'abc' , '' , 'x' ) , TRANSLATE ( 'abc' , '' , '' )", "SELECT HAMMING_DISTANCE ( 'a' , 'ab' ) , LEVENSHTEIN_DISTANCE ( '' , '' ) , CODEPOINT ( '' ) , CODEPOINT ( 'ab' ) , ASCII ( '' )",
    "SELECT DATE_ADD ( 'day' , 9223372036854775807 , d ) FROM t1", "SELECT DATE_ADD ( 'week' , 9223372036854775807 , d ) FROM t1", "SELECT DATE_ADD ( 'month' , 99999999999 , d ) , DATE_ADD ( 'year' , 9223372036854775807 , d ) FROM t1",
    "SELECT DATE_ADD ( 'month' , - 99999999999 , d ) , DATE_ADD ( 'day' , - 9223372036854775807 , d ) FROM t1", "SELECT DATE_ADD ( 'nosuchunit' , 1 , d ) , DATE_DIFF ( '' , d , d ) , DATE_TRUNC ( 'x' , d ) FROM t1",
    "SELECT DATE '9999-99-99' , DATE '-1' , DATE '' , DATE '0000-00-00' , DATE '999999999-01-01'", "SELECT d + INTERVAL '99999999999' MONTH , d - INTERVAL '9223372036854775807' DAY , d + INTERVAL 'x' DAY FROM t1",
    "SELECT CAST ( 2147483647 AS DATE ) , CAST ( - 2147483648 AS DATE ) , YEAR ( CAST ( 2147483647 AS DATE ) ) , DAY_OF_WEEK ( CAST ( - 2147483648 AS DATE ) )",
    "SELECT LAST_DAY_OF_MONTH ( CAST ( 2147483647 AS DATE ) ) , WEEK ( CAST ( 2147483647 AS DATE ) ) , DATE_TRUNC ( 'week' , CAST ( - 2147483648 AS DATE ) )",
    "SELECT FROM_UNIXTIME ( 9223372036854775807 ) , FROM_UNIXTIME ( 1e300 ) , FROM_UNIXTIME ( - 1e300 ) , TO_UNIXTIME ( d ) FROM t1", "SELECT DATE_FORMAT ( d , '%' ) , DATE_FORMAT ( d , '%Q%%%' ) , DATE_PARSE ( 'x' , '%' ) , DATE_PARSE ( '' , '' ) FROM t1",
    "SELECT REGEXP_LIKE ( 'a' , '(' ) , REGEXP_REPLACE ( 'a' , '[' , 'x' ) , REGEXP_EXTRACT ( 'a' , 'a' , 5 ) , REGEXP_EXTRACT ( 'a' , '(a)' , - 1 )", "SELECT REGEXP_REPLACE ( 'aaa' , 'a' , '$9' ) , REGEXP_REPLACE ( 'aaa' , '' , 'x' ) , REGEXP_SPLIT ( 'abc' , '' ) , REGEXP_COUNT ( 'abc' , '' )",
    "SELECT REGEXP_LIKE ( '<REP:30:a>' , '(a*)*b' ) , REGEXP_LIKE ( '<REP:30:a>' , '<REP:200:(>a<REP:200:)>' )", "SELECT REGEXP_LIKE ( 'a' , '<REP:100000:a>' ) , REGEXP_LIKE ( 'a' , 'a{1000}{1000}{1000}' )",
    "SELECT '<REP:40:a>b' LIKE '<REP:20:%a>%c'", "SELECT s LIKE '<REP:24:%a>%c' FROM t1", "SELECT 'abc' LIKE '\\' , 'abc' LIKE '%\\' , 'a' LIKE 'a' ESCAPE '' , 'a' LIKE 'a' ESCAPE 'xx' , 'a' ILIKE '%'",
    "SELECT JSON_EXTRACT ( '<REP:100000:[>' , '$' ) , JSON_PARSE ( '<REP:5000:[><REP:5000:]>' ) , JSON_ARRAY_LENGTH ( '<REP:200:[>' )", "SELECT JSON_EXTRACT ( '{\"a\":1}' , '<REP:10000:$.a>' ) , JSON_EXTRACT ( '{}' , '' ) , JSON_EXTRACT ( '' , '$' ) , JSON_EXTRACT_SCALAR ( '[1]' , '$[99999999999999999999]' )",
    "SELECT JSON_ARRAY_GET ( '[1,2]' , - 9223372036854775807 - 1 ) , JSON_ARRAY_GET ( '[1,2]' , 9223372036854775807 ) , JSON_SIZE ( '[1]' , '$[' )", "SELECT URL_EXTRACT_PORT ( 'http://a:99999999999/' ) , URL_EXTRACT_HOST ( '://' ) , URL_DECODE ( '%' ) , URL_DECODE ( '%zz%f' ) , URL_EXTRACT_PARAMETER ( '?' , '' )",
    "SELECT FROM_HEX ( 'f' ) , FROM_HEX ( 'zz' ) , FROM_BASE64 ( '!' ) , FROM_BASE64 ( 'a' ) , FROM_BASE32 ( '1' ) , FROM_UTF8 ( FROM_HEX ( 'ff' ) )", "SELECT FROM_BIG_ENDIAN_64 ( FROM_HEX ( '00' ) ) , FROM_BIG_ENDIAN_32 ( FROM_HEX ( '' ) ) , FROM_IEEE754_64 ( FROM_HEX ( '00' ) ) , FROM_IEEE754_32 ( FROM_HEX ( '0000000000' ) )",
    "SELECT TO_HEX ( 's' ) , TO_HEX ( - 1 ) , MD5 ( 1 ) , SHA256 ( NULL ) , CRC32 ( '' ) , XXHASH64 ( '' ) , HMAC_SHA256 ( '' , '' )", "SELECT BITWISE_LEFT_SHIFT ( 1 , 64 ) , BITWISE_LEFT_SHIFT ( 1 , - 1 ) , BITWISE_RIGHT_SHIFT ( - 1 , 9223372036854775807 ) , BITWISE_RIGHT_SHIFT_ARITHMETIC ( 1 , - 9223372036854775807 - 1 ) , BIT_COUNT ( 1 , 0 ) , BIT_COUNT ( 1 , 99 )",
    "SELECT WIDTH_BUCKET ( 1 , 0 , 10 , 0 ) , WIDTH_BUCKET ( 1 , 10 , 0 , 5 ) , WIDTH_BUCKET ( 1 , 0 , 0 , 5 ) , WIDTH_BUCKET ( 1 , 0 , 10 , 9223372036854775807 ) , WIDTH_BUCKET ( NAN ( ) , 0 , 1 , 1 )",
    "SELECT NORMAL_CDF ( 0 , - 1 , 1 ) , INVERSE_NORMAL_CDF ( 0 , 1 , 2 ) , BETA_CDF ( - 1 , 0 , 2 ) , INVERSE_BETA_CDF ( 1 , 1 , - 1 ) , T_CDF ( 0 , 0 ) , WILSON_INTERVAL_LOWER ( 5 , 0 , 1 ) , WILSON_INTERVAL_UPPER ( - 1 , - 1 , - 1 )",
    "SELECT FORMAT ( '%' , 1 ) , FORMAT ( '%s%s' , 1 ) , FORMAT ( '%d' , 's' ) , FORMAT ( '%99999999999d' , 1 ) , FORMAT ( '%1$s' ) , FORMAT_NUMBER ( 1e300 ) , PARSE_DATA_SIZE ( '1x' ) , PARSE_DATA_SIZE ( '99999999999999999999999PB' )",
    "SELECT HUMAN_READABLE_SECONDS ( 1e300 ) , HUMAN_READABLE_SECONDS ( - 1e300 ) , HUMAN_READABLE_SECONDS ( NAN ( ) ) , PARSE_DURATION ( 'x' )", "SELECT AT_TIMEZONE ( NOW ( ) , 'No/Such' ) , WITH_TIMEZONE ( NOW ( ) , '+99:99' ) , TIMEZONE_HOUR ( NOW ( ) ) , AT_TIMEZONE ( NOW ( ) , '' )",
    "SELECT SEQUENCE ( 1 , 1000000000 )", "SELECT SEQUENCE ( 1 , 10 , 0 ) , SEQUENCE ( 10 , 1 , 1 ) , SEQUENCE ( 1 , 9223372036854775807 , 9223372036854775807 )", "SELECT ARRAY_REPEAT ( 'x' , 1000000000 ) , ARRAY_REPEAT ( 1 , - 1 )",
    "SELECT ELEMENT_AT ( ARRAY [ 1 ] , 0 ) , ELEMENT_AT ( ARRAY [ 1 ] , - 9223372036854775807 - 1 ) , SLICE ( ARRAY [ 1 , 2 ] , 0 , 1 ) , SLICE ( ARRAY [ 1 , 2 ] , - 5 , 9223372036854775807 ) , TRIM_ARRAY ( ARRAY [ 1 ] , 5 )",
    "SELECT NGRAMS ( ARRAY [ 1 ] , 0 ) , COMBINATIONS ( ARRAY [ 1 , 2 , 3 ] , 9 ) , COMBINATIONS ( SEQUENCE ( 1 , 40 ) , 20 ) , ARRAY_JOIN ( ARRAY [ 1 ] , NULL ) , FLATTEN ( ARRAY [ 1 ] ) , ZIP ( ARRAY [ 1 ] , 2 )",
    "SELECT COSINE_SIMILARITY ( ARRAY [ 1.0 ] , ARRAY [ 1.0 , 2.0 ] ) , L2_DISTANCE ( ARRAY [ ] , ARRAY [ ] ) , DOT_PRODUCT ( ARRAY [ 1.0 ] , 's' ) , COSINE_DISTANCE ( s , s ) FROM t1",
    "SELECT a FROM t1 ORDER BY L2_DISTANCE ( s , ARRAY [ 1.0 ] ) LIMIT 1", "SELECT APPROX_PERCENTILE ( a , 2 ) , APPROX_PERCENTILE ( a , - 1 ) , APPROX_PERCENTILE ( s , 0.5 ) , LISTAGG ( a ) , MAX_BY ( a ) , MIN_BY ( a , s , d ) , CORR ( a ) FROM t1",
    "SELECT COUNT ( ) , SUM ( ) , SUM ( a , b ) , COUNT ( DISTINCT * ) , SUM ( DISTINCT a , b ) , AVG ( * ) FROM t1", "SELECT UPPER ( ) , SUBSTRING ( ) , COALESCE ( ) , GREATEST ( ) , CONCAT ( ) , IF ( ) , NULLIF ( a ) , DATE_ADD ( ) , ROUND ( ) FROM t1",
    "SELECT UPPER ( s , s ) , ABS ( a , a ) , PI ( 1 ) , RANDOM ( - 1 ) , RANDOM ( 0 ) , UUID ( 1 ) , NOW ( 1 ) , TYPEOF ( ) , TYPEOF ( a , a ) FROM t1",
    "SELECT a FROM t1 GROUP BY GROUPING SETS ( ) , ROLLUP ( ) , CUBE ( )", "SELECT a FROM t1 GROUP BY ROLLUP ( a ) , ROLLUP ( a ) , CUBE ( a , s ) , GROUPING SETS ( ( a ) , ( s ) , ( a , s ) )", "SELECT GROUPING ( a , s , d ) , GROUPING ( f ) FROM t1 GROUP BY ROLLUP ( a , s )",
]

# deep nesting (depth d) and huge literals / long lists (size n): written with <REP:n:text> macros
DEPTHS = [1, 2, 5, 10, 20, 40, 49, 50, 51, 60, 100, 150, 200]
SIZES = [10, 100, 1000, 10000, 100000]


SLOW_SEED_MARKS = ("FROM t1 y WHERE y.b = x.b AND y.a = ( SELECT MIN", "'(a*)*b'")


def nest_seeds():
    out = []
    for d in DEPTHS:
        out += [f"SELECT <REP:{d}:(> 1 <REP:{d}:)>", f"SELECT <REP:{d}:(> a <REP:{d}:)> FROM t1",
                f"SELECT a FROM t1 WHERE <REP:{d}:NOT > g", f"SELECT <REP:{d}:- > a FROM t1",
                f"SELECT * FROM <REP:{d}:( SELECT * FROM > t1 <REP:{d}:) x >",
                f"SELECT <REP:{d}:ABS ( > a <REP:{d}:) > FROM t1",
                f"SELECT <REP:{d}:CASE WHEN a = 1 THEN > 1 <REP:{d}: ELSE 0 END> FROM t1",
                f"SELECT a FROM t1 WHERE a IN <REP:{d}:( SELECT a FROM t2 WHERE a IN > ( 1 ) <REP:{d}:)>",
                f"SELECT <REP:{d}:( SELECT > 1 <REP:{d}:)>",
                f"SELECT <REP:{d}:CAST ( > a <REP:{d}: AS BIGINT )> FROM t1",
                f"WITH c0 AS ( SELECT a FROM t1 ) <REP:{d}:, c1 AS ( SELECT a FROM c0 ) > SELECT * FROM c0",
                f"SELECT a FROM t1 WHERE <REP:{d}:( a = 1 OR > a = 2 <REP:{d}:)>",
                f"SELECT <REP:{d}:COALESCE ( a , > 1 <REP:{d}:)> FROM t1",
                f"SELECT <REP:{d}:[> 1 <REP:{d}:]>", f"SELECT <REP:{d}:ARRAY [> 1 <REP:{d}:]>"]
    # exponential grouping-set expansion (not token-mutated exhaustively: every mutant costs a deadline)
    out += ["SELECT a , SUM ( f ) FROM t1 GROUP BY CUBE ( a , b , s , d , f , g , a , b , s , d , f , g )",
            "SELECT COUNT ( * ) FROM t1 GROUP BY CUBE ( a , b , s , d , f , g , a , b , s , d , f , g , a , b , s , d , f , g , a , b )"]
    for n in SIZES:
        out += [f"SELECT 1 <REP:{n}:+ 1>", f"SELECT a FROM t1 WHERE a = 1 <REP:{n}: AND a = 1>", f"SELECT a FROM t1 WHERE a = 1 <REP:{n}: OR a = 1>",
                f"SELECT 1 <REP:{n}: UNION ALL SELECT 1>", f"SELECT a FROM t1 WHERE a IN ( 1 <REP:{n}:, 1> )", f"SELECT 1 <REP:{n}:, 1>",
                f"SELECT 'a' <REP:{n}: || 'a'>", f"SELECT a <REP:{n}: , a> FROM t1" if n <= 10000 else f"SELECT COUNT(*) <REP:{n}: , 1> FROM t1",
                f"SELECT a FROM t1 ORDER BY a <REP:{n}:, a>" if n <= 10000 else "SELECT a FROM t1 ORDER BY a",
                "SELECT a FROM t1 <REP:10:JOIN t2 ON TRUE >",      # longer join chains take 5-20 s to return: timing-sensitive, left out
                f"SELECT <REP:{n}:1>", f"SELECT 1.<REP:{n}:1>", f"SELECT <REP:{n}:9>.5", f"SELECT 1e<REP:{n}:9>", f"SELECT '<REP:{n}:x>'", f"SELECT LENGTH ( '<REP:{n}:é>' )",
                f"SELECT <REP:{n}:x> FROM t1", f"SELECT a AS <REP:{n}:x> FROM t1", f"SELECT a FROM <REP:{n}:t>", f"SELECT a FROM t1 LIMIT <REP:{n}:9>",
                f"SELECT \"<REP:{n}:x>\" FROM t1", f"SELECT a FROM t1 WHERE s = '<REP:{n}:a>' OR s LIKE '<REP:{n}:%>'", f"SELECT DATE '<REP:{n}:1>'",
                f"SELECT CAST ( '<REP:{n}:1>' AS BIGINT ) , CAST ( '<REP:{n}:1>' AS DOUBLE )", f"SELECT UPPER ( REPEAT ( 'ab' , {n} ) ) , LENGTH ( LPAD ( 'a' , {n} , 'xy' ) )",
                f"<REP:{n}:SELECT >1", f"<REP:{n}:(>", f"SELECT <REP:{n}:*>", f"SELECT a FROM t1 <REP:{n}:;>", f"SELECT 1 -- <REP:{n}:x>", f"SELECT /* <REP:{n}:x> */ 1"]
    return out


def all_seeds():
    """list of {"id","toks"}; the order is fixed: SeedLo..SeedHi of SqlFuzz's cfgs index into it."""
    out = []
    for i, s in enumerate(WELL_TYPED):
        out.append({"id": f"w{i}", "toks": T(s)})
    for i, s in enumerate(ILL_TYPED):
        out.append({"id": f"i{i}", "toks": T(s)})
    for i, s in enumerate(nest_seeds()):
        out.append({"id": f"n{i}", "toks": T(s)})
    seen, uniq = set(), []
    for s in out:
        k = untok(s["toks"])
        if k not in seen:
            seen.add(k)
            uniq.append(s)
    # seeds that need seconds on the unchanged tree are not token-mutated exhaustively (SqlFuzz_d1 stops before them)
    slow = [s for s in uniq if s["id"][0] in "wi" and any(m in untok(s["toks"]) for m in SLOW_SEED_MARKS)]
    return [s for s in uniq if s not in slow] + slow


def untok(toks):
    return " ".join(toks)


_REP = re.compile(r"<REP:(\d+):([^>]*)>")


def expand(text):
    return _REP.sub(lambda m: m.group(2) * int(m.group(1)), text)


def shash(text):
    return hashlib.sha1(text.encode("utf-8", "surrogatepass")).hexdigest()[:16]


def is_heavy(text):
    """deep-nesting / huge-literal statements (they run first and alone is not needed: every statement
    runs in a child process on the main thread; this only orders the work)"""
    return "<REP:" in text


# --------------------------------------------------------------------------
# Python twin of SqlFuzz!Mutate (used at FREEZE time on corpus statements)

def mutate(toks, rng):
    if not toks:
        return ["SELECT"]
    i = rng.randrange(len(toks))
    op = rng.randrange(5)
    if op == 0:
        return toks[:i] + toks[i + 1:]
    if op == 1:
        return toks[:i + 1] + toks[i:]
    if op == 2 and i + 1 < len(toks):
        t = list(toks)
        t[i], t[i + 1] = t[i + 1], t[i]
        return t
    if op == 3:
        t = list(toks)
        t[i] = rng.choice(KEYWORDS)
        return t
    return toks[:i]


# --------------------------------------------------------------------------
# corpus I/O

def read_gz(path):
    out = []
    with gzip.open(path, "rt", encoding="utf-8") as f:
        for line in f:
            line = line.strip()
            if line:
                out.append(json.loads(line))
    return out


def write_gz(path, recs):
    os.makedirs(os.path.dirname(path), exist_ok=True)
    with gzip.GzipFile(path, "wb", mtime=0) as g:
        for r in recs:
            g.write((json.dumps(r, separators=(",", ":"), ensure_ascii=False) + "\n").encode("utf-8"))


BIG_FILES = ("tlc-d1.ndjson.gz", "tlc-d2.ndjson.gz")


def load_corpus(small_only=False):
    """frozen statement list: {h, sql, src, [tables]} in a fixed order (small_only: without the two large
    TLC families, whose statements the quick tier gets from the live TLC run and checks against hashes.txt.gz)"""
    out = []
    if not os.path.isdir(CORPUS):
        return out
    for fn in sorted(os.listdir(CORPUS)):
        if fn.endswith(".ndjson.gz") and fn != "seeds.ndjson.gz" and not (small_only and fn in BIG_FILES):
            out += read_gz(os.path.join(CORPUS, fn))
    return out


def write_hashes(recs, dropped=()):
    """hashes.txt.gz: '<hash> <source>' of every frozen statement, plus '<hash> dropped' for candidates left out at
    freeze time (too slow on the unchanged tree for a load-independent deadline verdict): the exhaustive TLC runs
    reach them again, and the check skips them instead of treating them as new."""
    with gzip.GzipFile(os.path.join(CORPUS, "hashes.txt.gz"), "wb", mtime=0) as g:
        g.write(("\n".join([f"{r['h']} {r['src']}" for r in recs] + [f"{h} dropped" for h in sorted(dropped)]) + "\n").encode())


def load_hashes():
    """hash -> source of every frozen statement (cheap membership test)"""
    out = {}
    with gzip.open(os.path.join(CORPUS, "hashes.txt.gz"), "rt") as f:
        for line in f:
            h, _, src = line.strip().partition(" ")
            if h:
                out[h] = src
    return out


def load_findings():
    if not os.path.exists(FINDINGS):
        return {"classes": {}}
    return json.load(open(FINDINGS))


# --------------------------------------------------------------------------
# supervisor

def _limits():
    resource.setrlimit(resource.RLIMIT_STACK, (STACK, STACK))
    resource.setrlimit(resource.RLIMIT_AS, (ADDRESS_SPACE, ADDRESS_SPACE))
    resource.setrlimit(resource.RLIMIT_CORE, (0, 0))


def _spawn(args, timeout):
    env = dict(os.environ)
    env["RUST_BACKTRACE"] = "0"
    env.setdefault("RAYON_NUM_THREADS", "4")
    p = subprocess.Popen([vlib.QEV] + args, stdout=subprocess.DEVNULL, stderr=subprocess.PIPE, env=env, preexec_fn=_limits)
    try:
        _, err = p.communicate(timeout=timeout)
    except subprocess.TimeoutExpired:
        p.kill()
        _, err = p.communicate()
        return -signal.SIGKILL, "supervisor timeout"
    return p.returncode, err.decode("utf-8", "replace")[-400:]


def _read_out(path):
    recs = []
    if os.path.exists(path):
        with open(path, encoding="utf-8", errors="replace") as f:
            for line in f:
                line = line.strip()
                if not line:
                    continue
                try:
                    recs.append(json.loads(line))
                except Exception:
                    pass            # a torn last line of a killed process
    return recs


def run_shard(workdir, tag, schemas_path, stmts, deadline):
    """Run stmts (expanded {h, sql, [on], [tables]}) through fuzz-worker processes; a process that dies
    is restarted behind the statement it died on.  Returns one record per (statement, schema):
    {h, s, k: ok|err|panic|abort|hang, ...}."""
    inp = os.path.join(workdir, f"{tag}.stmts.ndjson")
    outp = os.path.join(workdir, f"{tag}.out.ndjson")
    vlib.write_ndjson(inp, stmts)
    if os.path.exists(outp):
        os.remove(outp)
    results = []
    start = 0
    n = len(stmts)
    consumed = 0
    restarts = 0
    while start < n:
        rc, err = _spawn(["fuzz-worker", schemas_path, inp, outp, str(start), str(n), str(deadline)],
                         timeout=deadline * 4 + 60 + 0.5 * (n - start))
        recs = _read_out(outp)[consumed:]
        consumed += len(recs)
        begun = None
        last_done = start - 1
        for r in recs:
            if "b" in r:
                begun = (r["b"], r["s"])
            elif "i" in r:
                results.append(r)
                if begun and begun == (r["i"], r["s"]):
                    begun = None
                last_done = max(last_done, r["i"])
        if rc == 0:
            break
        restarts += 1
        if restarts > 400:
            raise vlib.ToolError(f"fuzz-worker restarted too often ({tag}); last status {rc}: {err}")
        if begun is not None:
            idx, s = begun
            hung = any(r.get("k") == "hang" and r.get("i") == idx and r.get("s") == s for r in recs)
            if not hung:
                sig = -rc if rc < 0 else rc
                results.append({"i": idx, "h": stmts[idx]["h"], "s": s, "k": "abort", "sig": sig, "stderr": err[-200:]})
            # the remaining schemas of that statement are not run (the process is gone); go on behind it
            start = idx + 1
        else:
            if rc != 3:
                raise vlib.ToolError(f"fuzz-worker exited {rc} outside a statement ({tag}): {err}")
            start = last_done + 1
    return results


def run_all(ctx, stmts, deadline=30, procs=4, tag="run"):
    """stmts: [{h, sql(macro form), [tables]}] -> {h: [records]}"""
    sp = os.path.join(ctx.work, "schemas.json")
    json.dump(schemas(), open(sp, "w"))
    ex = []
    for s in stmts:
        e = {"h": s["h"], "sql": expand(s["sql"])}
        if "tables" in s:
            e["tables"] = s["tables"]
        ex.append(e)
    shards = [ex[i::procs] for i in range(procs)]
    res = [None] * procs
    errs = []

    def work(k):
        try:
            res[k] = run_shard(ctx.work, f"{tag}-{k}", sp, shards[k], deadline) if shards[k] else []
        except Exception as e:     # noqa
            errs.append(e)

    ths = [threading.Thread(target=work, args=(k,)) for k in range(procs)]
    for t in ths:
        t.start()
    for t in ths:
        t.join()
    if errs:
        raise errs[0] if isinstance(errs[0], vlib.ToolError) else vlib.ToolError(repr(errs[0]))
    byh = {}
    for rs in res:
        for r in rs:
            byh.setdefault(r["h"], []).append(r)
    return byh


def run_one(ctx, stmt, deadline, tag="one"):
    """re-run a single statement alone in a fresh child process (fuzz-one)"""
    return run_all(ctx, [stmt], deadline=deadline, procs=1, tag=tag).get(stmt["h"], [])


def panic_class(rec):
    """class id of a bad outcome"""
    if rec["k"] == "abort":
        sig = rec.get("sig", 0)
        name = {6: "SIGABRT", 11: "SIGSEGV", 9: "SIGKILL", 7: "SIGBUS", 4: "SIGILL"}.get(sig, f"status{sig}")
        se = rec.get("stderr", "")
        if "overflowed its stack" in se:
            return "abort:stack-overflow"
        if "memory allocation" in se or "alloc" in se.lower():
            return "abort:alloc-failure"
        return "abort:" + name
    if rec["k"] == "hang":
        return "hang:deadline"
    m = rec.get("msg", "panic")
    m = re.sub(r"\d+", "N", m)
    m = re.sub(r"[^A-Za-z]+", "-", m).strip("-").lower()
    loc = rec.get("loc", "")
    where = ""
    if loc.startswith("/repo/src/"):
        where = os.path.basename(loc.split(":")[0]).replace(".rs", "") + "-"
    return "panic:" + where + (m[:48].strip("-") or "panic")
