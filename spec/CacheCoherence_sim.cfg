\* (R) random histories of 8 steps over two paths, both version steps (run with -simulate)
CONSTANTS Paths = {1, 2}
          NVersions = 3
          Modes = {0, 1, 2}
          MaxActions = 8
          KeyModel = 1
          VStep = {1, 2}
          TimeChoices = {0, 1, 2, 3, 4}
          WithX = TRUE
          EmitOn = TRUE
          Sim = TRUE
INIT Init
NEXT NextSim
INVARIANT StaleHasCause
INVARIANT ModeRespected
INVARIANT TypeOk
INVARIANT Emit
CHECK_DEADLOCK FALSE
