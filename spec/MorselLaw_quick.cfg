CONSTANTS MaxN = 3
          P = 2
          NKeys = 1
          NVals = 2
          WithNull = TRUE
          Mutant = "none"
          EmitCases = TRUE
INIT Init
NEXT Next
INVARIANT PrefixLaw
INVARIANT Law
INVARIANT Emit
CHECK_DEADLOCK FALSE
