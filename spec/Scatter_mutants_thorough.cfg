CONSTANTS
  MaxN = 3
  GatherMaxN = 2
  Shapes = {"scatter", "gather"}
  MaxFaults = 2
  Batches = 2
  Mutants = {"short_stream", "filter_ok", "retry_local", "http_empty", "ignore_decode", "skip_digest"}
  MutMaxN = 4
  MutShapes = {"scatter", "gather"}
INIT Init
NEXT Next
INVARIANT TypeOK
INVARIANT ContractDev
INVARIANT NothingBeforeAll
INVARIANT Kill
CHECK_DEADLOCK TRUE
