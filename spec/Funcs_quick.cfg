CONSTANTS K1 = 3
          K2 = 2
          K3 = 1
          Wide = 0
INIT Init
NEXT Next
INVARIANT Lemmas
INVARIANT Emit
INVARIANT Count
CHECK_DEADLOCK FALSE
