CONSTANT DEV = 1
INIT TInit
NEXT TNext
POSTCONDITION Judged
CHECK_DEADLOCK FALSE
