\* (M) as built, 2 processes x 2 threads, 1 row group: no partial read, no wrong answer, mutual exclusion per process
CONSTANTS NProcs = 2
          ThreadsPer = 2
          AutoProcs = {}
          NRg = 1
          Inits = {0, 1, 2}
          Variant = 0
          AtomicRemove = FALSE
          EmitOn = FALSE
          Sim = FALSE
INIT Init
NEXT NextAll
INVARIANT TypeOk
INVARIANT NoPartialRead
INVARIANT NoWrongAnswer
INVARIANT MutualExclusion
INVARIANT LockHeldWhileBuilding
INVARIANT AutoNeverBuilds
INVARIANT Quiescent
INVARIANT NoDeadlock
CHECK_DEADLOCK FALSE
