CONSTANTS Fam = "shapes"
          MaxN = 0
          NTab = 1
          Syms <- SymsSmall
          Ks <- KsMut
          Ms <- MsShapes
          EmitMod = 1
          Gate = "offset_ignored"
INIT Init
NEXT Next
INVARIANT FiresOnlyOnCanonical
INVARIANT ExactWhenAsked
INVARIANT AcceptLaws

CHECK_DEADLOCK FALSE
