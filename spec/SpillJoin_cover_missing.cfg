CONSTANTS MaxBuild = 2
          MaxProbe = 2
          MaxBatches = 2
          NKeyVals = 2
          P = 2
          JoinTypes = {1, 2, 3, 4, 5, 6}
          MissingFile = TRUE
          SilentOuter = FALSE
          HashAll = FALSE
          EmitMod = 1000000
INIT Init
NEXT Next
INVARIANT BuildConserves
INVARIANT KeyHome
INVARIANT TotalIsMem
INVARIANT AtDone
INVARIANT NonInnerNeverSpills
INVARIANT CoverMissingFile
CHECK_DEADLOCK FALSE
