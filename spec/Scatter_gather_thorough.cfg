CONSTANTS
  MaxN = 4
  GatherMaxN = 4
  Shapes = {"gather"}
  MaxFaults = 2
  Batches = 1
  Mutants = {"none"}
  MutMaxN = 4
  MutShapes = {"scatter", "gather"}
INIT Init
NEXT Next
INVARIANT TypeOK
INVARIANT NoPartial
INVARIANT AnyFault
INVARIANT Contract
INVARIANT FaultFreeAnswers
INVARIANT NothingBeforeAll
INVARIANT BlameIsGuilty
INVARIANT Emit
CHECK_DEADLOCK TRUE
