CONSTANTS MaxN = 3
          P = 2
          NKeys = 1
          NVals = 2
          WithNull = TRUE
          Mutant = "AvgOfAvgs"
          EmitCases = FALSE
INIT Init
NEXT Next
INVARIANT PrefixLaw
INVARIANT Law
INVARIANT FoldIsSql
INVARIANT Algebra
INVARIANT Emit
CHECK_DEADLOCK FALSE
