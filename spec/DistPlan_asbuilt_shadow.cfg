CONSTANTS Tier = "quick"
 Data = "small"
 Mutant = "none"
 Space = "shadow"
 Mode = "check"
INIT Init
NEXT Next
INVARIANT Sound
CHECK_DEADLOCK FALSE
