\* Same for the second deviation: with no status line the first header line is read as one; TLC must find a state violating FramedOrRejected.
CONSTANTS Fams <- FamsTinyNoStatus
          Conforming = {"as_built"}
          Others = {}
INIT Init
NEXT Next
INVARIANT FramedOrRejected
CHECK_DEADLOCK FALSE
