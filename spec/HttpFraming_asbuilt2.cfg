\* Same for the second deviation of the unchanged tree: with no status line the first header line is
\* read as one; TLC must find a state violating FramedOrRejected.
CONSTANTS SLKinds = {5}
          HdrKinds = {1}
          MaxHdrs = 1
          CLVals <- CLValsBodies
          CLNames = {0}
          CLDups <- NoDups
          MaxBody = 1
          BodyByPos = TRUE
          BodyAlpha = {120}
          FragAll = {"end"}
          FragDepth = 0
          StallSL = {1}
          StallFrags = FALSE
          Conforming = {"as_built"}
          Others = {}
INIT Init
NEXT Next
INVARIANT FramedOrRejected
CHECK_DEADLOCK FALSE
