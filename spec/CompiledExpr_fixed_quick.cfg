\* the repaired compiled evaluator (total_cmp in the f64 comparison): agrees with the interpreter on every row, no escape
CONSTANTS Families = {"f64leaf", "bool"}
          Variants = {"nulls"}
          Impl = "fixed"
          Strict = TRUE
          ArithLits = {"nz", "one", "pi", "nan"}
          CmpLits = {"pz", "nan"}
          ArithOps = {"add", "sub", "mul", "div"}
          ArithCmpOps = {"lt", "eq", "ge"}
INIT Init
NEXT Next
INVARIANT Agree
INVARIANT InterpreterNullStrict
CHECK_DEADLOCK FALSE
