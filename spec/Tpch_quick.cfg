CONSTANTS SFs = {1, 2}
          Seeds = {7, 42}
          Threads = {0, 1}
          Sinks = {1, 2}
          Reps = {0, 1}
          MaxRuns = 2
          IMPLS = {"pure", "thread_rng", "hashmap_order", "sink_dependent", "rounding", "fk_beyond", "panics"}
INIT Init
NEXT Next
INVARIANT PureAccepted
INVARIANT Purity
INVARIANT SeenIsAcc
CHECK_DEADLOCK FALSE
