CONSTANTS MaxFiles = 3
          MaxActions = 5
          Styles = {0, 12}
          TieAll = FALSE
          EmitOn = FALSE
INIT Init
NEXT Next
INVARIANT LiveIsTruth
INVARIANT LiveNeverDeleted
INVARIANT LiveOnce
INVARIANT RowsExactlyLive
INVARIANT RefusedWhenDue
INVARIANT CurrentDefined
INVARIANT AcceptPinned
INVARIANT UnknownRefused
INVARIANT Bounded
INVARIANT CountsWellFormed
INVARIANT Emit
PROPERTY TimeTravelStable
CHECK_DEADLOCK FALSE
