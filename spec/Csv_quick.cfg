CONSTANTS Alphabet = {97, 44, 34, 10, 13, 9, 92, 233, 1}
          MaxLen = 2
          Positions = {0, 2, 3, 5, 6, 7}
          FillPairs = {12}
          AllPairs = {12, 34, 56, 78, 71, 45, 83, 26}
          Fmts = {1, 2}
          DEVS = {{}}
INIT Init
NEXT Next
INVARIANT RoundTrip
INVARIANT NoInvention
INVARIANT NamesDistinct
INVARIANT Emit
CHECK_DEADLOCK FALSE
