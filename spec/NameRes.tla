---- MODULE NameRes ----
(***************************************************************************)
(* X01 (sub-model of C01) — SQL NAME RESOLUTION / SCOPING.                 *)
(*                                                                         *)
(* SqlSem.tla takes column references as already resolved (depth, index)   *)
(* pairs.  This module specifies the step before: WHICH column a name      *)
(* denotes.  A configuration is an abstract scope structure                *)
(*                                                                         *)
(*   cat  : the catalog  (base table t |-> sequence of column names)       *)
(*   cte  : 0..1  WITH name AS (body)                                      *)
(*   ob   : the outer query block  [from, sel]                             *)
(*   ib   : 0..1 sub-query block nested in ob (correlated scope)           *)
(*   pos  : where ib sits (1 scalar in SELECT, 2 EXISTS in WHERE,          *)
(*          3 scalar comparison in WHERE, 4 IN (subquery) in WHERE)        *)
(*   ctx  : clause holding the reference under test (1 SELECT list,        *)
(*          2 WHERE, 3 JOIN..ON, 4 GROUP BY, 5 HAVING, 6 ORDER BY)         *)
(*   onj  : for ctx 3, the reference is in the ON of the onj-th FROM item  *)
(*   ref  : [k, q, n, x]  k=0 name (q = qualifier or 0, n = column name,   *)
(*          x=1: wrapped in an expression), k=1 ordinal n, k=2 `*`,        *)
(*          k=3 `q.*`                                                      *)
(*                                                                         *)
(* All identifiers are ints: column names 1..4 = a b c d (5 = z);          *)
(* relation names 1..3 = t1 t2 t3, 4 5 = x y, 6 = w.  id+100 is the SAME   *)
(* unquoted identifier written in upper case (Nm folds it).                *)
(* A column's identity is its ORIGIN  t*10+p  (p-th column of base table   *)
(* t): in the conformance run every base column holds a distinct constant, *)
(* so the value the engine returns reveals the origin it bound the name to.*)
(*                                                                         *)
(* Allowed(cfg) is the set of permitted outcomes: origins and/or ERR.      *)
(* Where the standard leaves the behaviour to the implementation (select   *)
(* aliases in WHERE/GROUP BY/HAVING, duplicate output names of a derived   *)
(* table, an ORDER BY name matching several output columns, aliases inside *)
(* ORDER BY expressions) the documented behaviours of PostgreSQL, DuckDB,  *)
(* MySQL and SQLite are all allowed — but never a column no rule permits.  *)
(***************************************************************************)
EXTENDS VerifIO, SequencesExt, FiniteSetsExt

CONSTANTS Tier,     \* "quick" | "thorough" | "trace" (no enumeration, used by NameResTrace)
          Mut       \* "none" or the name of a seeded spec mutant (selftest)

ERR == -1
Nm(i) == i % 100
\* a candidate column (level l, item i, position p) is the int l*100 + i*10 + p  (i <= 3, p <= 9)
NoC == 0
CL(c) == c \div 100
CI(c) == (c \div 10) % 10
CP(c) == c % 10

\* ------------------------------------------------------------------------
\* scope construction
\* ------------------------------------------------------------------------
\* item of a FROM list: [t, al, d]   t = table name, al = alias or 0,
\*                                   d = <<>> or <<body>> (derived table)
\* body (simple block, base items only): [from : Seq([t, al, d]), sel : Seq(Sel)]
\* Sel: [k, q, n, as]   k=0 column reference q.n AS as | k=1 `*` | k=2 `q.*`
Exposed(it) == IF it.al # 0 THEN it.al ELSE it.t
\* operational exposure (a mutant may let the table name shine through an alias)
ExposedOp(it) == IF it.al # 0 /\ Mut = "aliasnohide" /\ it.d = <<>> THEN {it.al, it.t} ELSE {Exposed(it)}
SameName(a, b) == IF Mut = "casesens" THEN a = b ELSE Nm(a) = Nm(b)

BaseCols(cat, t) == [p \in 1..Len(cat[t]) |-> [n |-> cat[t][p], o |-> t * 10 + p]]

\* a level = sequence of item infos [x, xs, cols]; lvs = sequence of levels, INNERMOST FIRST
CandsAll(lvs, l) == UNION {{l * 100 + i * 10 + p : p \in DOMAIN lvs[l][i].cols} : i \in DOMAIN lvs[l]}
AllC(lvs) == UNION {CandsAll(lvs, l) : l \in DOMAIN lvs}
ColOf(lvs, c) == lvs[CL(c)][CI(c)].cols[CP(c)]
Org(lvs, c) == IF c = NoC THEN ERR ELSE ColOf(lvs, c).o
MinC(S) == Min(S)              \* FROM order, then column order

\* ---- declarative rule (the standard's wording) ---------------------------
\*  A reference is captured by the innermost level that has a column of that
\*  name (unqualified) / an item exposing the qualifier (qualified).  It
\*  denotes the matching columns of that level; exactly one => that column.
MatchD(lvs, c, r) == /\ Nm(ColOf(lvs, c).n) = Nm(r.n)
                     /\ (r.q = 0 \/ Nm(lvs[CL(c)][CI(c)].x) = Nm(r.q))
CapturesD(lvs, l, r) == IF r.q = 0 THEN \E c \in CandsAll(lvs, l) : MatchD(lvs, c, r)
                        ELSE \E i \in DOMAIN lvs[l] : Nm(lvs[l][i].x) = Nm(r.q)
BindLv(lvs, r) == LET S == {l \in DOMAIN lvs : CapturesD(lvs, l, r)} IN IF S = {} THEN 0 ELSE Min(S)
Den(lvs, r) == {c \in AllC(lvs) : CL(c) = BindLv(lvs, r) /\ MatchD(lvs, c, r)}
DeclC(lvs, r) == LET D == Den(lvs, r) IN IF Cardinality(D) = 1 THEN CHOOSE c \in D : TRUE ELSE NoC

\* ---- operational rule (small steps: look in a level, else ascend) --------
MatchOp(lvs, c, r) == /\ SameName(ColOf(lvs, c).n, r.n)
                      /\ (r.q = 0 \/ \E x \in lvs[CL(c)][CI(c)].xs : SameName(x, r.q))
Pick(M) == IF Cardinality(M) = 1 THEN CHOOSE c \in M : TRUE
           ELSE IF M # {} /\ Mut = "firstmatch" THEN MinC(M) ELSE NoC
RECURSIVE Walk(_, _, _, _)
Walk(lvs, l, step, r) ==
    IF l < 1 \/ l > Len(lvs) THEN NoC
    ELSE LET M == {c \in CandsAll(lvs, l) : MatchOp(lvs, c, r)}
             here == IF r.q = 0 THEN M # {}
                     ELSE \E i \in DOMAIN lvs[l] : \E x \in lvs[l][i].xs : SameName(x, r.q)
         IN IF here THEN Pick(M) ELSE Walk(lvs, l + step, step, r)
OperC(lvs, r) == IF Mut = "outerwins" THEN Walk(lvs, Len(lvs), -1, r) ELSE Walk(lvs, 1, 1, r)
StrictO(lvs, r) == Org(lvs, OperC(lvs, r))

\* candidates the reference denotes when it is ambiguous only because ONE derived
\* table / CTE exposes the name twice: DuckDB renames the later ones (a, a_1) and binds
\* the first, PostgreSQL reports ambiguity -> both allowed.
DupFirst(lvs, r) == LET D == Den(lvs, r) IN
    IF Cardinality(D) >= 2 /\ \A c, d \in D : CI(c) = CI(d) THEN {Org(lvs, MinC(D))} ELSE {}
NameOutcomes(lvs, r) == {StrictO(lvs, r)} \cup (IF StrictO(lvs, r) = ERR THEN DupFirst(lvs, r) ELSE {})

\* ---- select-list expansion ------------------------------------------------
StarCols(lv) == FlattenSeq([i \in DOMAIN lv |-> lv[i].cols])
QStarCols(lv, q) == LET S == {i \in DOMAIN lv : Nm(lv[i].x) = Nm(q)} IN
    IF Cardinality(S) = 1 THEN lv[CHOOSE i \in S : TRUE].cols ELSE <<[n |-> 0, o |-> ERR]>>
SelCols(lvs, s) == CASE s.k = 0 -> <<[n |-> IF s.as # 0 THEN s.as ELSE s.n, o |-> StrictO(lvs, [q |-> s.q, n |-> s.n])]>>
                     [] s.k = 1 -> StarCols(lvs[1])
                     [] OTHER   -> QStarCols(lvs[1], s.q)
ExpandSel(lvs, sel) == FlattenSeq([i \in DOMAIN sel |-> SelCols(lvs, sel[i])])

BaseInfo(cat, it) == [x |-> Exposed(it), xs |-> ExposedOp(it), cols |-> BaseCols(cat, it.t)]
BodyLevel(cat, body) == [i \in DOMAIN body.from |-> BaseInfo(cat, body.from[i])]
BodyOut(cat, body) == ExpandSel(<<BodyLevel(cat, body)>>, body.sel)
DupNames(lv) == \E i, j \in DOMAIN lv : i < j /\ Nm(lv[i].x) = Nm(lv[j].x)
HasErr(cols) == \E k \in DOMAIN cols : cols[k].o = ERR
BodyErr(cat, body) == LET lv == BodyLevel(cat, body) IN DupNames(lv) \/ HasErr(ExpandSel(<<lv>>, body.sel))

\* FROM t: a CTE of that name shadows the base table
CteOf(ctes, t) == {j \in DOMAIN ctes : Nm(ctes[j].nm) = Nm(t)}
ItemCols(cat, ctes, it) ==
    IF it.d # <<>> THEN BodyOut(cat, it.d[1])
    ELSE IF CteOf(ctes, it.t) # {} THEN BodyOut(cat, ctes[CHOOSE j \in CteOf(ctes, it.t) : TRUE].body)
    ELSE BaseCols(cat, Nm(it.t))
ItemErr(cat, ctes, it) ==
    IF it.d # <<>> THEN BodyErr(cat, it.d[1])
    ELSE IF CteOf(ctes, it.t) # {} THEN BodyErr(cat, ctes[CHOOSE j \in CteOf(ctes, it.t) : TRUE].body)
    ELSE FALSE
LevelOf(cat, ctes, from) == [i \in DOMAIN from |->
    [x |-> Exposed(from[i]), xs |-> ExposedOp(from[i]), cols |-> ItemCols(cat, ctes, from[i])]]

\* levels visible from the reference, innermost first.  In an ON clause only the
\* items joined so far are in scope.
OuterFrom(cfg) == IF cfg.ctx = 3 /\ cfg.ib = <<>> THEN SubSeq(cfg.ob.from, 1, cfg.onj) ELSE cfg.ob.from
Lvs(cfg) == IF cfg.ib = <<>> THEN <<LevelOf(cfg.cat, cfg.cte, OuterFrom(cfg))>>
            ELSE <<LevelOf(cfg.cat, cfg.cte, cfg.ib[1].from), LevelOf(cfg.cat, cfg.cte, cfg.ob.from)>>
FullLvs(cfg) == IF cfg.ib = <<>> THEN <<LevelOf(cfg.cat, cfg.cte, cfg.ob.from)>>
                ELSE <<LevelOf(cfg.cat, cfg.cte, cfg.ib[1].from), LevelOf(cfg.cat, cfg.cte, cfg.ob.from)>>
StmtErr(cfg) == LET f == FullLvs(cfg) IN
                \/ \E l \in DOMAIN f : DupNames(f[l])
                \/ \E i \in DOMAIN cfg.ob.from : ItemErr(cfg.cat, cfg.cte, cfg.ob.from[i])
                \/ (cfg.ib # <<>> /\ \E i \in DOMAIN cfg.ib[1].from : ItemErr(cfg.cat, cfg.cte, cfg.ib[1].from[i]))

\* the output columns of the block that holds the reference (its select list)
OutOf(cfg, lvs) == ExpandSel(lvs, cfg.ob.sel)
OutList(cfg) == OutOf(cfg, Lvs(cfg))
OutMatchOf(cfg, out) == {k \in DOMAIN out : out[k].n # 0 /\ Nm(out[k].n) = Nm(cfg.ref.n)}
AliasOf(cfg, out) == LET M == OutMatchOf(cfg, out) IN IF M = {} THEN {} ELSE {out[Min(M)].o}
OrdinalOf(cfg, out) == IF cfg.ref.n >= 1 /\ cfg.ref.n <= Len(out) THEN {out[cfg.ref.n].o} ELSE {ERR}

\* ORDER BY <name>: an output-column name wins over an input column (SQL-92 rule kept by
\* PostgreSQL / DuckDB / MySQL / SQLite).  Several output columns of that name: error
\* (PostgreSQL, MySQL) or the first (DuckDB, SQLite) unless they are the same column.
\* Qualified names are input columns.  Inside an expression PostgreSQL sees input columns
\* only, DuckDB also aliases.
OrderOf(cfg, lvs, out) == LET r == cfg.ref  M == OutMatchOf(cfg, out)  inp == NameOutcomes(lvs, r) IN
    IF Mut = "orderinput" /\ StrictO(lvs, r) # ERR THEN inp
    ELSE IF r.q # 0 THEN inp
    ELSE IF r.x = 1 THEN inp \cup AliasOf(cfg, out)
    ELSE IF M = {} THEN inp
    ELSE IF Cardinality({out[k].o : k \in M}) = 1 THEN AliasOf(cfg, out)
    ELSE {ERR} \cup AliasOf(cfg, out)
\* WHERE / GROUP BY / HAVING: input columns first (all four dialects); only if there is no
\* such input column may a select alias be used (DuckDB/SQLite/MySQL) or not (standard, PostgreSQL WHERE/HAVING).
AliasFallbackOf(cfg, lvs, out) == LET inp == NameOutcomes(lvs, cfg.ref) IN
    IF inp # {ERR} \/ cfg.ref.q # 0 THEN inp ELSE {ERR} \cup AliasOf(cfg, out)

\* ---- the allowed outcomes --------------------------------------------------
AllowedOf(cfg, lvs, out) ==
    IF StmtErr(cfg) THEN {ERR}
    ELSE IF HasErr(out) THEN {ERR}
    ELSE IF cfg.ref.k = 1 THEN OrdinalOf(cfg, out)
    ELSE IF cfg.ref.k >= 2 THEN {}                \* star cases: see AllowedStar
    ELSE IF cfg.ctx = 6 THEN OrderOf(cfg, lvs, out)
    ELSE IF cfg.ctx \in {2, 4, 5} /\ cfg.ob.sel # <<>> /\ cfg.ib = <<>> THEN AliasFallbackOf(cfg, lvs, out)
    ELSE NameOutcomes(lvs, cfg.ref)
Allowed(cfg) == LET lvs == Lvs(cfg) IN LET out == OutOf(cfg, lvs) IN AllowedOf(cfg, lvs, out)
StarOf(cfg, lvs) == IF cfg.ref.k = 2 THEN StarCols(lvs[1]) ELSE QStarCols(lvs[1], cfg.ref.q)
AllowedStar(cfg) == IF StmtErr(cfg) THEN <<ERR>>
                    ELSE LET s == StarOf(cfg, Lvs(cfg)) IN IF HasErr(s) THEN <<ERR>> ELSE [k \in DOMAIN s |-> s[k].o]

\* GROUP BY with a bare (non-aggregated) first select item: the statement is valid only
\* under a binding that groups by that item's column.
GroupValid(cfg) == LET lvs == Lvs(cfg) IN LET out == OutOf(cfg, lvs) IN
    {o \in AllowedOf(cfg, lvs, out) : o = ERR \/ (out # <<>> /\ o = out[1].o)}

\* ------------------------------------------------------------------------
\* laws (TLC checks them on every enumerated configuration)
\* ------------------------------------------------------------------------
IsName(cfg) == cfg.ref.k = 0
Plain(cfg) == IsName(cfg) /\ cfg.ctx \in {1, 2, 3}

\* L1 resolution is a function, and the operational walk agrees with the declarative rule
LawFunctionC(cfg, lvs, c) == IsName(cfg) => c = DeclC(lvs, cfg.ref)
LawFunction(cfg) == LET lvs == Lvs(cfg) IN LawFunctionC(cfg, lvs, OperC(lvs, cfg.ref))

\* L2 qualifying an unambiguous reference does not change its meaning
LawQualifyC(cfg, lvs, c) == LET r == cfg.ref IN
    (IsName(cfg) /\ r.q = 0 /\ c # NoC) =>
        LET x == lvs[CL(c)][CI(c)].x
            c2 == OperC(lvs, [r EXCEPT !.q = x])
            clean == /\ \A l \in 1..(CL(c) - 1) : \A i \in DOMAIN lvs[l] : Nm(lvs[l][i].x) # Nm(x)
                     /\ \A i \in DOMAIN lvs[CL(c)] : i # CI(c) => Nm(lvs[CL(c)][i].x) # Nm(x)
        IN c2 \in {c, NoC} /\ (clean => c2 = c)
LawQualify(cfg) == LET lvs == Lvs(cfg) IN LawQualifyC(cfg, lvs, OperC(lvs, cfg.ref))

\* L3 a qualified reference only ever denotes a column of an item EXPOSING the qualifier
\*    (an alias hides the table name)
LawExposedC(cfg, lvs, c) ==
    (IsName(cfg) /\ cfg.ref.q # 0 /\ c # NoC) => Nm(lvs[CL(c)][CI(c)].x) = Nm(cfg.ref.q)
LawExposed(cfg) == LET lvs == Lvs(cfg) IN LawExposedC(cfg, lvs, OperC(lvs, cfg.ref))

\* L4 renaming aliases consistently (x <-> y) is invariant
SwapRel(v) == IF Nm(v) = 4 THEN v + 1 ELSE IF Nm(v) = 5 THEN v - 1 ELSE v
MapItem(it, f(_)) == [t |-> it.t, al |-> IF it.al = 0 THEN 0 ELSE f(it.al),
                      d |-> IF it.d = <<>> THEN <<>> ELSE
                            <<[from |-> [i \in DOMAIN it.d[1].from |-> [t |-> it.d[1].from[i].t, al |-> IF it.d[1].from[i].al = 0 THEN 0 ELSE f(it.d[1].from[i].al), d |-> <<>>]],
                               sel |-> [i \in DOMAIN it.d[1].sel |-> [it.d[1].sel[i] EXCEPT !.q = IF @ = 0 THEN 0 ELSE f(@)]]]>>]
MapBlockRel(b, f(_)) == [from |-> [i \in DOMAIN b.from |-> MapItem(b.from[i], f)],
                         sel |-> [i \in DOMAIN b.sel |-> [b.sel[i] EXCEPT !.q = IF @ = 0 THEN 0 ELSE f(@)]]]
MapRel(cfg, f(_)) == [cfg EXCEPT !.ob = MapBlockRel(@, f),
                                 !.ib = IF @ = <<>> THEN <<>> ELSE <<MapBlockRel(@[1], f)>>,
                                 !.ref = IF @.k \in {0, 3} /\ @.q # 0 THEN [@ EXCEPT !.q = f(@)] ELSE @]
LawRenameA(cfg, A) == LET c2 == MapRel(cfg, SwapRel) IN
    c2 # cfg => (Allowed(c2) = A /\ (cfg.ref.k >= 2 => AllowedStar(c2) = AllowedStar(cfg)))
LawRename(cfg) == LawRenameA(cfg, Allowed(cfg))

\* L5 adding a column: an unrelated name never changes the outcome; the same name can turn a
\*    successful resolution only into an error (ambiguity) or - when it is added in a more
\*    inner scope - capture it; never into another pre-existing column
ItemTables(cfg, it) == IF it.d # <<>> THEN {Nm(it.d[1].from[i].t) : i \in DOMAIN it.d[1].from}
                       ELSE IF CteOf(cfg.cte, it.t) # {} THEN UNION {{Nm(cfg.cte[j].body.from[i].t) : i \in DOMAIN cfg.cte[j].body.from} : j \in CteOf(cfg.cte, it.t)}
                       ELSE {Nm(it.t)}
TablesAt(cfg, l) == LET from == IF cfg.ib # <<>> /\ l = 1 THEN cfg.ib[1].from ELSE OuterFrom(cfg) IN
    UNION {ItemTables(cfg, from[i]) : i \in DOMAIN from}
BaseOnly(cfg) == cfg.cte = <<>> /\ \A i \in DOMAIN cfg.ob.from : cfg.ob.from[i].d = <<>>
LawAddColumnC(cfg, lvs, ca) == (Plain(cfg) /\ BaseOnly(cfg)) =>
    LET a == Org(lvs, ca) IN
    \A t \in DOMAIN cfg.cat : \A m \in {Nm(cfg.ref.n), (Nm(cfg.ref.n) % 4) + 1} :      \* the referenced name and an unrelated one
        (Len(cfg.cat[t]) < 4 /\ \A p \in DOMAIN cfg.cat[t] : cfg.cat[t][p] # m) =>
            LET cfg2 == [cfg EXCEPT !.cat[t] = Append(@, m)]
                new == t * 10 + Len(cfg.cat[t]) + 1
            IN LET b == StrictO(Lvs(cfg2), cfg.ref) IN
               /\ (m # Nm(cfg.ref.n) => a = b)
               /\ (a # ERR => \/ b \in {a, ERR}
                              \/ (b = new /\ \E l \in 1..(CL(ca) - 1) : t \in TablesAt(cfg, l)))

LawAddColumn(cfg) == LET lvs == Lvs(cfg) IN LawAddColumnC(cfg, lvs, OperC(lvs, cfg.ref))

\* L6 unquoted identifiers are case-insensitive
Fold(v) == Nm(v)
FoldCfg(cfg) == [MapRel(cfg, Fold) EXCEPT !.ref.n = IF cfg.ref.k = 0 THEN Nm(@) ELSE @]
LawCaseA(cfg, A) == LET c2 == FoldCfg(cfg) IN
    c2 # cfg => (Allowed(c2) = A /\ (cfg.ref.k >= 2 => AllowedStar(c2) = AllowedStar(cfg)))
LawCase(cfg) == LawCaseA(cfg, Allowed(cfg))

\* L7 `*` is the concatenation of the FROM items' columns in FROM order, `q.*` the item's
\*    columns; each expanded column is what the qualified name denotes
LawStar(cfg) == (cfg.ref.k >= 2 /\ ~StmtErr(cfg)) =>
    LET lvs == Lvs(cfg) IN LET lv == lvs[1] IN LET s == StarCols(lv) IN
    /\ Len(s) = SumSeq([i \in DOMAIN lv |-> Len(lv[i].cols)])
    /\ \A i \in DOMAIN lv : LET qs == QStarCols(lv, lv[i].x) IN
          /\ qs = lv[i].cols
          /\ \E off \in 0..Len(s) : \A p \in DOMAIN qs : s[off + p] = qs[p]
          /\ \A p \in DOMAIN qs : StrictO(lvs, [q |-> lv[i].x, n |-> qs[p].n]) \in {qs[p].o, ERR}

\* L8 ORDER BY: a uniquely named output column wins over any input column of that name;
\*    an ordinal denotes exactly the k-th output column
LawOrderA(cfg, lvs, out, A) == LET M == OutMatchOf(cfg, out) IN
  (cfg.ctx = 6 /\ ~StmtErr(cfg) /\ ~HasErr(out)) =>
    /\ (cfg.ref.k = 0 /\ cfg.ref.q = 0 /\ cfg.ref.x = 0 /\ Cardinality(M) = 1) => A = {out[CHOOSE k \in M : TRUE].o}
    /\ (cfg.ref.k = 1 /\ cfg.ref.n \in DOMAIN out) => A = {out[cfg.ref.n].o}
    /\ (cfg.ref.k = 1 /\ cfg.ref.n \notin DOMAIN out) => A = {ERR}
LawOrder(cfg) == LET lvs == Lvs(cfg) IN LET out == OutOf(cfg, lvs) IN LawOrderA(cfg, lvs, out, AllowedOf(cfg, lvs, out))

\* L9 every allowed answer is a column some rule permits: it carries the referenced name
\*    (or is the target of a like-named select alias / the k-th output column)
LawPermittedA(cfg, lvs, out, A) == LET all == AllC(lvs) IN
  \A o \in A : o # ERR =>
    \/ \E c \in all : ColOf(lvs, c).o = o /\ cfg.ref.k = 0 /\ Nm(ColOf(lvs, c).n) = Nm(cfg.ref.n)
    \/ o \in AliasOf(cfg, out)
    \/ (cfg.ref.k = 1 /\ o \in OrdinalOf(cfg, out))
LawPermitted(cfg) == LET lvs == Lvs(cfg) IN LET out == OutOf(cfg, lvs) IN LawPermittedA(cfg, lvs, out, AllowedOf(cfg, lvs, out))

\* ------------------------------------------------------------------------
\* enumeration of small scope configurations
\* ------------------------------------------------------------------------
VARIABLE cfg
\* the initial states only pick a coarse shape (family, catalog, slice) so that the workers share the
\* filling-in and the law checking; a Fill action enumerates its PARAMETER sets (no big set of configurations is built)
SliceOf(c) == (c.ref.n + c.ref.q + c.ctx + Len(c.ob.from)) % 4
Take(c) == SliceOf(c) = cfg.part /\ cfg' = c

Q == Tier = "quick"
K1 == <<<<1, 2, 3>>, <<1, 2, 4>>, <<1, 3, 4>>>>
K2 == <<<<2, 1>>, <<1>>, <<3, 2, 1>>>>
K3 == <<<<1, 2>>, <<3, 4>>, <<4, 1, 2>>>>
It(t, al) == [t |-> t, al |-> al, d |-> <<>>]
Ref(q, n) == [k |-> 0, q |-> q, n |-> n, x |-> 0]
NoSel == <<>>
Blk(from) == [from |-> from, sel |-> NoSel]
Cfg(fam, cat, cte, ob, ib, pos, ctx, onj, ref) ==
    [fam |-> fam, cat |-> cat, cte |-> cte, ob |-> ob, ib |-> ib, pos |-> pos, ctx |-> ctx, onj |-> onj, ref |-> ref, ph |-> 1]

AlQ == {0, 4}
AlF == {0, 4, 5}
Froms2(ts, als) == {<<It(p[1], a[1]), It(p[2], a[2])>> : p \in ts, a \in als \X als}
Froms3(ts, als) == {<<It(p[1], a[1]), It(p[2], a[2]), It(p[3], a[3])>> : p \in ts, a \in als \X als \X als}
Froms1(ts, als) == {<<It(t, a)>> : t \in ts, a \in als}
NameRefs(qs, ns) == {Ref(q, n) : q \in qs, n \in ns}

\* --- flat: one block, 1..3 FROM items, reference in SELECT / WHERE / ON
FlatFroms == IF Q THEN Froms1({1}, AlQ) \cup Froms2({<<1, 2>>}, AlF \cup {2}) \cup Froms2({<<2, 1>>, <<1, 1>>}, AlQ)
                       \cup Froms3({<<1, 2, 3>>}, AlQ)
             ELSE Froms1({1, 3}, AlF) \cup Froms2((1..3) \X (1..3), AlF \cup {2}) \cup Froms3({<<1, 2, 3>>, <<3, 1, 2>>, <<1, 2, 1>>, <<2, 2, 3>>}, AlQ \cup {3})
FlatRefs == IF Q THEN NameRefs({0, 1, 2, 4}, {1, 3, 4}) ELSE NameRefs({0, 1, 2, 3, 4, 5}, 1..4)
FlatFill(cat) == \E f \in FlatFroms, ctx \in {1, 2}, r \in FlatRefs : Take(Cfg("flat", cat, <<>>, Blk(f), <<>>, 0, ctx, 0, r))
OnFroms == IF Q THEN Froms2({<<1, 2>>}, AlQ) \cup Froms3({<<1, 2, 3>>}, {0})
           ELSE Froms2({<<1, 2>>, <<2, 1>>, <<1, 3>>}, AlF) \cup Froms3({<<1, 2, 3>>, <<3, 1, 2>>, <<1, 2, 1>>}, AlQ)
OnFill(cat) == \E f \in OnFroms, j \in 2..3, r \in FlatRefs : j <= Len(f) /\ Take(Cfg("on", cat, <<>>, Blk(f), <<>>, 0, 3, j, r))

\* --- nest: a sub-query block inside the outer block (correlation, shadowing)
NestOuter == IF Q THEN Froms1({1}, AlQ) ELSE Froms1({1, 2}, AlF) \cup Froms2({<<1, 2>>}, AlQ)
NestInner == IF Q THEN Froms1({2}, AlQ \cup {5}) \cup Froms1({1}, {0}) \cup Froms2({<<2, 3>>}, {0})
             ELSE Froms1(1..3, AlQ \cup {1}) \cup Froms2({<<2, 3>>, <<3, 1>>}, AlQ)
NestPC == {<<1, 1>>, <<1, 2>>, <<2, 2>>, <<3, 1>>, <<3, 2>>, <<4, 1>>, <<4, 2>>}       \* <<pos, ctx>>
NestRefs == IF Q THEN NameRefs({0, 1, 2, 4}, {1, 3, 4}) ELSE NameRefs({0, 1, 2, 4}, 1..4)
NestFill(cat) == cat # K3 /\ \E fo \in NestOuter, fi \in NestInner, pc \in NestPC, r \in NestRefs :
                    Take(Cfg("nest", cat, <<>>, Blk(fo), <<Blk(fi)>>, pc[1], pc[2], 0, r))

\* --- deriv: derived tables and CTEs exposing their select-list output names
SelC(q, n, as) == [k |-> 0, q |-> q, n |-> n, as |-> as]
SelStar == [k |-> 1, q |-> 0, n |-> 0, as |-> 0]
SelQStar(q) == [k |-> 2, q |-> q, n |-> 0, as |-> 0]
Bodies == IF Q THEN
            {[from |-> <<It(1, 0)>>, sel |-> s] : s \in {<<SelC(0, 1, 0)>>, <<SelC(0, 1, 2)>>, <<SelC(0, 1, 2), SelC(0, 2, 1)>>, <<SelC(0, 2, 0), SelC(0, 1, 0)>>, <<SelStar>>}}
            \cup {[from |-> <<It(1, 0), It(2, 0)>>, sel |-> s] : s \in {<<SelC(1, 1, 0)>>, <<SelC(1, 1, 0), SelC(2, 1, 0)>>, <<SelC(2, 1, 0), SelC(0, 3, 1)>>, <<SelStar>>, <<SelC(0, 1, 0)>>}}
          ELSE
            {[from |-> <<It(1, a)>>, sel |-> s] : a \in AlQ, s \in {<<SelC(0, 1, 0)>>, <<SelC(0, 1, 2)>>, <<SelC(0, 3, 1)>>, <<SelC(0, 1, 2), SelC(0, 2, 1)>>, <<SelC(0, 2, 0), SelC(0, 1, 0)>>,
                                                                  <<SelC(0, 1, 4)>>, <<SelStar>>, <<SelC(0, 3, 0), SelStar>>, <<SelC(1, 1, 0)>>, <<SelC(4, 2, 0)>>}}
            \cup UNION {{[from |-> <<It(1, 0), It(t, 0)>>, sel |-> s] : s \in {<<SelC(1, 1, 0)>>, <<SelC(1, 1, 0), SelC(t, 1, 0)>>, <<SelC(t, 1, 0), SelC(0, 2, 1)>>, <<SelC(t, 1, 2), SelC(1, 1, 0)>>,
                                                                                         <<SelStar>>, <<SelQStar(t)>>, <<SelQStar(t), SelQStar(1)>>, <<SelC(0, 1, 0)>>, <<SelC(0, 4, 0), SelC(1, 3, 4)>>}} : t \in {2, 3}}
DerItems == {[t |-> 0, al |-> a, d |-> <<b>>] : a \in (IF Q THEN {4} ELSE {4, 1, 2}), b \in Bodies}
DerRefs == IF Q THEN NameRefs({0, 1, 4}, {1, 2, 3}) ELSE NameRefs({0, 1, 2, 4, 5}, 1..4)
DerFroms == {<<d>> : d \in DerItems} \cup {<<d, It(2, 0)>> : d \in DerItems} \cup (IF Q THEN {} ELSE {<<It(3, 0), d>> : d \in DerItems})
DerFill(cat) == cat # K3 /\ \E f \in DerFroms, ctx \in (IF Q THEN {1} ELSE {1, 2}), r \in DerRefs : Take(Cfg("deriv", cat, <<>>, Blk(f), <<>>, 0, ctx, 0, r))
CteNames == IF Q THEN {2, 6} ELSE {1, 2, 6}
CteFroms(nm) == Froms1({nm}, AlQ) \cup Froms2({<<nm, 2>>, <<nm, 3>>}, {0}) \cup (IF Q THEN {} ELSE Froms2({<<1, nm>>, <<nm, nm>>}, {0}))
CteRefs == IF Q THEN NameRefs({0, 2, 6}, {1, 2, 4}) ELSE NameRefs({0, 2, 4, 6}, 1..4)
CteFill(cat) == cat # K3 /\ \E nm \in CteNames, b \in Bodies, ctx \in (IF Q THEN {1} ELSE {1, 2}), r \in CteRefs : \E f \in CteFroms(nm) :
                    Take(Cfg("cte", cat, <<[nm |-> nm, body |-> b]>>, Blk(f), <<>>, 0, ctx, 0, r))
\* a CTE seen from inside a sub-query (the CTE name shadows a base table there too)
CteNestBodies == {b \in Bodies : Len(b.from) = 1 /\ Len(b.sel) <= 1}
CteNestFill(cat) == \E nm \in {2, 6}, b \in CteNestBodies, fo \in Froms1({3}, {0}), r \in NameRefs({0, 2, 3, 4, 6}, {1, 2, 3}) : \E fi \in Froms1({nm}, AlQ) :
                    Take(Cfg("ctenest", cat, <<[nm |-> nm, body |-> b]>>, Blk(fo), <<Blk(fi)>>, 1, 1, 0, r))

\* --- star: `*` and `q.*`
StarRefs == {[k |-> 2, q |-> 0, n |-> 0, x |-> 0]} \cup {[k |-> 3, q |-> q, n |-> 0, x |-> 0] : q \in (IF Q THEN {1, 2, 4} ELSE {1, 2, 3, 4, 5})}
StarFroms == FlatFroms \cup {<<d>> : d \in DerItems} \cup {<<d, It(2, 0)>> : d \in DerItems}
StarFill(cat) == \E f \in StarFroms, r \in StarRefs : Take(Cfg("star", cat, <<>>, Blk(f), <<>>, 0, 1, 0, r))

\* --- alias: select-list aliases / ordinals seen from ORDER BY, GROUP BY, HAVING, WHERE
AlFroms == IF Q THEN {<<It(1, 0)>>, <<It(1, 0), It(2, 0)>>} ELSE {<<It(1, 0)>>, <<It(1, 4)>>, <<It(1, 0), It(2, 0)>>, <<It(2, 4), It(1, 0)>>}
AlSel1 == IF Q THEN {SelC(0, 1, 0), SelC(0, 1, 2), SelC(0, 3, 1), SelC(1, 2, 0), SelC(0, 3, 4)}
          ELSE {SelC(q, n, as) : q \in {0, 1}, n \in {1, 2, 3}, as \in {0, 1, 2, 4}}
AlSels == {<<s>> : s \in AlSel1} \cup {<<s1, s2>> : s1 \in AlSel1, s2 \in (IF Q THEN {SelC(0, 2, 1), SelC(1, 1, 0), SelC(0, 2, 3)}
                                                                              ELSE {SelC(0, 2, 1), SelC(1, 1, 0), SelC(0, 2, 3), SelC(0, 1, 0), SelC(1, 3, 2), SelC(0, 3, 4)})}
          \cup {<<SelStar>>, <<SelQStar(1), SelC(1, 1, 4)>>}
AlNameRefs == {r \in {[k |-> 0, q |-> q, n |-> n, x |-> x] : q \in {0, 1}, n \in 1..4, x \in {0, 1}} : Q => (r.q = 0 \/ r.x = 0)}
AlOrdRefs == {[k |-> 1, q |-> 0, n |-> n, x |-> 0] : n \in 0..4}
OrderFill(cat) == cat # K3 /\ \E f \in AlFroms, sl \in AlSels, r \in AlNameRefs \cup AlOrdRefs : Take(Cfg("order", cat, <<>>, [from |-> f, sel |-> sl], <<>>, 0, 6, 0, r))
GroupFill(cat) == \E f \in AlFroms, sl \in AlSel1, r \in {x \in AlNameRefs : x.x = 0} \cup {x \in AlOrdRefs : x.n \in 0..2} :
                    Take(Cfg("group", cat, <<>>, [from |-> f, sel |-> <<sl>>], <<>>, 0, 4, 0, r))
HavWhFill(cat) == \E f \in AlFroms, sl \in AlSel1, ctx \in {2, 5}, r \in {x \in AlNameRefs : x.x = 0} :
                    Take(Cfg("selalias", cat, <<>>, [from |-> f, sel |-> <<sl>>], <<>>, 0, ctx, 0, r))

\* --- case: flat / nest configurations with upper-case spellings of some identifiers
Up(v) == IF v = 0 THEN 0 ELSE v + 100
CaseVar(c, k) == CASE k = 1 -> [c EXCEPT !.ref.n = Up(@)]
                   [] k = 2 -> [c EXCEPT !.ref.q = Up(@)]
                   [] k = 3 -> [c EXCEPT !.ob.from[1].al = Up(@)]
                   [] k = 4 -> IF c.ib = <<>> THEN c ELSE [c EXCEPT !.ib[1].from[1].al = Up(@)]
                   [] OTHER -> IF c.ib = <<>> THEN c ELSE [c EXCEPT !.ib[1].from[1].al = Up(@), !.ref.q = Up(@)]
TakeVar(c, k) == LET v == CaseVar(c, k) IN v # c /\ Take([v EXCEPT !.fam = "case"])
CaseFill(cat) == cat = K1 /\
    \/ \E f \in FlatFroms, ctx \in {1, 2}, r \in FlatRefs, k \in 1..3 :
          /\ Len(f) <= 2 /\ (Q => (ctx = 1 /\ r.n \in {1, 3})) /\ (~Q => (ctx = 1 \/ Len(f) = 1))
          /\ TakeVar(Cfg("flat", cat, <<>>, Blk(f), <<>>, 0, ctx, 0, r), k)
    \/ \E fo \in NestOuter, fi \in NestInner, pc \in NestPC, r \in NestRefs, k \in 1..5 :
          /\ pc[1] \in {1, 2} /\ (Q => r.n = 1) /\ (~Q => r.n \in {1, 3})
          /\ TakeVar(Cfg("nest", cat, <<>>, Blk(fo), <<Blk(fi)>>, pc[1], pc[2], 0, r), k)

Families == {"flat", "on", "nest", "deriv", "cte", "ctenest", "star", "order", "group", "selalias", "case"}
Cats == IF Q THEN {K1} ELSE {K1, K2, K3}

Slices == 0..3
Init == cfg \in [ph : {0}, fam : Families, cat : Cats, part : Slices]
Fill == /\ cfg.ph = 0
        /\ CASE cfg.fam = "flat" -> FlatFill(cfg.cat) [] cfg.fam = "on" -> OnFill(cfg.cat) [] cfg.fam = "nest" -> NestFill(cfg.cat)
             [] cfg.fam = "deriv" -> DerFill(cfg.cat) [] cfg.fam = "cte" -> CteFill(cfg.cat) [] cfg.fam = "ctenest" -> CteNestFill(cfg.cat)
             [] cfg.fam = "star" -> StarFill(cfg.cat) [] cfg.fam = "order" -> OrderFill(cfg.cat) [] cfg.fam = "group" -> GroupFill(cfg.cat)
             [] cfg.fam = "selalias" -> HavWhFill(cfg.cat) [] OTHER -> CaseFill(cfg.cat)
Next == Fill

Done == cfg.ph = 1
AllLaws(cfg_, lvs, out, A) == LET c == IF IsName(cfg_) THEN OperC(lvs, cfg_.ref) ELSE NoC IN
    /\ LawFunctionC(cfg_, lvs, c) /\ LawQualifyC(cfg_, lvs, c) /\ LawExposedC(cfg_, lvs, c) /\ LawRenameA(cfg_, A)
    /\ LawAddColumnC(cfg_, lvs, c) /\ LawCaseA(cfg_, A) /\ LawStar(cfg_) /\ LawOrderA(cfg_, lvs, out, A) /\ LawPermittedA(cfg_, lvs, out, A)
Laws == Done => LET lvs == Lvs(cfg) IN LET out == OutOf(cfg, lvs) IN AllLaws(cfg, lvs, out, AllowedOf(cfg, lvs, out))
\* single laws, so that a mutant run reports WHICH law rejects it
InvFunction == Done => LawFunction(cfg)
InvQualify == Done => LawQualify(cfg)
InvExposed == Done => LawExposed(cfg)
InvRename == Done => LawRename(cfg)
InvAddColumn == Done => LawAddColumn(cfg)
InvCase == Done => LawCase(cfg)
InvStar == Done => LawStar(cfg)
InvOrder == Done => LawOrder(cfg)
InvPermitted == Done => LawPermitted(cfg)

SetSeq(S) == SetToSortSeq(S, <)
\* constants worth probing a WHERE-like reference with: every column of that name at any level, alias targets, allowed origins
ProbeA(c, lvs, out, A) == LET f == FullLvs(c) IN
    ({ColOf(f, k).o : k \in {k \in AllC(f) : c.ref.k = 0 /\ Nm(ColOf(f, k).n) = Nm(c.ref.n)}} \cup AliasOf(c, out) \cup A) \ {ERR}
AllowedObs(c) == IF c.fam = "group" THEN GroupValid(c) ELSE Allowed(c)
EmitA(c, lvs, out, A) == EmitCase([c |-> c,
                          al |-> SetSeq(IF c.fam = "group" THEN {o \in A : o = ERR \/ (out # <<>> /\ o = out[1].o)} ELSE A),
                          star |-> IF c.ref.k >= 2 THEN AllowedStar(c) ELSE <<>>,
                          out |-> [k \in DOMAIN out |-> out[k].o],
                          cand |-> SetSeq(ProbeA(c, lvs, out, A))])
Emit == Done => LET lvs == Lvs(cfg) IN LET out == OutOf(cfg, lvs) IN EmitA(cfg, lvs, out, AllowedOf(cfg, lvs, out))
\* laws and emission in one pass (the allowed set is computed once per configuration)
Check == Done => LET lvs == Lvs(cfg) IN LET out == OutOf(cfg, lvs) IN LET A == AllowedOf(cfg, lvs, out) IN
             AllLaws(cfg, lvs, out, A) /\ EmitA(cfg, lvs, out, A)
====
