CONSTANTS MaxCpu = 2
          MaxParts = 3
INIT Init
NEXT Next
INVARIANT Lemmas
INVARIANT Emit
CHECK_DEADLOCK FALSE
