CONSTANTS MaxCpu = 3
          MaxParts = 2
INIT Init
NEXT Next
INVARIANT Lemmas
INVARIANT Emit
CHECK_DEADLOCK FALSE
