CONSTANTS Family = "nulls"
          Dims = {2}
          Amp = 2
INIT Init
NEXT Next
INVARIANT Laws
INVARIANT Emit
CHECK_DEADLOCK FALSE
