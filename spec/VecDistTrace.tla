---- MODULE VecDistTrace ----
(***************************************************************************)
(* C38 trace validation.  One line = one call of the real distance kernels *)
(* on a FixedSizeList<Float32> column (public distance_column /            *)
(* distance_columns, or SELECT f(v, ..) through SQL) for all four kinds:   *)
(*   [dim, rows, off, len, mode, q, dim2, rows2, off2,                     *)
(*    out: [l2|cos|sim|dot : [k: "ok"|"err"|"panic", rows: <<isnull,       *)
(*          finite, m, m2, raw>>..]]]                                      *)
(* The line is accepted iff VecDist!CallOk holds for every kind: the       *)
(* integer identities within the relative tolerance 10^-4 stated in        *)
(* VecDist.tla, NULL for NULL vectors, an error for a dimension mismatch.  *)
(* The expectation is RECOMPUTED here from the recorded integer inputs.    *)
(* DRIFT (fidelity): the zero-norm convention differs from the code's.     *)
(***************************************************************************)
EXTENDS Naturals, Integers, Sequences, FiniteSets, TLC, Json, IOUtils

Family == "trace"
Dims == {1}
Amp == 0
VARIABLE c
INSTANCE VecDist

Rec == ndJsonDeserialize(IOEnv.TRACE)
VARIABLE l

KindOk(r, kind) == CallOk(kind, r.dim, Col(r), OtherDim(r), Others(r), r.out[kind])
LineOk(r) == \A kind \in Kinds : KindOk(r, kind)
LineDrift(r) == \E kind \in {"cos", "sim"} :
                  /\ r.dim = OtherDim(r) /\ r.out[kind].k = "ok" /\ Len(r.out[kind].rows) = r.len
                  /\ \E i \in 1..r.len : RowDrift(kind, Col(r)[i], Others(r)[i], r.out[kind].rows[i])

TInit == l = 1 /\ c = 0
Call == /\ l <= Len(Rec)
        /\ LineOk(Rec[l])
        /\ LineDrift(Rec[l]) => EmitTag("DRIFT", [line |-> l])
        /\ l' = l + 1 /\ UNCHANGED c
TNext == Call
Accepted == LET d == TLCGet("stats").diameter - 1 IN
            IF d = Len(Rec) THEN EmitTag("ACCEPT", [n |-> d])
            ELSE EmitTag("REJECT", [line |-> d + 1]) /\ FALSE
====
