---- MODULE VecEnc ----
(***************************************************************************)
(* C37 — vector encodings round-trip and the SIMD helpers match Arrow.     *)
(*                                                                         *)
(* An Arrow array is a values buffer + a validity bitmap + a slice.  The   *)
(* model keeps exactly that: `base` is a sequence of SLOTS, slot v >= 0 is *)
(* the valid value v, slot -1-g is a NULL whose storage holds g; an array  *)
(* is (base, off, len) and its logical content is View = the len slots     *)
(* after off, NULL slots read as NULL.  Whatever lies outside the slice or *)
(* under a NULL must never show.                                           *)
(*                                                                         *)
(* Encodings (the four of arrow_ffi/array.rs): Flat, Constant (one value + *)
(* length; only if all logical values are equal), RunLength (value, count) *)
(* runs, Dictionary (sorted distinct non-NULL values + keys).  The step    *)
(* machine picks the array (Fill), encodes with ANY applicable encoding    *)
(* (Encode - which one is "optimal" is the implementation's business),     *)
(* decodes (Decode); RoundTrip: the decoded array equals the view, values  *)
(* and validity.                                                           *)
(*                                                                         *)
(* Kernels by definition (what the equivalent Arrow kernels compute):      *)
(*   filter(a, mask)  the elements at the true mask positions, NULLs kept  *)
(*   compare(a,b,op)  NULL if either side is NULL, else the truth value    *)
(*   add / multiply   NULL if either side is NULL, else the integer result *)
(*   sum              over the non-NULL elements; NULL if there is none    *)
(*   count            number of non-NULL elements                          *)
(***************************************************************************)
EXTENDS VerifIO, SequencesExt

CONSTANTS Fams,        \* families to enumerate: "un","untile","fil","filtile","bin","bintile"
          MaxUn,       \* "un": base arrays of 0..MaxUn slots, every slice
          MaxFil,      \* "fil": arrays of 0..MaxFil slots x every mask
          MaxBin,      \* "bin": pairs of arrays of 0..MaxBin slots
          TileP,       \* "untile": max pattern length
          TileQ,       \* "bintile": max pattern length of the right operand
          TileM,       \* "filtile": max mask pattern length
          Mutant       \* "none" | "rle_ignores_offset" | "const_drops_validity"  (kill matrix of the model)

Slots == {0, 1, 2, -1, -2}
Lanes == {7, 8, 9, 63, 64, 65}

Logical(s) == IF s >= 0 THEN s ELSE NULL
Backing(s) == IF s >= 0 THEN s ELSE -s - 1
View(base, off, len) == [i \in 1..len |-> Logical(base[off + i])]
Idx(n) == [i \in 1..n |-> i]

\* ---- encodings -------------------------------------------------------------------
NoEnc == [k |-> "none", vals |-> <<>>, v |-> NULL, n |-> 0, runs |-> <<>>, dict |-> <<>>, keys |-> <<>>]

AllEqual(a) == \A i \in DOMAIN a : a[i] = a[1]
RunEnds(a) == {i \in DOMAIN a : i = Len(a) \/ a[i] # a[i + 1]}
Runs(a) == LET e == SetToSortSeq(RunEnds(a), <)
           IN  [j \in DOMAIN e |-> <<a[e[j]], e[j] - (IF j = 1 THEN 0 ELSE e[j - 1])>>]
Dict(a) == SetToSortSeq({a[i] : i \in DOMAIN a} \ {NULL}, <)
KeyOf(d, x) == CHOOSE j \in DOMAIN d : d[j] = x

Applicable(a) == {"flat", "rle", "dict"} \cup (IF AllEqual(a) THEN {"const"} ELSE {})

EncodeAs(e, a) ==
  CASE e = "flat"  -> [NoEnc EXCEPT !.k = "flat", !.vals = a, !.n = Len(a)]
    [] e = "const" -> [NoEnc EXCEPT !.k = "const", !.v = (IF a = <<>> THEN NULL ELSE a[1]), !.n = Len(a)]
    [] e = "rle"   -> [NoEnc EXCEPT !.k = "rle", !.runs = Runs(a), !.n = Len(a)]
    [] OTHER       -> LET d == Dict(a) IN
                      [NoEnc EXCEPT !.k = "dict", !.dict = d, !.n = Len(a),
                                    !.keys = [i \in DOMAIN a |-> IF a[i] = NULL THEN NULL ELSE KeyOf(d, a[i])]]

DecodeOf(en) ==
  CASE en.k = "flat"  -> en.vals
    [] en.k = "const" -> [i \in 1..en.n |-> en.v]
    [] en.k = "rle"   -> FoldLeft(LAMBDA acc, r : acc \o [i \in 1..r[2] |-> r[1]], <<>>, en.runs)
    [] OTHER          -> [i \in DOMAIN en.keys |-> IF en.keys[i] = NULL THEN NULL ELSE en.dict[en.keys[i]]]

\* ---- kernels ---------------------------------------------------------------------
NonNull(a) == {i \in DOMAIN a : a[i] # NULL}
Count(a) == Cardinality(NonNull(a))
SumK(a) == IF NonNull(a) = {} THEN NULL
           ELSE FoldLeft(LAMBDA acc, x : IF x = NULL THEN acc ELSE acc + x, 0, a)
Filter(a, mask) == FoldLeft(LAMBDA acc, i : IF mask[i] = 1 THEN Append(acc, a[i]) ELSE acc, <<>>, Idx(Len(a)))
B(p) == IF p THEN 1 ELSE 0
Cmp(op, x, y) == IF x = NULL \/ y = NULL THEN NULL
                 ELSE CASE op = "eq" -> B(x = y) [] op = "ne" -> B(x # y) [] op = "lt" -> B(x < y)
                        [] op = "le" -> B(x <= y) [] op = "gt" -> B(x > y) [] OTHER -> B(x >= y)
CmpK(op, a, b) == [i \in DOMAIN a |-> Cmp(op, a[i], b[i])]
AddK(a, b) == [i \in DOMAIN a |-> IF a[i] = NULL \/ b[i] = NULL THEN NULL ELSE a[i] + b[i]]
MulK(a, b) == [i \in DOMAIN a |-> IF a[i] = NULL \/ b[i] = NULL THEN NULL ELSE a[i] * b[i]]
Ops == {"eq", "ne", "lt", "le", "gt", "ge"}

\* ---- the input space ---------------------------------------------------------------
Tile(p, n) == [i \in 1..n |-> p[((i - 1) % Len(p)) + 1]]
Pad(off) == [i \in 1..off |-> IF i % 2 = 1 THEN 2 ELSE -2]      \* garbage in front of a slice
Patterns(m) == UNION {[1..n -> Slots] : n \in 1..m}
MaskPats(m) == UNION {[1..n -> {0, 1}] : n \in 1..m}

VARIABLE c
Blank == [fam |-> "seed", ph |-> "seed", n |-> 0, s |-> 0, base |-> <<>>, off |-> 0, len |-> 0,
          bbase |-> <<>>, boff |-> 0, mask |-> <<>>, enc |-> NoEnc, dec |-> <<>>]

\* Init picks a coarse seed (family, length, first slot); Fill picks the case.
MaxOf(f) == CASE f = "un" -> MaxUn [] f = "fil" -> MaxFil [] f = "bin" -> MaxBin
              [] f = "untile" -> TileP [] f = "filtile" -> 2 [] OTHER -> 2
MinOf(f) == IF f \in {"un", "fil", "bin"} THEN 0 ELSE 1
Init == \E f \in Fams : \E n \in MinOf(f)..MaxOf(f) : \E s \in Slots :
          /\ (n = 0 => s = 0)
          /\ c = [Blank EXCEPT !.fam = f, !.n = n, !.s = s]

Seqs(n, s) == {b \in [1..n -> Slots] : n = 0 \/ b[1] = s}

Fill ==
  /\ c.ph = "seed"
  /\ LET f == c.fam  n == c.n  s == c.s IN
     \/ /\ f = "un"
        /\ \E b \in Seqs(n, s) : \E off \in 0..n : \E len \in 0..n :
             /\ off + len <= n
             /\ c' = [c EXCEPT !.ph = "raw", !.base = b, !.off = off, !.len = len]
     \/ /\ f = "untile"
        /\ \E p \in Seqs(n, s) : \E L \in Lanes : \E off \in {0, 1, 3} :
             c' = [c EXCEPT !.ph = "raw", !.base = Pad(off) \o Tile(p, L), !.off = off, !.len = L]
     \/ /\ f = "fil"
        /\ \E b \in Seqs(n, s) : \E m \in [1..n -> {0, 1}] : \E off \in 0..1 :
             c' = [c EXCEPT !.ph = "case", !.base = Pad(off) \o b, !.off = off, !.len = n, !.mask = m]
     \/ /\ f = "filtile"
        /\ \E p \in Seqs(n, s) : \E mp \in MaskPats(TileM) : \E L \in Lanes : \E off \in {0, 3} :
             c' = [c EXCEPT !.ph = "case", !.base = Pad(off) \o Tile(p, L), !.off = off, !.len = L, !.mask = Tile(mp, L)]
     \/ /\ f = "bin"
        /\ \E a \in Seqs(n, s) : \E b \in [1..n -> Slots] : \E oa \in 0..1 : \E ob \in 0..1 :
             c' = [c EXCEPT !.ph = "case", !.base = Pad(oa) \o a, !.off = oa, !.len = n, !.bbase = Pad(ob) \o b, !.boff = ob]
     \/ /\ f = "bintile"
        /\ \E p \in Seqs(n, s) : \E q \in Patterns(TileQ) : \E L \in Lanes : \E ob \in {0, 3} :
             c' = [c EXCEPT !.ph = "case", !.base = Tile(p, L), !.off = 0, !.len = L, !.bbase = Pad(ob) \o Tile(q, L), !.boff = ob]

A == View(c.base, c.off, c.len)
Bv == View(c.bbase, c.boff, c.len)

\* what the (possibly mutated) encoder looks at
EncInput == IF Mutant = "rle_ignores_offset" THEN View(c.base, 0, c.len) ELSE A
Encode ==
  /\ c.ph = "raw"
  /\ \/ \E e \in Applicable(A) :
          c' = [c EXCEPT !.ph = "enc", !.enc = IF e = "rle" THEN EncodeAs(e, EncInput) ELSE EncodeAs(e, A)]
     \/ /\ Mutant = "const_drops_validity"          \* constant detection on the storage, validity forgotten
        /\ c.len > 0
        /\ \A i \in 1..c.len : Backing(c.base[c.off + i]) = Backing(c.base[c.off + 1])
        /\ c' = [c EXCEPT !.ph = "enc", !.enc = [NoEnc EXCEPT !.k = "const", !.v = Backing(c.base[c.off + 1]), !.n = c.len]]
Decode ==
  /\ c.ph = "enc"
  /\ c' = [c EXCEPT !.ph = "dec", !.dec = DecodeOf(c.enc)]
Next == Fill \/ Encode \/ Decode

\* ---- the property on the model -------------------------------------------------------
RoundTrip == c.ph = "dec" => c.dec = A
EncLen == c.ph = "enc" => c.enc.n = c.len
\* algebra of the kernel definitions (guards the definitions the expectations are computed from)
KernelLaws ==
  /\ c.ph = "raw" =>
       /\ Count(A) <= c.len
       /\ (SumK(A) = NULL) = (Count(A) = 0)
       /\ Filter(A, [i \in 1..c.len |-> 1]) = A
       /\ Filter(A, [i \in 1..c.len |-> 0]) = <<>>
  /\ (c.ph = "case" /\ c.fam \in {"fil", "filtile"}) =>
       LET m == c.mask  nm == [i \in DOMAIN m |-> 1 - m[i]]  z(x) == IF x = NULL THEN 0 ELSE x IN
       /\ Len(Filter(A, m)) = Cardinality({i \in DOMAIN m : m[i] = 1})
       /\ Count(Filter(A, m)) + Count(Filter(A, nm)) = Count(A)
       /\ z(SumK(Filter(A, m))) + z(SumK(Filter(A, nm))) = z(SumK(A))
  /\ (c.ph = "case" /\ c.fam \in {"bin", "bintile"}) =>
       /\ CmpK("lt", A, Bv) = CmpK("gt", Bv, A)
       /\ CmpK("le", A, Bv) = CmpK("ge", Bv, A)
       /\ \A i \in 1..c.len : /\ (A[i] # NULL /\ Bv[i] # NULL) =>
                                   /\ CmpK("ne", A, Bv)[i] = 1 - CmpK("eq", A, Bv)[i]
                                   /\ CmpK("le", A, Bv)[i] = B(CmpK("lt", A, Bv)[i] = 1 \/ CmpK("eq", A, Bv)[i] = 1)
                              /\ (A[i] = NULL \/ Bv[i] = NULL) => \A op \in Ops : CmpK(op, A, Bv)[i] = NULL
       /\ AddK(A, Bv) = AddK(Bv, A) /\ MulK(A, Bv) = MulK(Bv, A)
       /\ Count(AddK(A, Bv)) = Cardinality(NonNull(A) \cap NonNull(Bv))

\* ---- cases handed to the harness -------------------------------------------------------
Emit ==
  /\ c.ph = "raw" =>
       EmitCase([f |-> "un", fam |-> c.fam, base |-> c.base, off |-> c.off, len |-> c.len,
                 exp |-> [view |-> A, sum |-> SumK(A), count |-> Count(A)]])
  /\ (c.ph = "case" /\ c.fam \in {"fil", "filtile"}) =>
       EmitCase([f |-> "fil", fam |-> c.fam, base |-> c.base, off |-> c.off, len |-> c.len, mask |-> c.mask,
                 exp |-> Filter(A, c.mask)])
  /\ (c.ph = "case" /\ c.fam \in {"bin", "bintile"}) =>
       EmitCase([f |-> "bin", fam |-> c.fam, base |-> c.base, off |-> c.off, len |-> c.len, bbase |-> c.bbase, boff |-> c.boff,
                 exp |-> [eq |-> CmpK("eq", A, Bv), ne |-> CmpK("ne", A, Bv), lt |-> CmpK("lt", A, Bv), le |-> CmpK("le", A, Bv),
                          gt |-> CmpK("gt", A, Bv), ge |-> CmpK("ge", A, Bv), add |-> AddK(A, Bv), mul |-> MulK(A, Bv)]])
====
