---- MODULE HttpFramingContract ----
(***************************************************************************)
(* C16 — the contract "peer HTTP responses are framed or rejected" as pure *)
(* operators over an OBSERVATION of what the peer put on the wire and the  *)
(* RESULT the client returned.  Used by HttpFraming.tla (model checking +  *)
(* case emission) and by HttpFramingTrace.tla (judging recorded exchanges  *)
(* of the real client).                                                    *)
(*                                                                         *)
(* observation o:                                                          *)
(*   hc      BOOLEAN   status line, header lines and the empty line were   *)
(*                     all delivered completely ("header block complete")  *)
(*   status  Int       the code of a well-formed status line, else NULL    *)
(*   hdrs    Seq       <<name, value>> of every well-formed header line    *)
(*                     sent (name lower-cased, value trimmed)              *)
(*   clnums  SUBSET Nat  numeric Content-Length values declared            *)
(*   clbad   BOOLEAN   some Content-Length value is not a number the       *)
(*                     property can be read against (non-numeric/overflow) *)
(*   body    Seq(byte) the bytes delivered after the empty line            *)
(*   end     "close" | "stall"                                             *)
(*   alt, althdrs, altclnums, altclbad   the same stream read with its     *)
(*                     first header line as status line (only for the      *)
(*                     deviation hdr_as_status, see View)                  *)
(* result r: [k : "ok"|"err"|"panic"|"hang", status, hdrs, body]           *)
(*                                                                         *)
(* The property pins: Ok => header block complete, the status is THE       *)
(* status, the headers sent are returned, the body is what was sent and is *)
(* never shorter than the declared Content-Length; no panic; an answer     *)
(* within the timeout.  It does not pin (so both Ok-with-the-exact-bytes   *)
(* and Err are allowed): garbage / conflicting Content-Length, surplus     *)
(* bytes beyond Content-Length (a client may also cut the body at the      *)
(* declared length), a missing Content-Length with a close-delimited body, *)
(* malformed header lines, the kind of the error.                          *)
(***************************************************************************)
EXTENDS VerifIO

\* every header sent is returned (name compared case-insensitively, value trimmed - the recorder
\* normalises both sides); order, multiplicity and extra entries are not pinned
HdrsIncluded(req, got) == \A i \in DOMAIN req : \E j \in DOMAIN got : got[j] = req[i]

MinOf(S) == CHOOSE x \in S : \A y \in S : x <= y
\* the declared Content-Length the body may not be shorter than; with conflicting
\* duplicates only the smallest is demanded; NULL when nothing is pinned
PinnedCL(o) == IF o.clnums # {} /\ ~o.clbad THEN MinOf(o.clnums) ELSE NULL

\* the body is what was sent after the empty line, possibly cut at a declared length
BodyChoices(o) == {o.body} \cup {SubSeq(o.body, 1, c) : c \in {x \in o.clnums : x <= Len(o.body)}}

\* Named deviations of the unchanged tree (known_findings.jsonl):
\*   "ignore_cl"      C16/content-length-ignored: Content-Length is not looked at
\*   "hdr_as_status"  C16/header-line-as-status: with no status line, the first header
\*                    line is read as one (its second token becomes the status)
Devs == {"ignore_cl", "hdr_as_status"}

\* what the stream looks like to a client with deviation set D: under hdr_as_status a stream
\* without status line is read with its first header line as the status line, so that line is
\* neither a header nor (if it was one) a Content-Length declaration any more
View(o, D) == IF "hdr_as_status" \in D /\ o.status = NULL /\ o.alt # NULL
              THEN [o EXCEPT !.status = o.alt, !.hdrs = o.althdrs, !.clnums = o.altclnums, !.clbad = o.altclbad]
              ELSE o

OkAllowed(o, r, D) ==
  LET w == View(o, D) IN
  /\ o.hc
  /\ w.status # NULL
  /\ r.status = w.status
  /\ HdrsIncluded(w.hdrs, r.hdrs)
  /\ r.body \in BodyChoices(w)
  /\ \/ "ignore_cl" \in D
     \/ PinnedCL(w) = NULL
     \/ Len(r.body) >= PinnedCL(w)

\* an error is always an allowed answer; a panic or a hang past the deadline never is
Allowed(o, r, D) == \/ r.k = "err"
                    \/ r.k = "ok" /\ OkAllowed(o, r, D)

\* smallest deviation sets explaining r (empty set of sets = not explainable)
Explains(o, r, En) == {D \in SUBSET En : Allowed(o, r, D) /\ \A E \in SUBSET D : (E # D) => ~Allowed(o, r, E)}

\* canonical complete response: every reasonable client answers Ok (vacuity guard, not contract)
Canonical(o) == /\ o.hc /\ o.status # NULL /\ o.end = "close" /\ ~o.clbad /\ o.allwf
                /\ (o.clnums = {} \/ o.clnums = {Len(o.body)})
====
