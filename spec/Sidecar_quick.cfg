\* (M) as built, ONE process, 3 query threads (the in-process mutex path): every property holds, file-by-file removal
CONSTANTS NProcs = 1
          ThreadsPer = 3
          AutoProcs = {}
          NRg = 2
          Inits = {0, 1, 2}
          Variant = 0
          AtomicRemove = FALSE
          EmitOn = FALSE
          Sim = FALSE
INIT Init
NEXT NextAll
INVARIANT TypeOk
INVARIANT NoPartialRead
INVARIANT NoWrongAnswer
INVARIANT MutualExclusion
INVARIANT LockHeldWhileBuilding
INVARIANT AutoNeverBuilds
INVARIANT Quiescent
INVARIANT NoDeadlock
INVARIANT NoReaderError
INVARIANT FreshMeansComplete
CHECK_DEADLOCK FALSE
