CONSTANTS Fam = "answers"
          MaxN = 3
          NTab = 1
          Syms <- SymsAll
          Ks <- KsAll
          Ms <- MsAll
          EmitMod = 31
          Gate = "asbuilt"
INIT Init
NEXT Next
INVARIANT FiresOnlyOnCanonical
INVARIANT ExactWhenAsked
INVARIANT AcceptLaws
INVARIANT Emit
CHECK_DEADLOCK FALSE
