---- MODULE PartitionContract ----
(***************************************************************************)
(* C07 — the operator partition contract of src/physical/plan.rs.          *)
(*                                                                         *)
(* An operator tree; every node DECLARES a number of output partitions     *)
(* (OutParts) and, when partition p is executed, consumes partitions of    *)
(* its children.  The rows of every leaf are distributed over partitions   *)
(* and batches in every possible way.  Two independent definitions:        *)
(*                                                                         *)
(*   Ex(t, .., p, st)  OPERATIONAL, written from the execute() of each     *)
(*        operator: FixedLeaf, FilterExec / ProjectExec (pass-through),    *)
(*        LimitExec (1 output; walks the input partitions in index order,  *)
(*        counters carried across batches and partitions, stops opening    *)
(*        partitions once satisfied), UnionExec (1 output; chains every    *)
(*        partition of every input), SortExec / ExternalSortExec and       *)
(*        HashAggregateExec / SpillableHashAggregateExec (1 output; drain  *)
(*        every input partition), HashJoinExec / SpillableHashJoinExec     *)
(*        (Semi/Anti: 1 output, both sides drained whole; otherwise one    *)
(*        output per PROBE partition, the build side drained whole exactly *)
(*        once and cached, unmatched build rows emitted by the execution   *)
(*        that completes last; the spill path answers everything from      *)
(*        partition 0 and nothing from the others).                        *)
(*   Acc(t, .., d)     DECLARATIVE, partition-free: the set of answers (as *)
(*        bags) the property allows for the UNION of the leaf rows.  A     *)
(*        LIMIT over an unordered input pins only the count and that the   *)
(*        answer is a sub-bag; over a sorted input it pins the window up   *)
(*        to ties of the sort key.                                         *)
(*                                                                         *)
(* State machine: pick a tree, pick the rows, pick the split, then drive   *)
(* the declared root partitions ONE AT A TIME IN ANY ORDER (Drive).        *)
(* Invariants: no declared partition is refused (NoError); when all are    *)
(* driven the collected bag is allowed (AnswerAllowed), an ordered root    *)
(* produced its rows in key order (Sorted), no partition of any node was   *)
(* executed twice, and none never unless it sits below a LIMIT that        *)
(* stopped early or was answered by the spilled join's partition 0         *)
(* (ConsumedOnce); the partition one past the declared count is refused    *)
(* (GuardRejects).  Every finished run is emitted for replay on the real   *)
(* operators (harness/src/optree.rs, judged by checks/partcontract.py).    *)
(*                                                                         *)
(* Bounds: tree families of depth <= 3 (Family), rows / partitions / keys  *)
(* / batch cuts per family and tier (Bounds).  Where the unchanged engine  *)
(* breaks the property the model stays ideal and only reports that a run   *)
(* has the listed shape (st.dev, see Dev below).                           *)
(***************************************************************************)
EXTENDS VerifIO, SequencesExt, FiniteSetsExt, Bags

CONSTANTS Families,   \* names of the tree families of this run
          Tier,       \* "quick" | "thorough": selects the bounds of each family (Bounds below)
          MaxKey      \* join / group / sort keys: NULL and KeyLo..MaxKey

\* ---------------------------------------------------------------- trees ----
\* node == [op, a, b, kids];  a, b are the integer parameters of the operator:
\*   limit: a = skip, b = fetch (-1: none)      sort: a = fetch (-1: none)
\*   agg:   a = 1 GROUP BY c1, 0 global          (COUNT(c2), SUM(c2))
\*   join:  a = 0 Inner 1 Left 2 Right 3 Full 4 Semi 5 Anti; b = build_right + 2 * spill   (ON l.c1 = r.c1)
\*   filter: c1 >= 2        project: (c1, c2)
Leaf == [op |-> "leaf", a |-> 0, b |-> 0, kids |-> <<>>]
Un(v, k) == [op |-> v[1], a |-> v[2], b |-> v[3], kids |-> <<k>>]
Bi(v, l, r) == [op |-> v[1], a |-> v[2], b |-> v[3], kids |-> <<l, r>>]

UFull == {<<"filter", 0, 0>>, <<"project", 0, 0>>,
          <<"limit", 0, 0>>, <<"limit", 0, 1>>, <<"limit", 1, 1>>, <<"limit", 0, 2>>, <<"limit", 1, 2>>, <<"limit", 1, -1>>, <<"limit", 2, -1>>,
          <<"sort", -1, 0>>, <<"sort", 1, 0>>, <<"sort", 2, 0>>,
          <<"agg", 1, 0>>, <<"agg", 0, 0>>}
UCore == {<<"filter", 0, 0>>, <<"project", 0, 0>>, <<"limit", 1, 1>>, <<"limit", 0, 2>>, <<"limit", 1, -1>>,
          <<"sort", -1, 0>>, <<"sort", 2, 0>>, <<"agg", 1, 0>>, <<"agg", 0, 0>>}
UPass == {<<"filter", 0, 0>>, <<"project", 0, 0>>}
UQuick == UPass \cup {<<"limit", 0, 2>>, <<"sort", -1, 0>>, <<"agg", 1, 0>>}
BFull == {<<"union", 0, 0>>, <<"join", 0, 0>>, <<"join", 0, 2>>, <<"join", 1, 0>>, <<"join", 1, 1>>, <<"join", 2, 0>>,
          <<"join", 3, 0>>, <<"join", 4, 0>>, <<"join", 4, 1>>, <<"join", 5, 0>>, <<"join", 5, 1>>}
BCore == {<<"union", 0, 0>>, <<"join", 0, 0>>, <<"join", 1, 0>>, <<"join", 1, 1>>, <<"join", 2, 0>>, <<"join", 3, 0>>, <<"join", 4, 0>>, <<"join", 5, 1>>}

BInner == {<<"union", 0, 0>>, <<"join", 0, 0>>, <<"join", 1, 0>>, <<"join", 3, 0>>}

RECURSIVE Width(_)
Width(t) == CASE t.op = "leaf" -> 2
              [] t.op = "project" -> 2
              [] t.op = "agg" -> IF t.a = 1 THEN 3 ELSE 2
              [] t.op = "union" -> Width(t.kids[1])
              [] t.op = "join" -> IF t.a \in {4, 5} THEN Width(t.kids[1]) ELSE Width(t.kids[1]) + Width(t.kids[2])
              [] OTHER -> Width(t.kids[1])
RECURSIVE WellFormed(_)
WellFormed(t) == /\ \A i \in DOMAIN t.kids : WellFormed(t.kids[i])
                 /\ t.op = "union" => Width(t.kids[1]) = Width(t.kids[2])
                 /\ t.op \in {"filter", "project", "sort", "agg", "join", "limit"} => \A i \in DOMAIN t.kids : Width(t.kids[i]) >= 2
RECURSIVE NLeaves(_)
NLeaves(t) == IF t.op = "leaf" THEN 1 ELSE SumSeq([i \in DOMAIN t.kids |-> NLeaves(t.kids[i])])
RECURSIVE Size(_)
Size(t) == 1 + SumSeq([i \in DOMAIN t.kids |-> Size(t.kids[i])])

U1(V) == {Un(v, Leaf) : v \in V}
B1(V) == {Bi(v, Leaf, Leaf) : v \in V}
Family(f) ==
  CASE f \in {"d1u", "d1c"} -> {Leaf} \cup U1(UFull)
    [] f \in {"d1b", "d1p"} -> B1(BFull)
    [] f = "wide" -> U1({<<"agg", 1, 0>>, <<"agg", 0, 0>>, <<"sort", -1, 0>>, <<"limit", 3, -1>>})
    [] f = "big"  -> {Un(<<"agg", 1, 0>>, Leaf), Un(<<"agg", 1, 0>>, Bi(<<"join", 1, 0>>, Leaf, Leaf)),
                      Un(<<"agg", 1, 0>>, Un(<<"project", 0, 0>>, Bi(<<"join", 1, 0>>, Leaf, Leaf))),
                      Un(<<"agg", 1, 0>>, Bi(<<"join", 1, 1>>, Leaf, Leaf)), Un(<<"sort", -1, 0>>, Bi(<<"join", 1, 0>>, Leaf, Leaf))}
    [] f = "uu"  -> {Un(v, k) : v \in (IF Tier = "quick" THEN UQuick ELSE UFull), k \in U1(UFull)}
    [] f = "ub"  -> {Un(v, k) : v \in (IF Tier = "quick" THEN UQuick ELSE UCore), k \in B1(BFull)}
    [] f = "bu"  -> {Bi(v, k, Leaf) : v \in BCore, k \in U1(UCore)} \cup {Bi(v, Leaf, k) : v \in BCore, k \in U1(UCore)}
    [] f = "uuu" -> {Un(v, Un(w, k)) : v \in UCore, w \in UPass, k \in U1(UCore)} \cup {Un(v, Un(w, k)) : v \in UCore, w \in UCore, k \in U1(UPass)}
    [] f = "uub" -> {Un(v, Un(w, k)) : v \in UCore, w \in UPass, k \in B1(BCore)}
    [] f = "ubu" -> {Un(v, Bi(w, k, Leaf)) : v \in UCore, w \in BCore, k \in U1(UPass)} \cup {Un(v, Bi(w, Leaf, k)) : v \in UCore, w \in BCore, k \in U1(UPass)}
    [] f = "bb"  -> {Bi(v, k, Leaf) : v \in BCore, k \in B1(BInner)} \cup {Bi(v, Leaf, k) : v \in BCore, k \in B1(BInner)}
    [] OTHER -> {}
TreesOf(f) == {t \in Family(f) : WellFormed(t)}

\* Bounds of a family: rows per leaf lo..hi, leaf partitions 1..parts, keys NULL and keylo..MaxKey,
\* cuts 0 = one batch per non-empty partition, 1 = that and one-row batches (and an EMPTY batch where a
\* partition has no rows), 2 = every composition into batches
\* "big": FIXED rows instead (leaf 1: big rows with distinct keys, other leaves one row matching nothing), cut
\* points at multiples of step: more groups than the 64 a fused-aggregation worker may hold under a tiny budget
Bd(lo, hi, parts, keylo, cuts) == [lo |-> lo, hi |-> hi, parts |-> parts, keylo |-> keylo, cuts |-> cuts, big |-> 0, step |-> 1]
Bounds(f) ==
  IF f = "big" THEN [lo |-> 0, hi |-> 0, parts |-> 2, keylo |-> 1, cuts |-> 1, big |-> 70, step |-> 35]
  ELSE IF Tier = "quick"
  THEN CASE f = "d1u" -> Bd(0, 2, 3, 1, 1)
         [] f = "d1c" -> Bd(0, 2, 2, 1, 2)
         [] f = "d1b" -> Bd(0, 1, 2, 1, 1)
         [] f = "d1p" -> Bd(0, 1, 3, 2, 0)
         [] f = "wide" -> Bd(5, 5, 2, 2, 1)
         [] f = "uu" -> Bd(0, 1, 2, 1, 1)
         [] f = "ub" -> Bd(0, 1, 2, 2, 0)
         [] OTHER -> Bd(0, 1, 2, 2, 0)
  ELSE CASE f = "d1u" -> Bd(0, 3, 3, 1, 1)
         [] f = "d1c" -> Bd(0, 3, 2, 1, 2)
         [] f = "d1b" -> Bd(0, 2, 2, 1, 1)
         [] f = "d1p" -> Bd(0, 1, 3, 1, 1)
         [] f = "wide" -> Bd(4, 5, 3, 2, 1)
         [] f = "uu" -> Bd(0, 2, 2, 1, 1)
         [] f = "ub" -> Bd(0, 1, 2, 1, 1)
         [] f = "bu" -> Bd(0, 1, 2, 2, 1)
         [] f = "uuu" -> Bd(0, 2, 2, 1, 1)
         [] f = "uub" -> Bd(0, 1, 2, 1, 0)
         [] f = "ubu" -> Bd(0, 1, 2, 1, 0)
         [] OTHER -> Bd(0, 1, 2, 2, 0)

\* ----------------------------------------------------------------- rows ----
KeySet(keylo) == {NULL} \cup (keylo..MaxKey)
Nulls(w) == [i \in 1..w |-> NULL]
Keep(r) == r[1] # NULL /\ r[1] >= 2
Proj(r) == <<r[1], r[2]>>
Match(x, y) == x[1] # NULL /\ y[1] # NULL /\ x[1] = y[1]
KeysOf(rows) == {rows[i][1] : i \in DOMAIN rows}
\* stable sort by c1 ascending, NULLS FIRST (NULL is the least integer)
SortRows(rows) == LET ks == SetToSortSeq(KeysOf(rows), <)
                  IN FlattenSeq([i \in DOMAIN ks |-> SelectSeq(rows, LAMBDA r : r[1] = ks[i])])
IsSortedRows(rows) == \A i \in 1..(Len(rows) - 1) : rows[i][1] <= rows[i + 1][1]
AggRows(rows, grouped) ==
  LET One(sel) == LET vs == SelectSeq(sel, LAMBDA r : r[2] # NULL)
                  IN <<Len(vs), IF Len(vs) = 0 THEN NULL ELSE SumSeq([i \in DOMAIN vs |-> vs[i][2]])>>
  IN IF grouped = 1
     THEN LET ks == SetToSortSeq(KeysOf(rows), <)
          IN [i \in DOMAIN ks |-> <<ks[i]>> \o One(SelectSeq(rows, LAMBDA r : r[1] = ks[i]))]
     ELSE <<One(rows)>>
HasMatch(x, ys) == \E j \in DOMAIN ys : Match(x, ys[j])
\* the join of two row sequences, left-major
JoinRows(L, R, jt, wl, wr) ==
  LET inner == FlattenSeq([i \in DOMAIN L |-> LET m == SelectSeq(R, LAMBDA r : Match(L[i], r)) IN [j \in DOMAIN m |-> L[i] \o m[j]]])
      lun == LET u == SelectSeq(L, LAMBDA l : ~HasMatch(l, R)) IN [i \in DOMAIN u |-> u[i] \o Nulls(wr)]
      run == LET u == SelectSeq(R, LAMBDA r : ~HasMatch(r, L)) IN [i \in DOMAIN u |-> Nulls(wl) \o u[i]]
  IN CASE jt = 0 -> inner
       [] jt = 1 -> inner \o lun
       [] jt = 2 -> inner \o run
       [] jt = 3 -> inner \o lun \o run
       [] jt = 4 -> SelectSeq(L, LAMBDA l : HasMatch(l, R))
       [] OTHER -> SelectSeq(L, LAMBDA l : ~HasMatch(l, R))

\* ------------------------------------------------- declarative semantics ----
BagSeq(B) == LET ds == SetToSeq(DOMAIN B) IN FlattenSeq([i \in DOMAIN ds |-> [j \in 1..B[ds[i]] |-> ds[i]]])
Pick(s, I) == LET idx == SetToSortSeq(I, <) IN [j \in DOMAIN idx |-> s[idx[j]]]
SubBagsOfSize(B, m) == LET s == BagSeq(B) IN {ToBag(Pick(s, I)) : I \in kSubset(m, DOMAIN s)}
\* rows skip+1 .. skip+fetch of SOME order of B that respects the sort key
Window(B, skip, fetch) ==
  LET s == SortRows(BagSeq(B))
      n == Len(s)
      hi == IF fetch < 0 THEN n ELSE Min2(skip + fetch, n)
      W == (skip + 1)..hi
      Grp(k) == {i \in DOMAIN s : s[i][1] = k}
  IN {ToBag(Pick(s, I)) : I \in {J \in kSubset(Cardinality(W), DOMAIN s) :
                                    \A k \in KeysOf(s) : Cardinality(J \cap Grp(k)) = Cardinality(W \cap Grp(k))}}
RECURSIVE Ordered(_)
Ordered(t) == t.op = "sort" \/ (t.op = "limit" /\ Ordered(t.kids[1]))

RECURSIVE Acc(_, _, _)
Acc(t, lb, d) ==
  LET K(i) == t.kids[i]
      A1 == Acc(K(1), lb, d)
      A2 == Acc(K(2), lb + NLeaves(K(1)), d)
  IN CASE t.op = "leaf" -> {ToBag(d[lb + 1])}
       [] t.op = "filter" -> {ToBag(SelectSeq(BagSeq(B), Keep)) : B \in A1}
       [] t.op = "project" -> {LET s == BagSeq(B) IN ToBag([i \in DOMAIN s |-> Proj(s[i])]) : B \in A1}
       [] t.op = "limit" -> UNION {IF Ordered(K(1)) THEN Window(B, t.a, t.b)
                                   ELSE LET n == BagCardinality(B)
                                            m == IF t.b < 0 THEN Max2(n - t.a, 0) ELSE Min2(t.b, Max2(n - t.a, 0))
                                        IN SubBagsOfSize(B, m) : B \in A1}
       [] t.op = "sort" -> IF t.a < 0 THEN A1 ELSE UNION {Window(B, 0, t.a) : B \in A1}
       [] t.op = "agg" -> {ToBag(AggRows(BagSeq(B), t.a)) : B \in A1}
       [] t.op = "union" -> {X (+) Y : X \in A1, Y \in A2}
       [] OTHER -> {ToBag(JoinRows(BagSeq(X), BagSeq(Y), t.a, Width(K(1)), Width(K(2)))) : X \in A1, Y \in A2}

\* -------------------------------------------------- operational semantics ----
\* sp[i] = the partitions of leaf i, each a sequence of batches, each a sequence of rows
ProbeIdx(t) == IF t.b % 2 = 1 \/ t.a = 2 THEN 1 ELSE 2
KidNid(t, nid, i) == IF i = 1 THEN nid + 1 ELSE nid + 1 + Size(t.kids[1])
KidLb(t, lb, i) == IF i = 1 THEN lb ELSE lb + NLeaves(t.kids[1])
RECURSIVE OutParts(_, _, _)
OutParts(t, lb, sp) ==
  CASE t.op = "leaf" -> Len(sp[lb + 1])
    [] t.op \in {"filter", "project"} -> OutParts(t.kids[1], lb, sp)
    [] t.op = "join" -> IF t.a \in {4, 5} THEN 1
                        ELSE LET pi == ProbeIdx(t) IN Max2(1, OutParts(t.kids[pi], KidLb(t, lb, pi), sp))
    [] OTHER -> 1

NoJoin == [built |-> 0, brows |-> <<>>, bnb |-> 0, spilled |-> 0, done |-> 0, matched |-> {}]
St0(t) == [uses |-> EmptyBag, js |-> [n \in 1..Size(t) |-> NoJoin], dev |-> {}]
\* Shapes on which the unchanged engine is known to break the property (known_findings.jsonl); the model stays
\* ideal, it only REPORTS that a run has the shape (st.dev) so that the check can classify exactly these:
\*   "jz"  a join that keeps unmatched PROBE rows (Left with build_right, Full) probes a partition that has rows
\*         while its build side has no rows: the engine fails when the build side delivered no BATCH at all
\*         and answers when it delivered an empty one                         (C07/outer-join-build-without-batches)
\*   "sn"  a sort input with NULL and non-NULL keys: under a memory budget the k-way merge of the spilled runs
\*         (one per input batch) orders NULLs last                            (C07/spilled-sort-merge-nulls-last)
\* (the shapes deliberately do not depend on how the MODEL cuts operator outputs into batches)
\*   "rx"  a grouped aggregate of more than 64 groups over a subtree with a join that must emit unmatched BUILD rows:
\*         under a tiny budget the fused streaming attempt gives up and the input is executed a SECOND time
\*                                                                            (C07/aggregate-fallback-reexecutes-join)
Dev(st, d, cond) == IF cond THEN [st EXCEPT !.dev = @ \cup {d}] ELSE st
RECURSIVE TracksBuild(_)
TracksBuild(t) == \/ t.op = "join" /\ (t.a \in {2, 3} \/ (t.a = 1 /\ t.b % 2 = 0))
                  \/ \E i \in DOMAIN t.kids : TracksBuild(t.kids[i])
OkR(bs, st) == [err |-> 0, bs |-> bs, st |-> st]
ErrR(st) == [err |-> 1, bs |-> <<>>, st |-> st]
Flat(bs) == FlattenSeq(bs)
NonEmpty(bs) == Len(SelectSeq(bs, LAMBDA b : Len(b) > 0))

\* LimitState::take_from on one batch
TakeFrom(batch, skip, fetch, sk, fe) ==
  LET n == Len(batch)
      toskip == IF sk < skip THEN Min2(skip - sk, n) ELSE 0
      gone == sk < skip /\ toskip = n
      avail == n - toskip
      emit == IF gone THEN 0 ELSE IF fetch < 0 THEN avail ELSE Min2(Max2(fetch - fe, 0), avail)
  IN [out |-> SubSeq(batch, toskip + 1, toskip + emit), sk |-> sk + toskip, fe |-> fe + emit]
RECURSIVE LimPart(_, _, _, _, _, _)
LimPart(bs, i, skip, fetch, sk, fe) ==
  IF i > Len(bs) \/ (fetch >= 0 /\ fe >= fetch) THEN [out |-> <<>>, sk |-> sk, fe |-> fe]
  ELSE LET r == TakeFrom(bs[i], skip, fetch, sk, fe)
           r2 == LimPart(bs, i + 1, skip, fetch, r.sk, r.fe)
       IN [out |-> (IF r.out = <<>> THEN <<>> ELSE <<r.out>>) \o r2.out, sk |-> r2.sk, fe |-> r2.fe]

RECURSIVE Ex(_, _, _, _, _, _), Drain(_, _, _, _, _, _, _), LimWalk(_, _, _, _, _, _, _, _, _, _)
\* partitions p .. n-1 of t, streams concatenated in partition order
Drain(t, nid, lb, sp, p, n, st) ==
  IF p >= n THEN OkR(<<>>, st)
  ELSE LET r == Ex(t, nid, lb, sp, p, st)
       IN IF r.err = 1 THEN r
          ELSE LET r2 == Drain(t, nid, lb, sp, p + 1, n, r.st)
               IN IF r2.err = 1 THEN r2 ELSE OkR(r.bs \o r2.bs, r2.st)
DrainAll(t, nid, lb, sp, st) == Drain(t, nid, lb, sp, 0, Max2(1, OutParts(t, lb, sp)), st)
\* LimitExec: open input partition q only when the previous one is exhausted and the limit is not yet satisfied
LimWalk(t, nid, lb, sp, q, n, sk, fe, lim, st) ==
  IF q >= n \/ (lim.b >= 0 /\ fe >= lim.b) THEN OkR(<<>>, st)
  ELSE LET r == Ex(t, nid, lb, sp, q, st)
       IN IF r.err = 1 THEN r
          ELSE LET lp == LimPart(r.bs, 1, lim.a, lim.b, sk, fe)
                   r2 == LimWalk(t, nid, lb, sp, q + 1, n, lp.sk, lp.fe, lim, r.st)
               IN IF r2.err = 1 THEN r2 ELSE OkR(lp.out \o r2.bs, r2.st)

Ex(t, nid, lb, sp, p, st0) ==
  IF p >= OutParts(t, lb, sp) THEN ErrR(st0)                       \* check_partition
  ELSE
  LET st == [st0 EXCEPT !.uses = @ (+) SetToBag({<<nid, p>>})]
      K(i) == t.kids[i]
      KN(i) == KidNid(t, nid, i)
      KL(i) == KidLb(t, lb, i)
  IN CASE t.op = "leaf" -> OkR(sp[lb + 1][p + 1], st)
       [] t.op = "filter" -> LET r == Ex(K(1), KN(1), KL(1), sp, p, st)
                             IN IF r.err = 1 THEN r ELSE OkR([i \in DOMAIN r.bs |-> SelectSeq(r.bs[i], Keep)], r.st)
       [] t.op = "project" -> LET r == Ex(K(1), KN(1), KL(1), sp, p, st)
                              IN IF r.err = 1 THEN r ELSE OkR([i \in DOMAIN r.bs |-> [j \in DOMAIN r.bs[i] |-> Proj(r.bs[i][j])]], r.st)
       [] t.op = "limit" -> LimWalk(K(1), KN(1), KL(1), sp, 0, Max2(1, OutParts(K(1), KL(1), sp)), 0, 0, t, st)
       [] t.op = "sort" -> LET r == DrainAll(K(1), KN(1), KL(1), sp, st)
                           IN IF r.err = 1 THEN r
                              ELSE IF Len(r.bs) = 0 THEN OkR(<<>>, r.st)
                              ELSE LET s == SortRows(Flat(r.bs))
                                       ks == KeysOf(s)
                                   IN OkR(<<IF t.a < 0 THEN s ELSE SubSeq(s, 1, Min2(t.a, Len(s)))>>,
                                          Dev(r.st, "sn", NULL \in ks /\ ks # {NULL}))
       [] t.op = "agg" -> LET r == DrainAll(K(1), KN(1), KL(1), sp, st)
                              rows == Flat(r.bs)
                          IN IF r.err = 1 THEN r
                             ELSE OkR(<<AggRows(rows, t.a)>>, Dev(r.st, "rx", t.a = 1 /\ Cardinality(KeysOf(rows)) > 64 /\ TracksBuild(K(1))))
       [] t.op = "union" -> LET r1 == DrainAll(K(1), KN(1), KL(1), sp, st)
                            IN IF r1.err = 1 THEN r1
                               ELSE LET r2 == DrainAll(K(2), KN(2), KL(2), sp, r1.st)
                                    IN IF r2.err = 1 THEN r2 ELSE OkR(r1.bs \o r2.bs, r2.st)
       [] OTHER ->     \* join
          LET pi == ProbeIdx(t)
              bi == 3 - pi
              \* the build side is drained whole, once, by whichever execution comes first (OnceCell)
              rb == IF st.js[nid].built = 1 THEN OkR(<<>>, st) ELSE DrainAll(K(bi), KN(bi), KL(bi), sp, st)
              st1 == IF st.js[nid].built = 1 THEN st
                     ELSE [rb.st EXCEPT !.js[nid].built = 1, !.js[nid].brows = Flat(rb.bs), !.js[nid].bnb = Len(rb.bs),
                                        \* SpillableHashJoinExec with a budget of one batch: spills iff two batches carry rows
                                        !.js[nid].spilled = IF t.b \div 2 = 1 /\ NonEmpty(rb.bs) >= 2 THEN 1 ELSE 0]
              brows == st1.js[nid].brows
              Pair(b, q) == IF bi = 1 THEN b \o q ELSE q \o b
              wb == Width(K(bi))
              PadProbe(q) == IF bi = 1 THEN Nulls(wb) \o q ELSE q \o Nulls(wb)
              PadBuild(b) == IF bi = 1 THEN b \o Nulls(Width(K(pi))) ELSE Nulls(Width(K(pi))) \o b
              probeKept == t.a = 3 \/ (t.a = 1 /\ pi = 1) \/ (t.a = 2 /\ pi = 2)
              buildKept == t.a = 3 \/ (t.a = 1 /\ bi = 1) \/ (t.a = 2 /\ bi = 2)
              Probe(prows) == FlattenSeq([i \in DOMAIN prows |->
                                 LET m == SelectSeq(brows, LAMBDA b : Match(b, prows[i]))
                                 IN IF Len(m) = 0 THEN (IF probeKept THEN <<PadProbe(prows[i])>> ELSE <<>>)
                                    ELSE [j \in DOMAIN m |-> Pair(m[j], prows[i])]])
          IN IF rb.err = 1 THEN rb
             ELSE IF t.a \in {4, 5} THEN
                  LET rp == DrainAll(K(pi), KN(pi), KL(pi), sp, st1)
                      prows == Flat(rp.bs)
                      left == IF bi = 1 THEN brows ELSE prows
                      right == IF bi = 1 THEN prows ELSE brows
                  IN IF rp.err = 1 THEN rp
                     ELSE OkR(<<SelectSeq(left, LAMBDA l : IF t.a = 4 THEN HasMatch(l, right) ELSE ~HasMatch(l, right))>>, rp.st)
             ELSE IF st1.js[nid].spilled = 1 THEN
                  IF p > 0 THEN OkR(<<>>, st1)
                  ELSE LET rp == DrainAll(K(pi), KN(pi), KL(pi), sp, st1)
                       IN IF rp.err = 1 THEN rp ELSE OkR(<<Probe(Flat(rp.bs))>>, rp.st)
             ELSE LET rp == Ex(K(pi), KN(pi), KL(pi), sp, p, st1)
                      prows == Flat(rp.bs)
                      hit == {i \in DOMAIN brows : HasMatch(brows[i], prows)}
                      done == rp.st.js[nid].done + 1
                      matched == rp.st.js[nid].matched \cup hit
                      \* "the last probe partition to finish scans the shared matched bits"
                      tail == IF buildKept /\ done = OutParts(t, lb, sp)
                              THEN LET u == SelectSeq([i \in DOMAIN brows |-> <<i, brows[i]>>], LAMBDA x : x[1] \notin matched)
                                   IN [i \in DOMAIN u |-> PadBuild(u[i][2])]
                              ELSE <<>>
                  IN IF rp.err = 1 THEN rp
                     ELSE OkR(<<Probe(prows)>> \o (IF tail = <<>> THEN <<>> ELSE <<tail>>),
                              Dev([rp.st EXCEPT !.js[nid].done = done, !.js[nid].matched = matched],
                                  "jz", probeKept /\ Len(brows) = 0 /\ Len(prows) > 0))

\* ------------------------------------------------------ rows and splits ----
RowsOf(leaf, ks) == [j \in DOMAIN ks |-> <<ks[j], 10 * leaf + j>>]
DataSets(nl, bd) == IF bd.big > 0
                     THEN {[i \in 1..nl |-> IF i = 1 THEN [j \in 1..bd.big |-> <<j, 1000 + j>>] ELSE <<<<bd.big + 100 + i, 2000 + i>>>>]}
                     ELSE LET KS == SeqsOf(KeySet(bd.keylo), bd.lo, bd.hi)
                          IN {[i \in 1..nl |-> RowsOf(i, f[i])] : f \in [1..nl -> KS]}
RECURSIVE Chunks(_, _, _)  \* all cuts of a sequence into P contiguous, possibly empty, chunks (cut points: multiples of step, and the end)
Chunks(rows, P, step) ==
  IF P = 1 THEN {<<rows>>}
  ELSE UNION {{<<SubSeq(rows, 1, k)>> \o rest : rest \in Chunks(SubSeq(rows, k + 1, Len(rows)), P - 1, step)} :
                 k \in {x \in 0..Len(rows) : x % step = 0 \/ x = Len(rows)}}
RECURSIVE Compositions(_)  \* all cuts of a non-empty sequence into non-empty batches
Compositions(b) == IF b = <<>> THEN {<<>>}
                   ELSE UNION {{<<SubSeq(b, 1, k)>> \o rest : rest \in Compositions(SubSeq(b, k + 1, Len(b)))} : k \in 1..Len(b)}
Coarse(c) == IF c = <<>> THEN <<>> ELSE <<c>>                       \* one batch; no batch at all for no rows
Fine(c) == IF c = <<>> THEN << <<>> >> ELSE [j \in DOMAIN c |-> <<c[j]>>]  \* one row per batch; one EMPTY batch for no rows
BatchOpts(c) == IF c = <<>> THEN {<<>>, << <<>> >>} ELSE Compositions(c) \cup {<< <<>> >> \o Coarse(c)}
RECURSIVE AllBatchings(_)
AllBatchings(ch) == IF ch = <<>> THEN {<<>>} ELSE {<<b>> \o rest : b \in BatchOpts(Head(ch)), rest \in AllBatchings(Tail(ch))}
LeafSplits(rows, maxp, cuts, step) ==
  UNION {UNION {CASE cuts = 2 -> AllBatchings(ch)
                  [] cuts = 1 -> {[q \in DOMAIN ch |-> Coarse(ch[q])], [q \in DOMAIN ch |-> Fine(ch[q])]}
                  [] OTHER -> {[q \in DOMAIN ch |-> Coarse(ch[q])]} : ch \in Chunks(rows, P, step)} : P \in 1..maxp}
SplitSets(d, maxp, cuts, step) ==
  LET LS(i) == LeafSplits(d[i], maxp, cuts, step)
      nl == Len(d)
  IN CASE nl = 1 -> {<<a>> : a \in LS(1)}
       [] nl = 2 -> {<<a, b>> : a \in LS(1), b \in LS(2)}
       [] nl = 3 -> {<<a, b, c>> : a \in LS(1), b \in LS(2), c \in LS(3)}
       [] OTHER -> {<<a, b, c, e>> : a \in LS(1), b \in LS(2), c \in LS(3), e \in LS(4)}

\* --------------------------------------------------------- state machine ----
VARIABLES fam, tree, data, split, acc, pend, out, st, pc, bad, sorted
vars == <<fam, tree, data, split, acc, pend, out, st, pc, bad, sorted>>

Init == /\ \E f \in Families : fam = f /\ tree \in TreesOf(f)
        /\ data = <<>> /\ split = <<>> /\ acc = {} /\ pend = {} /\ out = EmptyBag
        /\ st = [uses |-> EmptyBag, js |-> <<>>, dev |-> {}] /\ pc = "data" /\ bad = FALSE /\ sorted = TRUE

LoadData == /\ pc = "data"
            /\ \E d \in DataSets(NLeaves(tree), Bounds(fam)) :
                 /\ data' = d
                 /\ acc' = Acc(tree, 0, d)
            /\ pc' = "split"
            /\ UNCHANGED <<fam, tree, split, pend, out, st, bad, sorted>>

LoadSplit == /\ pc = "split"
             /\ \E s \in SplitSets(data, Bounds(fam).parts, Bounds(fam).cuts, Bounds(fam).step) :
                  /\ split' = s
                  /\ pend' = 0..(OutParts(tree, 0, s) - 1)
             /\ st' = St0(tree)
             /\ pc' = "run"
             /\ UNCHANGED <<fam, tree, data, acc, out, bad, sorted>>

\* one declared root partition is executed and its stream collected; any order
Drive == /\ pc = "run"
         /\ \E p \in pend :
              LET r == Ex(tree, 1, 0, split, p, st)
                  rows == Flat(r.bs)
              IN /\ out' = out (+) ToBag(rows)
                 /\ st' = r.st
                 /\ bad' = (bad \/ r.err = 1)
                 /\ sorted' = (sorted /\ (Ordered(tree) => IsSortedRows(rows)))
                 /\ pend' = pend \ {p}
                 /\ pc' = IF pend = {p} THEN "done" ELSE "run"
         /\ UNCHANGED <<fam, tree, data, split, acc>>

Next == LoadData \/ LoadSplit \/ Drive

\* ------------------------------------------------------------ invariants ----
NoError == ~bad                                  \* every declared partition can be executed
AnswerAllowed == pc = "done" => out \in acc      \* the bag is the operator's function of the union of its inputs
Sorted == sorted                                 \* ... and a sequence where ORDER BY fixes it
GuardRejects == pc = "done" => Ex(tree, 1, 0, split, OutParts(tree, 0, split), st).err = 1

\* nodes (pre-order ids) with their leaf base, and whether an ancestor may legitimately leave partitions unopened
RECURSIVE Nodes(_, _, _, _)
Nodes(t, nid, lb, lazy) ==
  {[t |-> t, nid |-> nid, lb |-> lb, lazy |-> lazy]}
  \cup UNION {Nodes(t.kids[i], KidNid(t, nid, i), KidLb(t, lb, i),
                    lazy \/ (t.op = "limit" /\ t.b >= 0)) : i \in DOMAIN t.kids}
Used(n, p) == IF <<n, p>> \in DOMAIN st.uses THEN st.uses[<<n, p>>] ELSE 0
ConsumedOnce ==
  pc = "done" =>
    \A x \in Nodes(tree, 1, 0, FALSE) :
      \A p \in 0..(OutParts(x.t, x.lb, split) - 1) :
        /\ Used(x.nid, p) <= 1
        /\ (~x.lazy) => Used(x.nid, p) = 1

\* ---------------------------------------------------------------- emission ----
RECURSIVE Emb(_, _)
Emb(t, lb) == IF t.op = "leaf" THEN [op |-> "leaf", parts |-> split[lb + 1]]
              ELSE [op |-> t.op, a |-> t.a, b |-> t.b, kids |-> [i \in DOMAIN t.kids |-> Emb(t.kids[i], KidLb(t, lb, i))]]
LeafUses == LET ls == SetToSortSeq({x \in Nodes(tree, 1, 0, FALSE) : x.t.op = "leaf"}, LAMBDA x, y : x.lb < y.lb)
            IN [i \in DOMAIN ls |-> [p \in 1..Len(split[i]) |-> Used(ls[i].nid, p - 1)]]
Emit == pc = "done" =>
          EmitCase([fam |-> fam, t |-> Emb(tree, 0),
                    acc |-> LET s == SetToSeq(acc) IN [i \in DOMAIN s |-> BagSeq(s[i])],
                    ord |-> IF Ordered(tree) THEN 1 ELSE 0,
                    np |-> OutParts(tree, 0, split),
                    mo |-> BagSeq(out),
                    lu |-> LeafUses,
                    dev |-> SetToSeq(st.dev)])
====
