CONSTANTS MIN = 4
          MAX = 64
          SPN = 2
          MaxFiles = 2
          MaxRgs = 2
          MaxRows = 2
          ByteVals = {1}
          Ns = {1, 3}
          MaxEx = 1
          InPlace = FALSE
          IdxAll = TRUE
          Memo = FALSE
          EmitShapes = FALSE
INIT Init
NEXT Next
INVARIANT Safety
INVARIANT SameRows
INVARIANT NothingBeforeTheGate
INVARIANT Complete
INVARIANT HistLen
INVARIANT Emit
CHECK_DEADLOCK FALSE
