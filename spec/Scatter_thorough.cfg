CONSTANTS
  MaxN = 4
  GatherMaxN = 0
  Shapes = {"scatter"}
  MaxFaults = 5
  Batches = 2
  Mutants = {"none"}
  MutMaxN = 4
  MutShapes = {"scatter", "gather"}
INIT Init
NEXT Next
INVARIANT TypeOK
INVARIANT NoPartial
INVARIANT AnyFault
INVARIANT Contract
INVARIANT FaultFreeAnswers
INVARIANT NothingBeforeAll
INVARIANT BlameIsGuilty
INVARIANT Emit
CHECK_DEADLOCK TRUE
