CONSTANTS Tier = "quick"
 Data = "pairs"
 Mutant = "none"
 Space = "sound"
 Mode = "check"
INIT Init
NEXT Next
INVARIANT Sound
INVARIANT Runs
CHECK_DEADLOCK FALSE
