CONSTANTS B = 4
          Tier = "laws"
          Mut = "wrap_narrow"
INIT Init
NEXT Next
INVARIANT Functional
INVARIANT SubtreesTyped
INVARIANT BranchOrder
INVARIANT BranchesWiden
INVARIANT AltsTotal
INVARIANT UnifyComm
INVARIANT UnifyAssoc
INVARIANT UnifyIdem
INVARIANT UnifyUpper
INVARIANT CoerceMonotone
INVARIANT CoercePreserves
INVARIANT CmpIsMath
INVARIANT CastKeepsOrNull
INVARIANT CastTotalWhenFits
CHECK_DEADLOCK FALSE
